// C11 implementation driver: runs op scripts against ompl::BinaryHeap from /repo's working tree
// and prints one observation line per operation (same format as extract/heap_driver.ml).
#include "ompl/datastructures/BinaryHeap.h"
#include <cstdio>
#include <iostream>
#include <map>
#include <sstream>
#include <string>
#include <vector>

struct D { int key; int id; };
struct Cmp
{
    int mode = 0;
    static int m3(int a) { int r = a % 3; return r < 0 ? r + 3 : r; }
    bool operator()(const D &a, const D &b) const
    {
        if (mode == 0) return a.key < b.key;
        if (mode == 1) return b.key < a.key;
        return m3(a.key) < m3(b.key);
    }
};
using Heap = ompl::BinaryHeap<D, Cmp>;

static void show(Heap &h)
{
    std::vector<D> c;
    h.getContent(c);
    std::printf("%u ", h.size());
    if (h.top()) std::printf("%d", h.top()->data.id); else std::printf("-");
    std::printf(" |");
    for (auto &d : c) std::printf(" %d:%d", d.id, d.key);
    std::printf("\n");
}

int main()
{
    Heap *h = new Heap();
    std::map<int, Heap::Element *> handle;
    std::string line;
    while (std::getline(std::cin, line))
    {
        std::istringstream in(line);
        std::string op;
        if (!(in >> op)) continue;
        if (op == "N")
        {
            int c; in >> c;
            delete h; Cmp cmp; cmp.mode = c; h = new Heap(cmp); handle.clear();
            std::printf("# new %d\n", c);
        }
        else if (op == "I") { int id, k; in >> id >> k; handle[id] = h->insert(D{k, id}); show(*h); }
        else if (op == "L")
        {
            int n; in >> n; std::vector<D> l; std::vector<int> ids;
            for (int i = 0; i < n; ++i) { int id, k; in >> id >> k; l.push_back(D{k, id}); }
            // insert(vector) hands back no handles: recover them through the after-insert event
            h->onAfterInsert([](Heap::Element *e, void *arg) { (*static_cast<std::map<int, Heap::Element *> *>(arg))[e->data.id] = e; }, &handle);
            h->insert(l);
            h->onAfterInsert(nullptr, nullptr);
            show(*h);
        }
        else if (op == "R") { int id; in >> id; h->remove(handle.at(id)); handle.erase(id); show(*h); }
        else if (op == "U") { int id, k; in >> id >> k; handle.at(id)->data.key = k; h->update(handle.at(id)); show(*h); }
        else if (op == "P") { int id = h->top()->data.id; h->pop(); handle.erase(id); show(*h); }
        else if (op == "B") { h->rebuild(); show(*h); }
        else if (op == "F")
        {
            int n; in >> n; std::vector<D> l;
            for (int i = 0; i < n; ++i) { int id, k; in >> id >> k; l.push_back(D{k, id}); }
            handle.clear();
            h->buildFrom(l);
            // buildFrom gives no handles and fires no event; later R/U on these ids are not generated
            show(*h);
        }
        else if (op == "C") { h->clear(); handle.clear(); show(*h); }
        else if (op == "S")
        {
            int n; in >> n; std::vector<D> l;
            for (int i = 0; i < n; ++i) { int k; in >> k; l.push_back(D{k, i}); }
            h->sort(l);
            std::printf("sorted");
            for (auto &d : l) std::printf(" %d", d.key);
            std::printf("\n");
        }
        else if (op == "E")
        {
            std::printf("popall");
            while (!h->empty()) { std::printf(" %d:%d", h->top()->data.id, h->top()->data.key); h->pop(); }
            std::printf("\n");
            handle.clear();
        }
        else std::printf("? %s\n", line.c_str());
        std::fflush(stdout);
    }
    delete h;
    return 0;
}
