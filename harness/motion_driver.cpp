// C05 implementation driver: motion checks of /repo with a harness-owned validity predicate.
// One case per input line:
//   M <space> <resolution> <factor> <form> <vend> <mask> <n> s1... s2...
//      space: 0 R^1, 1 R^2, 2 SO2, 3 SE2, 4 compound(R^2 x SO2 w 0.5), 5 Dubins, 6 ReedsShepp, 7 SO3, 8 Owen(3D Dubins)
//      form : 0 = checkMotion(s1,s2)   1 = checkMotion(s1,s2,lastValid)
//      mask : string of 0/1, mask[j] = validity of interpolate(s1,s2,j/nd)
//   output: nd verdict | visits | fracbits-or-untouched lvstate dvalid dinvalid
//   L <count> <form> <mask>   SpaceInformation::checkMotion(states,count[,firstInvalid]) on count states of R^1
//   output: verdict | visits | firstInvalid-or--
#include <ompl/base/SpaceInformation.h>
#include <ompl/base/DiscreteMotionValidator.h>
#include <ompl/base/spaces/RealVectorStateSpace.h>
#include <ompl/base/spaces/SO2StateSpace.h>
#include <ompl/base/spaces/SO3StateSpace.h>
#include <ompl/base/spaces/SE2StateSpace.h>
#include <ompl/base/spaces/DubinsStateSpace.h>
#include <ompl/base/spaces/ReedsSheppStateSpace.h>
#include <ompl/base/spaces/OwenStateSpace.h>
#include <ompl/base/spaces/Dubins3DMotionValidator.h>
#include <ompl/util/Console.h>
#include <cstdio>
#include <cstring>
#include <iostream>
#include <sstream>
namespace ob = ompl::base;

struct Oracle : ob::StateValidityChecker
{
    Oracle(const ob::SpaceInformationPtr &si) : ob::StateValidityChecker(si) {}
    mutable std::vector<std::string> log;
    std::vector<std::vector<double>> pts;   // pts[j] = reals of interpolate(s1,s2,j/nd), 1<=j<nd
    const ob::State *end = nullptr;
    std::string mask; bool vend = true;
    bool isValid(const ob::State *s) const override
    {
        if (s == end) { log.push_back("E"); return vend; }
        std::vector<double> r; si_->getStateSpace()->copyToReals(r, s);
        for (std::size_t j = 1; j < pts.size(); ++j)
            if (pts[j].size() == r.size() && std::memcmp(pts[j].data(), r.data(), r.size() * sizeof(double)) == 0)
            { log.push_back(std::to_string(j)); return j < mask.size() ? mask[j] == '1' : true; }
        log.push_back("X");
        return true;
    }
};

static ob::StateSpacePtr mkspace(int id)
{
    ob::RealVectorBounds b1(1), b2(2), b3(3); b1.setLow(-10); b1.setHigh(10); b2.setLow(-10); b2.setHigh(10); b3.setLow(-10); b3.setHigh(10);
    switch (id)
    {
    case 0: { auto s = std::make_shared<ob::RealVectorStateSpace>(1); s->setBounds(b1); return s; }
    case 1: { auto s = std::make_shared<ob::RealVectorStateSpace>(2); s->setBounds(b2); return s; }
    case 2: return std::make_shared<ob::SO2StateSpace>();
    case 3: { auto s = std::make_shared<ob::SE2StateSpace>(); s->setBounds(b2); return s; }
    case 4: { auto r = std::make_shared<ob::RealVectorStateSpace>(2); r->setBounds(b2);
              auto c = std::make_shared<ob::CompoundStateSpace>(); c->addSubspace(r, 1.0); c->addSubspace(std::make_shared<ob::SO2StateSpace>(), 0.5); c->lock(); return c; }
    case 5: { auto s = std::make_shared<ob::DubinsStateSpace>(1.0); s->setBounds(b2); return s; }
    case 6: { auto s = std::make_shared<ob::ReedsSheppStateSpace>(1.0); s->setBounds(b2); return s; }
    case 7: return std::make_shared<ob::SO3StateSpace>();
    default: { auto s = std::make_shared<ob::OwenStateSpace>(1.0, 0.5); s->setBounds(b3); return s; }
    }
}

int main()
{
    ompl::msg::setLogLevel(ompl::msg::LOG_NONE);
    std::string line;
    while (std::getline(std::cin, line))
    {
        std::istringstream in(line);
        std::string op; if (!(in >> op)) continue;
        if (op == "M")
        {
            int sp, factor, form, vend, n; double res; std::string mask;
            in >> sp >> res >> factor >> form >> vend >> mask >> n;
            std::vector<double> a(n), b(n);
            for (auto &x : a) in >> x;
            for (auto &x : b) in >> x;
            auto space = mkspace(sp);
            space->setLongestValidSegmentFraction(res);
            space->setValidSegmentCountFactor(factor);
            auto si = std::make_shared<ob::SpaceInformation>(space);
            auto orc = std::make_shared<Oracle>(si);
            si->setStateValidityChecker(orc);
            if (sp == 5) si->setMotionValidator(std::make_shared<ob::DubinsMotionValidator>(si));
            if (sp == 6) si->setMotionValidator(std::make_shared<ob::ReedsSheppMotionValidator>(si));
            if (sp == 8) si->setMotionValidator(std::make_shared<ob::Dubins3DMotionValidator<ob::OwenStateSpace>>(si));
            si->setup();
            ob::State *s1 = si->allocState(), *s2 = si->allocState(), *tmp = si->allocState(), *lv = si->allocState(), *lv0 = si->allocState();
            space->copyFromReals(s1, a); space->copyFromReals(s2, b);
            if (sp == 7) { space->enforceBounds(s1); space->enforceBounds(s2); }
            int nd = (int)space->validSegmentCount(s1, s2);
            bool nopath = (sp == 8) && !space->as<ob::OwenStateSpace>()->getPath(s1, s2);
            orc->pts.assign(nd > 1 ? nd : 1, {});
            for (int j = 1; j < nd; ++j) { space->interpolate(s1, s2, (double)j / (double)nd, tmp); space->copyToReals(orc->pts[j], tmp); }
            orc->end = s2; orc->mask = mask; orc->vend = vend != 0;
            unsigned v0 = si->getMotionValidator()->getValidMotionCount(), i0 = si->getMotionValidator()->getInvalidMotionCount();
            bool verdict; std::string fr = "untouched", lvs = "untouched";
            if (form == 0) verdict = si->checkMotion(s1, s2);
            else
            {
                const double sentinel = 7.25;
                space->copyState(lv, s1); space->copyState(lv0, s1);
                std::pair<ob::State *, double> last(lv, sentinel);
                verdict = si->checkMotion(s1, s2, last);
                std::vector<double> r1, r0; space->copyToReals(r1, lv); space->copyToReals(r0, lv0);
                bool same = r1.size() == r0.size() && std::memcmp(r1.data(), r0.data(), r1.size() * sizeof(double)) == 0;
                if (last.second != sentinel || !same)
                {
                    unsigned long long bits; std::memcpy(&bits, &last.second, 8);
                    char buf[32]; std::snprintf(buf, sizeof buf, "%016llx", bits); fr = buf;
                    std::vector<double> rr; space->interpolate(s1, s2, last.second, tmp); space->copyToReals(rr, tmp);
                    lvs = (rr.size() == r1.size() && std::memcmp(rr.data(), r1.data(), rr.size() * sizeof(double)) == 0) ? "ok" : "bad";
                }
            }
            unsigned dv = si->getMotionValidator()->getValidMotionCount() - v0, di = si->getMotionValidator()->getInvalidMotionCount() - i0;
            std::printf("%d %d |", nd, verdict ? 1 : 0);
            for (auto &s : orc->log) std::printf(" %s", s.c_str());
            std::printf(" | %s %s %u %u%s", fr.c_str(), lvs.c_str(), dv, di, nopath ? " nopath" : "");
            // the facts behind the segment count: (distance, longest valid segment) of the space, or of each component of a compound
            auto hx = [](double d) { unsigned long long b; std::memcpy(&b, &d, 8); std::printf(" %016llx", b); };
            std::printf(" | SEG");
            if (space->isCompound() && sp != 5 && sp != 6 && sp != 8)     // the Dubins family counts on its own curve length
            {
                auto *cs = space->as<ob::CompoundStateSpace>();
                for (unsigned i = 0; i < cs->getSubspaceCount(); ++i)
                { hx(cs->getSubspace(i)->distance(s1->as<ob::CompoundState>()->components[i], s2->as<ob::CompoundState>()->components[i])); hx(cs->getSubspace(i)->getLongestValidSegmentLength()); std::printf(" %u", cs->getSubspace(i)->getValidSegmentCountFactor()); }
            }
            else { hx(space->distance(s1, s2)); hx(space->getLongestValidSegmentLength()); std::printf(" %u", space->getValidSegmentCountFactor()); }
            std::printf("\n");
            si->freeState(s1); si->freeState(s2); si->freeState(tmp); si->freeState(lv); si->freeState(lv0);
        }
        else if (op == "L")
        {
            int count, form; std::string mask; in >> count >> form >> mask;
            auto space = mkspace(0);
            auto si = std::make_shared<ob::SpaceInformation>(space);
            struct V : ob::StateValidityChecker
            {
                V(const ob::SpaceInformationPtr &si) : ob::StateValidityChecker(si) {}
                std::string mask; mutable std::vector<int> log;
                bool isValid(const ob::State *s) const override
                { int i = (int)s->as<ob::RealVectorStateSpace::StateType>()->values[0]; log.push_back(i); return i < (int)mask.size() ? mask[i] == '1' : true; }
            };
            auto v = std::make_shared<V>(si); v->mask = mask; si->setStateValidityChecker(v); si->setup();
            std::vector<ob::State *> st;
            for (int i = 0; i < count + 2; ++i) { st.push_back(si->allocState()); st.back()->as<ob::RealVectorStateSpace::StateType>()->values[0] = i; }
            unsigned first = 4242; bool verdict;
            if (form == 0) verdict = si->checkMotion(st, count); else verdict = si->checkMotion(st, count, first);
            std::printf("%d |", verdict ? 1 : 0);
            for (int i : v->log) std::printf(" %d", i);
            if (first == 4242) std::printf(" | -\n"); else std::printf(" | %u\n", first);
            for (auto s : st) si->freeState(s);
        }
        std::fflush(stdout);
    }
    return 0;
}
