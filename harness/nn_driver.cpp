// C10 implementation driver: the four nearest-neighbour structures of /repo on 2-D integer points with the L1 metric.
//   NEW deg minDeg maxDeg leaf cache reb      (re)create GNAT, GNATNoThreadSafety (with these parameters), Linear, SqrtApprox
//   A x y | AL n x y ... | R x y | C | N x y | K k x y | RAD r x y | LST | SZ | DUMP
// every line answers with four sections  gnat # gnat-nts # linear # sqrt
#include "ompl/datastructures/NearestNeighborsGNAT.h"
#include "ompl/datastructures/NearestNeighborsGNATNoThreadSafety.h"
#include "ompl/datastructures/NearestNeighborsLinear.h"
#include "ompl/datastructures/NearestNeighborsSqrtApprox.h"
#include "ompl/util/RandomNumbers.h"
#include "ompl/util/Console.h"
#include <cstdlib>
#include <iostream>
#include <memory>
#include <sstream>
struct Pt { int x, y; bool operator==(const Pt &o) const { return x == o.x && y == o.y; } bool operator!=(const Pt &o) const { return !(*this == o); } };
static std::ostream &operator<<(std::ostream &o, const Pt &p) { return o << p.x << "," << p.y; }
static double dist(const Pt &a, const Pt &b) { return std::abs(a.x - b.x) + std::abs(a.y - b.y); }
using NN = ompl::NearestNeighbors<Pt>;
int main()
{
    ompl::msg::setLogLevel(ompl::msg::LOG_NONE);
    ompl::RNG::setSeed(1);
    std::vector<std::shared_ptr<NN>> nn(4);
    // NEWT instead of NEW: the first k-centre of every split is drawn from a tape (RNG hook) that both GNATs see from its
    // start at every operation: u(op, k) = ((seed + 7 op + 13 k) mod 64) / 64
    long tape_seed = -1, opno = 0; std::vector<double> tape(512);
    std::string line;
    while (std::getline(std::cin, line))
    {
        std::istringstream in(line); std::string op; if (!(in >> op)) continue;
        if (op == "NEW" || op == "NEWT")
        {
            tape_seed = -1; opno = 0;
            if (op == "NEWT") { std::string t; std::istringstream ts(line); std::string w; std::vector<std::string> ws; while (ts >> w) ws.push_back(w); tape_seed = std::atol(ws.back().c_str()); }
            unsigned deg, mn, mx, leaf, cache; int reb; in >> deg >> mn >> mx >> leaf >> cache >> reb;
            nn[0] = std::make_shared<ompl::NearestNeighborsGNAT<Pt>>(deg, mn, mx, leaf, cache, reb != 0);
            nn[1] = std::make_shared<ompl::NearestNeighborsGNATNoThreadSafety<Pt>>(deg, mn, mx, leaf, cache, reb != 0);
            nn[2] = std::make_shared<ompl::NearestNeighborsLinear<Pt>>();
            nn[3] = std::make_shared<ompl::NearestNeighborsSqrtApprox<Pt>>();
            for (auto &s : nn) s->setDistanceFunction(dist);
            std::printf("# new\n"); std::fflush(stdout); continue;
        }
        std::ostringstream out;
        for (int s = 0; s < 4; ++s)
        {
            std::istringstream a(line); std::string dummy; a >> dummy;
            if (s) out << " # ";
#ifdef OMPL_VERIF
            if (tape_seed >= 0 && s < 2) { for (std::size_t k = 0; k < tape.size(); ++k) tape[k] = (double)((tape_seed + 7 * opno + 13 * (long)k) % 64) / 64.0; ompl::RNG::verifSetTape(tape.data(), tape.size()); }
            else ompl::RNG::verifSetTape(nullptr, 0);
#endif
            try
            {
                if (op == "A") { Pt p; a >> p.x >> p.y; nn[s]->add(p); out << "ok"; }
                else if (op == "AL") { int n; a >> n; std::vector<Pt> v(n); for (auto &p : v) a >> p.x >> p.y; nn[s]->add(v); out << "ok"; }
                else if (op == "R") { Pt p; a >> p.x >> p.y; out << (nn[s]->remove(p) ? 1 : 0); }
                else if (op == "C") { nn[s]->clear(); out << "ok"; }
                else if (op == "N") { Pt q; a >> q.x >> q.y; Pt r = nn[s]->nearest(q); out << dist(r, q) << ":" << r; }
                else if (op == "K") { std::size_t k; Pt q; a >> k >> q.x >> q.y; std::vector<Pt> v; nn[s]->nearestK(q, k, v); out << v.size(); for (auto &p : v) out << " " << dist(p, q) << ":" << p; }
                else if (op == "RAD") { double r; Pt q; a >> r >> q.x >> q.y; std::vector<Pt> v; nn[s]->nearestR(q, r, v); out << v.size(); for (auto &p : v) out << " " << dist(p, q) << ":" << p; }
                else if (op == "LST") { std::vector<Pt> v; nn[s]->list(v); out << v.size(); for (auto &p : v) out << " " << p; }
                else if (op == "SZ") out << nn[s]->size();
                else if (op == "DUMP")
                {
                    if (s == 0) out << "<<<" << *std::static_pointer_cast<ompl::NearestNeighborsGNAT<Pt>>(nn[0]) << ">>>";
                    else if (s == 1) out << "<<<" << *std::static_pointer_cast<ompl::NearestNeighborsGNATNoThreadSafety<Pt>>(nn[1]) << ">>>";
                    else out << "-";
                }
            }
            catch (ompl::Exception &) { out << "EXC"; }
        }
#ifdef OMPL_VERIF
        ompl::RNG::verifSetTape(nullptr, 0);
#endif
        ++opno;
        std::string o = out.str();
        for (auto &ch : o) if (ch == '\n') ch = '|';
        std::printf("%s\n", o.c_str()); std::fflush(stdout);
    }
    return 0;
}
