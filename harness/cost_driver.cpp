// C04 implementation driver (planner-level clauses): optimizing planners of /repo under several objectives, solved
// repeatedly on the same query; every stored solution is re-costed independently.
//   CRUN <planner> <space> <env> <query> <objective length|integral|work|multi|clearance> <threshold factor|0> <seed> <seconds> <nsolves>
// output per solve:  SOLVE k status nsolutions
//   SOL i approx diff optimized hasopt stored true length lower satisfied   (costs in 1e-9 units; lower = admissible lower bound of the true cost)
//   PTS i n dim : reals of every path state (bit patterns)     SC i : stateCost of every path state
//   MM i : per motion the state costs MinimaxObjective::motionCost evaluated, in order (motions separated by ';')
//   TRUE i : bit patterns of pg->cost(obj) and pg->length()
#include "planning_common.h"
#include "planners_all.h"
#include <ompl/base/objectives/StateCostIntegralObjective.h>
#include <ompl/base/objectives/MaximizeMinClearanceObjective.h>
#include <ompl/base/objectives/MechanicalWorkOptimizationObjective.h>
#include <cstring>

class HeightCost : public ob::StateCostIntegralObjective
{
public:
    HeightCost(const ob::SpaceInformationPtr &si) : ob::StateCostIntegralObjective(si, false) {}
    ob::Cost stateCost(const ob::State *s) const override { std::vector<double> r; si_->getStateSpace()->copyToReals(r, s); return ob::Cost(1.0 + 10.0 * r[1]); }
};
// mechanical work over a sloped potential (state cost 1 + 4 y): climbing costs, descending is free — the one shipped objective whose
// motion cost is not symmetric
class SlopeWork : public ob::MechanicalWorkOptimizationObjective
{
public:
    SlopeWork(const ob::SpaceInformationPtr &si) : ob::MechanicalWorkOptimizationObjective(si, 0.05) {}
    ob::Cost stateCost(const ob::State *s) const override { std::vector<double> r; si_->getStateSpace()->copyToReals(r, s); return ob::Cost(1.0 + 4.0 * r[1]); }
};
// validity with a clearance (distance to the nearest obstacle boundary, positions only)
class ClearanceChecker : public EnvChecker
{
public:
    using EnvChecker::EnvChecker;
    double clearance(const ob::State *s) const override
    {
        std::vector<double> r; si_->getStateSpace()->copyToReals(r, s); double x = r[0], y = r[1], best = 10.0;
        for (auto &b : env_.boxes) { double dx = std::max({b[0] - x, 0.0, x - b[2]}), dy = std::max({b[1] - y, 0.0, y - b[3]}); double d = std::hypot(dx, dy); if (dx == 0 && dy == 0) d = -std::min({x - b[0], b[2] - x, y - b[1], b[3] - y}); best = std::min(best, d); }
        for (auto &c : env_.circles) best = std::min(best, std::hypot(x - c[0], y - c[1]) - c[2]);
        return best;
    }
};
static void pbits(std::ostream &o, double d) { unsigned long long b; std::memcpy(&b, &d, 8); char buf[20]; std::snprintf(buf, sizeof buf, " %016llx", b); o << buf; }
// logs every stateCost() evaluation of the clearance objective while switched on
static std::vector<double> *g_evlog = nullptr;
class LoggingClearance : public ob::MaximizeMinClearanceObjective
{
public:
    using ob::MaximizeMinClearanceObjective::MaximizeMinClearanceObjective;
    ob::Cost stateCost(const ob::State *s) const override { ob::Cost c = ob::MaximizeMinClearanceObjective::stateCost(s); if (g_evlog) g_evlog->push_back(c.value()); return c; }
};
static long long e9(double v) { if (!std::isfinite(v)) return v > 0 ? 4000000000000000000LL : -4000000000000000000LL; return std::llround(std::max(std::min(v, 4e9), -4e9) * 1e9); }
int main(int argc, char **argv)
{
    ompl::msg::setLogLevel(ompl::msg::LOG_NONE);
    std::string line;
    auto handle = [](const std::string &line)
    {
        std::istringstream in(line); std::string cmd, pl, spn, envn, objn; int q, nsolves; double thrf, secs; unsigned seed;
        if (!(in >> cmd >> pl >> spn >> envn >> q >> objn >> thrf >> seed >> secs >> nsolves) || cmd != "CRUN") return;
        ompl::RNG::setSeed(seed);
        std::cout << "CRUNINFO " << line << "\n";
        try
        {
            World w = make_world(spn, envn, 0.01);
            auto cc = std::make_shared<ClearanceChecker>(w.si, w.chk->env_); w.chk = cc; w.si->setStateValidityChecker(cc); w.si->setup();
            ob::State *s0 = w.space->allocState(), *g0 = w.space->allocState();
            double sy = (q & 1) ? 0.1 : 0.5, gy = (q & 1) ? 0.9 : 0.5; set_pos(w, s0, 0.1, sy, 0.3); set_pos(w, g0, 0.9, gy, 1.0);
            auto pdef = std::make_shared<ob::ProblemDefinition>(w.si); pdef->addStartState(s0); pdef->setGoalState(g0, 0.05);
            ob::OptimizationObjectivePtr obj; int kind = 1;
            if (objn == "length") obj = std::make_shared<ob::PathLengthOptimizationObjective>(w.si);
            else if (objn == "integral") obj = std::make_shared<HeightCost>(w.si);
            else if (objn == "work") obj = std::make_shared<SlopeWork>(w.si);
            else if (objn == "multi")
            {   // the weighted multi-objective: 1 x path length + 0.05 x integral of the state cost 1 + 10 y
                auto mo = std::make_shared<ob::MultiOptimizationObjective>(w.si);
                mo->addObjective(std::make_shared<ob::PathLengthOptimizationObjective>(w.si), 1.0); mo->addObjective(std::make_shared<HeightCost>(w.si), 0.05); mo->lock(); obj = mo;
            }
            else { obj = std::make_shared<LoggingClearance>(w.si); kind = 2; }
            double direct = w.space->distance(s0, g0);
            if (thrf > 0) obj->setCostThreshold(ob::Cost(kind == 2 ? 0.02 * thrf : direct * thrf * (objn == "integral" ? 6.0 : (objn == "work" ? 4.0 : (objn == "multi" ? 1.3 : 1.0)))));
            pdef->setOptimizationObjective(obj);
            ob::PlannerPtr planner = make_planner(pl, w.si); planner->setProblemDefinition(pdef); planner->setup();
            for (int k = 0; k < nsolves; ++k)
            {
                ob::IterationTerminationCondition itc(20000);
                auto st = planner->solve(ob::plannerOrTerminationCondition(ob::timedPlannerTerminationCondition(secs), ob::PlannerTerminationCondition(itc)));
                auto sols = pdef->getSolutions();
                std::cout << "SOLVE " << k << " " << (int)(ob::PlannerStatus::StatusType)st << " " << sols.size() << " kind " << kind << "\n";
                for (std::size_t i = 0; i < sols.size(); ++i)
                {
                    auto &s = sols[i]; auto *pg = dynamic_cast<og::PathGeometric *>(s.path_.get()); if (!pg) continue;
                    double truec = pg->cost(obj).value(), len = pg->length();
                    double lower = (objn == "length" && pg->getStateCount() > 0) ? w.space->distance(pg->getState(0), pg->getState(pg->getStateCount() - 1)) : (objn == "integral" ? len * 1.0 : objn == "multi" ? len * 1.05 : ((objn == "work" && pg->getStateCount() > 0) ? std::max(obj->stateCost(pg->getState(pg->getStateCount() - 1)).value() - obj->stateCost(pg->getState(0)).value(), 0.0) + 0.05 * w.space->distance(pg->getState(0), pg->getState(pg->getStateCount() - 1)) : -1e9));
                    bool hasopt = static_cast<bool>(s.opt_);
                    std::cout << "SOL " << i << " " << (s.approximate_ ? 1 : 0) << " " << e9(s.difference_) << " " << (s.optimized_ ? 1 : 0) << " " << (hasopt ? 1 : 0) << " " << e9(hasopt ? s.cost_.value() : 0.0)
                              << " " << e9(truec) << " " << e9(len) << " " << e9(lower) << " " << ((hasopt && obj->isSatisfied(s.cost_)) ? 1 : 0) << " " << s.plannerName_ << "\n";
                    // the path itself, for the independent re-computation of its cost by the model
                    std::vector<double> r; std::cout << "PTS " << i << " " << pg->getStateCount() << " " << w.space->getDimension() << " :";
                    for (std::size_t k2 = 0; k2 < pg->getStateCount(); ++k2) { w.space->copyToReals(r, pg->getState(k2)); for (double v : r) pbits(std::cout, v); }
                    std::cout << "\nSC " << i << " :"; for (std::size_t k2 = 0; k2 < pg->getStateCount(); ++k2) pbits(std::cout, objn == "multi" ? HeightCost(w.si).stateCost(pg->getState(k2)).value() : obj->stateCost(pg->getState(k2)).value());
                    std::cout << "\n";
                    if (kind == 2)
                    {
                        std::cout << "MM " << i << " :";
                        for (std::size_t k2 = 0; k2 + 1 < pg->getStateCount(); ++k2)
                        { std::vector<double> ev; g_evlog = &ev; obj->motionCost(pg->getState(k2), pg->getState(k2 + 1)); g_evlog = nullptr; for (double v : ev) pbits(std::cout, v); std::cout << " ;"; }
                        std::cout << "\n";
                    }
                    std::cout << "TRUE " << i << " :"; pbits(std::cout, truec); pbits(std::cout, len); std::cout << "\n";
                }
                // threshold factor < 0: "resume at the incumbent": the threshold becomes the best stored cost, the solutions
                // are cleared and the planner is resumed (what tests/geometric/2d/2dcircles_optimize.cpp does between phases)
                if (thrf < 0 && pdef->hasExactSolution() && !sols.empty() && sols[0].opt_)
                { obj->setCostThreshold(sols[0].cost_); pdef->clearSolutionPaths(); }
            }
            std::cout << "END" << std::endl;
            w.space->freeState(s0); w.space->freeState(g0);
        }
        catch (std::exception &ex) { std::string m = ex.what(); for (auto &c : m) if (c == '\n') c = ' '; std::cout << "SKIP " << m << "\nEND" << std::endl; }
    };
    if (argc > 1) { std::string l; for (int i = 1; i < argc; ++i) l += std::string(i > 1 ? " " : "") + argv[i]; handle(l); return 0; }
    while (std::getline(std::cin, line)) handle(line);
    return 0;
}
