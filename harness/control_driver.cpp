// C02 implementation driver: control-based planners of /repo on two systems, the reported PathControl replayed with the
// harness's own copy of the propagator.
//   CRUN <planner> <system point|car> <env> <query 0..3> <stepsize> <minsteps> <maxsteps> <threshold> <seed> <evaluations> <seconds>
// output: STATUS code has before after approx diff   NSTATES n   START ok   CSEG steps whole minmax ctrl_inb reproduced all_valid # detail
//         LAST goal gdist   END
#define protected public
#include <ompl/control/planners/rrt/RRT.h>
#undef protected
#include "planning_common.h"
#include <deque>
#include <ompl/datastructures/NearestNeighborsLinear.h>
#include <ompl/base/goals/GoalState.h>
#include <ompl/base/goals/GoalSampleableRegion.h>
#include <ompl/base/spaces/SE2StateSpace.h>
#include <ompl/control/SpaceInformation.h>
#include <ompl/control/SimpleDirectedControlSampler.h>
#include <ompl/control/spaces/RealVectorControlSpace.h>
#include <ompl/control/PathControl.h>
#include <ompl/control/planners/rrt/RRT.h>
#include <ompl/control/planners/sst/SST.h>
#include <ompl/control/planners/est/EST.h>
#include <ompl/control/planners/kpiece/KPIECE1.h>
#include <ompl/control/planners/pdst/PDST.h>
#include <ompl/control/planners/syclop/SyclopRRT.h>
#include <ompl/control/planners/syclop/SyclopEST.h>
#include <ompl/control/planners/syclop/GridDecomposition.h>
namespace oc = ompl::control;

static void prop_point(const ob::State *s, const oc::Control *c, double dt, ob::State *r)
{
    const double *u = c->as<oc::RealVectorControlSpace::ControlType>()->values;
    const double *x = s->as<ob::RealVectorStateSpace::StateType>()->values; double *y = r->as<ob::RealVectorStateSpace::StateType>()->values;
    double a = x[0] + 0.5 * u[0] * dt, b = x[1] + 0.5 * u[1] * dt; y[0] = a; y[1] = b;
}
static void prop_car(const ob::State *s, const oc::Control *c, double dt, ob::State *r)
{
    const double *u = c->as<oc::RealVectorControlSpace::ControlType>()->values;
    auto *a = s->as<ob::SE2StateSpace::StateType>(); auto *b = r->as<ob::SE2StateSpace::StateType>();
    double x = a->getX() + 0.5 * u[0] * std::cos(a->getYaw()) * dt, y = a->getY() + 0.5 * u[0] * std::sin(a->getYaw()) * dt, th = a->getYaw() + 2.0 * u[1] * dt;
    th = std::fmod(th, 2.0 * M_PI); if (th < -M_PI) th += 2.0 * M_PI; else if (th >= M_PI) th -= 2.0 * M_PI;
    b->setX(x); b->setY(y); b->setYaw(th);
}
// validity as in the library's control demos: inside the bounds and collision free
class BoundedEnvChecker : public EnvChecker
{
public:
    using EnvChecker::EnvChecker;
    bool isValid(const ob::State *s) const override { return si_->satisfiesBounds(s) && EnvChecker::isValid(s); }
};
class Decomp : public oc::GridDecomposition
{
public:
    Decomp(int len, const ob::RealVectorBounds &b) : oc::GridDecomposition(len, 2, b) {}
    void project(const ob::State *s, std::vector<double> &coord) const override
    { coord.resize(2); std::vector<double> r; sp->copyToReals(r, s); coord[0] = r[0]; coord[1] = r[1]; }
    void sampleFullState(const ob::StateSamplerPtr &sampler, const std::vector<double> &coord, ob::State *s) const override
    { sampler->sampleUniform(s); std::vector<double> r; sp->copyToReals(r, s); r[0] = coord[0]; r[1] = coord[1]; sp->copyFromReals(s, r); }
    const ob::StateSpace *sp = nullptr;
};

// a state sampler that hands out scripted 1-D states
struct ScriptStateSampler1 : public ob::StateSampler
{
    ScriptStateSampler1(const ob::StateSpace *sp, std::shared_ptr<std::deque<double>> q) : ob::StateSampler(sp), q_(std::move(q)) {}
    std::shared_ptr<std::deque<double>> q_;
    void sampleUniform(ob::State *s) override { double x = 0; if (!q_->empty()) { x = q_->front(); q_->pop_front(); } s->as<ob::RealVectorStateSpace::StateType>()->values[0] = x; }
    void sampleUniformNear(ob::State *s, const ob::State *, double) override { sampleUniform(s); }
    void sampleGaussian(ob::State *s, const ob::State *, double) override { sampleUniform(s); }
};
// a control sampler that hands out scripted controls and step counts (for SimpleDirectedControlSampler::getBestControl)
struct ScriptControlSampler : public oc::ControlSampler
{
    ScriptControlSampler(const oc::ControlSpace *cs, std::shared_ptr<std::deque<double>> u, std::shared_ptr<std::deque<unsigned>> n)
      : oc::ControlSampler(cs), us(std::move(u)), ns(std::move(n)) {}
    std::shared_ptr<std::deque<double>> us; std::shared_ptr<std::deque<unsigned>> ns;
    void sample(oc::Control *c) override
    { double v = 0; if (!us->empty()) { v = us->front(); us->pop_front(); } c->as<oc::RealVectorControlSpace::ControlType>()->values[0] = v; }
    unsigned int sampleStepCount(unsigned int, unsigned int) override
    { unsigned v = 0; if (!ns->empty()) { v = ns->front(); ns->pop_front(); } return v; }
};

int main(int argc, char **argv)
{
    ompl::msg::setLogLevel(ompl::msg::LOG_NONE);
    std::string line;
    auto handle = [](const std::string &line)
    {
        if (line.rfind("PWV ", 0) == 0)
        {   // PWV <steps> <start> <invalid values...>: propagate / propagateWhileValid (both overloads) on R^1 with the propagator x -> x + 1
            std::istringstream pin(line); std::string c0; int steps; double start; pin >> c0 >> steps >> start; std::set<long> bad; long b; while (pin >> b) bad.insert(b);
            auto sp = std::make_shared<ob::RealVectorStateSpace>(1); sp->setBounds(-1e6, 1e6);
            auto cs = std::make_shared<oc::RealVectorControlSpace>(sp, 1); ob::RealVectorBounds cb1(1); cb1.setLow(-1); cb1.setHigh(1); cs->setBounds(cb1);
            auto si = std::make_shared<oc::SpaceInformation>(sp, cs);
            si->setStateValidityChecker([bad](const ob::State *s) { return bad.count(std::lround(s->as<ob::RealVectorStateSpace::StateType>()->values[0])) == 0; });
            si->setStatePropagator([](const ob::State *s, const oc::Control *, double, ob::State *r) { r->as<ob::RealVectorStateSpace::StateType>()->values[0] = s->as<ob::RealVectorStateSpace::StateType>()->values[0] + 1.0; });
            si->setPropagationStepSize(0.1); si->setMinMaxControlDuration(1, 100); si->setup();
            ob::State *s = sp->allocState(), *r = sp->allocState(); oc::Control *c = cs->allocControl(); s->as<ob::RealVectorStateSpace::StateType>()->values[0] = start;
            si->propagate(s, c, steps, r); long pr = std::lround(r->as<ob::RealVectorStateSpace::StateType>()->values[0]);
            unsigned n1 = si->propagateWhileValid(s, c, steps, r); long r1 = std::lround(r->as<ob::RealVectorStateSpace::StateType>()->values[0]);
            std::vector<ob::State *> vec; unsigned n2 = si->propagateWhileValid(s, c, steps, vec, true);
            std::cout << "pwv " << pr << " | " << n1 << " " << r1 << " | " << n2; for (auto *x : vec) { std::cout << " " << std::lround(x->as<ob::RealVectorStateSpace::StateType>()->values[0]); sp->freeState(x); }
            std::cout << std::endl; sp->freeState(s); sp->freeState(r); cs->freeControl(c); return;
        }
        if (line.rfind("CRRT ", 0) == 0 || line.rfind("CRRTI ", 0) == 0)
        {   // CRRT <goal> <thr> <minDur> <maxDur> <k> <iters> <tapeSeed> <bias> B <n> bad... S <n> starts... P <n> samples... U <n> {u steps}...
            //   control::RRT on R^1 (propagator x -> x + u per step), directed control sampler with k scripted candidates per iteration,
            //   scripted state sampler, goal-bias draws from the RNG tape, linear nearest neighbours, IterationTerminationCondition(iters)
            std::istringstream pin(line); std::string c0, tag; long goal, thr; unsigned mind, maxd, k, iters; unsigned long tseed; double bias; int n;
            pin >> c0 >> goal >> thr >> mind >> maxd >> k >> iters >> tseed >> bias;
            std::set<long> bad; std::vector<long> starts; auto samples = std::make_shared<std::deque<double>>();
            auto us = std::make_shared<std::deque<double>>(); auto ns = std::make_shared<std::deque<unsigned>>();
            pin >> tag >> n; for (int i = 0; i < n; ++i) { long b; pin >> b; bad.insert(b); }
            pin >> tag >> n; for (int i = 0; i < n; ++i) { long b; pin >> b; starts.push_back(b); }
            pin >> tag >> n; for (int i = 0; i < n; ++i) { double b; pin >> b; samples->push_back(b); }
            pin >> tag >> n; for (int i = 0; i < n; ++i) { double u; unsigned st; pin >> u >> st; us->push_back(u); ns->push_back(st); }
            auto sp = std::make_shared<ob::RealVectorStateSpace>(1); sp->setBounds(-1e6, 1e6);
            sp->setStateSamplerAllocator([samples](const ob::StateSpace *s) { return std::make_shared<ScriptStateSampler1>(s, samples); });
            auto cs = std::make_shared<oc::RealVectorControlSpace>(sp, 1); ob::RealVectorBounds cb1(1); cb1.setLow(-100); cb1.setHigh(100); cs->setBounds(cb1);
            cs->setControlSamplerAllocator([us, ns](const oc::ControlSpace *c) { return std::make_shared<ScriptControlSampler>(c, us, ns); });
            auto si = std::make_shared<oc::SpaceInformation>(sp, cs);
            si->setStateValidityChecker([bad](const ob::State *s) { return bad.count(std::lround(s->as<ob::RealVectorStateSpace::StateType>()->values[0])) == 0; });
            si->setStatePropagator([](const ob::State *s, const oc::Control *c, double, ob::State *r)
                { r->as<ob::RealVectorStateSpace::StateType>()->values[0] = s->as<ob::RealVectorStateSpace::StateType>()->values[0] + c->as<oc::RealVectorControlSpace::ControlType>()->values[0]; });
            si->setPropagationStepSize(0.125); si->setMinMaxControlDuration(mind, maxd);
            si->setDirectedControlSamplerAllocator([k](const oc::SpaceInformation *i) { return std::make_shared<oc::SimpleDirectedControlSampler>(i, k); });
            si->setup();
            auto pdef = std::make_shared<ob::ProblemDefinition>(si);
            for (long x : starts) { ob::ScopedState<> a(sp); a[0] = (double)x; pdef->addStartState(a); }
            ob::ScopedState<> g(sp); g[0] = (double)goal; pdef->setGoalState(g, (double)thr);
            auto planner = std::make_shared<oc::RRT>(si);
            planner->setNearestNeighbors<ompl::NearestNeighborsLinear>(); planner->setGoalBias(bias);
            const bool interm = c0 == "CRRTI"; planner->setIntermediateStates(interm);
            planner->setProblemDefinition(pdef); planner->setup();
            std::vector<double> tape; for (unsigned long q = 0; q < (unsigned long)iters + 8; ++q) tape.push_back((double)((tseed + 7 * q + 3 * q * q) % 64) / 64.0);
            ob::IterationTerminationCondition itc(iters);
            ompl::RNG::verifSetTape(tape.data(), tape.size());
            planner->solve(ob::PlannerTerminationCondition(itc));
            ompl::RNG::verifSetTape(nullptr, 0);
            std::vector<oc::RRT::Motion *> ms; planner->nn_->list(ms);
            std::map<const oc::RRT::Motion *, long> idx; for (std::size_t i = 0; i < ms.size(); ++i) idx[ms[i]] = (long)i;
            std::printf("%s %zu;", interm ? "crrti" : "crrt", ms.size());
            for (auto *m : ms)
            {
                long x = std::lround(m->state->as<ob::RealVectorStateSpace::StateType>()->values[0]);
                if (m->parent) std::printf(" %ld %ld %ld %u;", x, idx[m->parent], std::lround(m->control->as<oc::RealVectorControlSpace::ControlType>()->values[0]), m->steps);
                else std::printf(" %ld -1;", x);
            }
            if (pdef->hasSolution())
            {
                auto path = std::dynamic_pointer_cast<oc::PathControl>(pdef->getSolutionPath());
                std::printf(" | 1 %d %ld |", pdef->hasApproximateSolution() ? 1 : 0, pdef->hasApproximateSolution() ? std::lround(pdef->getSolutionDifference()) : 0L);
                for (std::size_t i = 0; i < path->getStateCount(); ++i)
                {
                    long x = std::lround(path->getState(i)->as<ob::RealVectorStateSpace::StateType>()->values[0]);
                    if (i == 0) std::printf(" %ld;", x);
                    else std::printf(" %ld %ld %ld;", x, std::lround(path->getControl(i - 1)->as<oc::RealVectorControlSpace::ControlType>()->values[0]), std::lround(path->getControlDuration(i - 1) / 0.125));
                }
            }
            else std::printf(" | 0 |");
            std::printf("\n"); std::fflush(stdout);
            return;
        }
        if (line.rfind("DCS ", 0) == 0)
        {   // DCS <start> <target> <invalid values...> | u1 n1 u2 n2 ...: getBestControl with k = number of (control, steps) pairs on R^1, propagator x -> x + u
            std::istringstream pin(line); std::string c0, tok; long start, target; pin >> c0 >> start >> target; std::set<long> bad;
            while (pin >> tok && tok != "|") bad.insert(std::stol(tok));
            auto us = std::make_shared<std::deque<double>>(); auto ns = std::make_shared<std::deque<unsigned>>(); double u; unsigned n;
            while (pin >> u >> n) { us->push_back(u); ns->push_back(n); }
            unsigned k = (unsigned)us->size();
            auto sp = std::make_shared<ob::RealVectorStateSpace>(1); sp->setBounds(-1e6, 1e6);
            auto cs = std::make_shared<oc::RealVectorControlSpace>(sp, 1); ob::RealVectorBounds cb1(1); cb1.setLow(-100); cb1.setHigh(100); cs->setBounds(cb1);
            cs->setControlSamplerAllocator([us, ns](const oc::ControlSpace *c) { return std::make_shared<ScriptControlSampler>(c, us, ns); });
            auto si = std::make_shared<oc::SpaceInformation>(sp, cs);
            si->setStateValidityChecker([bad](const ob::State *s) { return bad.count(std::lround(s->as<ob::RealVectorStateSpace::StateType>()->values[0])) == 0; });
            si->setStatePropagator([](const ob::State *s, const oc::Control *c, double, ob::State *r)
                { r->as<ob::RealVectorStateSpace::StateType>()->values[0] = s->as<ob::RealVectorStateSpace::StateType>()->values[0] + c->as<oc::RealVectorControlSpace::ControlType>()->values[0]; });
            si->setPropagationStepSize(0.1); si->setMinMaxControlDuration(1, 100); si->setup();
            oc::SimpleDirectedControlSampler dcs(si.get(), k);
            ob::State *s = sp->allocState(), *d = sp->allocState(); oc::Control *c = cs->allocControl();
            s->as<ob::RealVectorStateSpace::StateType>()->values[0] = (double)start; d->as<ob::RealVectorStateSpace::StateType>()->values[0] = (double)target;
            unsigned steps = dcs.sampleTo(c, s, d);
            std::cout << "dcs " << std::lround(c->as<oc::RealVectorControlSpace::ControlType>()->values[0]) << " " << steps << " " << std::lround(d->as<ob::RealVectorStateSpace::StateType>()->values[0]) << std::endl;
            sp->freeState(s); sp->freeState(d); cs->freeControl(c); return;
        }
        std::istringstream in(line); std::string cmd, pl, sys, envn; int q, mins, maxs; double stepsize, thr, secs; unsigned seed; unsigned long iters;
        if (!(in >> cmd >> pl >> sys >> envn >> q >> stepsize >> mins >> maxs >> thr >> seed >> iters >> secs) || cmd != "CRUN") return;
        ompl::RNG::setSeed(seed);
        std::cout << "CRUNINFO " << line << "\n";
        try
        {
            // "<system>:k<n>": the directed control sampler tries n controls per extension and keeps the best (default: 1)
            unsigned dirk = 0; { std::size_t kp = sys.find(":k"); if (kp != std::string::npos) { dirk = (unsigned)std::stoul(sys.substr(kp + 2)); sys = sys.substr(0, kp); } }
            const bool car = sys == "car";
            ob::StateSpacePtr space = make_space(car ? "SE2" : "R2");
            auto cspace = std::make_shared<oc::RealVectorControlSpace>(space, 2);
            ob::RealVectorBounds cb(2); cb.setLow(-1); cb.setHigh(1); if (car) { cb.setLow(0, -0.3); } cspace->setBounds(cb);
            auto si = std::make_shared<oc::SpaceInformation>(space, cspace);
            World w; w.spname = car ? "SE2" : "R2"; w.space = space; w.si = si; space->setup();
            w.reslen = space->getLongestValidSegmentLength();
            w.chk = std::make_shared<BoundedEnvChecker>(si, make_env(envn, w.reslen)); si->setStateValidityChecker(w.chk);
            auto propfn = car ? prop_car : prop_point;
            si->setStatePropagator([propfn](const ob::State *s, const oc::Control *c, double dt, ob::State *r) { propfn(s, c, dt, r); });
            si->setPropagationStepSize(stepsize); si->setMinMaxControlDuration(mins, maxs);
            if (dirk > 0) si->setDirectedControlSamplerAllocator([dirk](const oc::SpaceInformation *i) { return std::make_shared<oc::SimpleDirectedControlSampler>(i, dirk); });
            si->setup();
            ob::State *s0 = space->allocState(), *g0 = space->allocState();
            double sy = (q & 1) ? 0.1 : 0.5, gy = (q & 1) ? 0.9 : 0.5;
            set_pos(w, s0, 0.1, sy, 0.3); set_pos(w, g0, 0.9, gy, (q & 2) ? -2.5 : 1.0);
            auto pdef = std::make_shared<ob::ProblemDefinition>(si); pdef->addStartState(s0);
            if (car && (q & 4))
            {   // a 'dock' goal: within thr of the goal position AND within 0.35 rad of its heading; distanceGoal() is the planar distance only,
                // so a state can report a small distance without satisfying the goal
                struct Dock : public ob::GoalSampleableRegion
                {
                    Dock(const ob::SpaceInformationPtr &i, const ob::State *g, double r) : ob::GoalSampleableRegion(i), g_(i->cloneState(g)) { setThreshold(r); }
                    ~Dock() override { si_->freeState(g_); }
                    double planar(const ob::State *s) const { auto *a = s->as<ob::SE2StateSpace::StateType>(); auto *b = g_->as<ob::SE2StateSpace::StateType>(); return std::hypot(a->getX() - b->getX(), a->getY() - b->getY()); }
                    double distanceGoal(const ob::State *s) const override { return planar(s); }
                    bool isSatisfied(const ob::State *s) const override { return isSatisfied(s, nullptr); }
                    bool isSatisfied(const ob::State *s, double *d) const override
                    {
                        double pd = planar(s); if (d) *d = pd;
                        double dh = std::fabs(s->as<ob::SE2StateSpace::StateType>()->getYaw() - g_->as<ob::SE2StateSpace::StateType>()->getYaw()); if (dh > M_PI) dh = 2 * M_PI - dh;
                        return pd <= threshold_ && dh <= 0.35;
                    }
                    void sampleGoal(ob::State *s) const override { si_->copyState(s, g_); }
                    unsigned int maxSampleCount() const override { return 1; }
                    ob::State *g_;
                };
                pdef->setGoal(std::make_shared<Dock>(si, g0, thr));
            }
            else pdef->setGoalState(g0, thr);
            ob::PlannerPtr planner;
            if (pl == "RRT") planner = std::make_shared<oc::RRT>(si);
            else if (pl == "RRTi") { auto p = std::make_shared<oc::RRT>(si); p->setIntermediateStates(true); planner = p; }
            else if (pl == "SST") planner = std::make_shared<oc::SST>(si);
            else if (pl == "EST") planner = std::make_shared<oc::EST>(si);
            else if (pl == "KPIECE1") planner = std::make_shared<oc::KPIECE1>(si);
            else if (pl == "PDST") planner = std::make_shared<oc::PDST>(si);
            else if (pl == "SyclopRRT" || pl == "SyclopEST")
            {
                ob::RealVectorBounds b(2); b.setLow(0); b.setHigh(1); auto d = std::make_shared<Decomp>(8, b); d->sp = space.get();
                if (pl == "SyclopRRT") planner = std::make_shared<oc::SyclopRRT>(si, d); else planner = std::make_shared<oc::SyclopEST>(si, d);
            }
            else throw std::runtime_error("unknown planner " + pl);
            planner->setProblemDefinition(pdef); planner->setup();
            std::size_t before = pdef->getSolutionCount();
            ob::IterationTerminationCondition itc(iters);
            auto ptc = ob::plannerOrTerminationCondition(ob::timedPlannerTerminationCondition(secs), ob::PlannerTerminationCondition(itc));
            ob::PlannerStatus st = planner->solve(ptc);
            std::size_t after = pdef->getSolutionCount(); bool has = pdef->hasSolution();
            std::cout << "STATUS " << (int)(ob::PlannerStatus::StatusType)st << " " << (has ? 1 : 0) << " " << before << " " << after << " " << (pdef->hasApproximateSolution() ? 1 : 0)
                      << " " << (long long)std::llround(std::min(std::max(pdef->getSolutionDifference(), -1.0), 1e9) * 1e9) << "\n";
            if (has)
            {
                auto path = std::dynamic_pointer_cast<oc::PathControl>(pdef->getSolutionPath());
                if (!path) std::cout << "NOPATHCONTROL\n";
                else
                {
                    const auto &S = path->getStates(); const auto &U = path->getControls(); const auto &D = path->getControlDurations();
                    std::cout << "NSTATES " << S.size() << " " << U.size() << " " << D.size() << "\n";
                    bool start_ok = !S.empty() && space->equalStates(S[0], s0) && w.chk->isValid(S[0]) && space->satisfiesBounds(S[0]);
                    std::cout << "START " << (start_ok ? 1 : 0) << "\n";
                    ob::State *cur = space->allocState(), *nxt = space->allocState();
                    for (std::size_t i = 0; i + 1 < S.size() && i < U.size() && i < D.size(); ++i)
                    {
                        double steps_d = D[i] / stepsize; long steps = std::lround(steps_d);
                        bool whole = std::fabs(D[i] - (double)steps * stepsize) <= 1e-9 * stepsize;
                        bool minmax = steps >= mins && steps <= maxs;
                        const double *u = U[i]->as<oc::RealVectorControlSpace::ControlType>()->values;
                        bool cinb = u[0] >= cb.low[0] && u[0] <= cb.high[0] && u[1] >= cb.low[1] && u[1] <= cb.high[1];
                        space->copyState(cur, S[i]); bool allv = true; long firstbad = -1;
                        for (long k = 0; k < steps; ++k) { propfn(cur, U[i], stepsize, nxt); if (!w.chk->isValid(nxt)) { allv = false; if (firstbad < 0) firstbad = k + 1; } std::swap(cur, nxt); }
                        double err = space->distance(cur, S[i + 1]); bool rep = err <= 1e-9;
                        std::cout << "CSEG " << steps << " " << (whole ? 1 : 0) << " " << (minmax ? 1 : 0) << " " << (cinb ? 1 : 0) << " " << (rep ? 1 : 0) << " " << (allv ? 1 : 0)
                                  << " # duration " << hexd(D[i]) << " replay error " << err << " first invalid step " << firstbad << " from " << state_str(w, S[i]) << "\n";
                    }
                    double d = 0; bool g = pdef->getGoal()->isSatisfied(S.back(), &d);
                    std::cout << "LAST " << (g ? 1 : 0) << " " << (long long)std::llround(std::min(d, 1e9) * 1e9) << "\n";
                    space->freeState(cur); space->freeState(nxt);
                }
            }
            std::cout << "END" << std::endl;
            space->freeState(s0); space->freeState(g0);
        }
        catch (std::exception &ex) { std::string m = ex.what(); for (auto &c : m) if (c == '\n') c = ' '; std::cout << "SKIP " << m << "\nEND" << std::endl; }
    };
    if (argc > 1) { std::string l; for (int i = 1; i < argc; ++i) l += std::string(i > 1 ? " " : "") + argv[i]; handle(l); return 0; }
    while (std::getline(std::cin, line)) handle(line);
    return 0;
}
