// C06/C07/C08 implementation driver: state spaces of /repo.
//   SPACE <spec>     spec (prefix): RV n lo hi ... | SO2 | TB lo hi | TU | DI lo hi | CO k w <spec> ...        -> "space ok"
//   DIST a.. | b..   INTERP t a.. | b..   ENF a..   SAT a..   EQ a.. | b..   EXT
//   SU tape..        default sampler, uniform, variates from the tape (RNG hook)
//   SN dist tape.. | near..     SG sd tape.. | mean..     (near / Gaussian sampling)
//   values are hex doubles (ints for discrete components are written as doubles with integral value)
//   answers: bit patterns of the resulting doubles (discrete values converted to double); INTERP also reports whether
//            the result is the same when the output aliases the first / the second input
//   LAWS <name> n seed   random search for violations of the C06/C07/C08 laws on a named space (see below)
#include <ompl/base/StateSpace.h>
#include <ompl/base/ScopedState.h>
#include <ompl/base/spaces/RealVectorStateSpace.h>
#include <ompl/base/spaces/SO2StateSpace.h>
#include <ompl/base/spaces/SO3StateSpace.h>
#include <ompl/base/spaces/SE2StateSpace.h>
#include <ompl/base/spaces/SE3StateSpace.h>
#include <ompl/base/spaces/TimeStateSpace.h>
#include <ompl/base/spaces/DiscreteStateSpace.h>
#include <ompl/base/spaces/DubinsStateSpace.h>
#include <ompl/base/spaces/ReedsSheppStateSpace.h>
#include <ompl/base/spaces/special/TorusStateSpace.h>
#include <ompl/base/spaces/special/SphereStateSpace.h>
#include <ompl/base/spaces/special/MobiusStateSpace.h>
#include <ompl/base/spaces/special/KleinBottleStateSpace.h>
#include <ompl/util/RandomNumbers.h>
#include <ompl/util/Console.h>
#include <cstring>
#include <iostream>
#include <sstream>
namespace ob = ompl::base;
static ob::StateSpacePtr build(std::istringstream &in)
{
    std::string t; in >> t; std::string w;
    auto num = [&in]() { std::string s; in >> s; return std::strtod(s.c_str(), nullptr); };
    if (t == "RV") { int n; in >> n; auto r = std::make_shared<ob::RealVectorStateSpace>(n); ob::RealVectorBounds b(n); for (int i = 0; i < n; ++i) { b.low[i] = num(); b.high[i] = num(); } r->setBounds(b); return r; }
    if (t == "SO2") return std::make_shared<ob::SO2StateSpace>();
    if (t == "TB") { auto s = std::make_shared<ob::TimeStateSpace>(); double lo = num(), hi = num(); s->setBounds(lo, hi); return s; }
    if (t == "TU") return std::make_shared<ob::TimeStateSpace>();
    if (t == "DI") { double lo = num(), hi = num(); return std::make_shared<ob::DiscreteStateSpace>((int)lo, (int)hi); }
    int k; in >> k; auto c = std::make_shared<ob::CompoundStateSpace>();
    for (int i = 0; i < k; ++i) { double wt = num(); c->addSubspace(build(in), wt); }
    c->lock(); return c;
}
static void setvals(const ob::StateSpace *sp, ob::State *st, std::istringstream &in)
{
    auto num = [&in]() { std::string s; in >> s; return std::strtod(s.c_str(), nullptr); };
    if (sp->isCompound()) { auto *c = sp->as<ob::CompoundStateSpace>(); for (unsigned i = 0; i < c->getSubspaceCount(); ++i) setvals(c->getSubspace(i).get(), st->as<ob::CompoundState>()->components[i], in); return; }
    switch (sp->getType())
    {
    case ob::STATE_SPACE_REAL_VECTOR: for (unsigned i = 0; i < sp->getDimension(); ++i) st->as<ob::RealVectorStateSpace::StateType>()->values[i] = num(); break;
    case ob::STATE_SPACE_SO2: st->as<ob::SO2StateSpace::StateType>()->value = num(); break;
    case ob::STATE_SPACE_TIME: st->as<ob::TimeStateSpace::StateType>()->position = num(); break;
    case ob::STATE_SPACE_DISCRETE: st->as<ob::DiscreteStateSpace::StateType>()->value = (int)num(); break;
    default: break;
    }
}
static void getvals(const ob::StateSpace *sp, const ob::State *st, std::vector<double> &out)
{
    if (sp->isCompound()) { auto *c = sp->as<ob::CompoundStateSpace>(); for (unsigned i = 0; i < c->getSubspaceCount(); ++i) getvals(c->getSubspace(i).get(), st->as<ob::CompoundState>()->components[i], out); return; }
    switch (sp->getType())
    {
    case ob::STATE_SPACE_REAL_VECTOR: for (unsigned i = 0; i < sp->getDimension(); ++i) out.push_back(st->as<ob::RealVectorStateSpace::StateType>()->values[i]); break;
    case ob::STATE_SPACE_SO2: out.push_back(st->as<ob::SO2StateSpace::StateType>()->value); break;
    case ob::STATE_SPACE_TIME: out.push_back(st->as<ob::TimeStateSpace::StateType>()->position); break;
    case ob::STATE_SPACE_DISCRETE: out.push_back((double)st->as<ob::DiscreteStateSpace::StateType>()->value); break;
    default: break;
    }
}
static void pbits(double d) { unsigned long long b; std::memcpy(&b, &d, 8); std::printf(" %016llx", b); }
static void pstate(const ob::StateSpacePtr &sp, const ob::State *st) { std::vector<double> v; getvals(sp.get(), st, v); for (double x : v) pbits(x); }
static std::vector<double> readtape(std::istringstream &in)
{
    std::vector<double> t; std::string w;
    while (in >> w) { if (w == "|") break; t.push_back(std::strtod(w.c_str(), nullptr)); }
    return t;
}
#include "space_laws.h"
int main()
{
    ompl::msg::setLogLevel(ompl::msg::LOG_NONE);
    ob::StateSpacePtr sp; std::string line;
    while (std::getline(std::cin, line))
    {
        std::istringstream in(line); std::string op; if (!(in >> op)) continue;
        if (op == "SPACE") { sp = build(in); try { sp->setup(); } catch (ompl::Exception &) { /* zero-extent spaces cannot be set up; the operations below do not need it */ } std::printf("space ok\n"); std::fflush(stdout); continue; }
        if (op == "LAWS") { std::string name; int n; unsigned seed; in >> name >> n >> seed; run_laws(name, n, seed); std::fflush(stdout); continue; }
        ob::State *a = sp->allocState(), *b = sp->allocState(), *r = sp->allocState();
        auto skipbar = [&in]() { std::string w; in >> w; };
        if (op == "DIST") { setvals(sp.get(), a, in); skipbar(); setvals(sp.get(), b, in); std::printf("dist"); pbits(sp->distance(a, b)); std::printf("\n"); }
        else if (op == "INTERP")
        {
            std::string ts; in >> ts; double t = std::strtod(ts.c_str(), nullptr); setvals(sp.get(), a, in); skipbar(); setvals(sp.get(), b, in);
            sp->interpolate(a, b, t, r); std::printf("interp"); pstate(sp, r);
            std::vector<double> v0, v1, v2; getvals(sp.get(), r, v0);
            ob::State *a2 = sp->cloneState(a), *b2 = sp->cloneState(b);
            sp->interpolate(a2, b, t, a2); getvals(sp.get(), a2, v1); sp->interpolate(a, b2, t, b2); getvals(sp.get(), b2, v2);
            bool al1 = v0.size() == v1.size() && std::memcmp(v0.data(), v1.data(), v0.size() * 8) == 0, al2 = v0.size() == v2.size() && std::memcmp(v0.data(), v2.data(), v0.size() * 8) == 0;
            std::printf(" | %d %d %d\n", al1, al2, sp->satisfiesBounds(r) ? 1 : 0); sp->freeState(a2); sp->freeState(b2);
        }
        else if (op == "REPARAM")
        {
            std::string ss, us; in >> ss >> us; double s = std::strtod(ss.c_str(), nullptr), u = std::strtod(us.c_str(), nullptr);
            setvals(sp.get(), a, in); skipbar(); setvals(sp.get(), b, in);
            ob::State *p = sp->allocState(), *q = sp->allocState();
            sp->interpolate(a, b, s, r); sp->interpolate(r, b, u, p); sp->interpolate(a, b, s + (1 - s) * u, q);
            std::printf("reparam"); pstate(sp, p); pstate(sp, q); pbits(sp->distance(p, q)); std::printf("\n"); sp->freeState(p); sp->freeState(q);
        }
        else if (op == "GEO")
        {
            std::string ts; in >> ts; double t = std::strtod(ts.c_str(), nullptr); setvals(sp.get(), a, in); skipbar(); setvals(sp.get(), b, in);
            sp->interpolate(a, b, t, r); std::printf("geo"); pbits(sp->distance(a, r)); pbits(t * sp->distance(a, b)); std::printf("\n");
        }
        else if (op == "ENF") { setvals(sp.get(), a, in); sp->enforceBounds(a); std::printf("enf"); pstate(sp, a); bool sat = sp->satisfiesBounds(a); sp->copyState(b, a); sp->enforceBounds(b);
                                  std::vector<double> v0, v1; getvals(sp.get(), a, v0); getvals(sp.get(), b, v1); std::printf(" | %d %d\n", sat ? 1 : 0, (v0.size() == v1.size() && std::memcmp(v0.data(), v1.data(), v0.size() * 8) == 0) ? 1 : 0); }
        else if (op == "SAT") { setvals(sp.get(), a, in); std::printf("sat %d\n", sp->satisfiesBounds(a) ? 1 : 0); }
        else if (op == "EQ") { setvals(sp.get(), a, in); skipbar(); setvals(sp.get(), b, in); std::printf("eq %d\n", sp->equalStates(a, b) ? 1 : 0); }
        else if (op == "EXT") { std::printf("ext"); pbits(sp->getMaximumExtent()); std::printf("\n"); }
        else if (op == "SU" || op == "SN" || op == "SG")
        {
            double par = 0; if (op != "SU") { std::string ps; in >> ps; par = std::strtod(ps.c_str(), nullptr); }
            std::vector<double> tape = readtape(in);
            if (op != "SU") setvals(sp.get(), a, in);
            auto sampler = sp->allocDefaultStateSampler();
            ompl::RNG::verifSetTape(tape.data(), tape.size());
            if (op == "SU") sampler->sampleUniform(r); else if (op == "SN") sampler->sampleUniformNear(r, a, par); else sampler->sampleGaussian(r, a, par);
            std::size_t used = ompl::RNG::verifTapeUsed(); ompl::RNG::verifSetTape(nullptr, 0);
            std::printf("sample"); pstate(sp, r); std::printf(" | %d %zu\n", sp->satisfiesBounds(r) ? 1 : 0, used);
        }
        else if (op == "RNG")
        {   // RNG <kind 0 uniformReal | 1 uniformInt | 2 halfNormalReal | 3 halfNormalInt | 4 gaussian> a b c v : one call on the variate v
            int kind; in >> kind; double a3[4]; for (auto &v : a3) { std::string t; in >> t; v = std::strtod(t.c_str(), nullptr); }
            ompl::RNG rng; double tape1[1] = {a3[3]}; ompl::RNG::verifSetTape(tape1, 1); double out = 0;
            if (kind == 0) out = rng.uniformReal(a3[0], a3[1]);
            else if (kind == 1) out = (double)rng.uniformInt((int)a3[0], (int)a3[1]);
            else if (kind == 2) out = rng.halfNormalReal(a3[0], a3[1], a3[2]);
            else if (kind == 3) out = (double)rng.halfNormalInt((int)a3[0], (int)a3[1], a3[2]);
            else out = rng.gaussian(a3[0], a3[1]);
            ompl::RNG::verifSetTape(nullptr, 0);
            std::printf("rng"); pbits(out); std::printf("\n");
        }
        sp->freeState(a); sp->freeState(b); sp->freeState(r);
        std::fflush(stdout);
    }
    return 0;
}
