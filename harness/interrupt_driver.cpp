// C03 implementation driver: histories of solve / clear / clearQuery / setProblemDefinition / getPlannerData on one planner,
// under termination conditions that first become true at a chosen evaluation, on allocation-counting state spaces.
//   HIST <planner> <space> <env> <seed> <resolution> <op> <op> ...
//     S<k>  solve with a condition that is false for the first k evaluations and true from then on (k = 0: true at once)
//     T<ms> solve with a time limit of ms milliseconds (at most 20000 evaluations)
//     C clear()    Q clearQuery()    N<q> new problem definition, query variant q (0..3)    D getPlannerData
// output per op:  OP <op> ...   solve:  STATUS code has before after approx diff | evals first_true further secs
//                 followed by START / P / ACC / SEG lines of the held top solution, then ENDOP;   finally LIVE n allocs negative
#include "planning_common.h"
#include "planners_all.h"
#include <ompl/base/PlannerData.h>
#include <chrono>

struct Query { double sx, sy, gx, gy, so, go; };
static Query query(int q)
{
    switch (q & 3)
    {
    case 0: return {0.1, 0.5, 0.9, 0.5, 0.3, 1.0};
    case 1: return {0.1, 0.1, 0.9, 0.9, 0.0, -2.5};
    case 2: return {0.9, 0.12, 0.08, 0.9, 1.0, 0.2};     // reversed direction, different corners
    default: return {0.15, 0.85, 0.85, 0.15, -1.0, 2.0};
    }
}
int main(int argc, char **argv)
{
    ompl::msg::setLogLevel(ompl::msg::LOG_NONE);
    g_counting = true;
    std::string line;
    auto handle = [](const std::string &line)
    {
        std::istringstream in(line); std::string cmd, pl, spn, envn; unsigned seed; double res;
        if (!(in >> cmd >> pl >> spn >> envn >> seed >> res) || cmd != "HIST") return;
        std::vector<std::string> ops; std::string o; while (in >> o) ops.push_back(o);
        ompl::RNG::setSeed(seed);
        std::cout << "HISTINFO " << line << "\n";
        g_live = 0; g_allocs = 0; g_negative = false;
        try
        {
            World w = make_world(spn, envn, res);
            long base_live = g_live;   // states the space / space information keep for themselves
            {
                std::map<std::string, long> ids;
                auto id_of = [&](const ob::State *s) { auto k = key_of(w.space.get(), s); auto it = ids.find(k); if (it != ids.end()) return it->second; long n = (long)ids.size() + 1; ids[k] = n; return n; };
                auto mkpdef = [&](int q)
                {
                    Query qq = query(q); ob::State *s0 = w.space->allocState(), *g0 = w.space->allocState();
                    set_pos(w, s0, qq.sx, qq.sy, qq.so); set_pos(w, g0, qq.gx, qq.gy, qq.go);
                    auto pdef = std::make_shared<ob::ProblemDefinition>(w.si); pdef->addStartState(s0); pdef->setGoalState(g0, 0.05);
                    if (pl.find("star") != std::string::npos || pl.find("sharp") != std::string::npos || pl == "RRTXstatic" || pl == "CForest")
                        pdef->setOptimizationObjective(std::make_shared<ob::PathLengthOptimizationObjective>(w.si));
                    std::cout << "QUERY " << q << " start " << id_of(s0) << " goal " << id_of(g0) << "\n";
                    w.space->freeState(s0); w.space->freeState(g0);
                    return pdef;
                };
                ob::ProblemDefinitionPtr pdef = mkpdef(0);
                ob::PlannerPtr planner = make_planner(pl, w.si);
                planner->setProblemDefinition(pdef); planner->setup();
                for (auto &op : ops)
                {
                    std::cout << "OP " << op << std::endl;
                    if (op[0] == 'S' || op[0] == 'T')
                    {
                        long k = std::atol(op.c_str() + 1); long evals = 0, first_true = -1;
                        auto t0 = std::chrono::steady_clock::now();
                        std::function<bool()> fn;
                        if (op[0] == 'S') fn = [&]() { ++evals; bool r = evals > k; if (r && first_true < 0) first_true = evals; return r; };
                        else fn = [&]() { ++evals; bool r = evals > 20000 || std::chrono::duration<double>(std::chrono::steady_clock::now() - t0).count() * 1000.0 > (double)k; if (r && first_true < 0) first_true = evals; return r; };
                        std::size_t before = pdef->getSolutionCount();
                        ob::PlannerStatus st = planner->solve(ob::PlannerTerminationCondition(fn));
                        double secs = std::chrono::duration<double>(std::chrono::steady_clock::now() - t0).count();
                        std::size_t after = pdef->getSolutionCount(); bool has = pdef->hasSolution();
                        std::cout << "STATUS " << (int)(ob::PlannerStatus::StatusType)st << " " << (has ? 1 : 0) << " " << before << " " << after << " " << (pdef->hasApproximateSolution() ? 1 : 0)
                                  << " " << (long long)std::llround(std::min(std::max(pdef->getSolutionDifference(), -1.0), 1e9) * 1e9)
                                  << " | " << evals << " " << first_true << " " << (first_true < 0 ? 0 : evals - first_true) << " " << secs << "\n";
                        for (unsigned i = 0; i < pdef->getStartStateCount(); ++i)
                        { const ob::State *s = pdef->getStartState(i); std::cout << "START " << id_of(s) << " " << (w.chk->isValid(s) ? 1 : 0) << " " << (w.space->satisfiesBounds(s) ? 1 : 0) << "\n"; }
                        if (has)
                        {
                            auto path = std::dynamic_pointer_cast<og::PathGeometric>(pdef->getSolutionPath());
                            if (path) { std::cout << "LEN " << (long long)std::llround(path->length() * 1e9) << " " << path->getStateCount() << "\n"; emit_path_facts(w, *path, pdef->getGoal(), ids, std::cout); }
                        }
                    }
                    else if (op == "C") planner->clear();
                    else if (op == "Q") planner->clearQuery();
                    else if (op[0] == 'N') { pdef = mkpdef(std::atoi(op.c_str() + 1)); planner->setProblemDefinition(pdef); }
                    else if (op == "D") { ob::PlannerData pd(w.si); planner->getPlannerData(pd); std::cout << "PDATA " << pd.numVertices() << " " << pd.numEdges() << "\n"; }
                    std::cout << "ENDOP" << std::endl;
                }
                planner.reset(); pdef.reset();
            }
            std::cout << "LIVE " << (g_live - base_live) << " " << g_allocs << " " << (g_negative ? 1 : 0) << "\nENDHIST" << std::endl;
        }
        catch (std::exception &ex) { std::string m = ex.what(); for (auto &c : m) if (c == '\n') c = ' '; std::cout << "SKIP " << m << "\nENDHIST" << std::endl; }
    };
    if (argc > 1) { std::string l; for (int i = 1; i < argc; ++i) l += std::string(i > 1 ? " " : "") + argv[i]; handle(l); return 0; }
    while (std::getline(std::cin, line)) handle(line);
    return 0;
}
