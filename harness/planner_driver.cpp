// C01 implementation driver: one planner run with logging collaborators; prints the facts the ledger checker decides on.
//   RUN <planner> <space> <env> <query 0..3> <range|0> <resolution> <threshold> <seed> <ptc evaluations> <seconds>
// output:
//   RUNINFO ...                 echo + class information
//   SKIP <reason>               planner cannot be set up on this space (not an error)
//   START id valid inb          every start state of the problem definition
//   STATUS code has_path paths_before paths_after approx diff
//   P id inb valid goal gdist   path states in order          ACC a b   accepted motions among consecutive path states
//   SEG recheck maxinv          per consecutive pair           END
#include "planning_common.h"
#include "planners_all.h"

int main(int argc, char **argv)
{
    ompl::msg::setLogLevel(ompl::msg::LOG_NONE);
    std::string line;
    auto handle = [](const std::string &line)
    {
        std::istringstream in(line); std::string cmd, pl, spn, envn; int q; double range, res, thr, secs; unsigned seed; unsigned long iters;
        if (!(in >> cmd >> pl >> spn >> envn >> q >> range >> res >> thr >> seed >> iters >> secs) || cmd != "RUN") return;
        ompl::RNG::setSeed(seed);
        std::cout << "RUNINFO " << line << "\n";
        try
        {
            World w = make_world(spn, envn, res);
            ob::State *s0 = w.space->allocState(), *g0 = w.space->allocState();
            double sy = (q & 1) ? 0.1 : 0.5, gy = (q & 1) ? 0.9 : 0.5;
            set_pos(w, s0, 0.1, sy, 0.3); set_pos(w, g0, 0.9, gy, (q & 2) ? -2.5 : 1.0);
            auto pdef = std::make_shared<ob::ProblemDefinition>(w.si);
            pdef->addStartState(s0);
            if (q & 2) { ob::State *s1 = w.space->allocState(); set_pos(w, s1, 0.12, 0.2, 0.0); pdef->addStartState(s1); w.space->freeState(s1); }
            pdef->setGoalState(g0, thr);
            if (pl.find("star") != std::string::npos || pl.find("sharp") != std::string::npos || pl == "RRTXstatic" || pl == "CForest")
                pdef->setOptimizationObjective(std::make_shared<ob::PathLengthOptimizationObjective>(w.si));
            ob::PlannerPtr planner = make_planner(pl, w.si);
            planner->setProblemDefinition(pdef);
            if (range > 0 && planner->params().hasParam("range")) planner->params().setParam("range", std::to_string(range));
            planner->setup();
            std::map<std::string, long> ids;
            auto id_of = [&](const ob::State *s) { auto k = key_of(w.space.get(), s); auto it = ids.find(k); if (it != ids.end()) return it->second; long n = (long)ids.size() + 1; ids[k] = n; return n; };
            for (unsigned i = 0; i < pdef->getStartStateCount(); ++i)
            { const ob::State *s = pdef->getStartState(i); std::cout << "START " << id_of(s) << " " << (w.chk->isValid(s) ? 1 : 0) << " " << (w.space->satisfiesBounds(s) ? 1 : 0) << "\n"; }
            std::size_t before = pdef->getSolutionCount();
            ob::IterationTerminationCondition itc(iters);
            auto ptc = ob::plannerOrTerminationCondition(ob::timedPlannerTerminationCondition(secs), ob::PlannerTerminationCondition(itc));
            ob::PlannerStatus st = planner->solve(ptc);
            std::size_t after = pdef->getSolutionCount();
            bool has = pdef->hasSolution();
            std::cout << "STATUS " << (int)(ob::PlannerStatus::StatusType)st << " " << (has ? 1 : 0) << " " << before << " " << after << " " << (pdef->hasApproximateSolution() ? 1 : 0)
                      << " " << (long long)std::llround(std::min(std::max(pdef->getSolutionDifference(), -1.0), 1e9) * 1e9) << " # checks " << w.chk->calls << " motions " << w.mv->queries << "\n";
            if (has)
            {
                auto path = std::dynamic_pointer_cast<og::PathGeometric>(pdef->getSolutionPath());
                if (path) emit_path_facts(w, *path, pdef->getGoal(), ids, std::cout); else std::cout << "NOPATHGEOMETRIC\n";
            }
            std::cout << "END" << std::endl;
            planner->clear(); planner.reset(); pdef.reset();
            w.space->freeState(s0); w.space->freeState(g0);
        }
        catch (std::exception &ex) { std::string m = ex.what(); for (auto &c : m) if (c == '\n') c = ' '; std::cout << "SKIP " << m << "\nEND" << std::endl; }
    };
    if (argc > 1) { std::string l; for (int i = 1; i < argc; ++i) l += std::string(i > 1 ? " " : "") + argv[i]; handle(l); return 0; }
    while (std::getline(std::cin, line)) handle(line);
    return 0;
}
