// C01 (EIT* mechanism) implementation driver: the planner's own edge validation (EITstar::couldBeValid / isValid /
// isValidAtResolution), called directly on the start -> goal edge of a 1-D problem through a history of sparse levels.
//   EDGE <F> <wall lo> <wall hi> <level>*     F = full-resolution segment count of the edge; the wall (lo, hi) is invalid
// output: one line per call  "call <numChecks> <result> | tested x ..."  (bit patterns), then "final <isValid result> <whitelisted> | tested x ..."
// The class internals are reached by re-declaring private/protected as public for the planner's headers only.
#include <algorithm>
#include <cmath>
#include <cstdio>
#include <cstring>
#include <functional>
#include <iostream>
#include <map>
#include <memory>
#include <queue>
#include <set>
#include <sstream>
#include <string>
#include <vector>
#include <ompl/base/SpaceInformation.h>
#include <ompl/base/ProblemDefinition.h>
#include <ompl/base/spaces/RealVectorStateSpace.h>
#include <ompl/base/goals/GoalState.h>
#include <ompl/base/objectives/PathLengthOptimizationObjective.h>
#include <ompl/util/Console.h>
#define private public
#define protected public
#include <ompl/geometric/planners/informedtrees/EITstar.h>
#undef private
#undef protected
namespace ob = ompl::base;
namespace og = ompl::geometric;
static void pb(double d) { unsigned long long b; std::memcpy(&b, &d, 8); std::printf(" %016llx", b); }
int main()
{
    ompl::msg::setLogLevel(ompl::msg::LOG_NONE);
    std::string line;
    while (std::getline(std::cin, line))
    {
        std::istringstream in(line); std::string op; if (!(in >> op) || op != "EDGE") continue;
        int F; double lo, hi; in >> F >> lo >> hi; std::vector<std::size_t> levels; std::size_t c; while (in >> c) levels.push_back(c);
        try
        {
            auto space = std::make_shared<ob::RealVectorStateSpace>(1); space->setBounds(0.0, 1.0);
            space->setLongestValidSegmentFraction(1.0 / ((double)F - 0.5));
            auto si = std::make_shared<ob::SpaceInformation>(space);
            std::vector<double> log;
            si->setStateValidityChecker([&log, lo, hi](const ob::State *s) { double x = s->as<ob::RealVectorStateSpace::StateType>()->values[0]; log.push_back(x); return !(lo < x && x < hi); });
            si->setup();
            ob::State *s0 = si->allocState(), *g0 = si->allocState();
            s0->as<ob::RealVectorStateSpace::StateType>()->values[0] = 0.0; g0->as<ob::RealVectorStateSpace::StateType>()->values[0] = 1.0;
            auto pdef = std::make_shared<ob::ProblemDefinition>(si); pdef->addStartState(s0); pdef->setGoalState(g0, 0.0);
            pdef->setOptimizationObjective(std::make_shared<ob::PathLengthOptimizationObjective>(si));
            og::EITstar planner(si); planner.setProblemDefinition(pdef); planner.setup();
            if (planner.graph_.getStartStates().empty() || planner.graph_.getGoalStates().empty()) { std::printf("skip no start/goal state in the graph\n"); continue; }
            og::eitstar::Edge edge(planner.graph_.getStartStates()[0], planner.graph_.getGoalStates()[0]);
            std::printf("full %u\n", space->validSegmentCount(edge.source->raw(), edge.target->raw()));
            for (std::size_t lv : levels)
            {
                log.clear(); planner.numSparseCollisionChecksCurrentLevel_ = lv;
                bool r = planner.couldBeValid(edge);
                std::printf("call %zu %d |", lv, r ? 1 : 0); for (double x : log) pb(x); std::printf("\n");
            }
            log.clear(); bool r = planner.isValid(edge);
            std::printf("final %d %d |", r ? 1 : 0, edge.source->isWhitelisted(edge.target) ? 1 : 0); for (double x : log) pb(x); std::printf("\n");
            si->freeState(s0); si->freeState(g0);
        }
        catch (std::exception &ex) { std::printf("skip %s\n", ex.what()); }
        std::fflush(stdout);
    }
    return 0;
}
