// C13 implementation driver: Grid<int>, GridN<int>, GridB<int, less, greater> of /repo driven by the same script.
//   G dim limit hasbounds [lo_0..lo_{d-1} up_0..up_{d-1}]      new grids (limit 0 = default 2*dim)
//   A id d c_0..c_{dim-1}      createCell(coord) + add(cell), data d (ids are harness-side names)
//   R c..                      remove(getCell(coord)) + destroyCell
//   U d c..                    data := d ; GridB::update(cell)
//   C                          clear
//   Q c..                      has(coord) and neighbors(coord) in probe order
// after every op one line:  n:<cells of GridN> | b:<cells of GridB> ci ce topI topE | k:<components of Grid>   (canonical order)
#include "ompl/datastructures/GridB.h"
#include <algorithm>
#include <cstdio>
#include <iostream>
#include <map>
#include <sstream>
struct D { int data; int id; };
struct LessD { bool operator()(const D &a, const D &b) const { return a.data < b.data; } };
struct GreaterD { bool operator()(const D &a, const D &b) const { return a.data > b.data; } };
using G0 = ompl::Grid<D>; using GN = ompl::GridN<D>; using GB = ompl::GridB<D, LessD, GreaterD>;
static std::string cellstr(int id, const Eigen::VectorXi &c, unsigned nb, bool border, int data)
{
    std::ostringstream o; o << id << ":"; for (int i = 0; i < c.size(); ++i) o << (i ? "," : "") << c[i]; o << ":" << nb << ":" << (border ? 1 : 0) << ":" << data; return o.str();
}
int main()
{
    G0 *g0 = nullptr; GN *gn = nullptr; GB *gb = nullptr; int dim = 1; std::string line;
    while (std::getline(std::cin, line))
    {
        std::istringstream in(line); std::string op; if (!(in >> op)) continue;
        auto readc = [&](Eigen::VectorXi &c) { c.resize(dim); for (int i = 0; i < dim; ++i) in >> c[i]; };
        if (op == "G")
        {
            int lim, hb; in >> dim >> lim >> hb;
            delete g0; delete gn; delete gb; g0 = new G0(dim); gn = new GN(dim); gb = new GB(dim);
            if (lim > 0) { gn->setInteriorCellNeighborLimit(lim); gb->setInteriorCellNeighborLimit(lim); }
            if (hb) { Eigen::VectorXi lo, up; readc(lo); readc(up); gn->setBounds(lo, up); gb->setBounds(lo, up); }
            std::printf("# grid\n"); continue;
        }
        else if (op == "A")
        {
            int id, d; in >> id >> d; Eigen::VectorXi c; readc(c);
            auto *a = g0->createCell(c); a->data = D{d, id}; g0->add(a);
            auto *b = gn->createCell(c); b->data = D{d, id}; gn->add(b);
            auto *x = gb->createCell(c); x->data = D{d, id}; gb->add(x);
        }
        else if (op == "R")
        {
            Eigen::VectorXi c; readc(c);
            auto *a = g0->getCell(c); g0->remove(a); g0->destroyCell(a);
            auto *b = gn->getCell(c); gn->remove(b); gn->destroyCell(b);
            auto *x = gb->getCell(c); gb->remove(x); gb->destroyCell(x);
        }
        else if (op == "U")
        {
            int d; in >> d; Eigen::VectorXi c; readc(c);
            g0->getCell(c)->data.data = d; gn->getCell(c)->data.data = d;
            auto *x = gb->getCell(c); x->data.data = d; gb->update(x);
        }
        else if (op == "C") { g0->clear(); gn->clear(); gb->clear(); }
        else if (op == "Q")
        {
            Eigen::VectorXi c; readc(c); G0::CellArray l0; g0->neighbors(c, l0); GN::CellArray ln; gn->neighbors(c, ln);
            std::printf("q %d |", g0->has(c) ? 1 : 0);
            for (auto *p : l0) std::printf(" %d", p->data.id);
            std::printf(" |");
            for (auto *p : ln) std::printf(" %d", p->data.id);
            std::printf("\n"); std::fflush(stdout); continue;
        }
        // state line
        std::vector<std::string> cn, cb;
        { GN::CellArray cells; gn->getCells(cells); for (auto *c : cells) cn.push_back(cellstr(c->data.id, c->coord, c->neighbors, c->border, c->data.data)); }
        { GB::CellArray cells; gb->getCells(cells); for (auto *c : cells) cb.push_back(cellstr(c->data.id, c->coord, c->neighbors, c->border, c->data.data)); }
        auto byid = [](const std::string &a, const std::string &b) { return std::stoi(a) < std::stoi(b); };
        std::sort(cn.begin(), cn.end(), byid); std::sort(cb.begin(), cb.end(), byid);
        std::printf("n:%u", gn->size()); for (auto &s : cn) std::printf(" %s", s.c_str());
        std::printf(" | b:%u", gb->size()); for (auto &s : cb) std::printf(" %s", s.c_str());
        std::printf(" %u %u", gb->countInternal(), gb->countExternal());
        if (gb->size() > 0) std::printf(" %d %d", gb->topInternal()->data.data, gb->topExternal()->data.data); else std::printf(" - -");
        auto comps = g0->components(); std::vector<std::vector<int>> ck;
        for (auto &cc : comps) { std::vector<int> v; for (auto *c : cc) v.push_back(c->data.id); std::sort(v.begin(), v.end()); ck.push_back(v); }
        std::sort(ck.begin(), ck.end(), [](const std::vector<int> &a, const std::vector<int> &b) { return a.size() != b.size() ? a.size() > b.size() : a < b; });
        std::printf(" | k:%u", g0->size());
        for (auto &v : ck) { std::printf(" ["); for (std::size_t i = 0; i < v.size(); ++i) std::printf("%s%d", i ? "," : "", v[i]); std::printf("]"); }
        std::printf("\n"); std::fflush(stdout);
    }
    delete g0; delete gn; delete gb; return 0;
}
