// C09 implementation driver.
//   SPACE <spec>            spec (prefix): R n | O2 | O3 | T | D lo hi | C k <spec>*k      -> "space sig... | len | dim"
//   STATE v...              one value per scalar in storage order (doubles as hex-float or decimal, ints for discrete)
//                           -> "state <hex image> | <reals as bit patterns> | copy clone deser reals scoped"
//   STORE n                 StateStorage with the last n states: full load, every byte prefix, other space
//                           -> "store L full=ok|bad prefixes_accepted=k other_space_accepted=0|1"
//   GRAPH nv | tag.. | u v w .. | starts.. | goals..     PlannerData over the last nv states; store/load/prefixes
//                           -> "graph L load=1 nv ne | types.. | edges.. | prefixes_accepted=k other=0|1"
//   CGRAPH seed nv ne       control::PlannerData (controls, durations, weights, marks) through control::PlannerDataStorage; self-comparing
//   PARTIAL seed            copyStateData between related compound spaces (fixed layouts, values from seed)
#include <functional>
#include <ompl/base/StateSpace.h>
#include <ompl/base/StateStorage.h>
#include <ompl/base/PlannerData.h>
#include <ompl/base/PlannerDataStorage.h>
#include <ompl/base/ScopedState.h>
#include <ompl/base/SpaceInformation.h>
#include <ompl/base/spaces/RealVectorStateSpace.h>
#include <ompl/base/spaces/SO2StateSpace.h>
#include <ompl/base/spaces/SO3StateSpace.h>
#include <ompl/base/spaces/TimeStateSpace.h>
#include <ompl/base/spaces/DiscreteStateSpace.h>
#include <ompl/util/Console.h>
#include <ompl/base/spaces/SE2StateSpace.h>
#include <ompl/control/PlannerData.h>
#include <ompl/control/PlannerDataStorage.h>
#include <ompl/control/SpaceInformation.h>
#include <ompl/control/spaces/RealVectorControlSpace.h>
#include <random>
#include <boost/serialization/export.hpp>
BOOST_CLASS_EXPORT(ompl::control::PlannerDataEdgeControl);   // the registration the library's documentation asks of its clients
#include <cstring>
#include <iostream>
#include <sstream>
namespace ob = ompl::base;
static int counter = 0;
static ob::StateSpacePtr build(std::istringstream &in)
{
    std::string t; in >> t; ob::StateSpacePtr s;
    if (t == "R") { int n; in >> n; auto r = std::make_shared<ob::RealVectorStateSpace>(n); r->setBounds(-1e300, 1e300); s = r; }
    else if (t == "O2") s = std::make_shared<ob::SO2StateSpace>();
    else if (t == "O3") s = std::make_shared<ob::SO3StateSpace>();
    else if (t == "T") s = std::make_shared<ob::TimeStateSpace>();
    else if (t == "D") { int lo, hi; in >> lo >> hi; s = std::make_shared<ob::DiscreteStateSpace>(lo, hi); }
    else { int k; in >> k; auto c = std::make_shared<ob::CompoundStateSpace>(); for (int i = 0; i < k; ++i) c->addSubspace(build(in), 1.0); c->lock(); s = c; }
    s->setName("s" + std::to_string(counter++));
    return s;
}
// walk the leaves in storage order
static void setvals(const ob::StateSpace *sp, ob::State *st, std::istringstream &in)
{
    if (sp->isCompound())
    {
        auto *c = sp->as<ob::CompoundStateSpace>();
        for (unsigned i = 0; i < c->getSubspaceCount(); ++i) setvals(c->getSubspace(i).get(), st->as<ob::CompoundState>()->components[i], in);
        return;
    }
    std::string w;
    switch (sp->getType())
    {
    case ob::STATE_SPACE_REAL_VECTOR: for (unsigned i = 0; i < sp->getDimension(); ++i) { in >> w; st->as<ob::RealVectorStateSpace::StateType>()->values[i] = std::strtod(w.c_str(), nullptr); } break;
    case ob::STATE_SPACE_SO2: in >> w; st->as<ob::SO2StateSpace::StateType>()->value = std::strtod(w.c_str(), nullptr); break;
    case ob::STATE_SPACE_SO3: { auto *q = st->as<ob::SO3StateSpace::StateType>(); in >> w; q->x = std::strtod(w.c_str(), nullptr); in >> w; q->y = std::strtod(w.c_str(), nullptr); in >> w; q->z = std::strtod(w.c_str(), nullptr); in >> w; q->w = std::strtod(w.c_str(), nullptr); } break;
    case ob::STATE_SPACE_TIME: in >> w; st->as<ob::TimeStateSpace::StateType>()->position = std::strtod(w.c_str(), nullptr); break;
    case ob::STATE_SPACE_DISCRETE: in >> w; st->as<ob::DiscreteStateSpace::StateType>()->value = std::atoi(w.c_str()); break;
    default: break;
    }
}
static std::string image(const ob::StateSpacePtr &sp, const ob::State *st)
{
    unsigned l = sp->getSerializationLength(); std::vector<unsigned char> b(l + 8, 0xAB); sp->serialize(b.data(), st);
    std::string h; char buf[4]; for (unsigned i = 0; i < l; ++i) { std::snprintf(buf, sizeof buf, "%02x", b[i]); h += buf; }
    if (b[l] != 0xAB) h += "OVERRUN";
    return h;
}
struct TagVertex : ob::PlannerDataVertex { TagVertex(const ob::State *s, int t) : ob::PlannerDataVertex(s, t) {} };
int main()
{
    ompl::msg::setLogLevel(ompl::msg::LOG_NONE);
    ob::StateSpacePtr sp; std::vector<ob::State *> states; std::string line;
    while (std::getline(std::cin, line))
    {
        std::istringstream in(line); std::string op; if (!(in >> op)) continue;
        if (op == "SPACE")
        {
            sp = build(in); sp->setup(); states.clear();
            std::vector<int> sig; sp->computeSignature(sig);
            std::printf("space"); for (int x : sig) std::printf(" %d", x);
            std::printf(" | %u | %u\n", sp->getSerializationLength(), sp->getDimension());
        }
        else if (op == "STATE")
        {
            ob::State *st = sp->allocState(); setvals(sp.get(), st, in); states.push_back(st);
            std::string img = image(sp, st);
            std::vector<double> reals; sp->copyToReals(reals, st);
            std::printf("state %s |", img.c_str());
            for (double r : reals) { unsigned long long b; std::memcpy(&b, &r, 8); std::printf(" %016llx", b); }
            ob::State *c1 = sp->allocState(); sp->copyState(c1, st); bool copy = image(sp, c1) == img;
            ob::State *c2 = sp->cloneState(st); bool clone = image(sp, c2) == img;
            std::vector<unsigned char> buf(sp->getSerializationLength()); sp->serialize(buf.data(), st);
            ob::State *c3 = sp->allocState(); sp->deserialize(c3, buf.data()); bool deser = image(sp, c3) == img;
            ob::State *c4 = sp->cloneState(st); sp->copyFromReals(c4, reals); bool rr = image(sp, c4) == img;
            ob::ScopedState<> ss(sp); ss = st; ob::ScopedState<> ss2(ss); bool scoped = image(sp, ss2.get()) == img && ss == ss2;
            std::printf(" | %d %d %d %d %d\n", copy, clone, deser, rr, scoped);
            sp->freeState(c1); sp->freeState(c2); sp->freeState(c3); sp->freeState(c4);
        }
        else if (op == "STORE")
        {
            std::size_t n; in >> n; n = std::min(n, states.size());
            ob::StateStorage sto(sp); for (std::size_t i = states.size() - n; i < states.size(); ++i) sto.addState(states[i]);
            std::stringstream ss(std::ios::in | std::ios::out | std::ios::binary); sto.store(ss); std::string bytes = ss.str();
            ob::StateStorage l1(sp); { std::istringstream is(bytes, std::ios::binary); l1.load(is); }
            bool full = l1.size() == n;
            for (std::size_t i = 0; full && i < n; ++i) full = image(sp, l1.getState(i)) == image(sp, states[states.size() - n + i]);
            std::size_t accepted = 0;
            for (std::size_t k = 0; k < bytes.size(); ++k) { ob::StateStorage lp(sp); std::istringstream is(bytes.substr(0, k), std::ios::binary); lp.load(is); if (lp.size() > 0) ++accepted; }
            auto other = std::make_shared<ob::RealVectorStateSpace>(sp->getDimension() + 1); other->setBounds(-1, 1);
            ob::StateStorage lo(other); { std::istringstream is(bytes, std::ios::binary); lo.load(is); }
            std::printf("store %zu full=%s prefixes_accepted=%zu other_space_accepted=%d\n", bytes.size(), full ? "ok" : "bad", accepted, lo.size() > 0 ? 1 : 0);
        }
        else if (op == "GRAPH")
        {
            std::string rest; std::getline(in, rest); std::vector<std::string> parts; { std::istringstream ps(rest); std::string p; while (std::getline(ps, p, '|')) parts.push_back(p); }
            while (parts.size() < 5) parts.push_back("");
            int nv = std::atoi(parts[0].c_str()); nv = std::min<int>(nv, states.size());
            auto si = std::make_shared<ob::SpaceInformation>(sp); si->setStateValidityChecker([](const ob::State *) { return true; }); si->setup();
            ob::PlannerData pd(si);
            { std::istringstream ts(parts[1]); for (int i = 0; i < nv; ++i) { int t = 0; ts >> t; pd.addVertex(ob::PlannerDataVertex(states[states.size() - nv + i], t)); } }
            { std::istringstream es(parts[2]); int u, v; double w; while (es >> u >> v >> w) pd.addEdge(u, v, ob::PlannerDataEdge(), ob::Cost(w)); }
            { std::istringstream s2(parts[3]); int i; while (s2 >> i) pd.markStartState(pd.getVertex(i).getState()); }
            { std::istringstream s3(parts[4]); int i; while (s3 >> i) pd.markGoalState(pd.getVertex(i).getState()); }
            std::printf("graph pre |"); for (int i = 0; i < nv; ++i) std::printf(" %d", pd.isStartVertex(i) ? 1 : pd.isGoalVertex(i) ? 2 : 0);
            std::printf(" | ng=%u\n", pd.numGoalVertices());
            ob::PlannerDataStorage pds; std::stringstream ss(std::ios::in | std::ios::out | std::ios::binary); pds.store(pd, ss); std::string bytes = ss.str();
            ob::PlannerData p2(si); bool ok; { std::istringstream is(bytes, std::ios::binary); ok = pds.load(is, p2); }
            std::printf("graph %zu load=%d %u %u |", bytes.size(), ok ? 1 : 0, p2.numVertices(), p2.numEdges());
            bool same = ok && (int)p2.numVertices() == nv;
            for (unsigned i = 0; same && i < p2.numVertices(); ++i)
            {
                std::printf(" %d:%d:%d", p2.getVertex(i).getTag(), p2.isStartVertex(i) ? 1 : 0, p2.isGoalVertex(i) ? 1 : 0);
                if (image(sp, p2.getVertex(i).getState()) != image(sp, pd.getVertex(i).getState())) std::printf("!state");
            }
            std::printf(" |");
            for (unsigned i = 0; same && i < p2.numVertices(); ++i)
            {
                std::map<unsigned int, const ob::PlannerDataEdge *> out; p2.getEdges(i, out);
                for (auto &e : out) { ob::Cost w; p2.getEdgeWeight(i, e.first, &w); std::printf(" %u-%u:%g", i, e.first, w.value()); }
            }
            std::size_t accepted = 0;
            for (std::size_t k = 0; k < bytes.size(); ++k) { ob::PlannerData pp(si); std::istringstream is(bytes.substr(0, k), std::ios::binary); if (pds.load(is, pp)) ++accepted; }
            auto other = std::make_shared<ob::RealVectorStateSpace>(sp->getDimension() + 1); other->setBounds(-1, 1);
            auto sio = std::make_shared<ob::SpaceInformation>(other); ob::PlannerData po(sio); bool oacc; { std::istringstream is(bytes, std::ios::binary); oacc = pds.load(is, po); }
            std::printf(" | prefixes_accepted=%zu other=%d\n", accepted, oacc ? 1 : 0);
        }
        else if (op == "CGRAPH")
        {   // CGRAPH seed nv ne: a planner-data graph WITH CONTROLS (control::PlannerData over SE(2) x R^2 controls: vertices with tags, start / goal
            // marks, edges carrying a control, a duration and a weight) stored and loaded through control::PlannerDataStorage; everything compared
            namespace oc = ompl::control;
            unsigned seed; int nv, ne; in >> seed >> nv >> ne; std::mt19937 gen(seed); auto U = [&gen](double a, double b) { return std::uniform_real_distribution<double>(a, b)(gen); };
            auto sp2 = std::make_shared<ob::SE2StateSpace>(); { ob::RealVectorBounds b(2); b.setLow(-5); b.setHigh(5); sp2->setBounds(b); }
            auto cs = std::make_shared<oc::RealVectorControlSpace>(sp2, 2); { ob::RealVectorBounds b(2); b.setLow(-1); b.setHigh(1); cs->setBounds(b); }
            auto csi = std::make_shared<oc::SpaceInformation>(sp2, cs); csi->setStateValidityChecker([](const ob::State *) { return true; });
            csi->setStatePropagator([](const ob::State *, const oc::Control *, double, ob::State *) {}); csi->setup();
            oc::PlannerData pd(csi); std::vector<ob::State *> sts; std::vector<oc::Control *> ctl;
            for (int i = 0; i < nv; ++i)
            {
                ob::State *st = sp2->allocState(); auto *se = st->as<ob::SE2StateSpace::StateType>(); se->setXY(U(-5, 5), U(-5, 5)); se->setYaw(U(-3, 3)); sts.push_back(st);
                ob::PlannerDataVertex v(st, (int)(gen() % 7));
                if (i == 0) pd.addStartVertex(v); else if (i == nv - 1 && nv > 1) pd.addGoalVertex(v); else pd.addVertex(v);
            }
            struct E { unsigned u, v; double c0, c1, dur, w; }; std::vector<E> es;
            for (int k = 0; k < ne && nv > 1; ++k)
            {
                E e; e.u = gen() % nv; e.v = gen() % nv; if (e.u == e.v || pd.edgeExists(e.u, e.v)) continue;
                e.c0 = U(-1, 1); e.c1 = U(-1, 1); e.dur = (1 + gen() % 9) * 0.05; e.w = (k % 4 == 0) ? 1.0 : (k % 4 == 1 ? 0.0 : U(0, 20));
                oc::Control *c = cs->allocControl(); c->as<oc::RealVectorControlSpace::ControlType>()->values[0] = e.c0; c->as<oc::RealVectorControlSpace::ControlType>()->values[1] = e.c1; ctl.push_back(c);
                if (pd.addEdge(e.u, e.v, oc::PlannerDataEdgeControl(c, e.dur), ob::Cost(e.w))) es.push_back(e);
            }
            oc::PlannerDataStorage pds; std::stringstream ss(std::ios::in | std::ios::out | std::ios::binary); pds.store(pd, ss); std::string bytes = ss.str();
            oc::PlannerData p2(csi); bool ok; { std::istringstream is(bytes, std::ios::binary); ok = pds.load(is, p2); }
            std::string bad;
            if (!ok) bad = "load refused its own image";
            else if (p2.numVertices() != pd.numVertices() || p2.numEdges() != pd.numEdges()) bad = "vertex / edge count changed";
            for (unsigned i = 0; bad.empty() && i < p2.numVertices(); ++i)
            {
                if (!sp2->equalStates(p2.getVertex(i).getState(), pd.getVertex(i).getState()) || p2.getVertex(i).getTag() != pd.getVertex(i).getTag()) bad = "state or tag of vertex " + std::to_string(i) + " changed";
                else if (p2.isStartVertex(i) != pd.isStartVertex(i) || p2.isGoalVertex(i) != pd.isGoalVertex(i)) bad = "start / goal mark of vertex " + std::to_string(i) + " changed";
            }
            for (auto &e : es)
            {
                if (!bad.empty()) break;
                if (!p2.edgeExists(e.u, e.v)) { bad = "edge " + std::to_string(e.u) + "-" + std::to_string(e.v) + " lost"; break; }
                ob::Cost w; p2.getEdgeWeight(e.u, e.v, &w);
                auto *ec = dynamic_cast<const oc::PlannerDataEdgeControl *>(&p2.getEdge(e.u, e.v));
                if (w.value() != e.w) bad = "weight of edge " + std::to_string(e.u) + "-" + std::to_string(e.v) + ": stored " + std::to_string(e.w) + ", loaded " + std::to_string(w.value());
                else if (!ec) bad = "edge " + std::to_string(e.u) + "-" + std::to_string(e.v) + " lost its control";
                else if (ec->getDuration() != e.dur || ec->getControl()->as<oc::RealVectorControlSpace::ControlType>()->values[0] != e.c0 || ec->getControl()->as<oc::RealVectorControlSpace::ControlType>()->values[1] != e.c1) bad = "control or duration of edge " + std::to_string(e.u) + "-" + std::to_string(e.v) + " changed";
            }
            std::size_t accepted = 0;
            for (std::size_t k = 0; k < bytes.size(); k += 1 + bytes.size() / 97) { oc::PlannerData pp(csi); std::istringstream is(bytes.substr(0, k), std::ios::binary); if (pds.load(is, pp)) ++accepted; }
            if (bad.empty() && accepted > 0) bad = std::to_string(accepted) + " strict prefixes of the image were accepted";
            std::printf("cgraph %u %zu %s\n", p2.numVertices(), es.size(), bad.empty() ? "ok" : bad.c_str());
            for (auto *st : sts) sp2->freeState(st);
        }
        else if (op == "PARTIAL")
        {
            unsigned seed; in >> seed; auto rnd = [&seed]() { seed = seed * 1103515245u + 12345u; return (double)((seed >> 8) % 2001) / 100.0 - 10.0; };
            auto A = std::make_shared<ob::RealVectorStateSpace>(2); A->setBounds(-100, 100); A->setName("A");
            auto B = std::make_shared<ob::SO2StateSpace>(); B->setName("B");
            auto Dd = std::make_shared<ob::RealVectorStateSpace>(1); Dd->setBounds(-100, 100); Dd->setName("D");
            auto E = std::make_shared<ob::RealVectorStateSpace>(3); E->setBounds(-100, 100); E->setName("E");
            auto src = std::make_shared<ob::CompoundStateSpace>(); src->addSubspace(A, 1); src->addSubspace(B, 1); src->addSubspace(Dd, 1); src->setName("SRC"); src->lock();
            auto inner = std::make_shared<ob::CompoundStateSpace>(); inner->addSubspace(E, 1); inner->addSubspace(A, 1); inner->setName("IN"); inner->lock();
            auto dst = std::make_shared<ob::CompoundStateSpace>(); dst->addSubspace(B, 1); dst->addSubspace(inner, 1); dst->setName("DST"); dst->lock();
            ob::ScopedState<> s(src), d(dst); for (unsigned i = 0; i < 4; ++i) s[i] = rnd(); for (unsigned i = 0; i < 6; ++i) d[i] = rnd();
            std::vector<double> s0 = s.reals(), d0 = d.reals();
            int rc = ob::copyStateData(dst, d.get(), src, s.get());
            std::vector<double> d1 = d.reals();
            // dst reals: B(1) E(3) A(2); src reals: A(2) B(1) D(1)
            bool ok = d1[0] == s0[2] && d1[1] == d0[1] && d1[2] == d0[2] && d1[3] == d0[3] && d1[4] == s0[0] && d1[5] == s0[1];
            int rc2 = ob::copyStateData(src, s.get(), dst, d.get());   // back: A and B come back, D untouched
            std::vector<double> s1 = s.reals();
            bool ok2 = s1 == s0;
            std::printf("partial %d %d %d %d\n", rc, ok ? 1 : 0, rc2, ok2 ? 1 : 0);
        }
        else if (op == "COPY") try
        {   // COPY <dest tree> | <source tree> | <dest leaf values> | <source leaf values>     tree: L <name> | C <name> <k> tree*
            // leaves are 1-D real vector spaces named n<name>, compounds are named n<name>; prints: copy <0|1|2> | dest leaf values
            std::function<ob::StateSpacePtr()> parse = [&]() -> ob::StateSpacePtr
            {
                std::string t; in >> t;
                if (t == "L") { int n; in >> n; auto r = std::make_shared<ob::RealVectorStateSpace>(1); r->setBounds(-1e9, 1e9); r->setName("n" + std::to_string(n)); return r; }
                int n, k; in >> n >> k; auto c = std::make_shared<ob::CompoundStateSpace>();
                for (int i = 0; i < k; ++i) c->addSubspace(parse(), 1.0);
                c->setName("n" + std::to_string(n)); c->lock(); return c;
            };
            std::string bar;
            ob::StateSpacePtr dS = parse(); in >> bar; ob::StateSpacePtr sS = parse(); in >> bar; dS->setup(); sS->setup();
            ob::ScopedState<> d(dS), s2(sS);
            std::vector<double> dv(dS->getDimension()), sv(sS->getDimension());
            for (auto &v : dv) in >> v; in >> bar; for (auto &v : sv) in >> v;
            for (unsigned i = 0; i < dv.size(); ++i) d[i] = dv[i];
            for (unsigned i = 0; i < sv.size(); ++i) s2[i] = sv[i];
            ob::ScopedState<> d2(dS); for (unsigned i = 0; i < dv.size(); ++i) d2[i] = dv[i];
            int rc = ob::copyStateData(dS, d.get(), sS, s2.get());
            std::printf("copy %d |", rc == ob::NO_DATA_COPIED ? 0 : (rc == ob::SOME_DATA_COPIED ? 1 : 2));
            for (double v : d.reals()) std::printf(" %lld", (long long)v);
            // the other route: the list of common subspaces, then the copy restricted to that list
            std::vector<std::string> common; dS->getCommonSubspaces(sS, common);
            int rc2 = ob::copyStateData(dS, d2.get(), sS, s2.get(), common);
            std::printf(" # common %zu rc %d |", common.size(), rc2 == ob::NO_DATA_COPIED ? 0 : (rc2 == ob::SOME_DATA_COPIED ? 1 : 2));
            for (double v : d2.reals()) std::printf(" %lld", (long long)v);
            std::printf("\n");
        }
        catch (std::exception &ex) { std::printf("copy-exception %s\n", ex.what()); }
        std::fflush(stdout);
    }
    return 0;
}
