// C01 (RRT inside the model) implementation driver: geometric::RRT of /repo with scripted collaborators.
//   RRT <maxDistance> <goalBias> <threshold> <iters> <tapeSeed> W <nw> {w lo hi}* S <ns> {x y}* G <gx> <gy> P <np> {x y}*
//     space R^2 (bounds +-100); motion validator: a motion is invalid iff it touches one of the vertical walls x = w, lo <= y <= hi;
//     sampler: the scripted points in order, then (0,0); goal-bias draws from the RNG tape u_k = ((seed + 7k + 3k^2) mod 64)/64;
//     linear nearest-neighbour structure; IterationTerminationCondition(iters).
//   RRTN <maxDistance> <goalBias> <threshold> W .. S .. G .. C <ncalls> { <iters> <tapeSeed> P <np> {x y}* }*   several solve() calls on one planner
//   EST <maxDistance> <goalBias> <threshold> <iters> W .. S .. G <gx> <gy> T <nt> {u}* P <np> {x y | - -}*
//     geometric::EST: uniform01 draws from the tape T (or, with T -1 <localSeed>, from the planner's own generator reseeded with that
//     local seed: no hook involved), sampleNear results from P (- - = sampleNear fails), linear NN;
//     output "est <n>; x y p; ... | report | w0 w1 ..." (the PDF weight of every motion)
//   RRTS <maxDistance> <goalBias> <threshold> <work 0/1> <costThreshold> <rewireFactor> <iters> W .. S .. G <gx> <gy> T <nt> {u}* P <np> {x y}*
//     geometric::RRTstar (defaults: k-nearest, delayed collision checking), path length or mechanical-work objective;
//     output "rrts <n>; x y p inc cost; ... | report (approx diff stored optimized) | path"
//   output: one line "rrt <n>; x y p; ... | <reported 0/1> <approx> <diff> | x y; ..." with doubles as bit patterns
#define protected public
#include <ompl/geometric/planners/rrt/RRT.h>
#include <ompl/geometric/planners/rrt/RRTConnect.h>
#include <ompl/geometric/planners/rrt/LazyRRT.h>
#include <ompl/geometric/planners/rlrt/RLRT.h>
#include <ompl/geometric/planners/est/EST.h>
#include <ompl/geometric/planners/rrt/RRTstar.h>
#undef protected
#include <ompl/base/goals/GoalStates.h>
#include <ompl/base/spaces/RealVectorStateSpace.h>
#include <ompl/base/SpaceInformation.h>
#include <ompl/base/ProblemDefinition.h>
#include <ompl/base/MotionValidator.h>
#include <ompl/base/ValidStateSampler.h>
#include <ompl/base/objectives/PathLengthOptimizationObjective.h>
#include <ompl/base/objectives/MechanicalWorkOptimizationObjective.h>
#include <ompl/base/goals/GoalState.h>
#include <ompl/base/terminationconditions/IterationTerminationCondition.h>
#include <ompl/datastructures/NearestNeighborsLinear.h>
#include <ompl/geometric/PathGeometric.h>
#include <ompl/util/RandomNumbers.h>
#include <ompl/util/Console.h>
#include <cstring>
#include <deque>
#include <iostream>
#include <sstream>
#include <map>
namespace ob = ompl::base; namespace og = ompl::geometric;
static unsigned long long bits(double d) { unsigned long long b; std::memcpy(&b, &d, 8); return b; }
struct Wall { double w, lo, hi; };
static bool touches(const Wall &k, double ax, double ay, double bx, double by)
{
    if ((ax - k.w) * (bx - k.w) > 0.0) return false;
    if (ax == bx) return (ay <= by ? (ay <= k.hi && k.lo <= by) : (by <= k.hi && k.lo <= ay));
    double t = (k.w - ax) / (bx - ax); double y = ay + t * (by - ay);
    return k.lo <= y && y <= k.hi;
}
class WallMV : public ob::MotionValidator
{
public:
    WallMV(const ob::SpaceInformationPtr &si, std::vector<Wall> w) : ob::MotionValidator(si), walls(std::move(w)) {}
    std::vector<Wall> walls;
    bool checkMotion(const ob::State *a, const ob::State *b) const override
    {
        const double *p = a->as<ob::RealVectorStateSpace::StateType>()->values, *q = b->as<ob::RealVectorStateSpace::StateType>()->values;
        for (const auto &k : walls) if (touches(k, p[0], p[1], q[0], q[1])) return false;
        return true;
    }
    bool checkMotion(const ob::State *a, const ob::State *b, std::pair<ob::State *, double> &lv) const override { lv.second = 0.0; return checkMotion(a, b); }
};
class ScriptSampler : public ob::StateSampler
{
public:
    ScriptSampler(const ob::StateSpace *sp, std::shared_ptr<std::deque<std::pair<double, double>>> q) : ob::StateSampler(sp), q_(std::move(q)) {}
    std::shared_ptr<std::deque<std::pair<double, double>>> q_;
    void sampleUniform(ob::State *s) override
    {
        double x = 0, y = 0; if (!q_->empty()) { x = q_->front().first; y = q_->front().second; q_->pop_front(); }
        s->as<ob::RealVectorStateSpace::StateType>()->values[0] = x; s->as<ob::RealVectorStateSpace::StateType>()->values[1] = y;
    }
    void sampleUniformNear(ob::State *s, const ob::State *, double) override { sampleUniform(s); }
    void sampleGaussian(ob::State *s, const ob::State *, double) override { sampleUniform(s); }
};
// mechanical work over the potential 1 + 4 y, path-length weight 0.05 (a direction-dependent objective)
class SlopeWork2 : public ob::MechanicalWorkOptimizationObjective
{
public:
    SlopeWork2(const ob::SpaceInformationPtr &si) : ob::MechanicalWorkOptimizationObjective(si, 0.05) {}
    ob::Cost stateCost(const ob::State *s) const override { return ob::Cost(1.0 + 4.0 * s->as<ob::RealVectorStateSpace::StateType>()->values[1]); }
};
class ScriptVSS : public ob::ValidStateSampler
{
public:
    ScriptVSS(const ob::SpaceInformation *si, std::shared_ptr<std::deque<std::pair<bool, std::pair<double, double>>>> q) : ob::ValidStateSampler(si), q_(std::move(q)) {}
    std::shared_ptr<std::deque<std::pair<bool, std::pair<double, double>>>> q_;
    bool sample(ob::State *s) override { return sampleNear(s, nullptr, 0.0); }
    bool sampleNear(ob::State *s, const ob::State *, double) override
    {
        if (q_->empty()) return false;
        auto e = q_->front(); q_->pop_front(); if (!e.first) return false;
        s->as<ob::RealVectorStateSpace::StateType>()->values[0] = e.second.first; s->as<ob::RealVectorStateSpace::StateType>()->values[1] = e.second.second; return true;
    }
};
int main()
{
    ompl::msg::setLogLevel(ompl::msg::LOG_NONE);
    std::string line;
    while (std::getline(std::cin, line))
    {
        std::istringstream in(line); std::string cmd, tag; double maxd, bias, thr; unsigned iters = 0; unsigned long tseed = 0;
        if (!(in >> cmd)) continue;
        if (cmd == "RRTC" || cmd == "RRTCN")
        {   // RRTC <maxDistance> W <nw> {w lo hi}* S <ns> {x y}* G <ng> {x y}* P <np> {x y}*   RRTConnect, one iteration per scripted sample
            // RRTCN ... G <ng> {x y}* C <ncalls> { P <np> {x y}* }*                          several solve() calls on one planner
            double md; in >> md; int n2; std::vector<Wall> walls2; std::vector<std::pair<double, double>> st2, gl2;
            auto smp = std::make_shared<std::deque<std::pair<double, double>>>();
            in >> tag >> n2; for (int i = 0; i < n2; ++i) { Wall k; in >> k.w >> k.lo >> k.hi; walls2.push_back(k); }
            in >> tag >> n2; for (int i = 0; i < n2; ++i) { double x, y; in >> x >> y; st2.emplace_back(x, y); }
            in >> tag >> n2; for (int i = 0; i < n2; ++i) { double x, y; in >> x >> y; gl2.emplace_back(x, y); }
            std::vector<std::vector<std::pair<double, double>>> ccalls;
            if (cmd == "RRTCN") { int nc; in >> tag >> nc; for (int c = 0; c < nc; ++c) { ccalls.emplace_back(); in >> tag >> n2; for (int i = 0; i < n2; ++i) { double x, y; in >> x >> y; ccalls.back().emplace_back(x, y); } } }
            else { ccalls.emplace_back(); in >> tag >> n2; for (int i = 0; i < n2; ++i) { double x, y; in >> x >> y; ccalls.back().emplace_back(x, y); } }
            auto space = std::make_shared<ob::RealVectorStateSpace>(2); space->setBounds(-100, 100);
            space->setStateSamplerAllocator([smp](const ob::StateSpace *sp) { return std::make_shared<ScriptSampler>(sp, smp); });
            auto si = std::make_shared<ob::SpaceInformation>(space);
            si->setStateValidityChecker([](const ob::State *) { return true; });
            si->setMotionValidator(std::make_shared<WallMV>(si, walls2)); si->setup();
            auto pdef = std::make_shared<ob::ProblemDefinition>(si);
            for (auto &q : st2) { ob::ScopedState<> a(space); a[0] = q.first; a[1] = q.second; pdef->addStartState(a); }
            auto gs = std::make_shared<ob::GoalStates>(si);
            for (auto &q : gl2) { ob::ScopedState<> a(space); a[0] = q.first; a[1] = q.second; gs->addState(a); }
            pdef->setGoal(gs);
            auto planner = std::make_shared<og::RRTConnect>(si);
            planner->setNearestNeighbors<ompl::NearestNeighborsLinear>(); planner->setRange(md);
            planner->setProblemDefinition(pdef); planner->setup();
            std::vector<std::string> creps;
            for (auto &cc : ccalls)
            {
                smp->clear(); for (auto &q : cc) smp->push_back(q);
                pdef->clearSolutionPaths();
                planner->solve(ob::PlannerTerminationCondition([smp] { return smp->empty(); }));
                char buf[96]; std::string r;
                if (pdef->hasSolution())
                {
                    auto path = std::dynamic_pointer_cast<og::PathGeometric>(pdef->getSolutionPath());
                    if (pdef->hasApproximateSolution()) { std::snprintf(buf, sizeof buf, " | 1 1 %016llx |", bits(pdef->getSolutionDifference())); r += buf; } else r += " | 1 0 |";
                    for (std::size_t i = 0; i < path->getStateCount(); ++i) { const double *v = path->getState(i)->as<ob::RealVectorStateSpace::StateType>()->values; std::snprintf(buf, sizeof buf, " %016llx %016llx;", bits(v[0]), bits(v[1])); r += buf; }
                }
                else r = " | 0 |";
                creps.push_back(r);
            }
            auto dump = [&](const std::shared_ptr<ompl::NearestNeighbors<og::RRTConnect::Motion *>> &t)
            {
                std::vector<og::RRTConnect::Motion *> ms; t->list(ms);
                std::map<const og::RRTConnect::Motion *, long> idx; for (std::size_t i = 0; i < ms.size(); ++i) idx[ms[i]] = (long)i;
                std::printf(" %zu;", ms.size());
                for (auto *m : ms) { const double *v = m->state->as<ob::RealVectorStateSpace::StateType>()->values; std::printf(" %016llx %016llx %ld;", bits(v[0]), bits(v[1]), m->parent ? idx[m->parent] : -1L); }
            };
            std::printf("%s", cmd == "RRTCN" ? "rrtcn" : "rrtc"); dump(planner->tStart_); std::printf(" /"); dump(planner->tGoal_);
            for (auto &r : creps) std::printf("%s", r.c_str());
            std::printf("\n"); std::fflush(stdout);
            continue;
        }
        if (cmd == "RRTS" || cmd == "RRTSN")
        {   // RRTSN <maxDistance> <goalBias> <threshold> <work> <costThreshold> <rewireFactor> W .. S .. G .. C <ncalls> { <iters> T <nt> {u}* P <np> {x y}* }*
            const bool smulti = cmd == "RRTSN";
            int work = 0; double cthr = 0, rf = 1.1; in >> maxd >> bias >> thr >> work >> cthr >> rf; if (!smulti) in >> iters;
            std::vector<Wall> swalls; std::vector<std::pair<double, double>> sst; double sgx = 0, sgy = 0; int sn; std::vector<double> stape;
            auto sq = std::make_shared<std::deque<std::pair<double, double>>>();
            in >> tag >> sn; for (int i = 0; i < sn; ++i) { Wall k; in >> k.w >> k.lo >> k.hi; swalls.push_back(k); }
            in >> tag >> sn; for (int i = 0; i < sn; ++i) { double x, y; in >> x >> y; sst.emplace_back(x, y); }
            in >> tag >> sgx >> sgy;
            struct SCall { unsigned iters; std::vector<double> tape; std::vector<std::pair<double, double>> pts; }; std::vector<SCall> scalls;
            int snc = 1; if (smulti) in >> tag >> snc;
            for (int c = 0; c < snc; ++c)
            {
                SCall k; k.iters = iters; if (smulti) in >> k.iters;
                in >> tag >> sn; for (int i = 0; i < sn; ++i) { double u; in >> u; k.tape.push_back(u); }
                in >> tag >> sn; for (int i = 0; i < sn; ++i) { double x, y; in >> x >> y; k.pts.emplace_back(x, y); }
                scalls.push_back(k);
            }
            auto space = std::make_shared<ob::RealVectorStateSpace>(2); space->setBounds(-100, 100);
            space->setStateSamplerAllocator([sq](const ob::StateSpace *sp) { return std::make_shared<ScriptSampler>(sp, sq); });
            auto si = std::make_shared<ob::SpaceInformation>(space);
            si->setStateValidityChecker([](const ob::State *) { return true; });
            si->setMotionValidator(std::make_shared<WallMV>(si, swalls)); si->setup();
            auto pdef = std::make_shared<ob::ProblemDefinition>(si);
            for (auto &s : sst) { ob::ScopedState<> a(space); a[0] = s.first; a[1] = s.second; pdef->addStartState(a); }
            ob::ScopedState<> g(space); g[0] = sgx; g[1] = sgy; pdef->setGoalState(g, thr);
            ob::OptimizationObjectivePtr obj; if (work) obj = std::make_shared<SlopeWork2>(si); else obj = std::make_shared<ob::PathLengthOptimizationObjective>(si);
            obj->setCostThreshold(ob::Cost(cthr)); pdef->setOptimizationObjective(obj);
            auto sp = std::make_shared<og::RRTstar>(si);
            sp->setNearestNeighbors<ompl::NearestNeighborsLinear>(); sp->setRange(maxd); sp->setGoalBias(bias); sp->setRewireFactor(rf);
            sp->setProblemDefinition(pdef); sp->setup();
            std::vector<std::string> sreps;
            for (auto &k : scalls)
            {
                sq->clear(); for (auto &p : k.pts) sq->push_back(p);
                pdef->clearSolutionPaths();
                unsigned cnt = 0; const unsigned lim = k.iters;
                ompl::RNG::verifSetTape(k.tape.data(), k.tape.size());
                sp->solve(ob::PlannerTerminationCondition([&cnt, lim] { return cnt++ >= lim; }));
                ompl::RNG::verifSetTape(nullptr, 0);
                char buf[128]; std::string r;
                if (pdef->hasSolution())
                {
                    auto sols = pdef->getSolutions(); auto &top = sols[0];
                    auto path = std::dynamic_pointer_cast<og::PathGeometric>(top.path_);
                    std::snprintf(buf, sizeof buf, " | 1 %d %016llx %016llx %d |", top.approximate_ ? 1 : 0, bits(top.approximate_ ? top.difference_ : 0.0), bits(top.cost_.value()), top.optimized_ ? 1 : 0); r += buf;
                    for (std::size_t i = 0; i < path->getStateCount(); ++i) { const double *v = path->getState(i)->as<ob::RealVectorStateSpace::StateType>()->values; std::snprintf(buf, sizeof buf, " %016llx %016llx;", bits(v[0]), bits(v[1])); r += buf; }
                }
                else r = " | 0 |";
                sreps.push_back(r);
            }
            std::vector<og::RRTstar::Motion *> ms; sp->nn_->list(ms);
            std::map<const og::RRTstar::Motion *, long> idx; for (std::size_t i = 0; i < ms.size(); ++i) idx[ms[i]] = (long)i;
            std::printf("%s %zu;", smulti ? "rrtsn" : "rrts", ms.size());
            for (auto *m : ms) { const double *v = m->state->as<ob::RealVectorStateSpace::StateType>()->values; std::printf(" %016llx %016llx %ld %016llx %016llx;", bits(v[0]), bits(v[1]), m->parent ? idx[m->parent] : -1L, bits(m->incCost.value()), bits(m->cost.value())); }
            for (auto &r : sreps) std::printf("%s", r.c_str());
            std::printf("\n"); std::fflush(stdout);
            continue;
        }
        if (cmd == "EST")
        {
            in >> maxd >> bias >> thr >> iters;
            std::vector<Wall> ewalls; std::vector<std::pair<double, double>> est_starts; double egx = 0, egy = 0; int en; std::vector<double> etape;
            auto eq = std::make_shared<std::deque<std::pair<bool, std::pair<double, double>>>>();
            in >> tag >> en; for (int i = 0; i < en; ++i) { Wall k; in >> k.w >> k.lo >> k.hi; ewalls.push_back(k); }
            in >> tag >> en; for (int i = 0; i < en; ++i) { double x, y; in >> x >> y; est_starts.emplace_back(x, y); }
            in >> tag >> egx >> egy;
            unsigned long elocal = 0;      // T -1 <localSeed>: no tape, the planner's own generator reseeded with that local seed
            in >> tag >> en; const bool ereal = en < 0; if (ereal) in >> elocal; for (int i = 0; i < en; ++i) { double u; in >> u; etape.push_back(u); }
            in >> tag >> en; for (int i = 0; i < en; ++i) { std::string a, b; in >> a >> b; if (a == "-") eq->push_back({false, {0, 0}}); else eq->push_back({true, {std::strtod(a.c_str(), nullptr), std::strtod(b.c_str(), nullptr)}}); }
            auto space = std::make_shared<ob::RealVectorStateSpace>(2); space->setBounds(-100, 100);
            auto si = std::make_shared<ob::SpaceInformation>(space);
            si->setStateValidityChecker([](const ob::State *) { return true; });
            si->setMotionValidator(std::make_shared<WallMV>(si, ewalls));
            si->setValidStateSamplerAllocator([eq](const ob::SpaceInformation *s) { return std::make_shared<ScriptVSS>(s, eq); });
            si->setup();
            auto pdef = std::make_shared<ob::ProblemDefinition>(si);
            for (auto &s : est_starts) { ob::ScopedState<> a(space); a[0] = s.first; a[1] = s.second; pdef->addStartState(a); }
            ob::ScopedState<> g(space); g[0] = egx; g[1] = egy; pdef->setGoalState(g, thr);
            auto ep = std::make_shared<og::EST>(si);
            ep->nn_ = std::make_shared<ompl::NearestNeighborsLinear<og::EST::Motion *>>();
            ep->setRange(maxd); ep->setGoalBias(bias); ep->setProblemDefinition(pdef); ep->setup();
            unsigned cnt = 0; const unsigned lim = iters;
            if (ereal) ep->rng_.setLocalSeed(elocal); else ompl::RNG::verifSetTape(etape.data(), etape.size());
            ep->solve(ob::PlannerTerminationCondition([&cnt, lim] { return cnt++ >= lim; }));
            std::size_t used = ompl::RNG::verifTapeUsed();
            ompl::RNG::verifSetTape(nullptr, 0);
            auto &ms = ep->motions_;
            std::map<const og::EST::Motion *, long> idx; for (std::size_t i = 0; i < ms.size(); ++i) idx[ms[i]] = (long)i;
            std::printf("est %zu;", ms.size());
            for (auto *m : ms) { const double *v = m->state->as<ob::RealVectorStateSpace::StateType>()->values; std::printf(" %016llx %016llx %ld;", bits(v[0]), bits(v[1]), m->parent ? idx[m->parent] : -1L); }
            if (pdef->hasSolution())
            {
                auto path = std::dynamic_pointer_cast<og::PathGeometric>(pdef->getSolutionPath());
                std::printf(" | 1 %d %016llx |", pdef->hasApproximateSolution() ? 1 : 0, bits(pdef->getSolutionDifference()));
                for (std::size_t i = 0; i < path->getStateCount(); ++i) { const double *v = path->getState(i)->as<ob::RealVectorStateSpace::StateType>()->values; std::printf(" %016llx %016llx;", bits(v[0]), bits(v[1])); }
            }
            else std::printf(" | 0 |");
            std::printf(" |"); for (auto *m : ms) std::printf(" %016llx", bits(ep->pdf_.getWeight(m->element)));
            std::printf(" | used %zu of %zu, samples left %zu\n", used, etape.size(), eq->size()); std::fflush(stdout);
            continue;
        }
        const bool multi = cmd == "RRTN"; const bool lazy = cmd == "LRRT"; const bool rl = cmd == "RLRT";
        if (cmd != "RRT" && !multi && !lazy && !rl) continue;
        in >> maxd >> bias >> thr; if (!multi) in >> iters >> tseed;
        std::vector<Wall> walls; std::vector<std::pair<double, double>> starts; double gx = 0, gy = 0;
        auto samples = std::make_shared<std::deque<std::pair<double, double>>>();
        int n;
        in >> tag >> n; for (int i = 0; i < n; ++i) { Wall k; in >> k.w >> k.lo >> k.hi; walls.push_back(k); }
        in >> tag >> n; for (int i = 0; i < n; ++i) { double x, y; in >> x >> y; starts.emplace_back(x, y); }
        in >> tag >> gx >> gy;
        struct Call { unsigned iters; unsigned long tseed; std::vector<std::pair<double, double>> pts; };
        std::vector<Call> calls;
        if (multi)
        {   // C <ncalls> { <iters> <tapeSeed> P <np> {x y}* }*
            int nc; in >> tag >> nc;
            for (int c = 0; c < nc; ++c) { Call k; in >> k.iters >> k.tseed >> tag >> n; for (int i = 0; i < n; ++i) { double x, y; in >> x >> y; k.pts.emplace_back(x, y); } calls.push_back(k); }
        }
        else { Call k; k.iters = iters; k.tseed = tseed; in >> tag >> n; for (int i = 0; i < n; ++i) { double x, y; in >> x >> y; k.pts.emplace_back(x, y); } calls.push_back(k); }
        auto space = std::make_shared<ob::RealVectorStateSpace>(2); space->setBounds(-100, 100);
        space->setStateSamplerAllocator([samples](const ob::StateSpace *sp) { return std::make_shared<ScriptSampler>(sp, samples); });
        auto si = std::make_shared<ob::SpaceInformation>(space);
        si->setStateValidityChecker([](const ob::State *) { return true; });
        si->setMotionValidator(std::make_shared<WallMV>(si, walls)); si->setup();
        auto pdef = std::make_shared<ob::ProblemDefinition>(si);
        for (auto &s : starts) { ob::ScopedState<> a(space); a[0] = s.first; a[1] = s.second; pdef->addStartState(a); }
        ob::ScopedState<> g(space); g[0] = gx; g[1] = gy; pdef->setGoalState(g, thr);
        if (lazy)
        {   // LRRT: same line format as RRT, the planner is LazyRRT; nodes are printed with their validated flag
            auto lp = std::make_shared<og::LazyRRT>(si);
            lp->setNearestNeighbors<ompl::NearestNeighborsLinear>(); lp->setRange(maxd); lp->setGoalBias(bias);
            lp->setProblemDefinition(pdef); lp->setup();
            samples->clear(); for (auto &p : calls[0].pts) samples->push_back(p);
            std::vector<double> tape; for (unsigned long q = 0; q < (unsigned long)calls[0].iters + 8; ++q) tape.push_back((double)((calls[0].tseed + 7 * q + 3 * q * q) % 64) / 64.0);
            ob::IterationTerminationCondition itc(calls[0].iters);
            ompl::RNG::verifSetTape(tape.data(), tape.size());
            lp->solve(ob::PlannerTerminationCondition(itc));
            ompl::RNG::verifSetTape(nullptr, 0);
            std::vector<og::LazyRRT::Motion *> ms; lp->nn_->list(ms);
            std::map<const og::LazyRRT::Motion *, long> idx; for (std::size_t i = 0; i < ms.size(); ++i) idx[ms[i]] = (long)i;
            std::printf("lrrt %zu;", ms.size());
            for (auto *m : ms) { const double *v = m->state->as<ob::RealVectorStateSpace::StateType>()->values; std::printf(" %016llx %016llx %ld %d;", bits(v[0]), bits(v[1]), m->parent ? idx[m->parent] : -1L, m->valid ? 1 : 0); }
            if (pdef->hasSolution())
            {
                auto path = std::dynamic_pointer_cast<og::PathGeometric>(pdef->getSolutionPath());
                std::printf(" | 1 %d |", pdef->hasApproximateSolution() ? 1 : 0);
                for (std::size_t i = 0; i < path->getStateCount(); ++i) { const double *v = path->getState(i)->as<ob::RealVectorStateSpace::StateType>()->values; std::printf(" %016llx %016llx;", bits(v[0]), bits(v[1])); }
            }
            else std::printf(" | 0 |");
            std::printf("\n"); std::fflush(stdout);
            continue;
        }
        if (rl)
        {   // RLRT: same line format as RRT; per iteration the tape gives the variate that picks the node, then the goal-bias variate
            auto rp = std::make_shared<og::RLRT>(si);
            rp->setRange(maxd); rp->setGoalBias(bias); rp->setKeepLast(false);
            rp->setProblemDefinition(pdef); rp->setup();
            samples->clear(); for (auto &p : calls[0].pts) samples->push_back(p);
            std::vector<double> tape; for (unsigned long q = 0; q < 2 * (unsigned long)calls[0].iters + 8; ++q) tape.push_back((double)((calls[0].tseed + 7 * q + 3 * q * q) % 64) / 64.0);
            ob::IterationTerminationCondition itc(calls[0].iters);
            ompl::RNG::verifSetTape(tape.data(), tape.size());
            rp->solve(ob::PlannerTerminationCondition(itc));
            ompl::RNG::verifSetTape(nullptr, 0);
            auto &ms = rp->motions_;
            std::map<const og::RLRT::Motion *, long> idx; for (std::size_t i = 0; i < ms.size(); ++i) idx[ms[i]] = (long)i;
            std::printf("rlrt %zu;", ms.size());
            for (auto *m : ms) { const double *v = m->state->as<ob::RealVectorStateSpace::StateType>()->values; std::printf(" %016llx %016llx %ld;", bits(v[0]), bits(v[1]), m->parent ? idx[m->parent] : -1L); }
            if (pdef->hasSolution())
            {
                auto path = std::dynamic_pointer_cast<og::PathGeometric>(pdef->getSolutionPath());
                std::printf(" | 1 %d %016llx |", pdef->hasApproximateSolution() ? 1 : 0, bits(pdef->getSolutionDifference()));
                for (std::size_t i = 0; i < path->getStateCount(); ++i) { const double *v = path->getState(i)->as<ob::RealVectorStateSpace::StateType>()->values; std::printf(" %016llx %016llx;", bits(v[0]), bits(v[1])); }
            }
            else std::printf(" | 0 |");
            std::printf("\n"); std::fflush(stdout);
            continue;
        }
        auto planner = std::make_shared<og::RRT>(si);
        planner->setNearestNeighbors<ompl::NearestNeighborsLinear>();
        planner->setRange(maxd); planner->setGoalBias(bias);
        planner->setProblemDefinition(pdef); planner->setup();
        std::vector<std::string> reports;
        for (const auto &k : calls)
        {
            samples->clear(); for (auto &p : k.pts) samples->push_back(p);
            pdef->clearSolutionPaths();       // so that the report of this call can be told apart
            std::vector<double> tape; for (unsigned long q = 0; q < (unsigned long)k.iters + 8; ++q) tape.push_back((double)((k.tseed + 7 * q + 3 * q * q) % 64) / 64.0);
            ob::IterationTerminationCondition itc(k.iters);
            ompl::RNG::verifSetTape(tape.data(), tape.size());
            planner->solve(ob::PlannerTerminationCondition(itc));
            ompl::RNG::verifSetTape(nullptr, 0);
            char buf[96]; std::string r;
            if (pdef->hasSolution())
            {
                auto path = std::dynamic_pointer_cast<og::PathGeometric>(pdef->getSolutionPath());
                std::snprintf(buf, sizeof buf, " | 1 %d %016llx |", pdef->hasApproximateSolution() ? 1 : 0, bits(pdef->getSolutionDifference())); r += buf;
                for (std::size_t i = 0; i < path->getStateCount(); ++i) { const double *v = path->getState(i)->as<ob::RealVectorStateSpace::StateType>()->values; std::snprintf(buf, sizeof buf, " %016llx %016llx;", bits(v[0]), bits(v[1])); r += buf; }
            }
            else r = " | 0 |";
            reports.push_back(r);
        }
        std::vector<og::RRT::Motion *> ms; planner->nn_->list(ms);
        std::map<const og::RRT::Motion *, long> idx; for (std::size_t i = 0; i < ms.size(); ++i) idx[ms[i]] = (long)i;
        std::printf("%s %zu;", multi ? "rrtn" : "rrt", ms.size());
        for (auto *m : ms) { const double *v = m->state->as<ob::RealVectorStateSpace::StateType>()->values; std::printf(" %016llx %016llx %ld;", bits(v[0]), bits(v[1]), m->parent ? idx[m->parent] : -1L); }
        for (auto &r : reports) std::printf("%s", r.c_str());
        std::printf("\n"); std::fflush(stdout);
    }
    return 0;
}
