// C19 implementation driver: stress of the documented thread-safe surface of /repo.
//   COUNT <threads> <calls per thread> <seed>       concurrent checkMotion / isValid through one SpaceInformation:
//                                                    counters vs calls made, verdicts vs sequential verdicts
//   GNAT <threads> <queries per thread> <n> <seed>  concurrent nearest / nearestK / nearestR on a shared NearestNeighborsGNAT vs sequential answers
//   RNGS <threads> <per thread> <seed>              concurrent creation of ompl::RNG: local seeds all distinct and the same set as a sequential run
//   SPACES <threads> <per thread>                   concurrent creation / destruction of state spaces (name registry)
//   PDEF <threads> <per thread>                     concurrent addSolutionPath / getSolutions / hasSolution on one ProblemDefinition
//   PTC <repeats>                                   terminate() from another thread stops a waiting evaluation loop
//   LOG <threads> <per thread>                      concurrent OMPL_INFORM through a counting output handler
// each prints one line "<op> ok|FAIL <details>"
#include "planning_common.h"
#include <ompl/datastructures/NearestNeighborsGNAT.h>
#include <ompl/base/PlannerTerminationCondition.h>
#include <thread>
#include <chrono>

class CountingHandler : public ompl::msg::OutputHandler
{
public:
    void log(const std::string &text, ompl::msg::LogLevel, const char *, int) override { ++n; bytes += text.size(); }   // called under the library's lock
    long n = 0, bytes = 0;
};
int main()
{
    ompl::msg::setLogLevel(ompl::msg::LOG_NONE);
    std::string line;
    while (std::getline(std::cin, line))
    {
        std::istringstream in(line); std::string op; if (!(in >> op)) continue;
        try
        {
            if (op == "COUNT")
            {
                int T, N; unsigned seed; in >> T >> N >> seed;
                World w = make_world("R2", "boxes3", 0.01); w.mv->logging = false;
                // the library's own validator (not the logging wrapper): its counters are what the property names
                auto dmv = std::make_shared<ob::DiscreteMotionValidator>(w.si); w.si->setMotionValidator(dmv); w.si->setup();
                std::mt19937 g(seed); std::uniform_real_distribution<double> u(0, 1);
                std::vector<ob::State *> st; for (int i = 0; i < 64; ++i) { ob::State *s = w.space->allocState(); set_pos(w, s, u(g), u(g), 0); st.push_back(s); }
                std::vector<char> seq(64 * 64); for (int i = 0; i < 64; ++i) for (int j = 0; j < 64; ++j) seq[i * 64 + j] = w.si->checkMotion(st[i], st[j]);
                w.si->getMotionValidator()->resetMotionCounter();
                std::atomic<long> mism{0}, valid{0}; std::vector<std::thread> th;
                for (int t = 0; t < T; ++t) th.emplace_back([&, t]() { std::mt19937 h(seed + 17 * t); for (int k = 0; k < N; ++k) { int i = h() % 64, j = h() % 64; bool r = w.si->checkMotion(st[i], st[j]); if (r != (bool)seq[i * 64 + j]) ++mism; if (r) ++valid; } });
                for (auto &x : th) x.join();
                long checked = w.si->getMotionValidator()->getCheckedMotionCount(), v = w.si->getMotionValidator()->getValidMotionCount(), iv = w.si->getMotionValidator()->getInvalidMotionCount();
                bool ok = checked == (long)T * N && v == valid && iv == (long)T * N - valid && mism == 0;
                std::printf("COUNT %s calls %ld counted %ld valid %ld/%ld invalid %ld verdict-mismatches %ld\n", ok ? "ok" : "FAIL", (long)T * N, checked, v, (long)valid, iv, (long)mism);
                for (auto *s : st) w.space->freeState(s);
            }
            else if (op == "GNAT")
            {
                int T, Q, n; unsigned seed; in >> T >> Q >> n >> seed;
                typedef std::array<double, 3> P3; ompl::NearestNeighborsGNAT<P3> nn;
                nn.setDistanceFunction([](const P3 &a, const P3 &b) { return std::sqrt((a[0] - b[0]) * (a[0] - b[0]) + (a[1] - b[1]) * (a[1] - b[1]) + (a[2] - b[2]) * (a[2] - b[2])); });
                std::mt19937 g(seed); std::uniform_int_distribution<int> u(0, 40);
                for (int i = 0; i < n; ++i) nn.add(P3{(double)u(g), (double)u(g), (double)u(g)});
                std::vector<P3> qs; for (int i = 0; i < 256; ++i) qs.push_back(P3{(double)u(g), (double)u(g), (double)u(g)});
                auto key = [](const std::vector<P3> &v) { std::vector<P3> c = v; std::sort(c.begin(), c.end()); return c; };
                std::vector<std::vector<P3>> seqK(256), seqR(256); std::vector<P3> seqN(256);
                for (int i = 0; i < 256; ++i) { seqN[i] = nn.nearest(qs[i]); std::vector<P3> a, b; nn.nearestK(qs[i], 7, a); nn.nearestR(qs[i], 6.0, b); seqK[i] = a; seqR[i] = key(b); }
                auto dist = [](const P3 &a, const P3 &b) { return std::sqrt((a[0] - b[0]) * (a[0] - b[0]) + (a[1] - b[1]) * (a[1] - b[1]) + (a[2] - b[2]) * (a[2] - b[2])); };
                std::atomic<long> bad{0}; std::vector<std::thread> th;
                for (int t = 0; t < T; ++t) th.emplace_back([&, t]() { std::mt19937 h(seed + 31 * t); for (int k = 0; k < Q; ++k) { int i = h() % 256; std::vector<P3> a, b;
                        P3 nr = nn.nearest(qs[i]); if (dist(nr, qs[i]) != dist(seqN[i], qs[i])) ++bad;
                        nn.nearestK(qs[i], 7, a); if (a.size() != seqK[i].size()) ++bad; else for (std::size_t z = 0; z < a.size(); ++z) if (dist(a[z], qs[i]) != dist(seqK[i][z], qs[i])) { ++bad; break; }
                        nn.nearestR(qs[i], 6.0, b); if (key(b) != seqR[i]) ++bad; } });
                for (auto &x : th) x.join();
                std::printf("GNAT %s queries %ld answers-differing-from-sequential %ld\n", bad == 0 ? "ok" : "FAIL", (long)T * Q * 3, (long)bad);
            }
            else if (op == "RNGS")
            {
                int T, N; unsigned seed; in >> T >> N >> seed;
                ompl::RNG::setSeed(seed); std::vector<std::uint_fast32_t> seqs; for (int i = 0; i < T * N; ++i) { ompl::RNG r; seqs.push_back(r.getLocalSeed()); }
                ompl::RNG::setSeed(seed); std::vector<std::vector<std::uint_fast32_t>> per(T); std::vector<std::thread> th;
                for (int t = 0; t < T; ++t) th.emplace_back([&, t]() { for (int k = 0; k < N; ++k) { ompl::RNG r; per[t].push_back(r.getLocalSeed()); } });
                for (auto &x : th) x.join();
                std::vector<std::uint_fast32_t> all; for (auto &v : per) all.insert(all.end(), v.begin(), v.end());
                std::sort(all.begin(), all.end()); std::sort(seqs.begin(), seqs.end());
                bool ok = all == seqs;
                std::printf("RNGS %s generators %d same-multiset-as-sequential %d\n", ok ? "ok" : "FAIL", T * N, ok ? 1 : 0);
            }
            else if (op == "SPACES")
            {
                int T, N; in >> T >> N; std::atomic<long> bad{0}; std::vector<std::thread> th; std::vector<std::vector<std::string>> names(T);
                for (int t = 0; t < T; ++t) th.emplace_back([&, t]() { for (int k = 0; k < N; ++k) { auto a = std::make_shared<ob::RealVectorStateSpace>(2); auto b = std::make_shared<ob::SE2StateSpace>(); names[t].push_back(a->getName()); names[t].push_back(b->getName());
                        auto c = std::make_shared<ob::CompoundStateSpace>(); c->addSubspace(a, 1.0); c->addSubspace(b, 0.5); c->lock(); if (c->getSubspaceCount() != 2) ++bad; std::vector<ob::StateSpacePtr> tmp{a, b, c}; } });
                for (auto &x : th) x.join();
                std::set<std::string> uniq; long total = 0; for (auto &v : names) for (auto &s : v) { uniq.insert(s); ++total; }
                std::printf("SPACES %s created %ld distinct-names %zu bad %ld\n", (bad == 0 && (long)uniq.size() == total) ? "ok" : "FAIL", total, uniq.size(), (long)bad);
            }
            else if (op == "PDEF")
            {
                int T, N; in >> T >> N; World w = make_world("R2", "empty", 0.01);
                ob::State *a = w.space->allocState(), *b = w.space->allocState(); set_pos(w, a, 0.1, 0.1, 0); set_pos(w, b, 0.9, 0.9, 0);
                auto pdef = std::make_shared<ob::ProblemDefinition>(w.si); pdef->addStartState(a); pdef->setGoalState(b, 0.05);
                std::atomic<long> bad{0}; std::vector<std::thread> th;
                for (int t = 0; t < T; ++t) th.emplace_back([&, t]() { for (int k = 0; k < N; ++k) {
                        auto p = std::make_shared<og::PathGeometric>(w.si, a, b); ob::State *m = w.space->allocState(); set_pos(w, m, 0.5, 0.1 + 0.8 * ((t * N + k) % 97) / 97.0, 0); p->getStates().insert(p->getStates().begin() + 1, m);
                        pdef->addSolutionPath(p, (k % 3) == 0, 0.01 * (k % 7), "t" + std::to_string(t));
                        auto sols = pdef->getSolutions(); for (std::size_t z = 1; z < sols.size(); ++z) if (sols[z] < sols[z - 1]) { ++bad; break; }
                        if (!pdef->hasSolution() || !pdef->getSolutionPath()) ++bad; } });
                for (auto &x : th) x.join();
                bool ok = bad == 0 && pdef->getSolutionCount() == (std::size_t)T * N;
                std::printf("PDEF %s added %d held %zu unsorted-or-missing %ld\n", ok ? "ok" : "FAIL", T * N, pdef->getSolutionCount(), (long)bad);
                w.space->freeState(a); w.space->freeState(b);
            }
            else if (op == "PTC")
            {
                int R; in >> R; long bad = 0;
                for (int r = 0; r < R; ++r)
                {
                    ob::PlannerTerminationCondition ptc([] { return false; }); std::atomic<long> evals{0}; std::atomic<bool> done{false};
                    std::thread worker([&]() { while (!ptc) ++evals; done = true; });
                    std::this_thread::sleep_for(std::chrono::microseconds(200 + 37 * (r % 11)));
                    ptc.terminate();
                    auto t0 = std::chrono::steady_clock::now();
                    while (!done && std::chrono::duration<double>(std::chrono::steady_clock::now() - t0).count() < 2.0) std::this_thread::yield();
                    if (!done) { ++bad; std::printf("PTC FAIL worker still running 2 s after terminate()\n"); std::fflush(stdout); std::_Exit(0); }
                    worker.join(); if (!ptc) ++bad;
                }
                // conditions with an evaluation thread (period > 0) and a predicate that takes a while: terminate() from other threads at
                // varying offsets (so that it lands while the evaluation thread is inside the predicate); once terminate() has returned,
                // every eval() must be true, for good
                long pbad = 0, polls = 0;
                for (int r = 0; r < std::max(4, R / 25); ++r)
                {
                    const int fn_us = (r % 3 == 0) ? 0 : (r % 3 == 1 ? 3000 : 8000);
                    ob::PlannerTerminationCondition ptc([fn_us] { if (fn_us) std::this_thread::sleep_for(std::chrono::microseconds(fn_us)); return false; }, 0.001);
                    if (ptc.eval()) ++pbad;
                    std::this_thread::sleep_for(std::chrono::microseconds(500 + 1700 * (r % 7)));
                    std::vector<std::thread> ts; std::atomic<long> after_false{0};
                    for (int t = 0; t < 1 + r % 3; ++t)
                        ts.emplace_back([&]() { ptc.terminate(); for (int i = 0; i < 40; ++i) { if (!ptc.eval()) ++after_false; std::this_thread::sleep_for(std::chrono::microseconds(300)); } });
                    for (auto &t : ts) t.join();
                    polls += 40 * (long)ts.size();
                    if (after_false > 0 || !ptc.eval()) { ++pbad; std::printf("PTC FAIL periodic condition (predicate %d us): eval() false in %ld polls after terminate() returned; final %d\n", fn_us, (long)after_false, ptc.eval() ? 1 : 0); }
                }
                bad += pbad;
                std::printf("PTC %s repeats %d not-terminated %ld periodic-polls %ld\n", bad == 0 ? "ok" : "FAIL", R, bad, polls);
            }
            else if (op == "LOG")
            {
                int T, N; in >> T >> N; CountingHandler h; ompl::msg::useOutputHandler(&h); ompl::msg::setLogLevel(ompl::msg::LOG_INFO);
                std::vector<std::thread> th; for (int t = 0; t < T; ++t) th.emplace_back([&, t]() { for (int k = 0; k < N; ++k) OMPL_INFORM("thread %d message %d", t, k); });
                for (auto &x : th) x.join();
                ompl::msg::setLogLevel(ompl::msg::LOG_NONE); ompl::msg::restorePreviousOutputHandler();
                std::printf("LOG %s messages %d handled %ld\n", h.n == (long)T * N ? "ok" : "FAIL", T * N, h.n);
            }
        }
        catch (std::exception &ex) { std::printf("%s FAIL exception %s\n", op.c_str(), ex.what()); }
        std::fflush(stdout);
    }
    return 0;
}
