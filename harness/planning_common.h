// Shared planning-harness pieces (C01, C03, C17, C19): environments, spaces, logging collaborators, fact extraction.
#pragma once
#include <ompl/base/SpaceInformation.h>
#include <ompl/base/ProblemDefinition.h>
#include <ompl/base/DiscreteMotionValidator.h>
#include <ompl/base/goals/GoalState.h>
#include <ompl/base/spaces/RealVectorStateSpace.h>
#include <ompl/base/spaces/SO2StateSpace.h>
#include <ompl/base/spaces/SE2StateSpace.h>
#include <ompl/base/spaces/SE3StateSpace.h>
#include <ompl/base/spaces/DubinsStateSpace.h>
#include <ompl/base/spaces/ReedsSheppStateSpace.h>
#include <ompl/base/terminationconditions/IterationTerminationCondition.h>
#include <ompl/geometric/PathGeometric.h>
#include <ompl/util/RandomNumbers.h>
#include <ompl/util/Console.h>
#include <array>
#include <atomic>
#include <cmath>
#include <cstring>
#include <iostream>
#include <map>
#include <mutex>
#include <set>
#include <sstream>
#include <random>
namespace ob = ompl::base;
namespace og = ompl::geometric;

struct Env
{
    std::vector<std::array<double, 4>> boxes;    // xmin ymin xmax ymax (in the unit square)
    std::vector<std::array<double, 3>> circles;  // cx cy r
    bool free(double x, double y) const
    {
        for (auto &b : boxes) if (x >= b[0] && x <= b[2] && y >= b[1] && y <= b[3]) return false;
        for (auto &c : circles) if ((x - c[0]) * (x - c[0]) + (y - c[1]) * (y - c[1]) <= c[2] * c[2]) return false;
        return true;
    }
};
// layouts in the unit square; start region around (0.1, 0.5) and (0.1,0.1), goal around (0.9,0.5) and (0.9,0.9) are kept free
static Env make_env(const std::string &name, double reslen)
{
    Env e;
    if (name == "empty") return e;
    if (name == "gap") { e.boxes.push_back({0.48, 0.0, 0.52, 0.44}); e.boxes.push_back({0.48, 0.56, 0.52, 1.0}); return e; }
    if (name == "thin") { e.boxes.push_back({0.5, 0.25, 0.5 + 1.3 * reslen, 1.0}); return e; }       // thin wall, open below
    if (name == "thin2") { e.boxes.push_back({0.5, 0.0, 0.5 + 1.3 * reslen, 0.75}); e.boxes.push_back({0.3, 0.3, 0.3 + 1.1 * reslen, 1.0}); return e; }
    if (name == "blocked") { e.boxes.push_back({0.5, 0.0, 0.5 + 2.6 * reslen, 1.0}); return e; }    // no solution exists
    if (name.rfind("blockedw", 0) == 0) { double k = std::atoi(name.c_str() + 8) / 10.0; e.boxes.push_back({0.5, 0.0, 0.5 + k * reslen, 1.0}); return e; }   // full-height wall, k/10 resolution lengths wide
    if (name.rfind("boxes", 0) == 0 || name.rfind("circles", 0) == 0)
    {
        bool bx = name[0] == 'b'; unsigned seed = std::atoi(name.c_str() + (bx ? 5 : 7));
        std::mt19937 g(seed * 7919u + 13u); std::uniform_real_distribution<double> u(0, 1);
        for (int i = 0; i < 14; ++i)
        {
            double cx = 0.2 + 0.6 * u(g), cy = u(g), w = 0.03 + 0.12 * u(g), h = 0.03 + 0.2 * u(g);
            if (bx) e.boxes.push_back({cx - w / 2, cy - h / 2, cx + w / 2, cy + h / 2}); else e.circles.push_back({cx, cy, 0.02 + 0.07 * u(g)});
        }
        return e;
    }
    throw std::runtime_error("unknown env " + name);
}

static std::string key_of(const ob::StateSpace *sp, const ob::State *s)
{
    std::vector<double> r; sp->copyToReals(r, s);
    return std::string(reinterpret_cast<const char *>(r.data()), r.size() * sizeof(double));
}

// validity = position (first two reals) free in the environment; counts calls
class EnvChecker : public ob::StateValidityChecker
{
public:
    EnvChecker(const ob::SpaceInformationPtr &si, Env env) : ob::StateValidityChecker(si), env_(std::move(env)) {}
    bool isValid(const ob::State *s) const override
    {
        ++calls; std::vector<double> r; si_->getStateSpace()->copyToReals(r, s);
        for (double v : r) if (!std::isfinite(v)) return false;
        return env_.free(r[0], r[1]);
    }
    mutable std::atomic<long> calls{0};
    Env env_;
};
// logging motion validator: the library's DiscreteMotionValidator, recording every accepted (s1, s2)
class LoggingMotionValidator : public ob::MotionValidator
{
public:
    LoggingMotionValidator(const ob::SpaceInformationPtr &si) : ob::MotionValidator(si), dmv_(si) {}
    bool checkMotion(const ob::State *a, const ob::State *b) const override
    {
        bool r = dmv_.checkMotion(a, b); ++queries;
        if (r && logging) { std::lock_guard<std::mutex> l(m_); accepted.insert(key_of(si_->getStateSpace().get(), a) + "|" + key_of(si_->getStateSpace().get(), b)); }
        return r;
    }
    bool checkMotion(const ob::State *a, const ob::State *b, std::pair<ob::State *, double> &lv) const override
    {
        bool r = dmv_.checkMotion(a, b, lv); ++queries;
        if (r && logging) { std::lock_guard<std::mutex> l(m_); accepted.insert(key_of(si_->getStateSpace().get(), a) + "|" + key_of(si_->getStateSpace().get(), b)); }
        return r;
    }
    bool was_accepted(const ob::State *a, const ob::State *b) const
    { std::lock_guard<std::mutex> l(m_); return accepted.count(key_of(si_->getStateSpace().get(), a) + "|" + key_of(si_->getStateSpace().get(), b)) > 0; }
    mutable std::set<std::string> accepted; mutable std::mutex m_; mutable std::atomic<long> queries{0}; bool logging = true;
    ob::DiscreteMotionValidator dmv_;
};

// allocation-counting spaces (C03): live = allocState calls - freeState calls
static std::atomic<long> g_live{0}, g_allocs{0}; static std::atomic<bool> g_negative{false};
template <class Base> class Counting : public Base
{
public:
    using Base::Base;
    ob::State *allocState() const override { ++g_live; ++g_allocs; return Base::allocState(); }
    void freeState(ob::State *s) const override { if (--g_live < 0) g_negative = true; Base::freeState(s); }
};
static bool g_counting = false;

struct World
{
    ob::StateSpacePtr space; ob::SpaceInformationPtr si; std::shared_ptr<EnvChecker> chk; std::shared_ptr<LoggingMotionValidator> mv;
    double reslen = 0; std::string spname;
};
static ob::StateSpacePtr make_space(const std::string &n)
{
    ob::RealVectorBounds b2(2); b2.setLow(0); b2.setHigh(1);
    if (g_counting && n == "R2") { auto s = std::make_shared<Counting<ob::RealVectorStateSpace>>(2); s->setBounds(b2); return s; }
    if (g_counting && n == "R3") { auto s = std::make_shared<Counting<ob::RealVectorStateSpace>>(3); s->setBounds(0, 1); return s; }
    if (g_counting && n == "SE2") { auto s = std::make_shared<Counting<ob::SE2StateSpace>>(); s->setBounds(b2); return s; }
    if (n == "R2") { auto s = std::make_shared<ob::RealVectorStateSpace>(2); s->setBounds(b2); return s; }
    if (n == "R3") { auto s = std::make_shared<ob::RealVectorStateSpace>(3); s->setBounds(0, 1); return s; }
    if (n == "R6") { auto s = std::make_shared<ob::RealVectorStateSpace>(6); s->setBounds(0, 1); return s; }
    if (n == "SE2") { auto s = std::make_shared<ob::SE2StateSpace>(); s->setBounds(b2); return s; }
    if (n == "SE3") { auto s = std::make_shared<ob::SE3StateSpace>(); ob::RealVectorBounds b3(3); b3.setLow(0); b3.setHigh(1); s->setBounds(b3); return s; }
    if (n == "DUBINS") { auto s = std::make_shared<ob::DubinsStateSpace>(0.08); s->setBounds(b2); return s; }
    if (n == "RS") { auto s = std::make_shared<ob::ReedsSheppStateSpace>(0.08); s->setBounds(b2); return s; }
    if (n == "CMP")
    {
        auto c = std::make_shared<ob::CompoundStateSpace>(); auto r = std::make_shared<ob::RealVectorStateSpace>(2); r->setBounds(b2);
        c->addSubspace(r, 1.0); c->addSubspace(std::make_shared<ob::SO2StateSpace>(), 0.25); c->lock(); return c;
    }
    throw std::runtime_error("unknown space " + n);
}
static World make_world(const std::string &spname, const std::string &envname, double resolution)
{
    World w; w.spname = spname; w.space = make_space(spname); w.si = std::make_shared<ob::SpaceInformation>(w.space);
    w.si->setStateValidityCheckingResolution(resolution);
    w.space->setup();
    w.reslen = w.space->getLongestValidSegmentLength();
    // the wall widths are meant in position units: reslen is in the space's metric, in which positions have weight 1
    w.chk = std::make_shared<EnvChecker>(w.si, make_env(envname, w.reslen)); w.si->setStateValidityChecker(w.chk);
    w.mv = std::make_shared<LoggingMotionValidator>(w.si); w.si->setMotionValidator(w.mv);
    w.si->setup();
    return w;
}
// a state at position (x,y), remaining coordinates at fixed in-bounds values
static void set_pos(const World &w, ob::State *s, double x, double y, double other)
{
    std::vector<double> r; w.space->copyToReals(r, s);
    if (w.spname == "SE3") { r = {x, y, 0.5, 0, 0, 0, 1}; }
    else if (w.spname == "SE2" || w.spname == "DUBINS" || w.spname == "RS" || w.spname == "CMP") { r = {x, y, other}; }
    else { for (auto &v : r) v = 0.5; r[0] = x; r[1] = y; }
    w.space->copyFromReals(s, r);
}
// longest stretch of a segment inside invalid space, in eighths of the resolution length (dense sampling at reslen/8)
static long max_invalid_stretch(const World &w, const ob::State *a, const ob::State *b)
{
    double len = w.space->distance(a, b); if (!(len > 0)) return 0;
    long m = std::max(1L, (long)std::ceil(len / (w.reslen / 8.0))); if (m > 2000000) m = 2000000;
    ob::State *t = w.space->allocState(); long run = 0, best = 0;
    for (long i = 0; i <= m; ++i)
    {
        w.space->interpolate(a, b, (double)i / (double)m, t);
        if (!w.chk->isValid(t)) { ++run; best = std::max(best, run); } else run = 0;
    }
    w.space->freeState(t);
    if (best <= 1) return 0;
    double stretch = (double)(best - 1) * (len / (double)m);
    return (long)std::floor(stretch / (w.reslen / 8.0));
}
static std::string hexd(double d) { char buf[40]; std::snprintf(buf, sizeof buf, "%a", d); return buf; }
static std::string state_str(const World &w, const ob::State *s)
{
    std::vector<double> r; w.space->copyToReals(r, s); std::ostringstream o; o.precision(17);
    for (std::size_t i = 0; i < r.size(); ++i) o << (i ? "," : "") << r[i]; return o.str();
}
// prints the facts about a path (P / ACC / SEG lines); ids are assigned by exact coordinates
static void emit_path_facts(const World &w, og::PathGeometric &path, const ob::GoalPtr &goal, std::map<std::string, long> &ids, std::ostream &out)
{
    auto id_of = [&](const ob::State *s) { auto k = key_of(w.space.get(), s); auto it = ids.find(k); if (it != ids.end()) return it->second; long n = (long)ids.size() + 1; ids[k] = n; return n; };
    const auto &st = path.getStates();
    bool was = w.mv->logging; w.mv->logging = false;
    for (auto *s : st)
    {
        double d = 0; bool g = goal ? goal->isSatisfied(s, &d) : false;
        // the goal region evaluated independently of GoalRegion::isSatisfied / GoalState::distanceGoal
        if (auto *gs = dynamic_cast<ob::GoalState *>(goal.get()))
        {
            double d2 = w.space->distance(s, gs->getState()); bool g2 = d2 < gs->getThreshold();   // "distance to goal is less than the threshold" (GoalRegion.h)
            if (g2 != g || d2 != d) out << "GOALMISMATCH " << id_of(s) << " library " << (g ? 1 : 0) << " " << d << " own " << (g2 ? 1 : 0) << " " << d2 << " threshold " << gs->getThreshold() << "\n";
        }
        out << "P " << id_of(s) << " " << (w.space->satisfiesBounds(s) ? 1 : 0) << " " << (w.chk->isValid(s) ? 1 : 0) << " " << (g ? 1 : 0) << " " << (long long)std::llround(std::min(d, 1e9) * 1e9) << " # " << state_str(w, s) << "\n";
    }
    for (std::size_t i = 0; i + 1 < st.size(); ++i)
    {
        if (w.mv->was_accepted(st[i], st[i + 1])) out << "ACC " << id_of(st[i]) << " " << id_of(st[i + 1]) << "\n";
        if (w.mv->was_accepted(st[i + 1], st[i])) out << "ACC " << id_of(st[i + 1]) << " " << id_of(st[i]) << "\n";
    }
    for (std::size_t i = 0; i + 1 < st.size(); ++i)
        out << "SEG " << (w.mv->dmv_.checkMotion(st[i], st[i + 1]) ? 1 : 0) << " " << max_invalid_stretch(w, st[i], st[i + 1]) << "\n";
    w.mv->logging = was;
}
