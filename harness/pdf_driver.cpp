// C12 implementation driver: op scripts against ompl::PDF<int> of /repo; weights and samples as hex doubles.
//   N            new structure          A id w      add            U id w   update(handle,w)
//   R id         remove(handle)         C           clear          S r      sample(r)
// output after every op:  ids | row0 ; row1 ; ...   (hexfloat, via printTree)   and for S:  id / EXC
#include "ompl/datastructures/PDF.h"
#include <cstdio>
#include <cstdlib>
#include <iomanip>
#include <iostream>
#include <map>
#include <sstream>
using P = ompl::PDF<int>;
static void show(P &p)
{
    std::ostringstream os; os << std::hexfloat; p.printTree(os);
    // first line: "(id,w) (id,w) ..." ; next lines: "w w ..."
    std::istringstream in(os.str()); std::string l; bool first = true; std::string ids, rows;
    while (std::getline(in, l))
    {
        if (l.empty()) continue;
        if (first)
        {
            std::string row; std::size_t i = 0;
            while ((i = l.find('(', i)) != std::string::npos)
            {
                std::size_t c = l.find(',', i), e = l.find(')', c);
                ids += " " + l.substr(i + 1, c - i - 1); row += " " + l.substr(c + 1, e - c - 1); i = e;
            }
            rows = row; first = false;
        }
        else rows += " ; " + l;
    }
    std::printf("%zu%s |%s\n", p.size(), ids.c_str(), rows.c_str());
}
int main()
{
    P *p = new P(); std::map<int, P::Element *> h; std::string line;
    while (std::getline(std::cin, line))
    {
        std::istringstream in(line); std::string op, ws; int id;
        if (!(in >> op)) continue;
        try
        {
            if (op == "N") { delete p; p = new P(); h.clear(); std::printf("# new\n"); }
            else if (op == "A") { in >> id >> ws; h[id] = p->add(id, std::strtod(ws.c_str(), nullptr)); show(*p); }
            else if (op == "U") { in >> id >> ws; p->update(h.at(id), std::strtod(ws.c_str(), nullptr)); show(*p); }
            else if (op == "R") { in >> id; p->remove(h.at(id)); h.erase(id); show(*p); }
            else if (op == "C") { p->clear(); h.clear(); show(*p); }
            else if (op == "S") { in >> ws; int &d = p->sample(std::strtod(ws.c_str(), nullptr)); std::printf("%d\n", d); }
            else if (op == "W") { in >> id; std::printf("%a\n", p->getWeight(h.at(id))); }
        }
        catch (ompl::Exception &) { std::printf("EXC\n"); }
        std::fflush(stdout);
    }
    delete p; return 0;
}
