// C14 implementation driver: Dubins / symmetric Dubins / Reeds-Shepp spaces of /repo.
//   DUB <rho> <n samples> x1 y1 th1 | x2 y2 th2
// output (one line):
//   dub word <LSL..> len t p q | dist D(a,b) D(b,a) | sym S(a,b) S(b,a) | rs types <LRS..> len l0..l4 total | rsdist R(a,b) R(b,a)
//   (each samp line ends with "| pref d(a, point at 1/4) d(a, point at 1/2) d(a, point at 3/4)")
//   followed by three lines "samp D|S|R x y yaw ; x y yaw ; ..." (interpolated states at k/n, k = 0..n, bit patterns)
#include <ompl/base/spaces/DubinsStateSpace.h>
#include <ompl/base/spaces/ReedsSheppStateSpace.h>
#include <ompl/base/ScopedState.h>
#include <ompl/util/Console.h>
#include <cstring>
#include <iostream>
#include <sstream>
namespace ob = ompl::base;
static void pb(double d) { unsigned long long b; std::memcpy(&b, &d, 8); std::printf(" %016llx", b); }
int main()
{
    ompl::msg::setLogLevel(ompl::msg::LOG_NONE);
    std::string line;
    while (std::getline(std::cin, line))
    {
        std::istringstream in(line); std::string op; if (!(in >> op) || op != "DUB") continue;
        auto num = [&in]() { std::string t; in >> t; return std::strtod(t.c_str(), nullptr); };
        double rho = num(); int n = (int)num(); double a[3], b[3]; for (auto &v : a) v = num(); std::string bar; in >> bar; for (auto &v : b) v = num();
        ob::RealVectorBounds bd(2); bd.setLow(-1e6); bd.setHigh(1e6);
        auto D = std::make_shared<ob::DubinsStateSpace>(rho, false), S = std::make_shared<ob::DubinsStateSpace>(rho, true); auto R = std::make_shared<ob::ReedsSheppStateSpace>(rho);
        D->setBounds(bd); S->setBounds(bd); R->setBounds(bd);
        ob::ScopedState<ob::SE2StateSpace> sa(D), sb(D), r(D);
        sa->setXY(a[0], a[1]); sa->setYaw(a[2]); sb->setXY(b[0], b[1]); sb->setYaw(b[2]);
        auto p = D->dubins(sa.get(), sb.get());
        std::printf("dub word ");
        for (int i = 0; i < 3; ++i) std::printf("%c", p.type_->at(i) == ob::DubinsStateSpace::DUBINS_LEFT ? 'L' : (p.type_->at(i) == ob::DubinsStateSpace::DUBINS_RIGHT ? 'R' : 'S'));
        std::printf(" len"); for (int i = 0; i < 3; ++i) pb(p.length_[i]);
        std::printf(" | dist"); pb(D->distance(sa.get(), sb.get())); pb(D->distance(sb.get(), sa.get()));
        std::printf(" | sym"); pb(S->distance(sa.get(), sb.get())); pb(S->distance(sb.get(), sa.get()));
        auto q = R->reedsShepp(sa.get(), sb.get());
        std::printf(" | rs types ");
        for (int i = 0; i < 5; ++i) std::printf("%c", q.type_[i] == ob::ReedsSheppStateSpace::RS_LEFT ? 'L' : (q.type_[i] == ob::ReedsSheppStateSpace::RS_RIGHT ? 'R' : (q.type_[i] == ob::ReedsSheppStateSpace::RS_STRAIGHT ? 'S' : 'N')));
        std::printf(" len"); for (int i = 0; i < 5; ++i) pb(q.length_[i]); pb(q.length());
        std::printf(" | rsdist"); pb(R->distance(sa.get(), sb.get())); pb(R->distance(sb.get(), sa.get()));
        std::printf("\n");
        ob::StateSpacePtr sps[3] = {D, S, R}; const char *nm = "DSR";
        for (int k = 0; k < 3; ++k)
        {
            std::printf("samp %c", nm[k]);
            for (int i = 0; i <= n; ++i) { sps[k]->interpolate(sa.get(), sb.get(), (double)i / (double)n, r.get()); pb(r->getX()); pb(r->getY()); pb(r->getYaw()); std::printf(" ;"); }
            std::printf(" | pref");
            for (int i : {n / 4, n / 2, (3 * n) / 4}) { sps[k]->interpolate(sa.get(), sb.get(), (double)i / (double)n, r.get()); pb(sps[k]->distance(sa.get(), r.get())); }
            std::printf("\n");
        }
        std::fflush(stdout);
    }
    return 0;
}
