// C04 implementation driver: synthetic PlannerSolutions pushed through a real ProblemDefinition.
//   N                                        new problem definition
//   ADD approx diff optimized objkind cost len   objkind: 0 none, 1 path length (min), 2 max-min clearance (max)
//   -> after each ADD prints: count | index_ of the stored solutions in order | top index approx? optimized? difference
//   COST n x0 y0 x1 y1 ...                   PathGeometric::length() / cost under path length of an R^2 path, as bits
#include <ompl/base/ProblemDefinition.h>
#include <ompl/base/spaces/RealVectorStateSpace.h>
#include <ompl/base/objectives/PathLengthOptimizationObjective.h>
#include <ompl/base/objectives/MaximizeMinClearanceObjective.h>
#include <ompl/geometric/PathGeometric.h>
#include <ompl/util/Console.h>
#include <cstring>
#include <iostream>
#include <sstream>
namespace ob = ompl::base;
int main()
{
    ompl::msg::setLogLevel(ompl::msg::LOG_NONE);
    auto space = std::make_shared<ob::RealVectorStateSpace>(2); space->setBounds(-100, 100);
    auto si = std::make_shared<ob::SpaceInformation>(space);
    si->setStateValidityChecker([](const ob::State *) { return true; }); si->setup();
    auto oMin = std::make_shared<ob::PathLengthOptimizationObjective>(si);
    auto oMax = std::make_shared<ob::MaximizeMinClearanceObjective>(si);
    auto pdef = std::make_shared<ob::ProblemDefinition>(si);
    std::string line;
    while (std::getline(std::cin, line))
    {
        std::istringstream in(line); std::string op; if (!(in >> op)) continue;
        if (op == "N") { pdef = std::make_shared<ob::ProblemDefinition>(si); std::printf("# new\n"); }
        else if (op == "ADD")
        {
            int approx, optimized, kind; double diff, cost, len; in >> approx >> diff >> optimized >> kind >> cost >> len;
            auto path = std::make_shared<ompl::geometric::PathGeometric>(si);
            ob::PlannerSolution s(path);
            s.length_ = len;
            if (approx) s.setApproximate(diff);
            if (kind == 1) s.setOptimized(oMin, ob::Cost(cost), optimized != 0);
            else if (kind == 2) s.setOptimized(oMax, ob::Cost(cost), optimized != 0);
            else s.optimized_ = optimized != 0;
            pdef->addSolutionPath(s);
            auto v = pdef->getSolutions();
            std::printf("%zu |", pdef->getSolutionCount());
            for (auto &x : v) std::printf(" %d", x.index_);
            ob::PlannerSolution t(nullptr); bool have = pdef->getSolution(t);
            std::printf(" | %d %d %d %g %d\n", have ? t.index_ : -1, pdef->hasApproximateSolution() ? 1 : 0, pdef->hasOptimizedSolution() ? 1 : 0, pdef->getSolutionDifference(), pdef->hasExactSolution() ? 1 : 0);
        }
        else if (op == "COST")
        {
            int n; in >> n; ompl::geometric::PathGeometric p(si);
            for (int i = 0; i < n; ++i) { ob::ScopedState<> s(space); in >> s[0] >> s[1]; p.append(s.get()); }
            double l = p.length(), c = p.cost(oMin).value(); unsigned long long a, b; std::memcpy(&a, &l, 8); std::memcpy(&b, &c, 8);
            double direct = n ? space->distance(p.getState(0), p.getState(n - 1)) : 0;
            std::printf("cost %016llx %016llx %d %d\n", a, b, l >= direct ? 1 : 0, oMin->isSatisfied(ob::Cost(c)) ? 1 : 0);
        }
        std::fflush(stdout);
    }
    return 0;
}
