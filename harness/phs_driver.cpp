// C15 implementation driver: prolate hyperspheroid geometry and informed samplers of /repo.
//   PHSINV n c | f1... | f2... | p...   the affine map recovered from n+1 transform calls, inverted at the world point p: |u|^2, residual, orthogonality of the columns
//   PHS n c | f1... | f2... | u...      transform of the (unit) vector u: prints pathlen(x) c cmin measure(c) inphs(x/2-ish) x...
//   REJ numit max min | a a a ...       RejectionInfSampler on R^2 [-100,100]^2, start (0,0), goal (10,0), scripted base sampler
//                                       returning (a,0); min < 0 means the single-bound call;  prints "found a"
//   INF kind dim cfactor n seed minfactor   direct | rejection sampler on R^dim / SE2 (dim 0) with bounds [0,1]^dim, real RNG:
//                                       counts of successes, out-of-bounds, cost >= max, cost < min, and level counts
#include <ompl/base/SpaceInformation.h>
#include <ompl/base/ProblemDefinition.h>
#include <ompl/base/spaces/RealVectorStateSpace.h>
#include <ompl/base/spaces/SE2StateSpace.h>
#include <ompl/base/objectives/PathLengthOptimizationObjective.h>
#include <ompl/base/samplers/informed/PathLengthDirectInfSampler.h>
#include <ompl/base/samplers/informed/RejectionInfSampler.h>
#include <ompl/base/goals/GoalStates.h>
#include <random>
#include <ompl/util/ProlateHyperspheroid.h>
#include <ompl/util/GeometricEquations.h>
#include <ompl/util/RandomNumbers.h>
#include <ompl/util/Console.h>
#include <cmath>
#include <iostream>
#include <sstream>
namespace ob = ompl::base;
static std::vector<double> g_tape; static std::size_t g_pos = 0; struct ScriptEnd {};
class ScriptSampler : public ob::StateSampler
{
public:
    ScriptSampler(const ob::StateSpace *s) : ob::StateSampler(s) {}
    void sampleUniform(ob::State *st) override { if (g_pos >= g_tape.size()) throw ScriptEnd(); auto *v = st->as<ob::RealVectorStateSpace::StateType>()->values; v[0] = g_tape[g_pos++]; v[1] = 0; }
    void sampleUniformNear(ob::State *st, const ob::State *, double) override { sampleUniform(st); }
    void sampleGaussian(ob::State *st, const ob::State *, double) override { sampleUniform(st); }
};
static std::string hexd(double d) { char b[40]; std::snprintf(b, sizeof b, "%a", d); return b; }
int main()
{
    ompl::msg::setLogLevel(ompl::msg::LOG_NONE);
    std::string line;
    while (std::getline(std::cin, line))
    {
        std::istringstream in(line); std::string op; if (!(in >> op)) continue;
        try
        {
            if (op == "PHS")
            {
                unsigned n; std::string cs, bar; in >> n >> cs >> bar; double c = std::strtod(cs.c_str(), nullptr); std::vector<double> f1(n), f2(n), u(n), x(n);
                auto rd = [&in]() { std::string t; in >> t; return std::strtod(t.c_str(), nullptr); };   // hex doubles: operator>> does not parse them
                for (auto &v : f1) v = rd(); in >> bar; for (auto &v : f2) v = rd(); in >> bar; for (auto &v : u) v = rd();
                ompl::ProlateHyperspheroid phs(n, f1.data(), f2.data()); phs.setTransverseDiameter(c);
                phs.transform(u.data(), x.data());
                std::printf("phs %s %s %s %s", hexd(phs.getPathLength(x.data())).c_str(), hexd(phs.getMinTransverseDiameter()).c_str(), hexd(phs.getPhsMeasure()).c_str(), hexd(phs.getPhsMeasure(c)).c_str());
                std::printf(" | %d %d |", phs.isInPhs(x.data()) ? 1 : 0, phs.isOnPhs(x.data()) ? 1 : 0); for (double v : x) std::printf(" %s", hexd(v).c_str());
                std::printf(" | unitball %s\n", hexd(ompl::unitNBallMeasure(n)).c_str());
            }
            else if (op == "PHSINV")
            {
                // the library's transform is affine: recover x = M u + t from n + 1 calls, solve M u = p - t for a given world point p
                unsigned n; std::string cs, bar; in >> n >> cs >> bar; double c = std::strtod(cs.c_str(), nullptr); std::vector<double> f1(n), f2(n), p(n), t(n), e(n), x(n);
                auto rd = [&in]() { std::string tk; in >> tk; return std::strtod(tk.c_str(), nullptr); };
                for (auto &v : f1) v = rd(); in >> bar; for (auto &v : f2) v = rd(); in >> bar; for (auto &v : p) v = rd();
                ompl::ProlateHyperspheroid phs(n, f1.data(), f2.data()); phs.setTransverseDiameter(c);
                std::fill(e.begin(), e.end(), 0.0); phs.transform(e.data(), t.data());
                std::vector<std::vector<double>> M(n, std::vector<double>(n));
                for (unsigned j = 0; j < n; ++j) { std::fill(e.begin(), e.end(), 0.0); e[j] = 1.0; phs.transform(e.data(), x.data()); for (unsigned i = 0; i < n; ++i) M[i][j] = x[i] - t[i]; }
                // deviation of M^T M from diag(r1^2, r2^2, ..., r2^2): the columns are orthogonal with the semi-axes as lengths  <=>  rotation * diag
                double cmin = phs.getMinTransverseDiameter(), r1 = c / 2, r2 = std::sqrt(c * c - cmin * cmin) / 2, dev = 0;
                for (unsigned a = 0; a < n; ++a) for (unsigned b = 0; b < n; ++b)
                {
                    double s = 0; for (unsigned i = 0; i < n; ++i) s += M[i][a] * M[i][b];
                    double want = a != b ? 0.0 : (a == 0 ? r1 * r1 : r2 * r2); dev = std::max(dev, std::fabs(s - want) / (r1 * r1));
                }
                // Gaussian elimination with partial pivoting
                std::vector<std::vector<double>> A = M; std::vector<double> rhs(n), u(n); for (unsigned i = 0; i < n; ++i) rhs[i] = p[i] - t[i];
                bool sing = false;
                for (unsigned k = 0; k < n && !sing; ++k)
                {
                    unsigned piv = k; for (unsigned i = k + 1; i < n; ++i) if (std::fabs(A[i][k]) > std::fabs(A[piv][k])) piv = i;
                    if (A[piv][k] == 0.0) { sing = true; break; }
                    std::swap(A[piv], A[k]); std::swap(rhs[piv], rhs[k]);
                    for (unsigned i = k + 1; i < n; ++i) { double m = A[i][k] / A[k][k]; for (unsigned j = k; j < n; ++j) A[i][j] -= m * A[k][j]; rhs[i] -= m * rhs[k]; }
                }
                if (sing) { std::printf("phsinv singular\n"); continue; }
                for (int i = (int)n - 1; i >= 0; --i) { double s = rhs[i]; for (unsigned j = i + 1; j < n; ++j) s -= A[i][j] * u[j]; u[i] = s / A[i][i]; }
                double nu = 0; for (double v : u) nu += v * v;
                phs.transform(u.data(), x.data()); double res = 0; for (unsigned i = 0; i < n; ++i) res = std::max(res, std::fabs(x[i] - p[i]));
                std::printf("phsinv len %s norm2 %s res %s dev %s cmin %s inphs %d\n", hexd(phs.getPathLength(p.data())).c_str(), hexd(nu).c_str(), hexd(res).c_str(), hexd(dev).c_str(), hexd(cmin).c_str(), phs.isInPhs(p.data()) ? 1 : 0);
            }
            else if (op == "REJ")
            {
                unsigned numit; double maxc, minc; std::string bar; in >> numit >> maxc >> minc >> bar; g_tape.clear(); double a; while (in >> a) g_tape.push_back(a); g_pos = 0;
                auto sp = std::make_shared<ob::RealVectorStateSpace>(2); sp->setBounds(-100, 100);
                sp->setStateSamplerAllocator([](const ob::StateSpace *s) { return std::make_shared<ScriptSampler>(s); });
                auto si = std::make_shared<ob::SpaceInformation>(sp); si->setStateValidityChecker([](const ob::State *) { return true; }); si->setup();
                auto pdef = std::make_shared<ob::ProblemDefinition>(si); ob::ScopedState<> s(sp), g(sp); s[0] = 0; s[1] = 0; g[0] = 10; g[1] = 0; pdef->setStartAndGoalStates(s, g, 0.0);   // threshold 0: the heuristic is the plain focal sum
                pdef->setOptimizationObjective(std::make_shared<ob::PathLengthOptimizationObjective>(si));
                ob::RejectionInfSampler rs(pdef, numit); ob::State *st = sp->allocState(); st->as<ob::RealVectorStateSpace::StateType>()->values[0] = -999; st->as<ob::RealVectorStateSpace::StateType>()->values[1] = 0;
                try
                {
                    bool found = minc < 0 ? rs.sampleUniform(st, ob::Cost(maxc)) : rs.sampleUniform(st, ob::Cost(minc), ob::Cost(maxc));
                    std::printf("rej %d %ld %zu\n", found ? 1 : 0, std::lround(st->as<ob::RealVectorStateSpace::StateType>()->values[0]), g_pos);
                }
                catch (ScriptEnd &) { std::printf("rej none\n"); }
                sp->freeState(st);
            }
            else if (op == "INF")
            {
                std::string kind; unsigned dim, n, seed; double cf, mf; in >> kind >> dim >> cf >> n >> seed >> mf; ompl::RNG::setSeed(seed);
                ob::StateSpacePtr sp; bool se2 = dim == 0;
                if (se2) { auto s = std::make_shared<ob::SE2StateSpace>(); ob::RealVectorBounds b(2); b.setLow(0); b.setHigh(1); s->setBounds(b); sp = s; dim = 2; }
                else { auto s = std::make_shared<ob::RealVectorStateSpace>(dim); s->setBounds(0, 1); sp = s; }
                auto si = std::make_shared<ob::SpaceInformation>(sp); si->setStateValidityChecker([](const ob::State *) { return true; }); si->setup();
                auto pdef = std::make_shared<ob::ProblemDefinition>(si); ob::ScopedState<> s(sp), g(sp);
                std::vector<double> rs_, rg_; for (unsigned i = 0; i < dim; ++i) { rs_.push_back(0.35 + 0.02 * i); rg_.push_back(0.65 - 0.03 * i); } if (se2) { rs_.push_back(0.3); rg_.push_back(-1.0); }
                sp->copyFromReals(s.get(), rs_); sp->copyFromReals(g.get(), rg_); pdef->setStartAndGoalStates(s, g, 1e-3);
                auto obj = std::make_shared<ob::PathLengthOptimizationObjective>(si); pdef->setOptimizationObjective(obj);
                double cmin = 0; for (unsigned i = 0; i < dim; ++i) cmin += (rs_[i] - rg_[i]) * (rs_[i] - rg_[i]); cmin = std::sqrt(cmin);
                double maxc = cmin * cf, minc = mf > 0 ? cmin * mf : -1;
                std::shared_ptr<ob::InformedSampler> smp; if (kind == "direct") smp = std::make_shared<ob::PathLengthDirectInfSampler>(pdef, 100); else smp = std::make_shared<ob::RejectionInfSampler>(pdef, 100);
                ob::State *st = sp->allocState(); long ok = 0, oob = 0, over = 0, under = 0, lev[4] = {0, 0, 0, 0};
                for (unsigned k = 0; k < n; ++k)
                {
                    bool f = minc < 0 ? smp->sampleUniform(st, ob::Cost(maxc)) : smp->sampleUniform(st, ob::Cost(minc), ob::Cost(maxc));
                    if (!f) continue; ++ok;
                    if (!sp->satisfiesBounds(st)) ++oob;
                    std::vector<double> r; sp->copyToReals(r, st); double d1 = 0, d2 = 0; for (unsigned i = 0; i < dim; ++i) { d1 += (r[i] - rs_[i]) * (r[i] - rs_[i]); d2 += (r[i] - rg_[i]) * (r[i] - rg_[i]); }
                    double cost = std::sqrt(d1) + std::sqrt(d2); double hc = smp->heuristicSolnCost(st).value();
                    if (!(hc < maxc) || !(cost < maxc * (1 + 1e-12))) ++over; if (minc >= 0 && hc < minc) ++under;
                    for (int l = 0; l < 4; ++l) if (cost < cmin + (maxc - cmin) * (l + 1) / 5.0) ++lev[l];
                }
                double meas = smp->hasInformedMeasure() ? smp->getInformedMeasure(ob::Cost(maxc)) : -1;
                std::printf("inf %s %u ok %ld oob %ld over %ld under %ld levels %ld %ld %ld %ld cmin %s max %s measure %s\n", kind.c_str(), dim, ok, oob, over, under, lev[0], lev[1], lev[2], lev[3], hexd(cmin).c_str(), hexd(maxc).c_str(), hexd(meas).c_str());
                sp->freeState(st);
            }
            else if (op == "INFM")
            {   // INFM dim cfactor n seed: direct sampler with ONE start and TWO goal states (two overlapping hyperspheroids): share of the
                // samples in the overlap region vs a reference share estimated with an independent generator (rejection from the bounding box)
                unsigned dim, n, seed; double cf; in >> dim >> cf >> n >> seed; ompl::RNG::setSeed(seed);
                auto sp = std::make_shared<ob::RealVectorStateSpace>(dim); sp->setBounds(-2, 3);
                auto si = std::make_shared<ob::SpaceInformation>(sp); si->setStateValidityChecker([](const ob::State *) { return true; }); si->setup();
                auto pdef = std::make_shared<ob::ProblemDefinition>(si); ob::ScopedState<> s(sp);
                std::vector<double> rs_(dim, 0.0), g1(dim, 0.0), g2(dim, 0.0); rs_[0] = 0.0; g1[0] = 1.0; g2[0] = 0.8; g2[1] = 0.6;
                sp->copyFromReals(s.get(), rs_); pdef->addStartState(s);
                auto goals = std::make_shared<ob::GoalStates>(si); { ob::ScopedState<> a(sp), b(sp); sp->copyFromReals(a.get(), g1); sp->copyFromReals(b.get(), g2); goals->addState(a); goals->addState(b); } goals->setThreshold(1e-3);
                pdef->setGoal(goals);
                pdef->setOptimizationObjective(std::make_shared<ob::PathLengthOptimizationObjective>(si));
                double maxc = cf;   // both focal distances are 1
                ob::PathLengthDirectInfSampler smp(pdef, 100);
                auto cost = [&](const std::vector<double> &r, const std::vector<double> &g) { double d1 = 0, d2 = 0; for (unsigned i = 0; i < dim; ++i) { d1 += (r[i] - rs_[i]) * (r[i] - rs_[i]); d2 += (r[i] - g[i]) * (r[i] - g[i]); } return std::sqrt(d1) + std::sqrt(d2); };
                ob::State *st = sp->allocState(); long ok = 0, both = 0, none = 0;
                for (unsigned k = 0; k < n; ++k) { if (!smp.sampleUniform(st, ob::Cost(maxc))) continue; ++ok; std::vector<double> r; sp->copyToReals(r, st); bool a = cost(r, g1) < maxc, b = cost(r, g2) < maxc; if (a && b) ++both; if (!a && !b) ++none; }
                std::mt19937_64 gen(seed * 977u + 5u); std::uniform_real_distribution<double> u(-2, 3); long rin = 0, rboth = 0; std::vector<double> r(dim);
                for (long k = 0; k < 4000000 && rin < 200000; ++k) { for (auto &v : r) v = u(gen); bool a = cost(r, g1) < maxc, b = cost(r, g2) < maxc; if (a || b) { ++rin; if (a && b) ++rboth; } }
                std::printf("infm %u ok %ld both %ld none %ld ref-in %ld ref-both %ld\n", dim, ok, both, none, rin, rboth);
                sp->freeState(st);
            }
            else if (op == "INFS")
            {   // INFS kind(direct|rejection) dim nstarts c cmin(<0: none) n seed: informed sampling with SEVERAL start states and one goal.
                // own heuristic f(x) = min_i |x - start_i| + |x - goal|; counts: samples with f >= c, with f < cmin, and per start the
                // samples that improve the solution only through that start; reference shares from an independent generator
                std::string kind; unsigned dim, ns, n, seed; double c, cmin; in >> kind >> dim >> ns >> c >> cmin >> n >> seed; ompl::RNG::setSeed(seed);
                auto sp = std::make_shared<ob::RealVectorStateSpace>(dim); sp->setBounds(-10, 10);
                auto si = std::make_shared<ob::SpaceInformation>(sp); si->setStateValidityChecker([](const ob::State *) { return true; }); si->setup();
                auto pdef = std::make_shared<ob::ProblemDefinition>(si);
                const double S[4][2] = {{-6, -5}, {6, -5}, {0, 7}, {-7, 3}};
                std::vector<std::vector<double>> starts; for (unsigned i = 0; i < ns && i < 4; ++i) { std::vector<double> r(dim, 0.0); r[0] = S[i][0]; r[1] = S[i][1]; starts.push_back(r); ob::ScopedState<> st(sp); sp->copyFromReals(st.get(), r); pdef->addStartState(st); }
                std::vector<double> goal(dim, 0.0); { ob::ScopedState<> g(sp); sp->copyFromReals(g.get(), goal); pdef->setGoalState(g, 0.0); }   // threshold 0: the heuristic is the plain focal sum
                pdef->setOptimizationObjective(std::make_shared<ob::PathLengthOptimizationObjective>(si));
                std::shared_ptr<ob::InformedSampler> smp; if (kind == "direct") smp = std::make_shared<ob::PathLengthDirectInfSampler>(pdef, 100); else smp = std::make_shared<ob::RejectionInfSampler>(pdef, 100);
                auto via = [&](const std::vector<double> &r, unsigned i) { double d1 = 0, d2 = 0; for (unsigned k = 0; k < dim; ++k) { d1 += (r[k] - starts[i][k]) * (r[k] - starts[i][k]); d2 += (r[k] - goal[k]) * (r[k] - goal[k]); } return std::sqrt(d1) + std::sqrt(d2); };
                auto f = [&](const std::vector<double> &r) { double b = 1e300; for (unsigned i = 0; i < starts.size(); ++i) b = std::min(b, via(r, i)); return b; };
                auto only = [&](const std::vector<double> &r) { int who = -1, cnt = 0; for (unsigned i = 0; i < starts.size(); ++i) if (via(r, i) < c) { who = (int)i; ++cnt; } return cnt == 1 ? who : -1; };
                ob::State *st = sp->allocState(); long ok = 0, over = 0, under = 0, onlyc[4] = {0, 0, 0, 0};
                for (unsigned k = 0; k < n; ++k)
                {
                    bool fnd = cmin < 0 ? smp->sampleUniform(st, ob::Cost(c)) : smp->sampleUniform(st, ob::Cost(cmin), ob::Cost(c));
                    if (!fnd) continue; ++ok; std::vector<double> r; sp->copyToReals(r, st); double fv = f(r);
                    if (!(fv < c * (1 + 1e-12))) ++over; if (cmin >= 0 && fv < cmin * (1 - 1e-12)) ++under; int w = only(r); if (w >= 0) ++onlyc[w];
                }
                std::mt19937_64 gen(seed * 977u + 11u); std::uniform_real_distribution<double> u(-10, 10); long rin = 0, ronly[4] = {0, 0, 0, 0}; std::vector<double> r(dim);
                for (long k = 0; k < 8000000 && rin < 200000; ++k) { for (auto &v : r) v = u(gen); double fv = f(r); if (fv < c && (cmin < 0 || fv >= cmin)) { ++rin; int w = only(r); if (w >= 0) ++ronly[w]; } }
                std::printf("infs %s %u %u ok %ld over %ld under %ld only %ld %ld %ld %ld ref-in %ld ref-only %ld %ld %ld %ld\n", kind.c_str(), dim, ns, ok, over, under, onlyc[0], onlyc[1], onlyc[2], onlyc[3], rin, ronly[0], ronly[1], ronly[2], ronly[3]);
                sp->freeState(st);
            }
        }
        catch (std::exception &ex) { std::printf("error %s\n", ex.what()); }
        std::fflush(stdout);
    }
    return 0;
}
