// C03 (LPA* used by LazyLBTRRT) implementation driver: ompl::LPAstarOnGraph of /repo on scripted edge insertions / removals.
//   LPA <nvertices> <source> <target> <h0> <h1> ... | I u v c | R u v | S | ...
//     the graph is LazyLBTRRT's (undirected adjacency_list, vecS); I adds the edge to the graph and tells LPA* both directions
//     (as LazyLBTRRT::addEdgeLb does), R removes it likewise (removeEdgeLb), S calls computeShortestPath.
//   after every operation one line: "<op> | id g rhs parent inq; ... | queue ids | flags": costs as integers ("inf" for infinity);
//   flags: QFLAG = a node's isInQueue flag disagrees with the queue's content, LOST = an inconsistent node is not queued,
//   CYCLE = the parent pointers from the target form a cycle (computeShortestPath would never return: S is then skipped)
#ifndef NDEBUG
#define NDEBUG   // as in the library's release build: removeEdge(u, source) is what LazyLBTRRT::removeEdgeLb does for edges at the root
#endif
#include <boost/functional/hash.hpp>
#include <boost/graph/adjacency_matrix.hpp>
#include <boost/graph/adjacency_list.hpp>
#include <cmath>
#include <iostream>
#include <sstream>
#include <set>
#include <vector>
#include <list>
#include <limits>
#include <cassert>
#include <unordered_map>
#include <unistd.h>
#include <sys/wait.h>
#include <csignal>
#define private public
#include <ompl/datastructures/LPAstarOnGraph.h>
#undef private
using WeightProperty = boost::property<boost::edge_weight_t, double>;
using BoostGraph = boost::adjacency_list<boost::vecS, boost::vecS, boost::undirectedS, std::size_t, WeightProperty>;
struct H { std::vector<double> h; double operator()(std::size_t i) { return i < h.size() ? h[i] : 0.0; } };
using LPA = ompl::LPAstarOnGraph<BoostGraph, H>;
static std::string num(double d) { if (std::isinf(d)) return "inf"; std::ostringstream o; o << (long long)std::llround(d); return o.str(); }
int main()
{
    std::string line;
    while (std::getline(std::cin, line))
    {
        std::istringstream in(line); std::string cmd; std::size_t n, src, tgt;
        if (!(in >> cmd >> n >> src >> tgt) || cmd != "LPA") continue;
        H h; std::string tok;
        while (in >> tok && tok != "|") h.h.push_back(std::stod(tok));
        BoostGraph g; for (std::size_t i = 0; i < n; ++i) boost::add_vertex(i, g);
        LPA lpa(src, tgt, g, h);
        auto dump = [&](const std::string &op, const std::string &extra)
        {
            std::cout << op << " |";
            bool qflag = false, lost = false;
            std::multiset<const LPA::Node *> inq; for (auto *x : lpa.queue_) inq.insert(x);
            for (std::size_t i = 0; i < n; ++i)
            {
                auto it = lpa.idNodeMap_.find(i);
                if (it == lpa.idNodeMap_.end()) { std::cout << " " << i << " -;"; continue; }
                auto *x = it->second;
                std::cout << " " << i << " " << num(x->g) << " " << num(x->r) << " " << (x->parent ? (long)x->parent->id : -1L) << " " << (x->isInQ ? 1 : 0) << ";";
                if ((inq.count(x) == 1) != x->isInQ || inq.count(x) > 1) qflag = true;
                if (x->g != x->r && inq.count(x) == 0) lost = true;
            }
            std::cout << " |"; for (auto *x : lpa.queue_) std::cout << " " << x->id;
            std::cout << " |" << (qflag ? " QFLAG" : "") << (lost ? " LOST" : "") << extra << std::endl;
        };
        dump("init", "");
        std::string op;
        while (in >> op)
        {
            if (op == "|") continue;
            if (op == "I") { std::size_t u, v; double c; in >> u >> v >> c; WeightProperty w(c); boost::add_edge(u, v, w, g); lpa.insertEdge(u, v, c); lpa.insertEdge(v, u, c);
                             std::ostringstream o; o << "I " << u << " " << v << " " << num(c); dump(o.str(), ""); }
            else if (op == "R") { std::size_t u, v; in >> u >> v; if (!boost::edge(u, v, g).second) { dump("R-skip", ""); continue; }
                                  boost::remove_edge(u, v, g); lpa.removeEdge(u, v); lpa.removeEdge(v, u); std::ostringstream o; o << "R " << u << " " << v; dump(o.str(), ""); }
            else if (op == "S")
            {
                // the walk over parent pointers that computeShortestPath performs at its end must be finite: test it on a copy of the
                // search first (the search itself terminates; only the walk can hang)
                std::list<std::size_t> path; std::string extra;
                // run the search part by calling computeShortestPath only when the walk is safe afterwards: we cannot know before, so
                // do the search by hand-inlining is not possible; instead detect the cycle after a bounded manual walk BEFORE calling:
                // computeShortestPath = search + walk; the search does not depend on the walk. We therefore call it in a guarded way:
                // first a dry run on the current parents is meaningless (the search changes them), so we fork.
                std::cout.flush();
                int fd[2]; if (pipe(fd) != 0) return 1;
                pid_t pid = fork();
                if (pid == 0)
                {   // child: arm an alarm, run, report cost + path through the pipe
                    close(fd[0]); alarm(5);
                    double c = lpa.computeShortestPath(path);
                    std::ostringstream o; o << num(c) << " :"; for (auto x : path) o << " " << x;
                    std::string s = o.str(); if (write(fd[1], s.c_str(), s.size()) < 0) _exit(2); _exit(0);
                }
                close(fd[1]); char buf[4096]; std::string got; ssize_t k; while ((k = read(fd[0], buf, sizeof buf)) > 0) got.append(buf, k); close(fd[0]);
                int st = 0; waitpid(pid, &st, 0);
                if (WIFSIGNALED(st) || got.empty()) { dump("S", " HANG"); break; }
                // the child terminated: repeat the call in this process (deterministic) to keep the state
                double c = lpa.computeShortestPath(path);
                std::ostringstream o; o << " cost " << num(c) << " path"; for (auto x : path) o << " " << x;
                dump("S", o.str());
            }
        }
        std::cout << "END" << std::endl;
    }
    return 0;
}
