// C16 implementation driver: constrained state spaces of /repo (projection-, atlas- and tangent-bundle based).
//   GEO <tol> <delta> <lambda> <ipol 0|1> f0 f1 f2 | t0 t1 t2      ProjectedStateSpace on R^3 with the plane constraint x2 = 0 and a box-shaped
//                                                                 invalid region: discreteGeodesic -> "geo <ok> | s.. ; s.. ; ..." (bit patterns)
//   LAWS <PJ|AT|TB> <sphere|torus|plane|circle> <n> <seed> <delta> <lambda> <tolerance>   random search of the C16 statement; prints counters
//   PLAN <PJ|AT|TB> <sphere|torus> <seed> <seconds>                RRTConnect / PRM / KPIECE on the constrained space: solution vertices on the manifold
#include <ompl/base/Constraint.h>
#include <ompl/base/ConstrainedSpaceInformation.h>
#include <ompl/base/spaces/RealVectorStateSpace.h>
#include <ompl/base/spaces/constraint/ProjectedStateSpace.h>
#include <ompl/base/spaces/constraint/AtlasStateSpace.h>
#include <ompl/base/spaces/constraint/TangentBundleStateSpace.h>
#include <ompl/base/ProblemDefinition.h>
#include <ompl/geometric/PathGeometric.h>
#include <ompl/geometric/planners/rrt/RRTConnect.h>
#include <ompl/geometric/planners/prm/PRM.h>
#include <ompl/geometric/planners/rrt/RRT.h>
#include <ompl/util/RandomNumbers.h>
#include <ompl/util/Console.h>
#include <cstring>
#include <iostream>
#include <sstream>
namespace ob = ompl::base;
namespace og = ompl::geometric;

class Sphere : public ob::Constraint
{
public:
    Sphere(double radius = 1.0) : ob::Constraint(3, 1), r_(radius) {}
    double r_;
    void function(const Eigen::Ref<const Eigen::VectorXd> &x, Eigen::Ref<Eigen::VectorXd> out) const override { out[0] = x.norm() - r_; }
    void jacobian(const Eigen::Ref<const Eigen::VectorXd> &x, Eigen::Ref<Eigen::MatrixXd> out) const override { out = x.transpose().normalized(); }
};
class Torus : public ob::Constraint
{
public:
    Torus() : ob::Constraint(3, 1) {}
    void function(const Eigen::Ref<const Eigen::VectorXd> &x, Eigen::Ref<Eigen::VectorXd> out) const override
    { double r = std::sqrt(x[0] * x[0] + x[1] * x[1]); out[0] = std::sqrt((r - 2.0) * (r - 2.0) + x[2] * x[2]) - 0.7; }
};   // numerical Jacobian of the base class
class Plane : public ob::Constraint
{
public:
    Plane() : ob::Constraint(3, 1) {}
    void function(const Eigen::Ref<const Eigen::VectorXd> &x, Eigen::Ref<Eigen::VectorXd> out) const override { out[0] = x[2]; }
    void jacobian(const Eigen::Ref<const Eigen::VectorXd> &, Eigen::Ref<Eigen::MatrixXd> out) const override { out.setZero(); out(0, 2) = 1; }
};
class Circle : public ob::Constraint   // unit sphere intersected with the plane x2 = 0.5 x0 (co-dimension 2)
{
public:
    Circle() : ob::Constraint(3, 2) {}
    void function(const Eigen::Ref<const Eigen::VectorXd> &x, Eigen::Ref<Eigen::VectorXd> out) const override { out[0] = x.norm() - 1; out[1] = x[2] - 0.5 * x[0]; }
};
static ob::ConstraintPtr make_constraint(const std::string &m)
{
    if (m == "sphere") return std::make_shared<Sphere>();
    if (m == "smallsphere") return std::make_shared<Sphere>(0.1);     // curvature radius small against the sampling distances
    if (m == "torus") return std::make_shared<Torus>();
    if (m == "plane") return std::make_shared<Plane>();
    return std::make_shared<Circle>();
}
static std::shared_ptr<ob::ConstrainedStateSpace> make_css(const std::string &kind, const ob::StateSpacePtr &amb, const ob::ConstraintPtr &c)
{
    if (kind == "PJ") return std::make_shared<ob::ProjectedStateSpace>(amb, c);
    if (kind == "AT") return std::make_shared<ob::AtlasStateSpace>(amb, c);
    return std::make_shared<ob::TangentBundleStateSpace>(amb, c);
}
static void seed_on(const std::string &m, Eigen::VectorXd &a, Eigen::VectorXd &b)
{
    a.resize(3); b.resize(3);
    if (m == "sphere") { a << 0, 0, -1; b << 0, 0, 1; }
    else if (m == "smallsphere") { a << 0, 0, -0.1; b << 0, 0, 0.1; }
    else if (m == "torus") { a << 2.7, 0, 0; b << -2.7, 0, 0; }
    else if (m == "plane") { a << -1, -1, 0; b << 1, 1, 0; }
    else { double s = 1.0 / std::sqrt(1.25); a << s, 0, 0.5 * s; b << -s, 0, -0.5 * s; }
}
static void pbits(double d) { unsigned long long b; std::memcpy(&b, &d, 8); std::printf(" %016llx", b); }
int main()
{
    ompl::msg::setLogLevel(ompl::msg::LOG_NONE);
    std::string line;
    while (std::getline(std::cin, line))
    {
        std::istringstream in(line); std::string op; if (!(in >> op)) continue;
        auto num = [&in]() { std::string t; in >> t; return std::strtod(t.c_str(), nullptr); };
        try
        {
            if (op == "GEO")
            {
                double tol = num(), delta = num(), lambda = num(); int ipol = (int)num(); double f[3], t[3]; for (auto &v : f) v = num(); std::string bar; in >> bar; for (auto &v : t) v = num();
                auto amb = std::make_shared<ob::RealVectorStateSpace>(3); amb->setBounds(-10, 10);
                auto con = std::make_shared<Plane>(); con->setTolerance(tol);
                auto css = std::make_shared<ob::ProjectedStateSpace>(amb, con);
                auto csi = std::make_shared<ob::ConstrainedSpaceInformation>(css);
                csi->setStateValidityChecker([](const ob::State *s) { const Eigen::Map<Eigen::VectorXd> &x = *s->as<ob::ConstrainedStateSpace::StateType>(); return !(0.4 < x[0] && x[0] < 0.45 && x[1] < 0.5); });
                css->setDelta(delta); css->setLambda(lambda); csi->setup();
                ob::State *a = css->allocState(), *b = css->allocState();
                for (int i = 0; i < 3; ++i) { (*a->as<ob::ConstrainedStateSpace::StateType>())[i] = f[i]; (*b->as<ob::ConstrainedStateSpace::StateType>())[i] = t[i]; }
                std::vector<ob::State *> geo; bool ok = css->discreteGeodesic(a, b, ipol != 0, &geo);
                std::printf("geo %d |", ok ? 1 : 0);
                for (auto *s : geo) { for (int i = 0; i < 3; ++i) pbits((*s->as<ob::ConstrainedStateSpace::StateType>())[i]); std::printf(" ;"); css->freeState(s); }
                // ConstrainedStateSpace::interpolate at fixed fractions (its own geodesic, interpolate = true)
                std::printf(" | INT");
                ob::State *r = css->allocState();
                for (double tt : {0.0, 0.1, 1.0 / 3.0, 0.5, 0.9, 1.0}) { css->interpolate(a, b, tt, r); for (int i = 0; i < 3; ++i) pbits((*r->as<ob::ConstrainedStateSpace::StateType>())[i]); std::printf(" ;"); }
                css->freeState(r);
                std::printf("\n"); css->freeState(a); css->freeState(b);
            }
            else if (op == "LAWS" || op == "PLAN")
            {
                std::string kind, man; in >> kind >> man;
                unsigned n = 0, seed = 0; double delta = 0.05, lambda = 2.0, tol = 1e-4, secs = 1.0;
                if (op == "LAWS") { n = (unsigned)num(); seed = (unsigned)num(); delta = num(); lambda = num(); tol = num(); } else { seed = (unsigned)num(); secs = num(); }
                ompl::RNG::setSeed(seed);
                auto amb = std::make_shared<ob::RealVectorStateSpace>(3); amb->setBounds(-3, 3);
                auto con = make_constraint(man); con->setTolerance(tol);
                auto css = make_css(kind, amb, con);
                auto csi = (kind == "TB") ? std::static_pointer_cast<ob::ConstrainedSpaceInformation>(std::make_shared<ob::TangentBundleSpaceInformation>(css)) : std::make_shared<ob::ConstrainedSpaceInformation>(css);
                csi->setStateValidityChecker([](const ob::State *) { return true; });
                css->setDelta(delta); css->setLambda(lambda);
                Eigen::VectorXd va, vb; seed_on(man, va, vb);
                ob::ScopedState<> sa(css), sb(css); sa->as<ob::ConstrainedStateSpace::StateType>()->copy(va); sb->as<ob::ConstrainedStateSpace::StateType>()->copy(vb);
                if (kind != "PJ") { css->as<ob::AtlasStateSpace>()->anchorChart(sa.get()); css->as<ob::AtlasStateSpace>()->anchorChart(sb.get()); }
                csi->setup();
                // the constraint value is measured with the harness's own evaluation of the function
                auto viol = [&](const ob::State *s) { Eigen::VectorXd f(con->getCoDimension()); con->function(*s->as<ob::ConstrainedStateSpace::StateType>(), f); return f.norm(); };
                if (op == "PLAN")
                {
                    auto pdef = std::make_shared<ob::ProblemDefinition>(csi); pdef->setStartAndGoalStates(sa, sb, 0.05);
                    ob::PlannerPtr pl; if (seed % 3 == 0) pl = std::make_shared<og::RRTConnect>(csi); else if (seed % 3 == 1) pl = std::make_shared<og::PRM>(csi); else pl = std::make_shared<og::RRT>(csi);
                    pl->setProblemDefinition(pdef); pl->setup();
                    auto st = pl->solve(secs); long bad = 0, nst = 0; double worst = 0;
                    if (pdef->hasSolution()) { auto p = pdef->getSolutionPath()->as<og::PathGeometric>(); for (auto *s : p->getStates()) { ++nst; double v = viol(s); worst = std::max(worst, v); if (!(v <= tol * 1.000001)) ++bad; } }
                    std::printf("plan %s %s status %d states %ld off-manifold %ld worst %g\n", kind.c_str(), man.c_str(), (int)(ob::PlannerStatus::StatusType)st, nst, bad, worst);
                    continue;
                }
                if (man == "sphere" && n == 0)
                {   // LAWS <kind> sphere 0 <seed> delta lambda tol: a scan of great-circle arcs from (1,0,0) to (cos t, sin t, 0), t = 0.05 .. 3.0:
                    // arcs whose length is about lambda x chord exhaust the "wandered too far" budget near the end of the traversal
                    long gok = 0, gtried = 0, gbad = 0, gstep = 0, gend = 0; double worstend = 0, worststep = 0;
                    ob::State *a = css->allocState(), *b = css->allocState();
                    for (int k = 5; k <= 300; ++k)
                    {
                        double t = 0.01 * k; Eigen::VectorXd pa(3), pb(3); pa << 1, 0, 0; pb << std::cos(t), std::sin(t), 0;
                        a->as<ob::ConstrainedStateSpace::StateType>()->copy(pa); b->as<ob::ConstrainedStateSpace::StateType>()->copy(pb);
                        std::vector<ob::State *> geo; ++gtried; bool ok = css->discreteGeodesic(a, b, true, &geo);
                        if (ok && kind != "TB")
                        {
                            ++gok;
                            for (std::size_t i = 0; i < geo.size(); ++i)
                            {
                                double vg = viol(geo[i]); if (!(vg <= tol * 1.000001)) ++gbad;
                                if (i > 0) { double d = css->distance(geo[i - 1], geo[i]); worststep = std::max(worststep, d / (lambda * delta)); if (d > lambda * delta * (1 + 1e-9)) ++gstep; }
                            }
                            double de = css->distance(geo.back(), b); worstend = std::max(worstend, de / delta); if (de > delta * (1 + 1e-9)) ++gend;
                        }
                        for (auto *s2 : geo) css->freeState(s2);
                    }
                    std::printf("laws %s %s samples-off 0 near-off 0 interp-off 0 geodesics %ld/%ld geo-off %ld step-too-long %ld end-too-far %ld worst-violation 0 worst-step/bound %g worst-end/delta %g\n", kind.c_str(), man.c_str(), gok, gtried, gbad, gstep, gend, worststep, worstend);
                    css->freeState(a); css->freeState(b);
                    continue;
                }
                auto sampler = css->allocStateSampler();
                ob::State *a = css->allocState(), *b = css->allocState(), *r = css->allocState();
                long sbad = 0, ibad = 0, gbad = 0, gstep = 0, gend = 0, gok = 0, gtried = 0, nearbad = 0; double worst = 0, worststep = 0, worstend = 0; std::string wit;
                for (unsigned k = 0; k < n; ++k)
                {
                    sampler->sampleUniform(a); sampler->sampleUniform(b);
                    double v = std::max(viol(a), viol(b)); if (!(v <= tol * 1.000001)) { ++sbad; worst = std::max(worst, v); }
                    if (k % 3 == 0) { sampler->sampleUniformNear(b, a, 0.3 + 0.1 * (k % 5)); double v2 = viol(b); if (!(v2 <= tol * 1.000001)) { ++nearbad; worst = std::max(worst, v2); } }
                    if (k % 7 == 0) { sampler->sampleGaussian(b, a, 0.2); double v2 = viol(b); if (!(v2 <= tol * 1.000001)) { ++nearbad; worst = std::max(worst, v2); } }
                    double t = (k % 11) / 10.0;
                    css->interpolate(a, b, t, r); double vi = viol(r); if (!(vi <= tol * 1.000001)) { ++ibad; worst = std::max(worst, vi); }
                    std::vector<ob::State *> geo; ++gtried; bool ok = css->discreteGeodesic(a, b, true, &geo);
                    if (ok)
                    {
                        ++gok;
                        for (std::size_t i = 0; i < geo.size(); ++i)
                        {
                            if (kind != "TB") { double vg = viol(geo[i]); if (!(vg <= tol * 1.000001)) { ++gbad; worst = std::max(worst, vg); } }
                            // step bound and end distance are stated for the projection- and atlas-based spaces; the lazy tangent-bundle geodesic is exempt
                            if (i > 0 && kind != "TB") { double d = css->distance(geo[i - 1], geo[i]); worststep = std::max(worststep, d / (lambda * delta)); if (d > lambda * delta * (1 + 1e-9)) ++gstep; }
                        }
                        if (kind != "TB") { double de = css->distance(geo.back(), b); worstend = std::max(worstend, de / delta); if (de > delta * (1 + 1e-9)) ++gend; }
                    }
                    for (auto *s : geo) css->freeState(s);
                }
                std::printf("laws %s %s samples-off %ld near-off %ld interp-off %ld geodesics %ld/%ld geo-off %ld step-too-long %ld end-too-far %ld worst-violation %g worst-step/bound %g worst-end/delta %g\n",
                            kind.c_str(), man.c_str(), sbad, nearbad, ibad, gok, gtried, gbad, gstep, gend, worst, worststep, worstend);
                css->freeState(a); css->freeState(b); css->freeState(r);
            }
        }
        catch (std::exception &ex) { std::printf("error %s\n", ex.what()); }
        std::fflush(stdout);
    }
    return 0;
}
