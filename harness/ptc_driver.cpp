// C18 implementation driver: real PlannerTerminationCondition objects of /repo.
//   T <prefix tree>   F k | I n | O a b | A a b | Y (always) | Z (never)       build a condition tree
//   E                 evaluate the root -> prints 0/1
//   X <path|->        terminate() on the sub-condition at path (letters L/R, '-' = root)
//   S k b             predicate k := b
//   C w eps n c1..cn  CostConvergenceTerminationCondition(pdef, w, eps): feed costs through the problem
//                     definition's intermediate-solution callback, print fired flag after each
//   W n               iteration condition with n, evaluated 2^32+2 times directly: prints results at 2^32-1, 2^32, 2^32+1 (n+1.. style)
//   TIMED d           timed condition of d seconds: prints eval now, and after d+0.05 s, and again
//   TIMED2 d i        timed condition of d seconds with check interval i (0 and i > d included)
//   PERIODIC p        periodic condition with period p on predicate 0 (p = 0: evaluated directly): safe-direction checks with sleeps
//   EXACT             exactSolnPlannerTerminationCondition mirrors pdef->hasExactSolution()
#include <ompl/base/PlannerTerminationCondition.h>
#include <ompl/base/terminationconditions/IterationTerminationCondition.h>
#include <ompl/base/terminationconditions/CostConvergenceTerminationCondition.h>
#include <ompl/base/ProblemDefinition.h>
#include <ompl/base/spaces/RealVectorStateSpace.h>
#include <ompl/base/SpaceInformation.h>
#include <ompl/geometric/PathGeometric.h>
#include <ompl/util/Console.h>
#include <algorithm>
#include <chrono>
#include <cstring>
#include <iostream>
#include <map>
#include <sstream>
#include <thread>
namespace ob = ompl::base;
static bool pred[32];
static std::map<std::string, ob::PlannerTerminationCondition> nodes;
static ob::PlannerTerminationCondition build(std::istringstream &in, const std::string &path)
{
    std::string t; in >> t;
    ob::PlannerTerminationCondition c = ob::plannerNonTerminatingCondition();
    if (t == "F") { int k; in >> k; c = ob::PlannerTerminationCondition([k] { return pred[k]; }); }
    else if (t == "I") { unsigned n; in >> n; ob::IterationTerminationCondition itc(n); c = itc; }
    else if (t == "O") { auto a = build(in, path + "L"); auto b = build(in, path + "R"); c = ob::plannerOrTerminationCondition(a, b); }
    else if (t == "A") { auto a = build(in, path + "L"); auto b = build(in, path + "R"); c = ob::plannerAndTerminationCondition(a, b); }
    else if (t == "Y") c = ob::plannerAlwaysTerminatingCondition();
    else c = ob::plannerNonTerminatingCondition();
    nodes.insert_or_assign(path.empty() ? "-" : path, c);
    return c;
}
static void msleep(double s) { std::this_thread::sleep_for(std::chrono::duration<double>(s)); }
int main()
{
    ompl::msg::setLogLevel(ompl::msg::LOG_NONE);
    std::string line;
    while (std::getline(std::cin, line))
    {
        std::istringstream in(line); std::string op; if (!(in >> op)) continue;
        if (op == "T") { nodes.clear(); std::memset(pred, 0, sizeof pred); build(in, ""); std::printf("# tree\n"); }
        else if (op == "E") std::printf("%d\n", nodes.at("-").eval() ? 1 : 0);
        else if (op == "X") { std::string p; in >> p; nodes.at(p).terminate(); std::printf("x\n"); }
        else if (op == "S") { int k, b; in >> k >> b; pred[k] = b != 0; std::printf("s\n"); }
        else if (op == "C")
        {
            std::size_t w; std::string es; int n; in >> w >> es >> n;
            auto space = std::make_shared<ob::RealVectorStateSpace>(1);
            auto si = std::make_shared<ob::SpaceInformation>(space);
            ob::ProblemDefinitionPtr pdef = std::make_shared<ob::ProblemDefinition>(si);
            ob::CostConvergenceTerminationCondition cc(pdef, w, std::strtod(es.c_str(), nullptr));
            std::printf("c");
            for (int i = 0; i < n; ++i)
            {
                std::string cs; in >> cs;
                pdef->getIntermediateSolutionCallback()(nullptr, std::vector<const ob::State *>(), ob::Cost(std::strtod(cs.c_str(), nullptr)));
                std::printf(" %d", cc.eval() ? 1 : 0);
            }
            std::printf("\n");
        }
        else if (op == "W")
        {
            unsigned n; in >> n; ob::IterationTerminationCondition itc(n);
            bool r = false; unsigned long long trues = 0;
            for (unsigned long long i = 1; i <= 4294967295ULL; ++i) { r = itc.eval(); trues += r; }
            bool a = r; bool b = itc.eval(); bool c2 = itc.eval();
            std::printf("w %llu %d %d %d\n", trues, a ? 1 : 0, b ? 1 : 0, c2 ? 1 : 0);
        }
        else if (op == "TIMED")
        {
            double d; in >> d; auto c = ob::timedPlannerTerminationCondition(d);
            bool a = c.eval(); msleep(d + 0.05); bool b = c.eval(); msleep(0.02); bool c3 = c.eval();
            auto c2 = ob::timedPlannerTerminationCondition(d, d / 4); bool a2 = c2.eval(); msleep(d + d / 2 + 0.1); bool b2 = c2.eval();
            std::printf("timed %d %d %d %d %d\n", a, b, c3, a2, b2);
        }
        else if (op == "TIMED2")
        {   // timed condition with a check interval (0 = none needed, > duration = clamped to it): false at once (unless the duration is 0), true after duration + interval + slack, still true later
            double d, iv; in >> d >> iv; auto c = ob::timedPlannerTerminationCondition(d, iv);
            bool a = c.eval(); msleep(d + std::min(iv, d) + 0.08); bool b = c.eval(); msleep(0.02); bool c3 = c.eval();
            std::printf("timed2 %d %d %d\n", (d > 0.02) ? a : 0, b, c3);
        }
        else if (op == "PERIODIC")
        {
            double p; in >> p; pred[0] = false;
            ob::PlannerTerminationCondition c([] { return pred[0]; }, p);
            msleep(3 * p + 0.05); bool a = c.eval();           // predicate never true -> false
            pred[0] = true; msleep(3 * p + 0.05); bool b = c.eval();   // true for >= 3 periods -> true
            pred[0] = false; msleep(3 * p + 0.05); bool b2 = c.eval(); // false again for >= 3 periods -> false
            pred[0] = true; msleep(3 * p + 0.05); bool b3 = c.eval();  // and true again
            ob::PlannerTerminationCondition c2([] { return false; }, p); c2.terminate(); bool d = c2.eval();
            std::printf("periodic %d %d %d %d %d\n", a, b, b2, b3, d);
        }
        else if (op == "EXACT")
        {
            auto space = std::make_shared<ob::RealVectorStateSpace>(1);
            auto si = std::make_shared<ob::SpaceInformation>(space);
            auto pdef = std::make_shared<ob::ProblemDefinition>(si);
            auto c = ob::exactSolnPlannerTerminationCondition(pdef);
            bool a = c.eval();
            auto path = std::make_shared<ompl::geometric::PathGeometric>(si);
            ob::PlannerSolution approx(path); approx.setApproximate(0.5); pdef->addSolutionPath(approx); bool b = c.eval();
            ob::PlannerSolution exact(path); pdef->addSolutionPath(exact); bool d = c.eval();
            pdef->clearSolutionPaths(); bool e = c.eval();
            std::printf("exact %d %d %d %d | %d %d\n", a, b, d, e, 0, 0);
        }
        std::fflush(stdout);
    }
    return 0;
}
