// C17 implementation driver: path post-processing routines of /repo on planned paths, with logging collaborators.
//   SIMP <space> <env> <seed> <resolution> <mode> <routine> [params...]
//     mode: plain | dense (interpolated input) | dup (repeated states / zero-length segments inserted) | point (2..5 copies of one state)
//     routine: reduce <maxSteps> <maxEmpty> <rangeRatio> | partial <maxSteps> <maxEmpty> <rangeRatio> <snap>
//              | rope <delta> <eqtol> | collapse <maxSteps> <maxEmpty> | bspline <maxSteps> <minChange>
//              | perturb <stepSize> <maxSteps> <maxEmpty> <snap> | bettergoal <seconds> <attempts> <rangeRatio> <snap>
//              | simplifymax | simplify <seconds> | interpolate <count> | interpolate0 | subdivide | hybridize <npaths>
//   THIN <seed> <trials> <thickness> <dlo> <dhi> simplify   (see below)
// output: IN n len cost check   P/ACC/SEG lines of the input (prefix "I")   RESULT ret n len cost check
//         O-prefixed P/SEG lines of the output, OACC a b (accepted during the routine or consecutive in the input), KEPT flags, END
#include "planning_common.h"
#include <random>
#include <ompl/geometric/PathSimplifier.h>
#include <ompl/geometric/PathHybridization.h>
#include <ompl/geometric/planners/rrt/RRT.h>
#include <ompl/geometric/planners/rrt/RRTConnect.h>
#include <ompl/base/objectives/PathLengthOptimizationObjective.h>
#include <ompl/base/objectives/StateCostIntegralObjective.h>

// an additive, non-metric objective (cost-aware routines must not worsen it): state cost 1 + 200 y (steep: straight shortcuts higher up are usually worse), exact under the trapezoid rule
class HeightCost : public ob::StateCostIntegralObjective
{
public:
    HeightCost(const ob::SpaceInformationPtr &si) : ob::StateCostIntegralObjective(si, false) {}
    ob::Cost stateCost(const ob::State *s) const override { std::vector<double> r; si_->getStateSpace()->copyToReals(r, s); return ob::Cost(1.0 + 200.0 * r[1]); }
};

int main(int argc, char **argv)
{
    ompl::msg::setLogLevel(ompl::msg::LOG_NONE);
    std::string line;
    auto handle = [](const std::string &line)
    {
        if (line.rfind("RV ", 0) == 0)
        {   // RV <n> <maxSteps> <maxEmpty> <ratio num> <ratio den> <tape seed> | a-b ...: reduceVertices on the path 0,1,...,n-1 of R^1 with a
            // table-driven motion validator (accepted pairs a-b) and the simplifier's random numbers read from a tape: u_k = ((seed + 7 k + 3 k k) mod 64) / 64
            std::istringstream pin(line); std::string c0, tok; int n; unsigned ms, me; long rn, rd; unsigned long tseed; pin >> c0 >> n >> ms >> me >> rn >> rd >> tseed >> tok;
            std::set<std::pair<long, long>> okp; while (pin >> tok) { auto k = tok.find('-'); okp.insert({std::stol(tok.substr(0, k)), std::stol(tok.substr(k + 1))}); }
            auto sp = std::make_shared<ob::RealVectorStateSpace>(1); sp->setBounds(-1, n + 1);
            auto si = std::make_shared<ob::SpaceInformation>(sp);
            si->setStateValidityChecker([](const ob::State *) { return true; });
            struct TableMV : public ob::MotionValidator
            {
                TableMV(const ob::SpaceInformationPtr &si, std::set<std::pair<long, long>> t) : ob::MotionValidator(si), tab(std::move(t)) {}
                std::set<std::pair<long, long>> tab;
                bool checkMotion(const ob::State *a, const ob::State *b) const override
                { return tab.count({std::lround(a->as<ob::RealVectorStateSpace::StateType>()->values[0]), std::lround(b->as<ob::RealVectorStateSpace::StateType>()->values[0])}) > 0; }
                bool checkMotion(const ob::State *a, const ob::State *b, std::pair<ob::State *, double> &lv) const override { lv.second = 0; return checkMotion(a, b); }
            };
            si->setMotionValidator(std::make_shared<TableMV>(si, okp)); si->setup();
            og::PathGeometric path(si);
            for (int i = 0; i < n; ++i) { ob::State *s = sp->allocState(); s->as<ob::RealVectorStateSpace::StateType>()->values[0] = i; path.append(s); sp->freeState(s); }
            std::vector<double> tape; for (unsigned long k = 0; k < 4096; ++k) tape.push_back((double)((tseed + 7 * k + 3 * k * k) % 64) / 64.0);
            og::PathSimplifier ps(si);
            ompl::RNG::verifSetTape(tape.data(), tape.size());
            bool ret = ps.reduceVertices(path, ms, me, (double)rn / (double)rd);
            std::size_t used = ompl::RNG::verifTapeUsed();
            ompl::RNG::verifSetTape(nullptr, 0);
            std::cout << "rv " << (ret ? 1 : 0) << " |"; for (std::size_t i = 0; i < path.getStateCount(); ++i) std::cout << " " << std::lround(path.getState(i)->as<ob::RealVectorStateSpace::StateType>()->values[0]);
            std::cout << " | used " << used << std::endl;
            return;
        }
        if (line.rfind("CC ", 0) == 0)
        {   // CC <maxSteps> <maxEmpty> <x0> <x1> ... | a-b ...: collapseCloseVertices on the path of R^1 states with the given distinct integer
            // coordinates (vertex k at x_k) and a table-driven motion validator over vertex numbers
            std::istringstream pin(line); std::string c0, tok; unsigned ms, me; pin >> c0 >> ms >> me; std::vector<long> xs;
            while (pin >> tok && tok != "|") xs.push_back(std::stol(tok));
            std::map<long, long> idx; for (std::size_t k = 0; k < xs.size(); ++k) idx[xs[k]] = (long)k;
            std::set<std::pair<long, long>> okp; while (pin >> tok) { auto k = tok.find('-'); okp.insert({std::stol(tok.substr(0, k)), std::stol(tok.substr(k + 1))}); }
            auto sp = std::make_shared<ob::RealVectorStateSpace>(1); sp->setBounds(-1e6, 1e6);
            auto si = std::make_shared<ob::SpaceInformation>(sp);
            si->setStateValidityChecker([](const ob::State *) { return true; });
            struct TableMV2 : public ob::MotionValidator
            {
                TableMV2(const ob::SpaceInformationPtr &si, std::set<std::pair<long, long>> t, std::map<long, long> ix) : ob::MotionValidator(si), tab(std::move(t)), idx(std::move(ix)) {}
                std::set<std::pair<long, long>> tab; std::map<long, long> idx;
                bool checkMotion(const ob::State *a, const ob::State *b) const override
                { return tab.count({idx.at(std::lround(a->as<ob::RealVectorStateSpace::StateType>()->values[0])), idx.at(std::lround(b->as<ob::RealVectorStateSpace::StateType>()->values[0]))}) > 0; }
                bool checkMotion(const ob::State *a, const ob::State *b, std::pair<ob::State *, double> &lv) const override { lv.second = 0; return checkMotion(a, b); }
            };
            si->setMotionValidator(std::make_shared<TableMV2>(si, okp, idx)); si->setup();
            og::PathGeometric path(si);
            for (long x : xs) { ob::State *s = sp->allocState(); s->as<ob::RealVectorStateSpace::StateType>()->values[0] = (double)x; path.append(s); sp->freeState(s); }
            og::PathSimplifier ps(si);
            bool ret = ps.collapseCloseVertices(path, ms, me);
            std::cout << "cc " << (ret ? 1 : 0) << " |"; for (std::size_t i = 0; i < path.getStateCount(); ++i) std::cout << " " << idx.at(std::lround(path.getState(i)->as<ob::RealVectorStateSpace::StateType>()->values[0]));
            std::cout << std::endl;
            return;
        }
        if (line.rfind("THIN ", 0) == 0)
        {   // THIN <seed> <trials> <thickness> <dlo> <dhi> simplify: valid 4-state paths in [0,10]^2 whose last motion steps over a full-height wall thinner
            // than the validity-checking step (0.1) standing dlo..dhi steps in front of the last state; simplify(path, 0.25 s) on each; the clause
            // 'when the combined routine reports success the resulting path passes the library's validity check', and the end states
            std::istringstream tin(line); std::string c0, rt; unsigned tseed; int trials; double thick, dlo, dhi; tin >> c0 >> tseed >> trials >> thick >> dlo >> dhi >> rt;
            ompl::RNG::setSeed(tseed); std::mt19937 gen(tseed); auto U = [&gen](double a, double b) { return std::uniform_real_distribution<double>(a, b)(gen); };
            const double step = 0.1; int valid_in = 0, ret_true = 0, viol = 0; std::string first;
            for (int t = 0; t < trials; ++t)
            {
                auto sp = std::make_shared<ob::RealVectorStateSpace>(2); sp->setBounds(0, 10);
                auto si = std::make_shared<ob::SpaceInformation>(sp);
                const double x1 = 9.0 - U(dlo, dhi) * step, x0 = x1 - thick * step;
                si->setStateValidityChecker([x0, x1](const ob::State *s) { double x = s->as<ob::RealVectorStateSpace::StateType>()->values[0]; return !(x0 < x && x < x1); });
                si->setStateValidityCheckingResolution(step / sp->getMaximumExtent()); si->setup();
                og::PathGeometric path(si); bool ok = false;
                for (int attempt = 0; attempt < 400 && !ok; ++attempt)
                {
                    path = og::PathGeometric(si);
                    double pts[4][2] = {{1.0, 5.0}, {3.0 + U(0, 2), 5.0 + U(-2, 2)}, {x0 - U(0.5, 3.0), 5.0 + U(-2, 2)}, {9.0, 5.0}};
                    for (auto &p : pts) { ob::ScopedState<> q(sp); q[0] = p[0]; q[1] = p[1]; path.append(q.get()); }
                    ok = path.check();
                }
                if (!ok) continue;
                ++valid_in;
                og::PathGeometric before(path);
                og::PathSimplifier ps(si); bool ret = ps.simplify(path, 0.25); bool chk = path.check();
                bool ends = path.getStateCount() >= 1 && sp->equalStates(path.getState(0), before.getState(0)) && sp->equalStates(path.getState(path.getStateCount() - 1), before.getState(3));
                if (ret) ++ret_true;
                if ((ret && !chk) || !ends)
                {
                    ++viol;
                    if (first.empty()) { std::ostringstream o; o << "trial " << t << (ends ? "" : " end states changed;") << " simplify returned " << ret << ", check() " << chk << ", " << path.getStateCount() << " states, wall " << x0 << ".." << x1; first = o.str(); }
                }
            }
            std::cout << "thin " << trials << " " << valid_in << " " << ret_true << " " << viol << " | " << first << std::endl;
            return;
        }
        std::istringstream in(line); std::string cmd, spn, envn, mode, routine; unsigned seed; double res;
        if (!(in >> cmd >> spn >> envn >> seed >> res >> mode >> routine) || cmd != "SIMP") return;
        std::vector<double> par; double v; while (in >> v) par.push_back(v);
        auto P = [&](std::size_t i, double d) { return i < par.size() ? par[i] : d; };
        ompl::RNG::setSeed(seed);
        std::cout << "SIMPINFO " << line << "\n";
        try
        {
            World w = make_world(spn, envn, res);
            ob::State *s0 = w.space->allocState(), *g0 = w.space->allocState();
            set_pos(w, s0, 0.1, (seed & 1) ? 0.1 : 0.5, 0.3); set_pos(w, g0, 0.9, (seed & 1) ? 0.9 : 0.5, 1.0);
            auto pdef = std::make_shared<ob::ProblemDefinition>(w.si); pdef->addStartState(s0); pdef->setGoalState(g0, 0.05);
            bool integral = mode.size() > 4 && mode.substr(mode.size() - 4) == ":int"; if (integral) mode = mode.substr(0, mode.size() - 4);
            ob::OptimizationObjectivePtr obj; if (integral) obj = std::make_shared<HeightCost>(w.si); else obj = std::make_shared<ob::PathLengthOptimizationObjective>(w.si);
            auto plan = [&](unsigned sd) -> std::shared_ptr<og::PathGeometric>
            {
                pdef->clearSolutionPaths();
                ob::PlannerPtr pl; if (sd % 2) { auto r = std::make_shared<og::RRT>(w.si); r->setRange(0.06 + 0.02 * (sd % 5)); pl = r; } else { auto r = std::make_shared<og::RRTConnect>(w.si); r->setRange(0.05 + 0.03 * (sd % 4)); pl = r; }
                pl->setProblemDefinition(pdef); pl->setup();
                ob::IterationTerminationCondition itc(200000);
                auto st = pl->solve(ob::plannerOrTerminationCondition(ob::timedPlannerTerminationCondition(3.0), ob::PlannerTerminationCondition(itc)));
                if (st != ob::PlannerStatus::EXACT_SOLUTION) return nullptr;
                return std::make_shared<og::PathGeometric>(*std::dynamic_pointer_cast<og::PathGeometric>(pdef->getSolutionPath()));
            };
            std::shared_ptr<og::PathGeometric> path;
            if (mode == "ushape")
            {   // a hand-made valid path that dips to small y (cheap under the height objective): straight shortcuts higher up cost more
                path = std::make_shared<og::PathGeometric>(w.si); std::mt19937 g(seed); std::uniform_real_distribution<double> u(0, 1);
                double ylow = 0.05 + 0.2 * u(g), x0 = 0.1 + 0.1 * u(g), x1 = 0.9 - 0.1 * u(g);
                std::vector<std::pair<double, double>> pts = {{x0, 0.9}, {x0, 0.5 + 0.2 * u(g)}, {x0, ylow}, {(x0 + x1) / 2, ylow}, {x1, ylow}, {x1, 0.6}, {x1, 0.9}};
                ob::State *t = w.space->allocState(); for (auto &p : pts) { set_pos(w, t, p.first, p.second, 0.0); path->append(t); if (seed % 3 == 0) path->append(t); } w.space->freeState(t);
                set_pos(w, g0, x1, 0.9, 0.0); pdef->setGoalState(g0, 0.05);
            }
            else if (mode == "point")
            {   // a path that never leaves one state (start = goal): 2..5 copies, total length 0
                path = std::make_shared<og::PathGeometric>(w.si); for (unsigned i = 0; i < 2 + seed % 4; ++i) path->append(s0);
            }
            else path = plan(seed);
            if (!path) { std::cout << "SKIP no input path\nEND" << std::endl; return; }
            if (mode == "dense") path->interpolate((unsigned)(path->getStateCount() * 3));
            if (mode == "dup")
            {   // repeat some states (zero-length segments)
                og::PathGeometric q(w.si); std::mt19937 g(seed);
                for (std::size_t i = 0; i < path->getStateCount(); ++i) { q.append(path->getState(i)); if (g() % 3 == 0) q.append(path->getState(i)); if (g() % 7 == 0) q.append(path->getState(i)); }
                *path = q;
            }
            std::map<std::string, long> ids;
            auto id_of = [&](const ob::State *s) { auto k = key_of(w.space.get(), s); auto it = ids.find(k); if (it != ids.end()) return it->second; long n = (long)ids.size() + 1; ids[k] = n; return n; };
            og::PathGeometric input(*path);
            w.mv->logging = false; bool chk_in = input.check(); w.mv->logging = true;
            std::cout << "IN " << input.getStateCount() << " " << (long long)std::llround(input.length() * 1e9) << " " << (long long)std::llround(input.cost(obj).value() * 1e9) << " " << (chk_in ? 1 : 0) << "\n";
            std::vector<long> in_ids; for (auto *s : input.getStates()) in_ids.push_back(id_of(s));
            std::cout << "IIDS"; for (long i : in_ids) std::cout << " " << i; std::cout << "\n";
            w.mv->accepted.clear();   // from here on: only what the routine itself validates
            og::PathSimplifier ps(w.si, pdef->getGoal(), obj);
            bool ret = true; std::string extra;
            if (routine == "reduce") ret = ps.reduceVertices(*path, (unsigned)P(0, 0), (unsigned)P(1, 0), P(2, 0.33));
            else if (routine == "partial") ret = ps.partialShortcutPath(*path, (unsigned)P(0, 0), (unsigned)P(1, 0), P(2, 0.33), P(3, 0.005));
            else if (routine == "rope") ret = ps.ropeShortcutPath(*path, P(0, 1.0), P(1, 0.1));
            else if (routine == "collapse") ret = ps.collapseCloseVertices(*path, (unsigned)P(0, 0), (unsigned)P(1, 0));
            else if (routine == "bspline") ps.smoothBSpline(*path, (unsigned)P(0, 5), P(1, std::numeric_limits<double>::epsilon()));
            else if (routine == "perturb") ret = ps.perturbPath(*path, P(0, 0.05), (unsigned)P(1, 0), (unsigned)P(2, 0), P(3, 0.005));
            else if (routine == "bettergoal") ret = ps.findBetterGoal(*path, P(0, 0.2), (unsigned)P(1, 10), P(2, 0.33), P(3, 0.005));
            else if (routine == "simplifymax") ret = ps.simplifyMax(*path);
            else if (routine == "simplify") ret = ps.simplify(*path, P(0, 0.3));
            else if (routine == "interpolate")
            {   // a negative parameter -k asks for (current size + k) states: the regime in which the per-segment cap binds
                long req = (long)P(0, 10); if (req < 0) req = (long)path->getStateCount() - req;
                std::cout << "REQUEST " << req << "\n"; path->interpolate((unsigned)req);
            }
            else if (routine == "interpolate0") path->interpolate();
            else if (routine == "subdivide") path->subdivide();
            else if (routine == "hybridize")
            {
                og::PathHybridization ph(w.si); double best = input.length(); ph.recordPath(path, false); int n = (int)P(0, 3);
                for (int k = 1; k < n; ++k) { auto q = plan(seed * 31 + k); if (q) { best = std::min(best, q->length()); ph.recordPath(q, false); } }
                ph.computeHybridPath();
                auto hp = std::dynamic_pointer_cast<og::PathGeometric>(ph.getHybridPath());
                extra = " best_recorded " + std::to_string((long long)std::llround(best * 1e9)) + " npaths " + std::to_string(ph.pathCount());
                if (hp) *path = *hp; else ret = false;
            }
            else throw std::runtime_error("unknown routine " + routine);
            w.mv->logging = false; bool chk_out = path->check(); w.mv->logging = true;
            std::cout << "RESULT " << (ret ? 1 : 0) << " " << path->getStateCount() << " " << (long long)std::llround(path->length() * 1e9) << " " << (long long)std::llround(path->cost(obj).value() * 1e9) << " " << (chk_out ? 1 : 0) << extra << "\n";
            // output facts
            std::ostringstream facts; emit_path_facts(w, *path, pdef->getGoal(), ids, facts);
            std::istringstream fl(facts.str()); std::string l;
            while (std::getline(fl, l)) std::cout << "O" << l << "\n";
            std::vector<long> out_ids; for (auto *s : path->getStates()) out_ids.push_back(id_of(s));
            std::cout << "OIDS"; for (long i : out_ids) std::cout << " " << i; std::cout << "\n";
            if (routine == "interpolate" || routine == "interpolate0" || routine == "subdivide")
            {   // segment lengths of the input (as PathGeometric::length sums them) and new states per input segment
                std::cout << "SEGLENS"; for (std::size_t i = 0; i + 1 < input.getStateCount(); ++i) std::cout << " " << hexd(w.si->distance(input.getState(i), input.getState(i + 1))); std::cout << "\n";
                std::cout << "COUNTS"; std::size_t pos = 0; bool okc = !out_ids.empty() && !in_ids.empty() && out_ids[0] == in_ids[0];
                for (std::size_t i = 1; okc && i < in_ids.size(); ++i)
                { std::size_t q = pos + 1; while (q < out_ids.size() && out_ids[q] != in_ids[i]) ++q; if (q >= out_ids.size()) { okc = false; break; } std::cout << " " << (q - pos - 1); pos = q; }
                std::cout << " | " << (okc && pos + 1 == out_ids.size() ? 1 : 0) << "\n";
            }
            std::cout << "KEPT " << (out_ids.empty() || in_ids.empty() ? 0 : (out_ids.front() == in_ids.front() ? 1 : 0)) << " " << (out_ids.empty() || in_ids.empty() ? 0 : (out_ids.back() == in_ids.back() ? 1 : 0)) << "\n";
            std::cout << "END" << std::endl;
            w.space->freeState(s0); w.space->freeState(g0);
        }
        catch (std::exception &ex) { std::string m = ex.what(); for (auto &c : m) if (c == '\n') c = ' '; std::cout << "SKIP " << m << "\nEND" << std::endl; }
    };
    if (argc > 1) { std::string l; for (int i = 1; i < argc; ++i) l += std::string(i > 1 ? " " : "") + argv[i]; handle(l); return 0; }
    while (std::getline(std::cin, line)) handle(line);
    return 0;
}
