// Random search for violations of the C06 / C07 / C08 laws on named spaces (the predicate itself, on the implementation).
// Tolerances are the library's own: equalStates for state equality, 1e-9 relative for real-valued identities that go
// through transcendental functions (the library's sanityChecks uses its own eps of about 1e-7 .. FLT_EPSILON).
#include <cmath>
static ob::StateSpacePtr named_space(const std::string &n)
{
    ob::RealVectorBounds b2(2), b3(3); b2.setLow(-2); b2.setHigh(3); b3.setLow(-2); b3.setHigh(3);
    if (n == "RV3") { auto s = std::make_shared<ob::RealVectorStateSpace>(3); s->setBounds(b3); return s; }
    if (n == "SO2") return std::make_shared<ob::SO2StateSpace>();
    if (n == "SO3") return std::make_shared<ob::SO3StateSpace>();
    if (n == "SE2") { auto s = std::make_shared<ob::SE2StateSpace>(); s->setBounds(b2); return s; }
    if (n == "SE3") { auto s = std::make_shared<ob::SE3StateSpace>(); s->setBounds(b3); return s; }
    if (n == "TIME") { auto s = std::make_shared<ob::TimeStateSpace>(); s->setBounds(-1, 4); return s; }
    if (n == "DISC") return std::make_shared<ob::DiscreteStateSpace>(-2, 5);
    if (n == "TORUS") return std::make_shared<ob::TorusStateSpace>(2, 1);
    if (n == "SPHERE") return std::make_shared<ob::SphereStateSpace>(3);
    if (n == "SPHERE1") return std::make_shared<ob::SphereStateSpace>(1);
    if (n == "MOBIUS") return std::make_shared<ob::MobiusStateSpace>(1, 1);
    if (n == "KLEIN") return std::make_shared<ob::KleinBottleStateSpace>();
    if (n == "DUBINS") { auto s = std::make_shared<ob::DubinsStateSpace>(1.0); s->setBounds(b2); return s; }
    if (n == "DUBINSSYM") { auto s = std::make_shared<ob::DubinsStateSpace>(1.0, true); s->setBounds(b2); return s; }
    if (n == "RS") { auto s = std::make_shared<ob::ReedsSheppStateSpace>(1.0); s->setBounds(b2); return s; }
    auto c = std::make_shared<ob::CompoundStateSpace>();
    auto r = std::make_shared<ob::RealVectorStateSpace>(2); r->setBounds(b2);
    c->addSubspace(r, 1.0); c->addSubspace(std::make_shared<ob::SO3StateSpace>(), 0.5); c->addSubspace(std::make_shared<ob::DiscreteStateSpace>(0, 3), 2.0); c->lock();
    return c;
}
static std::string sstr(const ob::StateSpacePtr &sp, const ob::State *s)
{
    std::vector<double> r; sp->copyToReals(r, s); std::ostringstream o; o.precision(17);
    o << "("; for (std::size_t i = 0; i < r.size(); ++i) o << (i ? "," : "") << r[i]; o << ")"; return o.str();
}
struct Law { const char *name; long fails = 0; std::string witness; };
static void run_laws(const std::string &name, int n, unsigned seed)
{
    auto sp = named_space(name); sp->setup();
    ompl::RNG rng(seed ? seed : 1);
    auto sampler = sp->allocStateSampler();
    // the sampler's own generator is seeded from the global seed generator: fix it for reproducibility
    ob::State *a = sp->allocState(), *b = sp->allocState(), *c = sp->allocState(), *r = sp->allocState(), *r2 = sp->allocState(), *r3 = sp->allocState();
    Law nonneg{"dist-nonneg"}, refl{"dist-self-zero"}, pos{"dist-positive-if-not-equal"}, sym{"dist-symmetric"}, ext{"dist-le-extent"}, tri{"triangle"}, tri2{"triangle-gross"}, igeo2{"interp-geodesic-gross"},
        i0{"interp-0"}, i1{"interp-1"}, ib{"interp-in-bounds"}, ial{"interp-alias"}, irp{"interp-reparam"}, igeo{"interp-geodesic"},
        eno{"enforce-noop"}, esat{"enforce-satisfies"}, eid{"enforce-idempotent"}, sinb{"sampler-in-bounds"};
    auto fail = [](Law &l, const std::string &w) { if (l.fails++ == 0) l.witness = w; };
    const bool metric = sp->isMetricSpace(), symm = sp->hasSymmetricDistance(), symi = sp->hasSymmetricInterpolate();
    const double extent = sp->getMaximumExtent();
    const bool geodesic = (name == "RV3" || name == "SO2" || name == "SO3" || name == "SE2" || name == "SE3" || name == "TIME" || name == "TORUS");
    for (int it = 0; it < n; ++it)
    {
        int mode = it % 8;
        sampler->sampleUniform(a);
        if (mode == 1) sp->copyState(b, a); else if (mode == 2) sampler->sampleUniformNear(b, a, 1e-4); else if (mode == 3) sampler->sampleUniformNear(b, a, 1e-9); else sampler->sampleUniform(b);
        if (mode == 4) sampler->sampleUniformNear(c, a, 0.5); else sampler->sampleUniform(c);
        if (mode == 5) sampler->sampleGaussian(b, a, 0.3);
        if (mode == 6 || mode == 7)
        {   // states that agree in every coordinate but one (e.g. same position, different heading): b (mode 6) or c (mode 7)
            std::vector<double> ra, rb; sp->copyToReals(ra, a); sp->copyToReals(rb, mode == 6 ? b : c);
            if (!ra.empty()) { std::size_t k = rng.uniformInt(0, (int)ra.size() - 1); double keep = rb[k]; rb = ra; rb[k] = keep; sp->copyFromReals(mode == 6 ? b : c, rb); sp->enforceBounds(mode == 6 ? b : c); }
        }
        for (ob::State *s : {a, b, c}) if (!sp->satisfiesBounds(s)) fail(sinb, sstr(sp, s));
        double dab = sp->distance(a, b), dba = sp->distance(b, a), dac = sp->distance(a, c), dbc = sp->distance(b, c);
        std::string w = sstr(sp, a) + " " + sstr(sp, b);
        if (!(dab >= 0)) fail(nonneg, w);
        if (sp->distance(a, a) != 0) fail(refl, sstr(sp, a));
        if (!sp->equalStates(a, b) && !(dab > 0)) fail(pos, w);
        if (symm && std::fabs(dab - dba) > 1e-9 * (1 + dab)) fail(sym, w);
        if (dab > extent * (1 + 1e-9) + 1e-12) fail(ext, w);
        if (metric && dac > dab + dbc + 1e-9 * (1 + dac)) fail(tri, sstr(sp, a) + " " + sstr(sp, b) + " " + sstr(sp, c));
        if (metric && dac > dab + dbc + 2e-4) fail(tri2, sstr(sp, a) + " " + sstr(sp, b) + " " + sstr(sp, c));
        sp->interpolate(a, b, 0.0, r); if (!sp->equalStates(r, a)) fail(i0, w);
        sp->interpolate(a, b, 1.0, r); if (!sp->equalStates(r, b) && sp->distance(r, b) > 1e-7) fail(i1, w);
        double t = rng.uniform01(), s = rng.uniform01(), u = rng.uniform01();
        sp->interpolate(a, b, t, r); if (!sp->satisfiesBounds(r)) fail(ib, w + " t=" + std::to_string(t));
        sp->copyState(r2, a); sp->interpolate(r2, b, t, r2); if (!sp->equalStates(r, r2)) fail(ial, w);
        sp->copyState(r2, b); sp->interpolate(a, r2, t, r2); if (!sp->equalStates(r, r2)) fail(ial, w);
        if (geodesic && std::fabs(sp->distance(a, r) - t * dab) > 1e-7 * (1 + dab)) fail(igeo, w + " t=" + std::to_string(t));
        if (geodesic && std::fabs(sp->distance(a, r) - t * dab) > 2e-4) fail(igeo2, w + " t=" + std::to_string(t));
        sp->interpolate(a, b, s, r); sp->interpolate(r, b, u, r2); sp->interpolate(a, b, s + (1 - s) * u, r3);
        if (sp->distance(r2, r3) > 1e-6) fail(irp, w + " s=" + std::to_string(s) + " u=" + std::to_string(u));
        sp->copyState(r, a); sp->enforceBounds(r); if (!sp->equalStates(r, a)) fail(eno, sstr(sp, a));
        // a state far outside: scale the reals
        { std::vector<double> rv; sp->copyToReals(rv, a); for (auto &x : rv) x = x * 7.5 + 11.0; sp->copyFromReals(r, rv); sp->enforceBounds(r);
          if (!sp->satisfiesBounds(r)) fail(esat, sstr(sp, a)); sp->copyState(r2, r); sp->enforceBounds(r2); if (!sp->equalStates(r, r2)) fail(eid, sstr(sp, a)); }
    }
    std::printf("laws %s metric=%d sym=%d", name.c_str(), metric, symm);
    for (Law *l : {&nonneg, &refl, &pos, &sym, &ext, &tri, &tri2, &i0, &i1, &ib, &ial, &irp, &igeo, &igeo2, &eno, &esat, &eid, &sinb})
        std::printf(" ; %s %ld %s", l->name, l->fails, l->fails ? l->witness.c_str() : "-");
    std::printf("\n");
    for (ob::State *s : {a, b, c, r, r2, r3}) sp->freeState(s);
}
