// C08 implementation driver (valid-state samplers): the six ValidStateSampler classes of /repo run on R^1 with bounds
// [-100,100], a scripted underlying StateSampler (every sampleUniform / sampleUniformNear / sampleGaussian call returns the
// next value of the script), validity "floor(x) mod 4 != 0", clearance "floor(x) mod 7".
//   <kind> <attempts> <improve> <clearance> | tape...   kind: uniform gaussian obstacle bridge maxclear minclear
//   -> "<flag> <state> <draws used> | <inb> <chk> | near: <flag> <state> <used> | <inb> <chk>"   or "none" when the script ran out
//   GEO <kind> <n> <seed>: the same samplers with the real default sampler on R^2 x SO2 and a geometric validity predicate;
//   prints the number of successes whose output is out of bounds or invalid
#include <ompl/base/SpaceInformation.h>
#include <ompl/base/spaces/RealVectorStateSpace.h>
#include <ompl/base/spaces/SE2StateSpace.h>
#include <ompl/base/samplers/UniformValidStateSampler.h>
#include <ompl/base/samplers/GaussianValidStateSampler.h>
#include <ompl/base/samplers/ObstacleBasedValidStateSampler.h>
#include <ompl/base/samplers/BridgeTestValidStateSampler.h>
#include <ompl/base/samplers/MaximizeClearanceValidStateSampler.h>
#include <ompl/base/samplers/MinimumClearanceValidStateSampler.h>
#include <ompl/util/Console.h>
#include <cmath>
#include <iostream>
#include <sstream>
namespace ob = ompl::base;
struct ScriptEnd {};
static std::vector<double> g_tape; static std::size_t g_pos = 0;
static double nextv() { if (g_pos >= g_tape.size()) throw ScriptEnd(); return g_tape[g_pos++]; }
class ScriptSampler : public ob::StateSampler
{
public:
    ScriptSampler(const ob::StateSpace *s) : ob::StateSampler(s) {}
    void sampleUniform(ob::State *st) override { st->as<ob::RealVectorStateSpace::StateType>()->values[0] = nextv(); }
    void sampleUniformNear(ob::State *st, const ob::State *, double) override { sampleUniform(st); }
    void sampleGaussian(ob::State *st, const ob::State *, double) override { sampleUniform(st); }
};
static long emod(long a, long m) { long r = a % m; return r < 0 ? r + m : r; }
class Chk : public ob::StateValidityChecker
{
public:
    Chk(const ob::SpaceInformationPtr &si) : ob::StateValidityChecker(si) {}
    bool isValid(const ob::State *st) const override { return emod((long)std::floor(st->as<ob::RealVectorStateSpace::StateType>()->values[0]), 4) != 0; }
    double clearance(const ob::State *st) const override { return (double)emod((long)std::floor(st->as<ob::RealVectorStateSpace::StateType>()->values[0]), 7); }
};
static ob::ValidStateSamplerPtr make(const std::string &k, const ob::SpaceInformation *si, unsigned improve, double clr)
{
    if (k == "uniform") return std::make_shared<ob::UniformValidStateSampler>(si);
    if (k == "gaussian") return std::make_shared<ob::GaussianValidStateSampler>(si);
    if (k == "obstacle") return std::make_shared<ob::ObstacleBasedValidStateSampler>(si);
    if (k == "bridge") return std::make_shared<ob::BridgeTestValidStateSampler>(si);
    if (k == "maxclear") { auto s = std::make_shared<ob::MaximizeClearanceValidStateSampler>(si); s->setNrImproveAttempts(improve); return s; }
    auto s = std::make_shared<ob::MinimumClearanceValidStateSampler>(si); s->setMinimumObstacleClearance(clr); return s;
}
// geometric validity on SE(2): outside two discs and a slab; clearance = distance to the nearest of them
class GeoChk : public ob::StateValidityChecker
{
public:
    GeoChk(const ob::SpaceInformationPtr &si) : ob::StateValidityChecker(si) {}
    double clearance(const ob::State *st) const override
    {
        auto *s = st->as<ob::SE2StateSpace::StateType>(); double x = s->getX(), y = s->getY();
        double d1 = std::hypot(x - 0.5, y - 0.5) - 0.8, d2 = std::hypot(x + 1.0, y + 0.2) - 0.4, d3 = std::fabs(y - 1.7) - 0.1;
        return std::min(d1, std::min(d2, d3));
    }
    bool isValid(const ob::State *st) const override { return clearance(st) > 0 && std::cos(st->as<ob::SE2StateSpace::StateType>()->getYaw()) < 0.9; }
};
int main()
{
    ompl::msg::setLogLevel(ompl::msg::LOG_NONE);
    std::string line;
    while (std::getline(std::cin, line))
    {
        std::istringstream in(line); std::string k; if (!(in >> k)) continue;
        if (k == "GEO")
        {
            std::string kind; int n; unsigned seed; in >> kind >> n >> seed;
            auto sp = std::make_shared<ob::SE2StateSpace>(); ob::RealVectorBounds b(2); b.setLow(-2); b.setHigh(3); sp->setBounds(b);
            auto si = std::make_shared<ob::SpaceInformation>(sp); si->setStateValidityChecker(std::make_shared<GeoChk>(si)); si->setStateValidityCheckingResolution(0.01); si->setup();
            auto vs = make(kind, si.get(), 3, 0.2); vs->setNrAttempts(1 + seed % 7);
            ob::State *st = si->allocState(), *near = si->allocState(); long ok = 0, bad = 0; std::string w;
            auto plain = si->allocStateSampler();
            for (int i = 0; i < n; ++i)
            {
                plain->sampleUniform(near);
                bool r = (i & 1) ? vs->sampleNear(st, near, (i % 5) * 0.7) : vs->sample(st);
                if (!r) continue;
                ++ok;
                if (!sp->satisfiesBounds(st) || !si->getStateValidityChecker()->isValid(st)) { if (bad++ == 0) { std::ostringstream o; o.precision(17); auto *s = st->as<ob::SE2StateSpace::StateType>(); o << s->getX() << "," << s->getY() << "," << s->getYaw(); w = o.str(); } }
            }
            std::printf("geo %s successes %ld bad %ld %s\n", kind.c_str(), ok, bad, bad ? w.c_str() : "-");
            si->freeState(st); si->freeState(near); std::fflush(stdout); continue;
        }
        unsigned attempts, improve; double clr; std::string bar; in >> attempts >> improve >> clr >> bar;
        g_tape.clear(); double v; while (in >> v) g_tape.push_back(v);
        auto sp = std::make_shared<ob::RealVectorStateSpace>(1); sp->setBounds(-100, 100);
        sp->setStateSamplerAllocator([](const ob::StateSpace *s) { return std::make_shared<ScriptSampler>(s); });
        auto si = std::make_shared<ob::SpaceInformation>(sp); si->setStateValidityChecker(std::make_shared<Chk>(si)); si->setup();
        ob::State *st = si->allocState(), *near = si->allocState();
        near->as<ob::RealVectorStateSpace::StateType>()->values[0] = 0;
        for (int mode = 0; mode < 2; ++mode)
        {
            auto vs = make(k, si.get(), improve, clr); vs->setNrAttempts(attempts);
            st->as<ob::RealVectorStateSpace::StateType>()->values[0] = 0; g_pos = 0;
            if (mode) std::printf(" | near: ");
            try
            {
                bool r = mode ? vs->sampleNear(st, near, 1.0) : vs->sample(st);
                double x = st->as<ob::RealVectorStateSpace::StateType>()->values[0];
                std::printf("%d %.17g %zu | %d %d", r ? 1 : 0, x, g_pos, sp->satisfiesBounds(st) ? 1 : 0, si->getStateValidityChecker()->isValid(st) ? 1 : 0);
            }
            catch (ScriptEnd &) { std::printf("none"); }
        }
        std::printf("\n"); std::fflush(stdout);
        si->freeState(st); si->freeState(near);
    }
    return 0;
}
