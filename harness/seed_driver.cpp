// C20 implementation driver (one process per script: the seed generator is a process-wide singleton).
//   SET s | NEW | GET                  global seed / create an RNG and print its local seed / RNG::getSeed()
//   STREAM seed pattern pre            RNG r(seed): draws per pattern; then `pre` extra draws; setLocalSeed(seed); pattern again
//                                      pattern letters: u uniform01, g gaussian01, v sphere dim 3, w sphere dim 5, q quaternion, b bool, i int
//   PLAN name seed iters               run a single-threaded planner on a fixed 2-D problem; prints status and a hash of the solution
#include <ompl/util/RandomNumbers.h>
#include <ompl/util/Console.h>
#include <ompl/base/spaces/RealVectorStateSpace.h>
#include <ompl/base/spaces/SE2StateSpace.h>
#include <ompl/base/spaces/DiscreteStateSpace.h>
#include <ompl/base/terminationconditions/IterationTerminationCondition.h>
#include <ompl/geometric/SimpleSetup.h>
#include <ompl/geometric/planners/rrt/RRT.h>
#include <ompl/geometric/planners/rrt/RRTConnect.h>
#include <ompl/geometric/planners/rrt/RRTstar.h>
#include <ompl/geometric/planners/rrt/LazyRRT.h>
#include <ompl/geometric/planners/rrt/TRRT.h>
#include <ompl/geometric/planners/est/EST.h>
#include <ompl/geometric/planners/est/BiEST.h>
#include <ompl/geometric/planners/kpiece/KPIECE1.h>
#include <ompl/geometric/planners/kpiece/BKPIECE1.h>
#include <ompl/geometric/planners/sbl/SBL.h>
#include <ompl/geometric/planners/prm/LazyPRM.h>
#include <ompl/geometric/planners/fmt/FMT.h>
#include <ompl/geometric/planners/informedtrees/BITstar.h>
#include <ompl/geometric/planners/informedtrees/AITstar.h>
#include <ompl/geometric/planners/sst/SST.h>
#include <ompl/geometric/planners/pdst/PDST.h>
#include <ompl/geometric/planners/stride/STRIDE.h>
#include <cstring>
#include <iostream>
#include <sstream>
namespace ob = ompl::base; namespace og = ompl::geometric;
static unsigned long long bits(double d) { unsigned long long b; std::memcpy(&b, &d, 8); return b; }
static void drawp(ompl::RNG &r, const std::string &pat)
{
    for (char ch : pat)
    {
        if (ch == 'u') std::printf(" %016llx", bits(r.uniform01()));
        else if (ch == 'g') std::printf(" %016llx", bits(r.gaussian01()));
        else if (ch == 'b') std::printf(" %d", r.uniformBool() ? 1 : 0);
        else if (ch == 'i') std::printf(" %d", r.uniformInt(-5, 17));
        else if (ch == 'q') { double q[4]; r.quaternion(q); for (double x : q) std::printf(" %016llx", bits(x)); }
        else if (ch == 'v' || ch == 'w') { std::vector<double> v(ch == 'v' ? 3 : 5); r.uniformNormalVector(v); for (double x : v) std::printf(" %016llx", bits(x)); }
    }
}
template <class P> static ob::PlannerPtr mk(const ob::SpaceInformationPtr &si) { return std::make_shared<P>(si); }
int main()
{
    ompl::msg::setLogLevel(ompl::msg::LOG_NONE);
    std::string line;
    while (std::getline(std::cin, line))
    {
        std::istringstream in(line); std::string op; if (!(in >> op)) continue;
        if (op == "SET") { unsigned long long s; in >> s; ompl::RNG::setSeed(s); std::printf("set\n"); }
        else if (op == "NEW") { ompl::RNG r; std::printf("%lu\n", (unsigned long)r.getLocalSeed()); }
        else if (op == "GET") std::printf("%lu\n", (unsigned long)ompl::RNG::getSeed());
        else if (op == "STREAM")
        {
            unsigned long seed; std::string pat, pre; in >> seed >> pat >> pre;
            ompl::RNG r(seed); std::printf("a"); drawp(r, pat); std::printf("\n");
            std::printf("x"); drawp(r, pre); std::printf("\n");
            r.setLocalSeed(seed); std::printf("b"); drawp(r, pat); std::printf("\n");
        }
        else if (op == "PLAN")
        {
            std::string name, world; unsigned long seed; unsigned iters; in >> name >> seed >> iters; in >> world;
            ompl::RNG::setSeed(seed);
            const bool grid = world == "grid";   // a 100 x 100 lattice (two discrete components): distances are integers, ties abound
            ob::StateSpacePtr space;
            if (grid)
            {
                auto cs = std::make_shared<ob::CompoundStateSpace>();
                cs->addSubspace(std::make_shared<ob::DiscreteStateSpace>(0, 99), 1.0); cs->addSubspace(std::make_shared<ob::DiscreteStateSpace>(0, 99), 1.0); cs->lock();
                space = cs;
            }
            else { auto rv = std::make_shared<ob::RealVectorStateSpace>(2); rv->setBounds(0, 1); space = rv; }
            og::SimpleSetup ss(space);
            if (grid)
                ss.setStateValidityChecker([](const ob::State *s) {
                    const auto *c = s->as<ob::CompoundState>(); int x = c->as<ob::DiscreteStateSpace::StateType>(0)->value, y = c->as<ob::DiscreteStateSpace::StateType>(1)->value;
                    return !((x >= 40 && x < 60 && y >= 20 && y < 80) || (y >= 45 && y < 55 && x >= 10 && x < 40)); });
            else
                ss.setStateValidityChecker([](const ob::State *s) {
                    const double *v = s->as<ob::RealVectorStateSpace::StateType>()->values;
                    double dx = v[0] - 0.5, dy = v[1] - 0.5; return dx * dx + dy * dy > 0.04; });
            ob::ScopedState<> a(space), b(space);
            if (grid)
            {
                a->as<ob::CompoundState>()->as<ob::DiscreteStateSpace::StateType>(0)->value = 5; a->as<ob::CompoundState>()->as<ob::DiscreteStateSpace::StateType>(1)->value = 5;
                b->as<ob::CompoundState>()->as<ob::DiscreteStateSpace::StateType>(0)->value = 92; b->as<ob::CompoundState>()->as<ob::DiscreteStateSpace::StateType>(1)->value = 90;
                ss.setStartAndGoalStates(a, b, 0.5);
            }
            else { a[0] = 0.1; a[1] = 0.1; b[0] = 0.9; b[1] = 0.9; ss.setStartAndGoalStates(a, b, 0.02); }
            auto si = ss.getSpaceInformation();
            ob::PlannerPtr p;
            if (name == "RRT") p = mk<og::RRT>(si); else if (name == "RRTConnect") p = mk<og::RRTConnect>(si);
            else if (name == "RRTstar") p = mk<og::RRTstar>(si); else if (name == "LazyRRT") p = mk<og::LazyRRT>(si);
            else if (name == "TRRT") p = mk<og::TRRT>(si); else if (name == "EST") p = mk<og::EST>(si);
            else if (name == "BiEST") p = mk<og::BiEST>(si); else if (name == "KPIECE1") p = mk<og::KPIECE1>(si);
            else if (name == "BKPIECE1") p = mk<og::BKPIECE1>(si); else if (name == "SBL") p = mk<og::SBL>(si);
            else if (name == "LazyPRM") p = mk<og::LazyPRM>(si); else if (name == "FMT") p = mk<og::FMT>(si);
            else if (name == "BITstar") p = mk<og::BITstar>(si); else if (name == "AITstar") p = mk<og::AITstar>(si);
            else if (name == "SST") p = mk<og::SST>(si); else if (name == "PDST") p = mk<og::PDST>(si);
            else p = mk<og::STRIDE>(si);
            if (grid && p->params().hasParam("range")) p->params().setParam("range", "4");   // small steps: trees of hundreds of motions
            ss.setPlanner(p);
            ob::IterationTerminationCondition itc(iters);
            ob::PlannerStatus st = ss.solve(ob::PlannerTerminationCondition(itc));
            unsigned long long h = 1469598103934665603ULL; std::size_t n = 0;
            if (ss.haveSolutionPath())
            {
                auto &path = ss.getSolutionPath(); n = path.getStateCount();
                for (std::size_t i = 0; i < n; ++i)
                    for (int k = 0; k < 2; ++k)
                    {
                        h ^= grid ? (unsigned long long)path.getState(i)->as<ob::CompoundState>()->as<ob::DiscreteStateSpace::StateType>(k)->value
                                  : bits(path.getState(i)->as<ob::RealVectorStateSpace::StateType>()->values[k]);
                        h *= 1099511628211ULL;
                    }
            }
            std::printf("plan %s %d %zu %016llx\n", name.c_str(), (int)(ob::PlannerStatus::StatusType)st, n, h);
        }
        std::fflush(stdout);
    }
    return 0;
}
