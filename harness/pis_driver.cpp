// C03 implementation driver (query bookkeeping): Planner::setProblemDefinition / clear and PlannerInputStates of /repo,
// on R^1 with bounds [-100,100]; a state is "ok" iff in bounds and its value is not a multiple of 4.
//   NEW                      fresh planner, no problem definitions
//   PDEF <starts..> | <goals..>   create problem definition (index = creation order) with those start / goal states
//   USE i | CLEAR | RESTART | NEXTSTART | NEXTGOAL | ADDSTART i v | MORESTARTS | MOREGOALS
// prints one line per op: "-" | "state <v|none>" | "bool 0|1" | "throw"
#include <ompl/base/Planner.h>
#include <ompl/base/SpaceInformation.h>
#include <ompl/base/ProblemDefinition.h>
#include <ompl/base/goals/GoalStates.h>
#include <ompl/base/spaces/RealVectorStateSpace.h>
#include <ompl/util/Console.h>
#include <cmath>
#include <iostream>
#include <sstream>
namespace ob = ompl::base;
class Dummy : public ob::Planner
{
public:
    Dummy(const ob::SpaceInformationPtr &si) : ob::Planner(si, "dummy") {}
    ob::PlannerStatus solve(const ob::PlannerTerminationCondition &) override { return ob::PlannerStatus::TIMEOUT; }
    ob::PlannerInputStates &pis() { return pis_; }
};
int main()
{
    ompl::msg::setLogLevel(ompl::msg::LOG_NONE);
    auto sp = std::make_shared<ob::RealVectorStateSpace>(1); sp->setBounds(-100, 100);
    auto si = std::make_shared<ob::SpaceInformation>(sp);
    si->setStateValidityChecker([](const ob::State *s) { long v = (long)std::floor(s->as<ob::RealVectorStateSpace::StateType>()->values[0]); return ((v % 4) + 4) % 4 != 0; });
    si->setup();
    std::shared_ptr<Dummy> pl; std::vector<ob::ProblemDefinitionPtr> pdefs; std::string line;
    auto mk = [&](double v) { ob::State *s = sp->allocState(); s->as<ob::RealVectorStateSpace::StateType>()->values[0] = v; return s; };
    while (std::getline(std::cin, line))
    {
        std::istringstream in(line); std::string op; if (!(in >> op)) continue;
        try
        {
            if (op == "NEW") { pl = std::make_shared<Dummy>(si); pdefs.clear(); std::printf("-\n"); }
            else if (op == "PDEF")
            {
                auto pd = std::make_shared<ob::ProblemDefinition>(si); auto gs = std::make_shared<ob::GoalStates>(si); std::string w; bool goals = false;
                while (in >> w) { if (w == "|") { goals = true; continue; } ob::State *s = mk(std::stod(w)); if (goals) gs->addState(s); else pd->addStartState(s); sp->freeState(s); }
                pd->setGoal(gs); pdefs.push_back(pd); std::printf("-\n");
            }
            else if (op == "USE") { int i; in >> i; pl->setProblemDefinition(pdefs.at(i)); std::printf("-\n"); }
            else if (op == "CLEAR") { pl->clear(); std::printf("-\n"); }
            else if (op == "RESTART") { pl->pis().restart(); std::printf("-\n"); }
            else if (op == "NEXTSTART") { const ob::State *s = pl->pis().nextStart(); if (s) std::printf("state %ld\n", (long)s->as<ob::RealVectorStateSpace::StateType>()->values[0]); else std::printf("state none\n"); }
            else if (op == "NEXTGOAL") { const ob::State *s = pl->pis().nextGoal(); if (s) std::printf("state %ld\n", (long)s->as<ob::RealVectorStateSpace::StateType>()->values[0]); else std::printf("state none\n"); }
            else if (op == "ADDSTART") { int i; double v; in >> i >> v; ob::State *s = mk(v); pdefs.at(i)->addStartState(s); sp->freeState(s); std::printf("-\n"); }
            else if (op == "MORESTARTS") std::printf("bool %d\n", pl->pis().haveMoreStartStates() ? 1 : 0);
            else if (op == "MOREGOALS") std::printf("bool %d\n", pl->pis().haveMoreGoalStates() ? 1 : 0);
        }
        catch (std::exception &) { std::printf("throw\n"); }
        std::fflush(stdout);
    }
    return 0;
}
