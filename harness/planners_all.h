// all instantiable geometric / multilevel planners by name (shared by the planning drivers)
#pragma once
#include <ompl/geometric/planners/rrt/RRT.h>
#include <ompl/geometric/planners/rrt/RRTConnect.h>
#include <ompl/geometric/planners/rrt/pRRT.h>
#include <ompl/geometric/planners/rrt/LazyRRT.h>
#include <ompl/geometric/planners/rrt/TRRT.h>
#include <ompl/geometric/planners/rrt/BiTRRT.h>
#include <ompl/geometric/planners/rrt/RRTstar.h>
#include <ompl/geometric/planners/rrt/InformedRRTstar.h>
#include <ompl/geometric/planners/rrt/SORRTstar.h>
#include <ompl/geometric/planners/rrt/RRTsharp.h>
#include <ompl/geometric/planners/rrt/RRTXstatic.h>
#include <ompl/geometric/planners/rrt/LBTRRT.h>
#include <ompl/geometric/planners/rrt/LazyLBTRRT.h>
#include <ompl/geometric/planners/est/EST.h>
#include <ompl/geometric/planners/est/BiEST.h>
#include <ompl/geometric/planners/est/ProjEST.h>
#include <ompl/geometric/planners/kpiece/KPIECE1.h>
#include <ompl/geometric/planners/kpiece/BKPIECE1.h>
#include <ompl/geometric/planners/kpiece/LBKPIECE1.h>
#include <ompl/geometric/planners/sbl/SBL.h>
#include <ompl/geometric/planners/sbl/pSBL.h>
#include <ompl/geometric/planners/pdst/PDST.h>
#include <ompl/geometric/planners/stride/STRIDE.h>
#include <ompl/geometric/planners/fmt/FMT.h>
#include <ompl/geometric/planners/fmt/BFMT.h>
#include <ompl/geometric/planners/prm/PRM.h>
#include <ompl/geometric/planners/prm/PRMstar.h>
#include <ompl/geometric/planners/prm/LazyPRM.h>
#include <ompl/geometric/planners/prm/LazyPRMstar.h>
#include <ompl/geometric/planners/prm/SPARS.h>
#include <ompl/geometric/planners/prm/SPARStwo.h>
#include <ompl/geometric/planners/informedtrees/BITstar.h>
#include <ompl/geometric/planners/informedtrees/ABITstar.h>
#include <ompl/geometric/planners/informedtrees/AITstar.h>
#include <ompl/geometric/planners/informedtrees/EITstar.h>
#include <ompl/geometric/planners/informedtrees/EIRMstar.h>
#include <ompl/geometric/planners/sst/SST.h>
#include <ompl/geometric/planners/rlrt/RLRT.h>
#include <ompl/geometric/planners/rlrt/BiRLRT.h>
#include <ompl/geometric/planners/cforest/CForest.h>
#include <ompl/geometric/planners/AnytimePathShortening.h>
#include <ompl/multilevel/planners/qrrt/QRRT.h>
#include <ompl/multilevel/planners/qrrt/QRRTStar.h>
#include <ompl/multilevel/planners/qmp/QMP.h>
#include <ompl/multilevel/planners/qmp/QMPStar.h>
#include <ompl/base/objectives/PathLengthOptimizationObjective.h>

static ob::PlannerPtr make_planner(const std::string &n, const ob::SpaceInformationPtr &si)
{
#define P(name, T) if (n == name) return std::make_shared<T>(si);
    P("RRT", og::RRT) P("RRTConnect", og::RRTConnect) P("LazyRRT", og::LazyRRT) P("TRRT", og::TRRT) P("BiTRRT", og::BiTRRT)
    P("RRTstar", og::RRTstar) P("InformedRRTstar", og::InformedRRTstar) P("SORRTstar", og::SORRTstar) P("RRTsharp", og::RRTsharp)
    P("RRTXstatic", og::RRTXstatic) P("LBTRRT", og::LBTRRT) P("LazyLBTRRT", og::LazyLBTRRT) P("EST", og::EST) P("BiEST", og::BiEST)
    P("ProjEST", og::ProjEST) P("KPIECE1", og::KPIECE1) P("BKPIECE1", og::BKPIECE1) P("LBKPIECE1", og::LBKPIECE1) P("SBL", og::SBL)
    P("PDST", og::PDST) P("STRIDE", og::STRIDE) P("FMT", og::FMT) P("BFMT", og::BFMT) P("PRM", og::PRM) P("PRMstar", og::PRMstar)
    P("LazyPRM", og::LazyPRM) P("LazyPRMstar", og::LazyPRMstar) P("SPARS", og::SPARS) P("SPARStwo", og::SPARStwo) P("BITstar", og::BITstar)
    P("ABITstar", og::ABITstar) P("AITstar", og::AITstar) P("EITstar", og::EITstar) P("EIRMstar", og::EIRMstar) P("SST", og::SST)
    P("RLRT", og::RLRT) P("BiRLRT", og::BiRLRT) P("AnytimePathShortening", og::AnytimePathShortening)
    P("QRRT", ompl::multilevel::QRRT) P("QRRTStar", ompl::multilevel::QRRTStar) P("QMP", ompl::multilevel::QMP) P("QMPStar", ompl::multilevel::QMPStar)
#undef P
    if (n == "RRTi") { auto p = std::make_shared<og::RRT>(si, true); return p; }
    if (n == "RRTConnecti") { auto p = std::make_shared<og::RRTConnect>(si, true); return p; }
    if (n == "pRRT") { auto p = std::make_shared<og::pRRT>(si); p->setThreadCount(2); return p; }
    if (n == "pSBL") { auto p = std::make_shared<og::pSBL>(si); p->setThreadCount(2); return p; }
    if (n == "CForest") { auto p = std::make_shared<og::CForest>(si); p->setNumThreads(2); return p; }
    if (n.rfind("EITstar", 0) == 0 && n.size() > 7)   // EITstar<k>: non-default initial number of sparse collision checks
    { auto p = std::make_shared<og::EITstar>(si); p->setInitialNumberOfSparseCollisionChecks(std::atoi(n.c_str() + 7)); return p; }
    throw std::runtime_error("unknown planner " + n);
}

