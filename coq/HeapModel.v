(* HeapModel.v — executable model of ompl::BinaryHeap (src/ompl/datastructures/BinaryHeap.h).
   Definitions only (no proofs), so the model still runs when a proof breaks.
   Layer 1 ("Core"): the sift loops on an array of comparable values, hole technique,
   same index arithmetic as the C++ ((pos+1)<<1, (pos-1)>>1).
   Layer 2 ("Elt"): elements carrying an id (the Element* handle), a key and the
   `position` field, with every `vector_[i]->position = i` write transcribed. *)
From Coq Require Import List Arith Lia Bool.
Import ListNotations.

Section Arr.
  Context {A : Type}.
  Definition get (d : A) (v : list A) (i : nat) : A := nth i v d.
  Fixpoint upd (i : nat) (x : A) (v : list A) : list A :=
    match v, i with
    | [], _ => []
    | _ :: t, 0 => x :: t
    | h :: t, S j => h :: upd j x t
    end.
End Arr.

Definition par (i : nat) : nat := (i - 1) / 2.

(* ---------------------------------------------------------------- layer 1 *)
Section Core.
  Variable K : Type.
  Variable lt : K -> K -> bool.
  Variable d : K.
  Notation get := (get d).

  (* BinaryHeap.h percolateUp: while (child > 0 && lt_(tmp, vector_[parent])) *)
  Fixpoint pu_loop (fuel : nat) (v : list K) (tmp : K) (child : nat) : list K * nat :=
    match fuel with
    | 0 => (v, child)
    | S f =>
      if (0 <? child) && lt tmp (get v (par child))
      then pu_loop f (upd child (get v (par child)) v) tmp (par child)
      else (v, child)
    end.
  Definition percolateUp (pos : nat) (v : list K) : list K :=
    let tmp := get v pos in
    let '(v', h) := pu_loop (length v) v tmp pos in
    if h =? pos then v' else upd h tmp v'.

  (* BinaryHeap.h percolateDown: the two-children loop, then the `child == n` tail *)
  Fixpoint pd_loop (fuel : nat) (v : list K) (tmp : K) (parent : nat) : list K * nat :=
    match fuel with
    | 0 => (v, parent)
    | S f =>
      let n := length v in
      let child := 2 * parent + 2 in
      if child <? n then
        let c := if lt (get v (child - 1)) (get v child) then child - 1 else child in
        if lt (get v c) tmp then pd_loop f (upd parent (get v c) v) tmp c else (v, parent)
      else if child =? n then
        let c := child - 1 in
        if lt (get v c) tmp then (upd parent (get v c) v, c) else (v, parent)
      else (v, parent)
    end.
  Definition percolateDown (pos : nat) (v : list K) : list K :=
    let tmp := get v pos in
    let '(v', h) := pd_loop (length v) v tmp pos in
    if h =? pos then v' else upd h tmp v'.

  (* build(): for (int i = size/2 - 1; i >= 0; --i) percolateDown(i);  [k = i+1] *)
  Fixpoint build_from (k : nat) (v : list K) : list K :=
    match k with
    | 0 => v
    | S i => build_from i (percolateDown i v)
    end.
  Definition build (v : list K) : list K := build_from (length v / 2) v.

  (* removePos, as repaired (fix: sift up, then down — what update() does) *)
  Definition removePos (pos : nat) (v : list K) : list K :=
    let n := length v - 1 in
    if pos <? n then percolateDown pos (percolateUp pos (upd pos (get v n) (removelast v)))
    else removelast v.
  (* removePos as it stood at the pinned commit: sift down only *)
  Definition removePos_orig (pos : nat) (v : list K) : list K :=
    let n := length v - 1 in
    if pos <? n then percolateDown pos (upd pos (get v n) (removelast v))
    else removelast v.

  Definition insert1 (x : K) (v : list K) : list K := percolateUp (length v) (v ++ [x]).
  Definition update_at (pos : nat) (v : list K) : list K := percolateDown pos (percolateUp pos v).

  Fixpoint pop_all (fuel : nat) (v : list K) : list K :=
    match fuel, v with
    | S f, x :: _ => x :: pop_all f (removePos 0 v)
    | _, _ => []
    end.
  Fixpoint pop_all_orig (fuel : nat) (v : list K) : list K :=
    match fuel, v with
    | S f, x :: _ => x :: pop_all_orig f (removePos_orig 0 v)
    | _, _ => []
    end.
End Core.

(* ---------------------------------------------------------------- layer 2 *)
Section Elt.
  Variable Key : Type.
  Variable lt : Key -> Key -> bool.
  Variable dk : Key.

  Record elt := mkElt { eid : nat; ekey : Key; epos : nat }.
  Definition setpos (e : elt) (p : nat) : elt := mkElt (eid e) (ekey e) p.
  Definition de : elt := mkElt 0 dk 0.
  Definition elt_lt (a b : elt) : bool := lt (ekey a) (ekey b).
  Notation gete := (get de).

  Fixpoint pu_loop_e (fuel : nat) (v : list elt) (tmp : elt) (child : nat) : list elt * nat :=
    match fuel with
    | 0 => (v, child)
    | S f =>
      if (0 <? child) && elt_lt tmp (gete v (par child))
      then pu_loop_e f (upd child (setpos (gete v (par child)) child) v) tmp (par child)
      else (v, child)
    end.
  Definition percolateUp_e (pos : nat) (v : list elt) : list elt :=
    let tmp := gete v pos in
    let '(v', h) := pu_loop_e (length v) v tmp pos in
    if h =? pos then v' else upd h (setpos tmp h) v'.

  Fixpoint pd_loop_e (fuel : nat) (v : list elt) (tmp : elt) (parent : nat) : list elt * nat :=
    match fuel with
    | 0 => (v, parent)
    | S f =>
      let n := length v in
      let child := 2 * parent + 2 in
      if child <? n then
        let c := if elt_lt (gete v (child - 1)) (gete v child) then child - 1 else child in
        if elt_lt (gete v c) tmp then pd_loop_e f (upd parent (setpos (gete v c) parent) v) tmp c else (v, parent)
      else if child =? n then
        let c := child - 1 in
        if elt_lt (gete v c) tmp then (upd parent (setpos (gete v c) parent) v, c) else (v, parent)
      else (v, parent)
    end.
  Definition percolateDown_e (pos : nat) (v : list elt) : list elt :=
    let tmp := gete v pos in
    let '(v', h) := pd_loop_e (length v) v tmp pos in
    if h =? pos then v' else upd h (setpos tmp h) v'.

  Fixpoint build_from_e (k : nat) (v : list elt) : list elt :=
    match k with
    | 0 => v
    | S i => build_from_e i (percolateDown_e i v)
    end.
  Definition build_e (v : list elt) : list elt := build_from_e (length v / 2) v.

  Definition removePos_e (pos : nat) (v : list elt) : list elt :=
    let n := length v - 1 in
    if pos <? n then percolateDown_e pos (percolateUp_e pos (upd pos (setpos (gete v n) pos) (removelast v)))
    else removelast v.
  Definition removePos_orig_e (pos : nat) (v : list elt) : list elt :=
    let n := length v - 1 in
    if pos <? n then percolateDown_e pos (upd pos (setpos (gete v n) pos) (removelast v))
    else removelast v.

  (* the handle is the Element*: remove()/update() read element->position *)
  Fixpoint find_pos (id : nat) (v : list elt) : option nat :=
    match v with
    | [] => None
    | e :: t => if eid e =? id then Some (epos e) else find_pos id t
    end.
  Definition live (id : nat) (v : list elt) : bool :=
    match find_pos id v with Some _ => true | None => false end.

  Definition insert_e (id : nat) (k : Key) (v : list elt) : list elt :=
    percolateUp_e (length v) (v ++ [mkElt id k (length v)]).
  Fixpoint mk_elts (base : nat) (l : list (nat * Key)) : list elt :=
    match l with
    | [] => []
    | (id, k) :: t => mkElt id k base :: mk_elts (S base) t
    end.
  Definition set_key (id : nat) (k : Key) (v : list elt) : list elt :=
    map (fun e => if eid e =? id then mkElt (eid e) k (epos e) else e) v.

  (* operations of the public interface; ids are chosen by the caller (the harness
     numbers the Element* it gets back).  OUpdateKey id k is the documented way to
     change a key: write handle->data, then call update(handle). *)
  Inductive op :=
  | OInsert (id : nat) (k : Key)                (* insert(data) *)
  | OInsertL (l : list (nat * Key))             (* insert(vector) *)
  | ORemove (id : nat)                          (* remove(handle) *)
  | OUpdateKey (id : nat) (k : Key)             (* handle->data = k; update(handle) *)
  | OPop
  | ORebuild
  | OBuildFrom (l : list (nat * Key))
  | OClear.

  Fixpoint nodup_ids (l : list nat) : bool :=
    match l with
    | [] => true
    | a :: t => negb (existsb (Nat.eqb a) t) && nodup_ids t
    end.
  Definition fresh_ids (l : list (nat * Key)) (v : list elt) : bool :=
    forallb (fun p => negb (live (fst p) v)) l.

  Definition insert_list (l : list (nat * Key)) (v : list elt) : list elt :=
    fold_left (fun v p => insert_e (fst p) (snd p) v) l v.

  (* None = the call is outside the documented interface (dangling handle, pop
     on an empty heap, re-used id): undefined behaviour in the C++. *)
  Definition step (v : list elt) (o : op) : option (list elt) :=
    match o with
    | OInsert id k => if live id v then None else Some (insert_e id k v)
    | OInsertL l => if fresh_ids l v && nodup_ids (map fst l) then Some (insert_list l v) else None
    | ORemove id => match find_pos id v with
                    | Some p => Some (removePos_e p v)
                    | None => None end
    | OUpdateKey id k => match find_pos id v with
                         | Some p => let v1 := set_key id k v in
                                     Some (percolateDown_e p (percolateUp_e p v1))
                         | None => None end
    | OPop => match v with [] => None | _ => Some (removePos_e 0 v) end
    | ORebuild => Some (build_e v)
    | OBuildFrom l => if nodup_ids (map fst l) then Some (build_e (mk_elts 0 l)) else None
    | OClear => Some []
    end.

  Fixpoint run (v : list elt) (ops : list op) : option (list elt) :=
    match ops with
    | [] => Some v
    | o :: t => match step v o with Some v' => run v' t | None => None end
    end.

  (* same machine on the code as it stood before the repair (for the refutation) *)
  Fixpoint pop_all_e (fuel : nat) (v : list elt) : list elt :=
    match fuel, v with
    | S f, x :: _ => x :: pop_all_e f (removePos_e 0 v)
    | _, _ => []
    end.
  Fixpoint pop_all_orig_e (fuel : nat) (v : list elt) : list elt :=
    match fuel, v with
    | S f, x :: _ => x :: pop_all_orig_e f (removePos_orig_e 0 v)
    | _, _ => []
    end.
  (* sort(list): builds a scratch heap, pops everything; the heap itself is restored *)
  Definition sort_keys (l : list Key) : list Key :=
    let v := build_e (mk_elts 0 (combine (seq 0 (length l)) l)) in
    map ekey (pop_all_e (length v) v).
End Elt.

Arguments mkElt {Key}. Arguments eid {Key}. Arguments ekey {Key}. Arguments epos {Key}.
Arguments OInsert {Key}. Arguments OInsertL {Key}. Arguments ORemove {Key}. Arguments OUpdateKey {Key}.
Arguments OPop {Key}. Arguments ORebuild {Key}. Arguments OBuildFrom {Key}. Arguments OClear {Key}.
