(* NNModel.v — executable models for the nearest-neighbour structures:
   the exhaustive specification (= NearestNeighborsLinear.h), NearestNeighborsSqrtApprox::nearest,
   and the pruning tests / tree invariant of NearestNeighborsGNAT*.h.   Distances are integers. *)
From Coq Require Import List ZArith Bool Arith.
Import ListNotations.
Local Open Scope Z_scope.

Section NN.
  Variable P : Type.
  Variable d : P -> P -> Z.
  Variable peqb : P -> P -> bool.

  (* ---- NearestNeighborsLinear ---- *)
  (* remove(): scans from the back, erases the last occurrence *)
  Fixpoint remove_first (p : P) (l : list P) : option (list P) :=
    match l with
    | [] => None
    | x :: t => if peqb x p then Some t else match remove_first p t with Some t' => Some (x :: t') | None => None end
    end.
  Definition lin_remove (p : P) (data : list P) : bool * list P :=
    match remove_first p (rev data) with Some r => (true, rev r) | None => (false, data) end.

  (* nearest(): first index with minimal distance (replaced only when strictly smaller) *)
  Fixpoint argmin_from (q : P) (best : P) (l : list P) : P :=
    match l with
    | [] => best
    | x :: t => if d x q <? d best q then argmin_from q x t else argmin_from q best t
    end.
  Definition lin_nearest (q : P) (data : list P) : option P :=
    match data with [] => None | x :: t => Some (argmin_from q x t) end.

  (* nearestK / nearestR: sort by distance to q (ties in unspecified order: compared as distance sequences) *)
  Fixpoint ins (q : P) (x : P) (l : list P) : list P :=
    match l with
    | [] => [x]
    | y :: t => if d x q <=? d y q then x :: l else y :: ins q x t
    end.
  Fixpoint sort_by (q : P) (l : list P) : list P := match l with [] => [] | x :: t => ins q x (sort_by q t) end.
  Definition nearestK (q : P) (k : nat) (data : list P) : list P := firstn k (sort_by q data).
  Definition nearestR (q : P) (r : Z) (data : list P) : list P := filter (fun x => d x q <=? r) (sort_by q data).

  (* ---- NearestNeighborsSqrtApprox::nearest: checks_ probes at stride checks_, rotating offset ---- *)
  Fixpoint sqrt_probe (q : P) (data : list P) (n checks offset : nat) (j : nat) (fuel : nat) (best : option (nat * Z)) : option (nat * Z) :=
    match fuel with
    | O => best
    | S f =>
      let i := Nat.modulo (j * checks + offset) n in
      match nth_error data i with
      | None => best
      | Some x =>
        let dist := d x q in
        let best' := match best with
                     | None => Some (i, dist)
                     | Some (_, dmin) => if dist <? dmin then Some (i, dist) else best
                     end in
        sqrt_probe q data n checks offset (S j) f best'
      end
    end.
  (* returns the index chosen and the new offset *)
  Definition sqrt_nearest (q : P) (data : list P) (checks offset : nat) : option nat * nat :=
    let n := length data in
    if (0 <? checks)%nat && (0 <? n)%nat then
      (option_map fst (sqrt_probe q data n checks offset 0 checks None), Nat.modulo (S offset) checks)
    else (None, offset).

  (* ---- GNAT: tree shape, invariant, pruning tests ---- *)
  Inductive gnode := GNode (pivot : P) (minR maxR : option Z) (* None = +-infinity *)
                           (ranges : list (option Z * option Z)) (data : list P) (children : list gnode).
  Fixpoint elems (n : gnode) : list P :=
    match n with GNode p _ _ _ dat ch => p :: dat ++ flat_map elems ch end.
  Definition pivot_of (n : gnode) : P := match n with GNode p _ _ _ _ _ => p end.

  Definition le_opt_lo (lo : option Z) (x : Z) : bool := match lo with Some l => l <=? x | None => false end.   (* +inf <= x is false *)
  Definition le_opt_hi (x : Z) (hi : option Z) : bool := match hi with Some h => x <=? h | None => false end.   (* x <= -inf is false *)
  (* all of l lies within [lo,hi] as distances from c *)
  Definition within (c : P) (lo hi : option Z) (l : list P) : bool :=
    forallb (fun x => le_opt_lo lo (d c x) && le_opt_hi (d c x) hi) l.

  (* the tree invariant the search relies on: for every node, its own data and subtree (minus its pivot) lie within
     [minRadius, maxRadius] of its pivot, and for siblings i, j: every element of sibling j's subtree lies within
     [minRange_i[j], maxRange_i[j]] of sibling i's pivot *)
  Definition ranges_ok (ch : list gnode) : bool :=
    forallb (fun ci => match ci with GNode pi _ _ rng _ _ =>
               forallb (fun jc => within pi (fst (nth (fst jc) rng (None, None))) (snd (nth (fst jc) rng (None, None))) (elems (snd jc)))
                       (combine (seq 0 (length ch)) ch) end) ch.
  (* a non-root node: radius interval + range tables of its children + recursively *)
  Fixpoint inv_ok (n : gnode) : bool :=
    match n with
    | GNode p minR maxR _ dat ch =>
      within p minR maxR (dat ++ flat_map elems ch) && ranges_ok ch && forallb inv_ok ch
    end.
  (* the root is never skipped through its radius interval (it is not maintained for the root) *)
  Definition inv_ok_root (n : gnode) : bool :=
    match n with GNode _ _ _ _ _ ch => ranges_ok ch && forallb inv_ok ch end.

  (* the two pruning tests of nearestK / nearestR (tau = current k-th distance or the radius) *)
  Definition pruned_by_range (dq_pi tau : Z) (lo hi : option Z) : bool :=
    match lo, hi with
    | Some l, Some h => (h <? dq_pi - tau) || (dq_pi + tau <? l)
    | _, _ => true            (* empty range table entry: the sibling's subtree holds nothing *)
    end.
  Definition pruned_by_radius (dq_p tau : Z) (minR maxR : option Z) : bool :=
    match minR, maxR with
    | Some l, Some h => (h + tau <? dq_p) || (dq_p <? l - tau)
    | _, _ => true
    end.
End NN.
Arguments GNode {P}.
