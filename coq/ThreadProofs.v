(* ThreadProofs.v — atomic increments are never lost under any interleaving; plain read/write increments can be;
   operations behind one mutex behave like one sequential order that respects every thread's program order. *)
From Coq Require Import List ZArith Bool Arith Lia.
From OmplV Require Import ThreadModel.
Import ListNotations.

Lemma fold_cstep_atomic : forall sched s, forallb is_ainc sched = true ->
  shared (fold_left cstep sched s) = shared s + length sched.
Proof.
  induction sched as [|e r IH]; intros s H; [cbn; lia|].
  cbn [forallb] in H. apply andb_prop in H. destruct H as [He Hr]. destruct e; try discriminate.
  cbn [fold_left]. rewrite IH by exact Hr. cbn. lia.
Qed.
(* every interleaving of atomic increments: the counter equals the number of calls made *)
Theorem atomic_increments_never_lost : forall sched, forallb is_ainc sched = true -> shared (crun sched) = length sched.
Proof. intros sched H. unfold crun. rewrite fold_cstep_atomic by exact H. reflexivity. Qed.
(* plain increments: there is an interleaving of two calls that counts only one *)
Theorem plain_increments_can_be_lost : exists sched,
  sched = [PRead 0; PRead 1; PWrite 0; PWrite 1] /\ shared (crun sched) = 1.
Proof. eexists. split; [reflexivity | reflexivity]. Qed.

Section LockedP.
  Variables S Op Out : Type.
  Variable apply : S -> Op -> S * Out.
  Notation lrun := (lrun S Op Out apply).
  Notation srun := (srun S Op Out apply).
  (* the locked execution IS the sequential execution of the schedule's operations, in schedule order ... *)
  Theorem locked_run_is_sequential : forall sched s,
    fst (lrun s sched) = fst (srun s (map snd sched)) /\ map snd (snd (lrun s sched)) = snd (srun s (map snd sched)) /\
    map fst (snd (lrun s sched)) = map fst sched.
  Proof.
    induction sched as [|[t o] r IH]; intros s; [cbn; auto|].
    cbn [ThreadModel.lrun ThreadModel.srun map snd fst]. destruct (apply s o) as [s1 out].
    specialize (IH s1). destruct (lrun s1 r) as [s2 outs]. destruct (srun s1 (map snd r)) as [s3 outs'].
    cbn [fst snd map] in *. destruct IH as [I1 [I2 I3]]. split; [exact I1|]. split; [f_equal; exact I2 | f_equal; exact I3].
  Qed.
  (* ... and that order respects every thread's own program order: thread t's operations appear in the schedule in the
     order t issued them (the schedule is a merge), and t sees exactly the outputs of its own operations, in order *)
  Theorem each_thread_sees_its_own_results : forall t sched s,
    length (proj_outs Out t (snd (lrun s sched))) = length (proj_ops Op t sched).
  Proof.
    intros t sched. induction sched as [|[t' o] r IH]; intros s; [reflexivity|].
    cbn [ThreadModel.lrun]. destruct (apply s o) as [s1 out]. specialize (IH s1). destruct (lrun s1 r) as [s2 outs].
    unfold proj_outs, proj_ops in *. cbn [snd filter fst]. destruct (Nat.eqb t' t); cbn [map length]; cbn [snd] in IH; rewrite IH; reflexivity.
  Qed.
End LockedP.

(* a configuration that passes the check only allows atomic counter events, hence exact counts *)
Theorem config_ok_counts_exact : forall c sched, config_ok c = true -> counter_events_ok c sched = true ->
  shared (crun sched) = length sched.
Proof.
  intros c sched Hc He. unfold config_ok in Hc. repeat (apply andb_prop in Hc; destruct Hc as [Hc ?]).
  unfold counter_events_ok in He. rewrite Hc in He. replace (mv_increments_rmw c) with true in He by (symmetry; assumption). cbn in He.
  apply atomic_increments_never_lost. exact He.
Qed.

(* terminate() from any thread makes the condition true for good: with the terminate-first design every eval() that takes
   effect after a terminate() returns true, whatever the evaluation thread stores in between *)
Lemma prun_after_terminate : forall periodic fn l c, Forall (fun b => b = true) (prun true periodic fn (mkP true c) l).
Proof.
  intros periodic fn l. induction l as [|e t IH]; intros c; [constructor|]. destruct e as [|v|]; cbn [prun pstep p_term p_cached orb].
  - apply IH.
  - apply IH.
  - constructor; [reflexivity|apply IH].
Qed.
Theorem terminate_sticks : forall periodic fn s before after,
  Forall (fun b => b = true) (prun true periodic fn (fst (fold_left (fun st e => (fst (pstep true periodic fn (fst st) e), tt)) (before ++ [PTerminate]) (s, tt))) after).
Proof.
  intros periodic fn s before after.
  assert (H : forall l st, p_term (fst (fold_left (fun st e => (fst (pstep true periodic fn (fst st) e), tt)) (l ++ [PTerminate]) (st, tt))) = true).
  { induction l as [|e t IH]; intros st; cbn [app fold_left fst]; [reflexivity|]. apply IH. }
  specialize (H before s). destruct (fst (fold_left _ (before ++ [PTerminate]) (s, tt))) as [tm c]. cbn [p_term] in H. subst tm. apply prun_after_terminate.
Qed.
(* the other design loses a terminate() that lands while the evaluation thread is inside the predicate *)
Theorem cached_only_design_refuted : prun false true false (mkP false false) [PTerminate; PThreadStore false; PEval] = [false].
Proof. reflexivity. Qed.

(* ---- PRM's best cost *)
Lemma brun_stores : forall cs b, brun (Some b) (map BStore cs) = Some (fold_left Nat.min cs b).
Proof. induction cs as [|c t IH]; intros b; [reflexivity|]. cbn [map]. unfold brun in *. cbn [fold_left bstep]. apply IH. Qed.
Lemma fold_min_spec : forall cs b, let m := fold_left Nat.min cs b in m <= b /\ Forall (fun c => m <= c) cs /\ (m = b \/ In m cs).
Proof.
  induction cs as [|c t IH]; intros b; cbn [fold_left].
  - split; [lia|]. split; [constructor|left; reflexivity].
  - destruct (IH (Nat.min b c)) as (H1 & H2 & H3). cbv zeta in *. split; [lia|]. split.
    + constructor; [lia|exact H2].
    + destruct H3 as [H3|H3]; [|right; right; exact H3]. destruct (Nat.min_spec b c) as [(_ & E)|(_ & E)]; [left; rewrite H3; exact E|right; left; rewrite H3, E; reflexivity].
Qed.
(* reset first, then any number of stores by the solution thread (whatever was in the variable before, NaN included): the value
   solve() reads after the join is the cost of one of the paths found, and no path found was cheaper *)
Theorem best_cost_kept : forall s0 c cs,
  exists m, brun s0 (BInit :: map BStore (c :: cs)) = Some m /\ Forall (fun x => m <= x) (c :: cs) /\ In m (c :: cs).
Proof.
  intros s0 c cs. unfold brun. cbn [fold_left bstep map]. fold (brun (Some c) (map BStore cs)). rewrite brun_stores.
  destruct (fold_min_spec cs c) as (H1 & H2 & H3). cbv zeta in *. exists (fold_left Nat.min cs c). split; [reflexivity|]. split.
  - constructor; assumption.
  - destruct H3 as [H3|H3]; [left; symmetry; exact H3|right; exact H3].
Qed.
(* the pinned order (thread started, then the reset in constructRoadmap): a store that takes effect before the reset is lost *)
Theorem reset_after_spawn_refuted : brun None [BStore 5; BInit] = None.
Proof. reflexivity. Qed.
