(* PdfReal.v — the PDF model over the real numbers: the rows stay a chain of pairwise sums under
   add / update / remove, and sample(r) selects the element whose cumulative-weight interval
   contains r times the total weight. *)
From Coq Require Import List Arith ZArith Lia Bool ZifyNat Reals Lra Permutation.
From OmplV Require Import PdfModel PdfShape.
Import ListNotations.
Ltac Zify.zify_post_hook ::= Z.to_euclidean_division_equations.
Local Open Scope R_scope.

Definition Rltb (a b : R) : bool := if Rlt_dec a b then true else false.
Definition Re : arith := mkArith R 0 Rplus Rminus Rmult Rltb.
Notation bumpR := (bump Re).
Notation unbumpR := (unbump Re).
Notation getR := (getw Re).

Fixpoint pairsums (r : list R) : list R :=
  match r with
  | a :: t => match t with b :: t' => (a + b) :: pairsums t' | [] => [a] end
  | [] => []
  end.

Lemma pairsums_ind (P : list R -> Prop) :
  P [] -> (forall a, P [a]) -> (forall a b t, P t -> P (a :: b :: t)) -> forall l, P l.
Proof. intros H0 H1 H2. fix IH 1. intros [|a [|b t]]; [exact H0|apply H1|apply H2; apply IH]. Qed.

Lemma half_spec n : exists q r, ((n + 1) / 2 = q /\ n + 1 = 2 * q + r /\ r < 2)%nat.
Proof. exists ((n + 1) / 2)%nat, ((n + 1) mod 2)%nat. split; [reflexivity|]. split; [apply Nat.div_mod; lia|apply Nat.mod_upper_bound; lia]. Qed.
Ltac half L := let q := fresh "q" in let r := fresh "r" in let Eq := fresh "Eq" in let E1 := fresh "E1" in let E2 := fresh "E2" in
  destruct (half_spec (length L)) as (q & r & Eq & E1 & E2); rewrite ?Eq in *.

Lemma pairsums_nil r : pairsums r = [] -> r = [].
Proof. destruct r as [|a [|b t]]; simpl; auto; discriminate. Qed.
Lemma length_pairsums r : length (pairsums r) = ((length r + 1) / 2)%nat.
Proof.
  induction r as [| a | a b t IH] using pairsums_ind; [reflexivity|reflexivity|].
  change (pairsums (a :: b :: t)) with ((a + b) :: pairsums t). cbn [length]. rewrite IH. lia.
Qed.
Lemma removelast_cons {X} (x : X) l : l <> [] -> removelast (x :: l) = x :: removelast l.
Proof. destruct l; [congruence|reflexivity]. Qed.
Lemma last_cons {X} (x : X) l d : l <> [] -> last (x :: l) d = last l d.
Proof. destruct l; [congruence|reflexivity]. Qed.
Lemma bump_cons w x l : l <> [] -> bumpR w (x :: l) = x :: bumpR w l.
Proof. intros H. unfold bump. rewrite removelast_cons, last_cons by exact H. reflexivity. Qed.
Lemma unbump_cons w x l : l <> [] -> unbumpR w (x :: l) = x :: unbumpR w l.
Proof. intros H. unfold unbump. rewrite removelast_cons, last_cons by exact H. reflexivity. Qed.

Lemma pairsums_app_even r w : Nat.even (length r) = true -> pairsums (r ++ [w]) = pairsums r ++ [w].
Proof.
  induction r as [| a | a b t IH] using pairsums_ind; intros H; [reflexivity|discriminate|].
  change (pairsums ((a :: b :: t) ++ [w])) with ((a + b) :: pairsums (t ++ [w])). rewrite IH by exact H. reflexivity.
Qed.
Lemma pairsums_app_odd r w : Nat.odd (length r) = true -> pairsums (r ++ [w]) = bumpR w (pairsums r).
Proof.
  induction r as [| a | a b t IH] using pairsums_ind; intros H; [discriminate|reflexivity|].
  change (pairsums ((a :: b :: t) ++ [w])) with ((a + b) :: pairsums (t ++ [w])). rewrite IH by exact H.
  change (pairsums (a :: b :: t)) with ((a + b) :: pairsums t). rewrite bump_cons; [reflexivity|].
  intros E. apply pairsums_nil in E. subst. discriminate.
Qed.
Lemma pairsums_bump r w : r <> [] -> pairsums (bumpR w r) = bumpR w (pairsums r).
Proof.
  induction r as [| a | a b t IH] using pairsums_ind; intros H; [exfalso; apply H; reflexivity|reflexivity|].
  destruct t as [|c t'].
  - unfold bump. simpl. f_equal. ring.
  - rewrite !bump_cons by discriminate. change (pairsums (a :: b :: bumpR w (c :: t'))) with ((a + b) :: pairsums (bumpR w (c :: t'))).
    rewrite IH by discriminate. change (pairsums (a :: b :: c :: t')) with ((a + b) :: pairsums (c :: t')).
    rewrite bump_cons; [reflexivity|]. intros E. apply pairsums_nil in E. discriminate.
Qed.
Lemma pairsums_unbump r w : r <> [] -> pairsums (unbumpR w r) = unbumpR w (pairsums r).
Proof.
  induction r as [| a | a b t IH] using pairsums_ind; intros H; [exfalso; apply H; reflexivity|reflexivity|].
  destruct t as [|c t'].
  - unfold unbump. simpl. f_equal. ring.
  - rewrite !unbump_cons by discriminate. change (pairsums (a :: b :: unbumpR w (c :: t'))) with ((a + b) :: pairsums (unbumpR w (c :: t'))).
    rewrite IH by discriminate. change (pairsums (a :: b :: c :: t')) with ((a + b) :: pairsums (c :: t')).
    rewrite unbump_cons; [reflexivity|]. intros E. apply pairsums_nil in E. discriminate.
Qed.
(* dropping the last leaf *)
Lemma pairsums_removelast_odd r : Nat.odd (length r) = true -> pairsums (removelast r) = removelast (pairsums r).
Proof.
  induction r as [| a | a b t IH] using pairsums_ind; intros H; [discriminate|reflexivity|].
  destruct t as [|c t']; [discriminate|].
  change (removelast (a :: b :: c :: t')) with (a :: b :: removelast (c :: t')).
  change (pairsums (a :: b :: removelast (c :: t'))) with ((a + b) :: pairsums (removelast (c :: t'))).
  rewrite IH by exact H. change (pairsums (a :: b :: c :: t')) with ((a + b) :: pairsums (c :: t')).
  rewrite removelast_cons; [reflexivity|]. intros E. apply pairsums_nil in E. discriminate.
Qed.
Lemma pairsums_removelast_even r : r <> [] -> Nat.even (length r) = true ->
  pairsums (removelast r) = unbumpR (last r 0) (pairsums r).
Proof.
  induction r as [| a | a b t IH] using pairsums_ind; intros Hne H; [exfalso; apply Hne; reflexivity|discriminate|].
  destruct t as [|c t'].
  - unfold unbump. simpl. f_equal. ring.
  - change (removelast (a :: b :: c :: t')) with (a :: b :: removelast (c :: t')).
    change (pairsums (a :: b :: removelast (c :: t'))) with ((a + b) :: pairsums (removelast (c :: t'))).
    rewrite IH by (auto; discriminate). change (pairsums (a :: b :: c :: t')) with ((a + b) :: pairsums (c :: t')).
    rewrite unbump_cons; [reflexivity|]. intros E. apply pairsums_nil in E. discriminate.
Qed.
Lemma last_pairsums_odd r : Nat.odd (length r) = true -> last (pairsums r) 0 = last r 0.
Proof.
  induction r as [| a | a b t IH] using pairsums_ind; intros H; [discriminate|reflexivity|].
  destruct t as [|c t']; [discriminate|].
  change (pairsums (a :: b :: c :: t')) with ((a + b) :: pairsums (c :: t')).
  rewrite last_cons by (intros E; apply pairsums_nil in E; discriminate). rewrite IH by exact H. reflexivity.
Qed.
Lemma pairsums_updn_add : forall r idx c, (idx < length r)%nat ->
  pairsums (updn idx (getR r idx + c) r) = updn (idx / 2) (getR (pairsums r) (idx / 2) + c) (pairsums r).
Proof.
  induction r as [| a | a b t IH] using pairsums_ind; intros idx c H; [simpl in H; lia| |].
  - destruct idx; [reflexivity|simpl in H; lia].
  - destruct idx as [|[|i]].
    + simpl. unfold getw. simpl. f_equal. ring.
    + simpl. unfold getw. simpl. f_equal. ring.
    + replace (S (S i) / 2)%nat with (S (i / 2)) by lia.
      change (updn (S (S i)) (getR (a :: b :: t) (S (S i)) + c) (a :: b :: t)) with (a :: b :: updn i (getR t i + c) t).
      change (pairsums (a :: b :: updn i (getR t i + c) t)) with ((a + b) :: pairsums (updn i (getR t i + c) t)).
      assert (X : (i < length t)%nat) by (simpl in H; lia).
      rewrite IH by exact X. reflexivity.
Qed.
(* pointwise reading of a row of sums *)
Lemma nth_pairsums r : forall j, nth j (pairsums r) 0 = nth (2 * j) r 0 + nth (2 * j + 1) r 0.
Proof.
  induction r as [| a | a b t IH] using pairsums_ind; intros j.
  - rewrite !nth_overflow by (simpl; lia). ring.
  - destruct j as [|j]; [simpl; ring|]. rewrite !nth_overflow by (simpl; lia). ring.
  - destruct j as [|j]; [simpl; ring|].
    change (pairsums (a :: b :: t)) with ((a + b) :: pairsums t). cbn [nth]. rewrite IH.
    replace (2 * S j)%nat with (S (S (2 * j))) by lia. replace (S (S (2 * j)) + 1)%nat with (S (S (2 * j + 1))) by lia. reflexivity.
Qed.

Ltac lia' := change (T Re) with R in *; lia.

(* ---------- the rows are a chain of pairwise sums ---------- *)
Fixpoint chain (rows : list (list R)) : Prop :=
  match rows with
  | [] => True
  | r :: rest => match rest with [] => True | r' :: _ => r' = pairsums r /\ chain rest end
  end.
Lemma chain_cons2 r r' rest : chain (r :: r' :: rest) = (r' = pairsums r /\ chain (r' :: rest)).
Proof. reflexivity. Qed.

Lemma chain_cons_hd r X : X <> [] -> hd [] X = pairsums r -> chain X -> chain (r :: X).
Proof. destruct X as [|x xs]; [congruence|]. simpl. intros _ -> C. split; [reflexivity|exact C]. Qed.

Lemma chain_map (f : list R -> list R) rows :
  (forall r, r <> [] -> pairsums (f r) = f (pairsums r)) -> Forall (fun r => r <> []) rows ->
  chain rows -> chain (map f rows).
Proof.
  intros Hf. induction rows as [|r rest IH]; intros Hne C; [exact I|].
  destruct rest as [|r' rest']; [exact I|]. rewrite chain_cons2 in C. destruct C as (E & C).
  inversion Hne as [|x l Hr Hrest]; subst. change (chain (f r :: f (pairsums r) :: map f rest')). rewrite chain_cons2.
  split; [symmetry; apply Hf; exact Hr|]. apply (IH Hrest C).
Qed.

Notation add_rowsR := (add_rows Re).
Notation rem_rowsR := (rem_rows Re).
Notation shapeR := (shape Re).

Lemma add_rows_chain : forall rest L w, chain (L :: rest) -> shapeR (L :: rest) -> chain (add_rowsR (L ++ [w]) rest w).
Proof.
  induction rest as [|r1 rest1 IH]; intros L w C S.
  - unfold shape in S. simpl in S. destruct L as [|a [|b t]]; simpl in S; try lia'.
    unfold add_rows. simpl. split; [|exact I]. unfold getw. simpl. reflexivity.
  - rewrite chain_cons2 in C. destruct C as (E & C). rewrite shape_cons2 in S. destruct S as (S2 & Sm & S).
    destruct (Nat.odd (length (L ++ [w]))) eqn:Ho.
    + rewrite add_rows_cons by exact Ho. specialize (IH r1 w C S).
      destruct (hd_add_rows Re (r1 ++ [w]) rest1 w) as (H1 & H2).
      apply chain_cons_hd; [exact H2| |exact IH]. transitivity (r1 ++ [w]); [exact H1|]. rewrite E. symmetry. apply pairsums_app_even.
      rewrite app_length in Ho. simpl in Ho. rewrite Nat.add_1_r, Nat.odd_succ in Ho. exact Ho.
    + rewrite add_rows_even by (auto; discriminate).
      change (chain ((L ++ [w]) :: bumpR w r1 :: map (bumpR w) rest1)). rewrite chain_cons2. split.
      * rewrite E. symmetry. apply pairsums_app_odd.
        rewrite app_length in Ho. simpl in Ho. rewrite Nat.add_1_r, Nat.odd_succ in Ho.
        rewrite <- Nat.negb_even, Ho. reflexivity.
      * change (chain (map (bumpR w) (r1 :: rest1))). apply chain_map; [intros r Hr; apply pairsums_bump; exact Hr| |exact C].
        apply (shape_nonempty Re). exact S.
Qed.

Lemma upd_up_chain : forall rest L idx c, chain (L :: rest) -> (idx < length L)%nat ->
  chain (updn idx (getR L idx + c) L :: upd_up Re (idx / 2) c rest).
Proof.
  induction rest as [|r1 rest1 IH]; intros L idx c C Hi; [exact I|].
  rewrite chain_cons2 in C. destruct C as (E & C). cbn [upd_up]. rewrite chain_cons2. split.
  - rewrite E. symmetry. apply pairsums_updn_add. exact Hi.
  - apply IH; [exact C|]. rewrite E, length_pairsums. lia'.
Qed.

Lemma rem_rows_chain : forall rest L, chain (L :: rest) -> shapeR (L :: rest) -> (2 <= length L)%nat ->
  chain (rem_rowsR (removelast L) rest (last L 0)).
Proof.
  induction rest as [|r1 rest1 IH]; intros L C Sh H2.
  - unfold shape in Sh. simpl in Sh. lia'.
  - rewrite chain_cons2 in C. destruct C as (E & C). rewrite shape_cons2 in Sh. destruct Sh as (_ & Sm & Sh).
    assert (Ll : length (removelast L) = (length L - 1)%nat) by apply length_removelast.
    change (T Re) with R in *.
    destruct (Nat.leb_spec (length (removelast L)) 1) as [Hle|Hgt].
    + rewrite rem_rows_small by exact Hle.
      assert (length r1 = 1%nat) by (clear - Sm H2 Ll Hle; half L; lia). destruct rest1 as [|r2 rest2]; [simpl; exact I|].
      exfalso. rewrite shape_cons2 in Sh. destruct Sh as (S1 & _). lia'.
    + assert (Hrest1 : (2 <= length r1)%nat -> rest1 <> []).
      { intros G ->. unfold shape in Sh. simpl in Sh. lia'. }
      destruct (Nat.even (length (removelast L))) eqn:He.
      * (* |L| odd: the row above loses its last entry, which was the unpaired last leaf *)
        assert (Ho : Nat.odd (length L) = true).
        { rewrite Ll in He. replace (length L) with (S (length L - 1))%nat by lia'. rewrite Nat.odd_succ. exact He. }
        assert (L1 : (2 <= length r1)%nat).
        { rewrite Nat.even_spec in He. destruct He as (k & Hk). clear - Sm Hk Ll Hgt. half L. lia. }
        specialize (IH r1 C Sh L1).
        rewrite E, last_pairsums_odd in IH by exact Ho. rewrite <- E in IH.
        rewrite rem_rows_cons by (auto; lia').
        destruct (hd_rem_rows Re (removelast r1) rest1 (last L 0) (Hrest1 L1)) as (H1 & Hn).
        apply chain_cons_hd; [exact Hn| |exact IH]. transitivity (removelast r1); [exact H1|].
        rewrite E. symmetry. apply pairsums_removelast_odd. exact Ho.
      * (* |L| even: the ancestors of the last leaf lose its weight *)
        assert (Hev : Nat.even (length L) = true).
        { rewrite Ll in He. replace (length L) with (S (length L - 1))%nat by lia'. rewrite Nat.even_succ, <- Nat.negb_even, He. reflexivity. }
        rewrite rem_rows_odd by (auto; try lia'; discriminate).
        change (chain (removelast L :: unbumpR (last L 0) r1 :: map (unbumpR (last L 0)) rest1)). rewrite chain_cons2. split.
        -- rewrite E. symmetry. apply pairsums_removelast_even; [destruct L; simpl in *; [lia'|discriminate]|exact Hev].
        -- change (chain (map (unbumpR (last L 0)) (r1 :: rest1))). apply chain_map; [intros r Hr; apply pairsums_unbump; exact Hr| |exact C].
           apply (shape_nonempty Re). exact Sh.
Qed.

(* ---------- remove(): the part before the pop loop ---------- *)
Lemma last_nth' {X} (l : list X) d : last l d = nth (length l - 1) l d.
Proof.
  induction l as [|a t IH]; [reflexivity|]. destruct t as [|b t']; [reflexivity|].
  change (last (b :: t') d = nth (length (b :: t')) (a :: b :: t') d). rewrite IH. simpl. rewrite Nat.sub_0_r. reflexivity.
Qed.
Lemma nth_swap_last (d : R) i l k : (i < length l - 1)%nat ->
  nth k (swap_last d i l) d = if (k =? i)%nat then nth (length l - 1) l d else if (k =? length l - 1)%nat then nth i l d else nth k l d.
Proof.
  intros Hi. unfold swap_last. destruct (Nat.eqb_spec k (length l - 1)) as [->|N1].
  - rewrite nth_updn_eq by (rewrite length_updn; lia). destruct (Nat.eqb_spec (length l - 1) i); [lia|reflexivity].
  - rewrite nth_updn_ne by lia. destruct (Nat.eqb_spec k i) as [->|N2]; [apply nth_updn_eq; lia|apply nth_updn_ne; lia].
Qed.

Lemma rem_prep_chain idx dat0 r0 rest dat r0s rest1 weight :
  rem_prep Re idx (length r0) dat0 r0 rest = (dat, r0s, rest1, weight) ->
  chain (r0 :: rest) -> shapeR (r0 :: rest) -> (idx < length r0)%nat -> (2 <= length r0)%nat ->
  exists L, chain (L :: rest1) /\ shapeR (L :: rest1) /\ removelast L = removelast r0s /\ last L 0 = weight /\ length L = length r0.
Proof.
  intros E C Sh Hi H2. unfold rem_prep in E. change (T Re) with R in *. destruct (Nat.eqb_spec (idx + 1) (length r0)) as [E1|N1].
  - injection E as <- <- <- <-. exists r0. auto.
  - assert (Hi' : (idx < length r0 - 1)%nat) by lia.
    destruct ((idx + 2 =? length r0)%nat && Nat.even idx) eqn:G.
    + (* the removed leaf and the last leaf are siblings: swapping them leaves every sum unchanged *)
      injection E as <- <- <- <-. apply andb_true_iff in G. destruct G as (G1 & G2). apply Nat.eqb_eq in G1.
      exists (swap_last 0 idx r0). split; [|split; [|split; [reflexivity|split; [reflexivity|apply length_swap_last]]]].
      * destruct rest as [|r1 rest']; [exact I|]. rewrite chain_cons2 in *. destruct C as (Er & C). split; [|exact C].
        rewrite Er. apply (nth_ext _ _ 0 0).
        { rewrite !length_pairsums, length_swap_last. reflexivity. }
        intros j _. rewrite !nth_pairsums. rewrite !nth_swap_last by exact Hi'. change (T Re) with R in *.
        apply Nat.even_spec in G2. destruct G2 as (m & Hm).
        destruct (Nat.eqb_spec (2 * j) idx) as [Ej|Nj].
        -- destruct (Nat.eqb_spec (2 * j + 1) idx); [lia|]. destruct (Nat.eqb_spec (2 * j + 1) (length r0 - 1)); [|lia].
           rewrite <- Ej. replace (length r0 - 1)%nat with (2 * j + 1)%nat by lia. ring.
        -- destruct (Nat.eqb_spec (2 * j) (length r0 - 1)); [lia|].
           destruct (Nat.eqb_spec (2 * j + 1) idx); [lia|]. destruct (Nat.eqb_spec (2 * j + 1) (length r0 - 1)); [lia|]. reflexivity.
      * eapply (shape_ext Re); [|exact Sh]. cbn [map]. rewrite length_swap_last. reflexivity.
    + injection E as <- <- <- <-.
      set (wl := nth (length r0 - 1) r0 0). set (wi := nth idx r0 0).
      assert (Ew : getR (swap_last 0 idx r0) idx = wl).
      { unfold getw. cbn [zero Re]. rewrite nth_swap_last by exact Hi'. rewrite Nat.eqb_refl. reflexivity. }
      assert (El : last (swap_last 0 idx r0) 0 = wi).
      { rewrite last_nth', length_swap_last, nth_swap_last by exact Hi'.
        destruct (Nat.eqb_spec (length r0 - 1) idx); [lia|]. rewrite Nat.eqb_refl. reflexivity. }
      change (zero Re) with 0 in *. rewrite Ew, El.
      exists (updn idx wl r0).
      assert (EL : updn idx wl r0 = updn idx (getR r0 idx + (wl - wi)) r0).
      { f_equal. unfold getw, wi. cbn [T zero add sub Re]. ring. }
      split; [rewrite EL; apply upd_up_chain; [exact C|exact Hi]|].
      split; [eapply (shape_ext Re); [|exact Sh]; cbn [map]; rewrite length_updn, (upd_up_lengths Re); reflexivity|].
      split; [|split; [|apply length_updn]].
      * apply (nth_ext _ _ 0 0).
        { rewrite !length_removelast, length_updn, length_swap_last. reflexivity. }
        intros k Hk. rewrite length_removelast, length_updn in Hk.
        rewrite !nth_removelast by (rewrite ?length_updn, ?length_swap_last; exact Hk).
        rewrite nth_swap_last by exact Hi'. destruct (Nat.eqb_spec k idx) as [->|Nk].
        -- apply nth_updn_eq. exact Hi.
        -- destruct (Nat.eqb_spec k (length r0 - 1)); [lia|]. apply nth_updn_ne. lia.
      * rewrite last_nth', length_updn. rewrite nth_updn_ne by lia. reflexivity.
Qed.

(* ---------- the invariant over the reals ---------- *)
Definition RInv (p : pdf Re) : Prop := SInv Re p /\ chain (rows p).

Lemma rinv_empty : RInv (empty Re).
Proof. split; [apply sinv_empty|exact I]. Qed.

Theorem rinv_step p o p' : RInv p -> pdf_step Re p o = Some p' -> RInv p'.
Proof.
  intros (SI & C) St. split; [apply (sinv_step Re p o p' SI St)|].
  destruct SI as (IO & ND & Hr).
  destruct o as [id w|id w|id|]; cbn [pdf_step] in St.
  - destruct (ltb Re w (zero Re)); [discriminate|]. destruct (index_of id (data p)) eqn:F; [discriminate|]. injection St as <-.
    destruct Hr as [(Ed & Er)|(Hne & Hs & Hl)].
    + unfold pdf_add. rewrite Ed, Er. simpl. exact I.
    + destruct (rows p) as [|r0 rest] eqn:Er; [congruence|].
      assert (En : (length (data p ++ [(id, length (data p))]) =? 1)%nat = false).
      { apply Nat.eqb_neq. rewrite app_length. cbn [length]. cbn [hd] in Hl.
        apply (shape_nonempty Re) in Hs. inversion Hs; subst. destruct r0; [congruence|simpl in Hl; lia]. }
      rewrite (pdf_add_unfold Re id w p r0 rest Er En). cbn [rows]. apply add_rows_chain; assumption.
  - destruct (index_of id (data p)) as [ix|] eqn:F; [|discriminate]. destruct (Nat.ltb_spec ix (length (data p))) as [Hix|]; [|discriminate].
    injection St as <-. unfold pdf_update_at. destruct (rows p) as [|r0 rest] eqn:Er; [rewrite Er; exact I|]. cbn [rows].
    destruct Hr as [(Ed & Er')|(Hne & Hs & Hl)]; [discriminate|]. cbn [hd] in Hl.
    assert (EL : updn ix w r0 = updn ix (getR r0 ix + (w - getR r0 ix)) r0) by (change (T Re) with R in *; f_equal; unfold getw; cbn [T zero add sub Re]; ring).
    rewrite EL. apply upd_up_chain; [exact C|]. change (T Re) with R in *. rewrite Hl. exact Hix.
  - destruct (index_of id (data p)) as [ix|] eqn:F; [|discriminate]. injection St as <-.
    destruct (index_of_ok id (data p) ix IO F) as (Hix & _).
    destruct Hr as [(Ed & Er)|(Hne & Hs & Hl)]; [rewrite Ed in Hix; simpl in Hix; lia|].
    destruct (Nat.eqb_spec (length (data p)) 1) as [E1|N1].
    { unfold pdf_remove_at. rewrite E1. exact I. }
    destruct (rows p) as [|r0 rest] eqn:Er; [congruence|]. cbn [hd] in Hl.
    rewrite (pdf_remove_unfold Re ix p r0 rest Er) by (apply Nat.eqb_neq; exact N1).
    destruct (rem_prep Re ix (length (data p)) (data p) r0 rest) as [[[dat r0s] rest1] weight] eqn:Ep. cbn [rows].
    rewrite <- Hl in Ep. change (T Re) with R in *.
    assert (G1 : (ix < length r0)%nat) by lia. assert (G2 : (2 <= length r0)%nat) by lia.
    destruct (rem_prep_chain _ _ _ _ _ _ _ _ Ep C Hs G1 G2) as (L & CL & SL & E1 & E2 & E3).
    change (T Re) with R in *. rewrite <- E1, <- E2. apply rem_rows_chain; [exact CL|exact SL|lia'].
  - injection St as <-. exact I.
Qed.

Theorem rinv_reachable : forall ops p p', RInv p -> pdf_run Re p ops = Some p' -> RInv p'.
Proof.
  induction ops as [|o t IH]; intros p p' I R; cbn [pdf_run] in R; [injection R as <-; exact I|].
  destruct (pdf_step Re p o) as [p1|] eqn:S; [|discriminate]. apply (IH p1 p'); [|exact R]. apply (rinv_step p o p1 I S).
Qed.

(* ---------- sample(r) selects the prefix interval containing r * total ---------- *)
Fixpoint prefix (r : list R) (i : nat) : R :=   (* sum of the first i entries *)
  match r with
  | [] => 0
  | a :: t => match i with O => 0 | S j => a + prefix t j end
  end.
Lemma prefix_pairsums r : forall j, prefix (pairsums r) j = prefix r (2 * j).
Proof.
  induction r as [| a | a b t IH] using pairsums_ind; intros j.
  - destruct j; reflexivity.
  - destruct j as [|j]; [reflexivity|]. replace (2 * S j)%nat with (S (S (2 * j))) by lia. simpl. destruct j; simpl; lra.
  - destruct j as [|j]; [reflexivity|]. replace (2 * S j)%nat with (S (S (2 * j))) by lia.
    change (pairsums (a :: b :: t)) with ((a + b) :: pairsums t). cbn [prefix]. rewrite IH. lra.
Qed.
Lemma prefix_S r : forall i, prefix r (S i) = prefix r i + nth i r 0.
Proof.
  induction r as [|a t IH]; intros i; simpl.
  - destruct i; lra.
  - destruct i as [|i]; [destruct t; simpl; lra|]. rewrite IH. lra.
Qed.
Lemma prefix_overflow r : forall i, (length r <= i)%nat -> prefix r i = prefix r (length r).
Proof.
  induction r as [|a t IH]; intros i H; simpl; [destruct i; reflexivity|].
  destruct i as [|i]; [simpl in H; lia|]. rewrite (IH i) by (simpl in H; lia). reflexivity.
Qed.

Fixpoint chainD (upper : list R) (down : list (list R)) : Prop :=
  match down with
  | [] => True
  | row :: rest => upper = pairsums row /\ chainD row rest
  end.
Lemma chainD_snoc : forall down u row, chainD u down -> last down u = pairsums row -> chainD u (down ++ [row]).
Proof.
  induction down as [|m rest IH]; intros u row H Hl; cbn [app chainD] in *; [auto|].
  destruct H as (A1 & A2). split; [exact A1|]. apply IH; [exact A2|].
  destruct rest as [|a rest']; [exact Hl|]. change (last (m :: a :: rest') u) with (last (a :: rest') u) in Hl.
  rewrite <- Hl. apply last_indep. discriminate.
Qed.
Lemma chain_topdown : forall rows, chain rows -> forall top down, rev rows = top :: down -> chainD top down.
Proof.
  induction rows as [|r rest IH]; intros C top down E; [discriminate|].
  destruct rest as [|r' rest'].
  - simpl in E. injection E as <- <-. exact I.
  - rewrite chain_cons2 in C. destruct C as (Er & C). change (rev (r :: r' :: rest')) with (rev (r' :: rest') ++ [r]) in E.
    destruct (rev (r' :: rest')) as [|t d'] eqn:Erv.
    { exfalso. apply (f_equal (@rev _)) in Erv. rewrite rev_involutive in Erv. discriminate. }
    cbn [app] in E. injection E as <- <-.
    apply chainD_snoc; [apply (IH C t d' eq_refl)|].
    assert (Hlast : last (t :: d') [] = r').
    { rewrite <- Erv. cbn [rev]. apply last_last. }
    rewrite <- Er, <- Hlast. destruct d' as [|x d'']; [reflexivity|].
    change (last (t :: x :: d'') []) with (last (x :: d'') []). apply last_indep. discriminate.
Qed.

Lemma rev_eq_cons {X} (l : list X) t d : rev l = t :: d -> l = rev d ++ [t].
Proof. intros E. rewrite <- (rev_involutive l), E. reflexivity. Qed.

Definition Good (row : list R) (target : R) (st : R * nat) : Prop :=
  prefix row (snd st) + fst st = target /\ 0 < fst st <= nth (snd st) row 0.

Lemma step_good upper row target st :
  upper = pairsums row -> Good upper target st -> (snd st < length upper)%nat ->
  exists st', step_checked Re true row st = Some st' /\ Good row target st' /\ (snd st' < length row)%nat.
Proof.
  intros -> (Hp & Hr) Hn. destruct st as [rho node]. cbn [fst snd] in *.
  rewrite length_pairsums in Hn. rewrite prefix_pairsums in Hp. rewrite nth_pairsums in Hr.
  assert (Hn2 : (2 * node < length row)%nat) by lia.
  unfold step_checked. cbv beta iota zeta. change (T Re) with R. change (zero Re) with 0. rewrite (nth_error_nth' row 0 Hn2).
  cbn [ltb Re sub]. unfold Rltb. destruct (Rlt_dec (nth (2 * node) row 0) rho) as [L|L]; cbn [andb].
  - destruct (Nat.ltb_spec (2 * node + 1) (length row)) as [G|G].
    + eexists. split; [reflexivity|]. unfold Good. cbn [fst snd]. split; [|lia]. split.
      * rewrite prefix_S. lra.
      * replace (S (2 * node)) with (2 * node + 1)%nat by lia. lra.
    + exfalso. rewrite (nth_overflow row 0 G) in Hr. lra.
  - eexists. split; [reflexivity|]. unfold Good. cbn [fst snd]. split; [|lia]. split; lra.
Qed.

Lemma descend_good : forall down upper target st,
  chainD upper down -> Good upper target st -> (snd st < length upper)%nat ->
  exists st', descend Re true down st = Some st' /\ Good (last down upper) target st' /\ (snd st' < length (last down upper))%nat.
Proof.
  induction down as [|row rest IH]; intros upper target st C G Hn.
  - exists st. auto.
  - destruct C as (E & C). destruct (step_good upper row target st E G Hn) as (st1 & E1 & G1 & H1).
    cbn [descend]. rewrite E1. destruct (IH row target st1 C G1 H1) as (st' & E' & G' & H').
    exists st'. split; [exact E'|]. destruct rest as [|r' rest']; [exact (conj G' H')|].
    change (last (row :: r' :: rest') upper) with (last (r' :: rest') upper).
    rewrite (last_indep (r' :: rest') upper row) by discriminate. auto.
Qed.

(* the total weight stored at the head of the tree is the sum of the leaf weights *)
Lemma chainD_total : forall down upper, chainD upper down ->
  prefix upper (length upper) = prefix (last down upper) (length (last down upper)).
Proof.
  induction down as [|row rest IH]; intros upper C; [reflexivity|]. destruct C as (E & C).
  rewrite E at 1 2. rewrite prefix_pairsums, length_pairsums.
  rewrite (prefix_overflow row (2 * ((length row + 1) / 2))) by lia.
  rewrite (IH row C). destruct rest as [|r' rest']; [reflexivity|].
  change (last (row :: r' :: rest') upper) with (last (r' :: rest') upper).
  rewrite (last_indep (r' :: rest') upper row) by discriminate. reflexivity.
Qed.

Definition leaves (p : pdf Re) : list R := hd [] (rows p).
Definition total (p : pdf Re) : R := prefix (leaves p) (length (leaves p)).

Theorem sample_selects_prefix_interval (p : pdf Re) (r : R) :
  RInv p -> data p <> [] -> 0 < r <= 1 -> 0 < total p ->
  exists id i, pdf_sample Re r 1 p = SId id /\ nth_error (data p) i = Some (id, i) /\
               prefix (leaves p) i < r * total p <= prefix (leaves p) (S i).
Proof.
  intros ((IO & ND & Hr) & C) Hd Hr01 Htot.
  destruct Hr as [(Ed & _)|(Hne & Hs & Hl)]; [congruence|].
  unfold pdf_sample, pdf_sample_g. destruct (data p) as [|d0 dt] eqn:Ed; [congruence|].
  cbn [ltb Re zero]. unfold Rltb at 1 2.
  destruct (Rlt_dec r 0) as [X|_]; [lra|]. destruct (Rlt_dec 1 r) as [X|_]; [lra|]. cbn [orb].
  destruct (rev (rows p)) as [|top down] eqn:Er.
  { exfalso. apply Hne. apply (f_equal (@rev _)) in Er. rewrite rev_involutive in Er. exact Er. }
  pose proof (chain_topdown _ C _ _ Er) as CD. change (T Re) with R in *.
  assert (Erev : rev (map (@length R) (rows p)) = length top :: map (@length R) down) by (rewrite <- map_rev, Er; reflexivity).
  destruct (shapeN_topdown _ Hs _ _ Erev) as (Htop & _).
  destruct top as [|w [|w' wt]]; simpl in Htop; try lia.
  assert (Eleaf : last down [w] = leaves p).
  { unfold leaves. pose proof (rev_eq_cons _ _ _ Er) as Erows.
    rewrite Erows. destruct down as [|d1 dr]; [reflexivity|].
    destruct (rev (d1 :: dr)) as [|a l] eqn:Ea.
    - exfalso. apply (f_equal (@rev _)) in Ea. rewrite rev_involutive in Ea. discriminate.
    - cbn [app hd]. apply (f_equal (@rev _)) in Ea. rewrite rev_involutive in Ea. rewrite Ea. cbn [rev]. apply last_last. }
  assert (Ew : w = total p).
  { unfold total. rewrite <- Eleaf. rewrite <- (chainD_total down [w] CD). simpl. lra. }
  assert (G0 : Good [w] (r * w) (r * w, 0%nat)).
  { unfold Good. cbn [fst snd prefix nth]. split; [lra|]. rewrite Ew. split; [apply Rmult_lt_0_compat; lra|].
    rewrite <- (Rmult_1_l (total p)) at 2. apply Rmult_le_compat_r; lra. }
  destruct (descend_good down [w] (r * w) (r * w, 0%nat) CD G0 ltac:(simpl; lia)) as ([rho node] & E & (Gp & Gr) & Hn).
  cbn [mul Re]. rewrite E. cbn [fst snd] in *. rewrite Eleaf in *.
  assert (Hb : (node < length (d0 :: dt))%nat) by (rewrite <- Hl; exact Hn).
  destruct (nth_error (d0 :: dt) node) as [[id ix]|] eqn:En; [|apply nth_error_None in En; lia].
  exists id, node. split; [reflexivity|]. split.
  - f_equal. f_equal. rewrite <- Ed in *. pose proof (IO node Hb) as Hio. rewrite (nth_error_nth _ _ _ En) in Hio. simpl in Hio. congruence.
  - rewrite prefix_S, <- Ew. lra.
Qed.

Corollary zero_weight_never_drawn (p : pdf Re) (r : R) id i :
  RInv p -> data p <> [] -> 0 < r <= 1 -> 0 < total p ->
  pdf_sample Re r 1 p = SId id -> nth_error (data p) i = Some (id, i) -> nth i (leaves p) 0 <> 0.
Proof.
  intros I Hd Hr Ht Es En. destruct (sample_selects_prefix_interval p r I Hd Hr Ht) as (id' & i' & Es' & En' & Hp).
  rewrite Es in Es'. injection Es' as <-.
  assert (i = i').
  { destruct I as ((IO & ND & _) & _). unfold ids in ND.
    assert (H1 : nth i (map fst (data p)) 0%nat = id) by (change 0%nat with (fst (0%nat, 0%nat)); rewrite map_nth, (nth_error_nth _ _ _ En); reflexivity).
    assert (H2 : nth i' (map fst (data p)) 0%nat = id) by (change 0%nat with (fst (0%nat, 0%nat)); rewrite map_nth, (nth_error_nth _ _ _ En'); reflexivity).
    apply (proj1 (NoDup_nth _ 0%nat) ND); rewrite ?map_length; try (apply nth_error_Some; congruence). congruence. }
  subst i'. rewrite prefix_S in Hp. lra.
Qed.
