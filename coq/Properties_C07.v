(* Properties_C07.v — property C07 (interpolation traces one consistent, bounded curve) for R^n, SO(2), time,
   discrete and nested weighted compounds.  Statements only. *)
From Coq Require Import List Bool Arith Reals Floats.
From OmplV Require Import SpacesModel SpacesReal SpacesFloat.
Import ListNotations.
Local Open Scope R_scope.

Section C07.
  Variables (fm : R -> R -> R) (fl : R -> R) (eps : R).
  (* what is used of floor: exact on integers plus a fraction, monotone, integral *)
  Hypothesis fl_int : forall (n : Z) (r : R), 0 <= r < 1 -> fl (IZR n + r) = IZR n.
  Hypothesis fl_mono : forall x y, x <= y -> fl x <= fl y.
  Hypothesis fl_integral : forall x, exists n, fl x = IZR n.
  Notation A := (ReA fm fl eps).

  (* the first state at t = 0, the second at t = 1, inside the bounds for every t in [0,1]; for every space *)
  Theorem C07_endpoints_and_bounds : forall sp a b, inb fm fl eps sp a -> inb fm fl eps sp b ->
    interpolate A sp a b 0 = a /\ interpolate A sp a b 1 = b /\
    (forall t, 0 <= t <= 1 -> inb fm fl eps sp (interpolate A sp a b t)).
  Proof. exact (interpolate_endpoints_inb fm fl eps fl_int fl_mono fl_integral). Qed.

  (* no jumps: the point at t is at t times the full distance from the start (spaces without a discrete part) *)
  Theorem C07_geodesic_scaling : forall sp a b t, smooth fm fl eps sp -> inb fm fl eps sp a -> inb fm fl eps sp b -> 0 <= t <= 1 ->
    distance A sp a (interpolate A sp a b t) = t * distance A sp a b.
  Proof. exact (interpolate_geodesic fm fl eps). Qed.

  (* re-parameterisation for the linear leaves *)
  Theorem C07_reparameterisation_linear :
    (forall a b s u, rv_interp A (rv_interp A a b s) b u = rv_interp A a b (s + (1 - s) * u)) /\
    (forall a b s u, lin_interp A (lin_interp A a b s) b u = lin_interp A a b (s + (1 - s) * u)).
  Proof. exact (rv_time_reparam fm fl eps). Qed.
End C07.

Print Assumptions C07_endpoints_and_bounds.
Print Assumptions C07_geodesic_scaling.
Print Assumptions C07_reparameterisation_linear.

Local Open Scope float_scope.
(* the defect at the pinned commit: SO(2) interpolation across the seam could return exactly +pi, outside [-pi, pi) *)
Example C07_so2_plus_pi_orig_refuted :
  so2_interp_orig FlA 3 (-3) 0.5 = 0x1.921fb54442d18p+1 /\ so2_satisfies FlA (so2_interp_orig FlA 3 (-3) 0.5) = false /\
  so2_interp FlA 3 (-3) 0.5 = (-0x1.921fb54442d18p+1) /\ so2_satisfies FlA (so2_interp FlA 3 (-3) 0.5) = true.
Proof. vm_compute. repeat split. Qed.
(* discrete spaces round, so re-parameterisation fails: on [0,3], 0->3 at 1/2 is 2, then 2->3 at 1/2 is 3, but 0->3 at 3/4 is 2 *)
Example C07_discrete_reparam_refuted :
  disc_interp FlA 0 3 0.5 = 2 /\ disc_interp FlA 2 3 0.5 = 3 /\ disc_interp FlA 0 3 0.75 = 2.
Proof. vm_compute. repeat split. Qed.
