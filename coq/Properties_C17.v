(* Properties_C17.v — property C17 (path post-processing preserves endpoints, validity and never worsens cost).
   Statements only.  The counting logic of densification is proved for every floating-point estimate; the vertex
   shortcut is proved for every sequence of attempts and every validator; what each routine of PathSimplifier returns is
   adjudicated per run (admission rule of C01 with the input's own motions counted as validated). *)
From Coq Require Import List ZArith Bool Arith Reals.
From OmplV Require Import PathModel PathProofs SolProofs LedgerModel LedgerProofs.
Import ListNotations.
Local Open Scope Z_scope.

(* interpolate(request) with request >= size >= 2 yields exactly request states, never a negative block *)
Theorem C17_interpolate_exact_count : forall est size request, (2 <= size)%nat -> Z.of_nat size <= request ->
  total_states size (interp_counts est size request) = request /\ Forall (fun n => 0 <= n) (interp_counts est size request).
Proof. exact interpolate_exact_count. Qed.
Theorem C17_interpolate_noop_when_fewer_requested : forall est size request, request < Z.of_nat size \/ (size < 2)%nat ->
  interp_counts est size request = repeat 0 (size - 1).
Proof. exact interpolate_noop. Qed.
(* the original vertices stay, in order; the vertex list has exactly total_states entries *)
Theorem C17_densified_path_keeps_vertices_in_order : forall counts i, originals (layout i counts) = seq i (S (length counts)).
Proof. exact layout_keeps_originals_in_order. Qed.
Theorem C17_densified_path_length : forall counts i, Forall (fun n => 0 <= n) counts ->
  Z.of_nat (length (layout i counts)) = zsum counts + Z.of_nat (length counts) + 1.
Proof. exact layout_length. Qed.
Theorem C17_subdivide_count : forall size, (1 <= size)%nat -> total_states size (subdivide_counts size) = 2 * Z.of_nat size - 1.
Proof. exact subdivide_count. Qed.

(* vertex shortcuts (reduceVertices): any sequence of attempts keeps the first and the last state, and if every motion
   of the input was validated so is every motion of the result (only accepted motions are introduced) *)
Theorem C17_shortcuts_keep_ends_and_validated : forall (St : Type) (mv : St -> St -> bool) ijs p d,
  hd d (shortcuts St mv p ijs d) = hd d p /\ last (shortcuts St mv p ijs d) d = last p d /\
  (consecutive (fun a b => mv a b = true) p -> consecutive (fun a b => mv a b = true) (shortcuts St mv p ijs d)).
Proof. exact shortcuts_keep_ends_and_validated. Qed.
(* and in a metric space the path never gets longer *)
Theorem C17_shortcuts_never_longer : forall (St : Type) (mv : St -> St -> bool) (dist : St -> St -> R),
  (forall x, dist x x = 0%R) -> (forall x y z, (dist x z <= dist x y + dist y z)%R) ->
  forall ijs p d, (plen St dist (shortcuts St mv p ijs d) <= plen St dist p)%R.
Proof. exact shortcuts_never_longer. Qed.

(* PathSimplifier::reduceVertices as a whole (PathModel.reduce_vertices: both counters, the draw of the vertex pair from two
   uniform variates, the repair of pairs closer than two apart, the whole-path attempt first): for every path, validator,
   rangeRatio >= 0, step limits and every stream of variates in [0,1) the result is a sequence of accepted vertex
   shortcuts of the input — so the two theorems above apply to it — and a false return value means an unchanged path *)
Theorem C17_reduceVertices_is_a_sequence_of_validated_shortcuts :
  forall (St : Type) (mv : St -> St -> bool) (range_of : Z -> Z), (forall c, 0 <= range_of c) ->
  forall p maxSteps maxEmpty tape d, Forall uok tape ->
  exists ijs, fst (reduce_vertices St mv range_of p maxSteps maxEmpty tape d) = shortcuts St mv p ijs d /\
    (snd (reduce_vertices St mv range_of p maxSteps maxEmpty tape d) = false ->
     fst (reduce_vertices St mv range_of p maxSteps maxEmpty tape d) = p).
Proof. exact reduce_vertices_is_shortcuts. Qed.

(* PathSimplifier::collapseCloseVertices as a whole (PathModel.collapse_close: the distance table keyed by the states, the
   scan for the closest open pair, entries set to infinity after a rejected motion, both counters): again a sequence of
   accepted vertex shortcuts, and the pair tried in each round is an open pair at least as close as every other open pair *)
Theorem C17_collapseCloseVertices_is_a_sequence_of_validated_shortcuts :
  forall (St : Type) (mv : St -> St -> bool) (dist : St -> St -> Z) (steq : St -> St -> bool) p maxSteps maxEmpty d,
  exists ijs, fst (collapse_close St mv dist steq p maxSteps maxEmpty d) = shortcuts St mv p ijs d /\
    (snd (collapse_close St mv dist steq p maxSteps maxEmpty d) = false -> fst (collapse_close St mv dist steq p maxSteps maxEmpty d) = p).
Proof. exact collapse_close_is_shortcuts. Qed.

(* the composition, stated for the two simplifier passes themselves: whatever the path, validator, limits and variates,
   reduceVertices / collapseCloseVertices return a path with the same first and last state, every motion of which is
   validated if every motion of the input was; and in a metric space reduceVertices' result is never longer *)
Theorem C17_reduceVertices_keeps_ends_validated_never_longer :
  forall (St : Type) (mv : St -> St -> bool) (range_of : Z -> Z), (forall c, 0 <= range_of c) ->
  forall p maxSteps maxEmpty tape d, Forall uok tape ->
  let q := fst (reduce_vertices St mv range_of p maxSteps maxEmpty tape d) in
  hd d q = hd d p /\ last q d = last p d /\
  (consecutive (fun a b => mv a b = true) p -> consecutive (fun a b => mv a b = true) q) /\
  (forall dist : St -> St -> R, (forall x, dist x x = 0%R) -> (forall x y z, (dist x z <= dist x y + dist y z)%R) ->
     (plen St dist q <= plen St dist p)%R).
Proof.
  intros St mv range_of Hr p maxSteps maxEmpty tape d Ht q.
  destruct (C17_reduceVertices_is_a_sequence_of_validated_shortcuts St mv range_of Hr p maxSteps maxEmpty tape d Ht) as (ijs & E & _).
  subst q. rewrite E.
  destruct (C17_shortcuts_keep_ends_and_validated St mv ijs p d) as (A & B & C).
  split; [exact A|]. split; [exact B|]. split; [exact C|].
  intros dist D0 Dt. exact (C17_shortcuts_never_longer St mv dist D0 Dt ijs p d).
Qed.
Theorem C17_collapseCloseVertices_keeps_ends_validated :
  forall (St : Type) (mv : St -> St -> bool) (dist : St -> St -> Z) (steq : St -> St -> bool) p maxSteps maxEmpty d,
  let q := fst (collapse_close St mv dist steq p maxSteps maxEmpty d) in
  hd d q = hd d p /\ last q d = last p d /\
  (consecutive (fun a b => mv a b = true) p -> consecutive (fun a b => mv a b = true) q).
Proof.
  intros St mv dist steq p maxSteps maxEmpty d q.
  destruct (C17_collapseCloseVertices_is_a_sequence_of_validated_shortcuts St mv dist steq p maxSteps maxEmpty d) as (ijs & E & _).
  subst q. rewrite E. exact (C17_shortcuts_keep_ends_and_validated St mv ijs p d).
Qed.
Theorem C17_collapse_tries_a_closest_open_pair :
  forall (St : Type) (dist : St -> St -> Z) (steq : St -> St -> bool) p blocked d,
  match cc_best St dist steq p blocked d with
  | Some ((a, b), v) => In (a, b) (cc_pairs (length p)) /\ cc_entry St dist steq blocked (nth a p d) (nth b p d) = Some v /\
      (forall a' b' v', In (a', b') (cc_pairs (length p)) -> cc_entry St dist steq blocked (nth a' p d) (nth b' p d) = Some v' -> v <= v')
  | None => forall a' b', In (a', b') (cc_pairs (length p)) -> cc_entry St dist steq blocked (nth a' p d) (nth b' p d) = None
  end.
Proof. exact cc_best_spec. Qed.

Print Assumptions C17_collapseCloseVertices_is_a_sequence_of_validated_shortcuts.
Print Assumptions C17_reduceVertices_keeps_ends_validated_never_longer.
Print Assumptions C17_collapseCloseVertices_keeps_ends_validated.
Print Assumptions C17_collapse_tries_a_closest_open_pair.
Print Assumptions C17_reduceVertices_is_a_sequence_of_validated_shortcuts.
Print Assumptions C17_interpolate_exact_count.
Print Assumptions C17_interpolate_noop_when_fewer_requested.
Print Assumptions C17_densified_path_keeps_vertices_in_order.
Print Assumptions C17_densified_path_length.
Print Assumptions C17_subdivide_count.
Print Assumptions C17_shortcuts_keep_ends_and_validated.
Print Assumptions C17_shortcuts_never_longer.

Example C17_nonvacuous :
  interp_counts (fun i c => match i with O => 5 | _ => 1 end) 4 10 = [3; 0; 3] /\
  total_states 4 [3; 0; 3] = 10 /\
  originals (layout 0 [3; 0; 3]) = [0; 1; 2; 3]%nat /\
  shortcuts Z (fun a b => negb (b =? 9)) [1; 2; 3; 4; 9; 5] [(0%nat, 2%nat); (1%nat, 3%nat); (1%nat, 4%nat)] 0 = [1; 3; 5].
Proof. vm_compute. repeat split. Qed.
(* reduceVertices on 8 vertices where only (0,3), (3,6) and (2,7) are accepted; rangeRatio 1/2; two variate streams *)
Example C17_reduce_nonvacuous :
  rv_run 8 0 0 1 2 [(0, 3); (3, 6); (2, 7)]%nat [(0, 64); (40, 64); (30, 64); (60, 64); (16, 64); (63, 64); (1, 64); (2, 64)] = ([0; 3; 4; 5; 6; 7]%nat, true) /\
  rv_run 8 0 0 1 2 [(0, 3); (3, 6); (2, 7)]%nat [(60, 64); (1, 64); (60, 64); (1, 64)] = ([0; 1; 2; 7]%nat, true) /\
  rv_run 8 0 0 1 2 []%nat [(60, 64); (1, 64); (60, 64); (1, 64)] = ([0; 1; 2; 3; 4; 5; 6; 7]%nat, false).
Proof. vm_compute. repeat split; reflexivity. Qed.
(* collapseCloseVertices on 7 vertices at coordinates 0 10 3 12 4 20 1: the closest non-adjacent pair is (0,6) (distance 1) *)
Example C17_collapse_nonvacuous :
  cc_run [0; 10; 3; 12; 4; 20; 1] 0 0 [(2,4); (0,6); (1,3)]%nat = ([0; 6]%nat, true) /\
  cc_run [0; 10; 3; 12; 4; 20; 1] 0 0 [(2,4); (1,3)]%nat = ([0; 1; 2; 4; 5; 6]%nat, true) /\
  cc_run [0; 10; 3; 12; 4; 20; 1] 0 0 []%nat = ([0; 1; 2; 3; 4; 5; 6]%nat, false).
Proof. vm_compute. repeat split; reflexivity. Qed.
