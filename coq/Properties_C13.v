(* Properties_C13.v — property C13: grid discretizations track cells, neighbours, borders and components exactly.
   Statements only, over GridModel.v. *)
From Coq Require Import List ZArith Bool Arith Permutation.
From OmplV Require Import HeapModel GridModel GridProofs GridComps.
Import ListNotations.
Local Open Scope Z_scope.

(* lookups find exactly the cells present *)
Theorem C13_lookup_exact : forall c cells, has c cells = true <-> In c (coords cells).
Proof. exact has_spec. Qed.

(* the neighbour relation consists of exactly the present cells whose coordinates differ by one in a single dimension *)
Theorem C13_neighbors_exact :
  forall cells c x, NoDup (coords cells) ->
    (In x (neighbors c cells) <-> In x cells /\ adjacent c (ccoord x)).
Proof. exact neighbors_exact. Qed.
Theorem C13_adjacent_means_differ_by_one :
  forall a b, adjacent a b <->
    length b = length a /\ exists i, (i < length a)%nat /\ (nth i b 0 = nth i a 0 + 1 \/ nth i b 0 = nth i a 0 - 1) /\
                                     forall j, j <> i -> nth j b 0 = nth j a 0.
Proof. exact adjacent_differ_by_one. Qed.
(* ... and is symmetric *)
Theorem C13_neighbors_symmetric :
  forall cells x y, NoDup (coords cells) -> In x cells -> In y cells ->
    (In y (neighbors (ccoord x) cells) <-> In x (neighbors (ccoord y) cells)).
Proof. exact neighbors_symmetric. Qed.

(* the reported connected components are total, partition the cells, and each block is closed under the
   neighbour relation and connected *)
Theorem C13_components_partition :
  forall cells d, NoDup (coords cells) -> (forall x, In x cells -> length (ccoord x) = d) ->
    exists comps, components cells = Some comps /\ Permutation (concat comps) cells /\
      (forall comp, In comp comps -> comp <> [] /\ closed cells comp /\ connected cells comp).
Proof. exact components_partition. Qed.

(* GridN: after createCell+add of an absent coordinate / remove of a present cell, every cell's neighbour count equals
   its number of present neighbours plus its boundary dimensions, and border <-> count < interior limit *)
Theorem C13_gridn_add_exact :
  forall p id c d cells cells', NInv p cells -> gridn_add p id c d cells = Some cells' ->
    NInv p cells' /\ coords cells' = coords cells ++ [c].
Proof. exact gridn_add_inv. Qed.
Theorem C13_gridn_remove_exact :
  forall p c cells cells', NInv p cells -> gridn_remove p c cells = Some cells' ->
    NInv p cells' /\ coords cells' = without c (coords cells) /\ In c (coords cells).
Proof. exact gridn_remove_inv. Qed.

(* lifted to every history of additions and removals from the empty grid *)
Inductive gop := GAdd (id : nat) (c : coord) (d : Z) | GRemove (c : coord).
Fixpoint grun (p : gparams) (cells : list cell) (ops : list gop) : option (list cell) :=
  match ops with
  | [] => Some cells
  | GAdd id c d :: t => match gridn_add p id c d cells with Some cs => grun p cs t | None => None end
  | GRemove c :: t => match gridn_remove p c cells with Some cs => grun p cs t | None => None end
  end.
Theorem C13_gridn_counts_exact_for_every_history :
  forall p ops cells, grun p [] ops = Some cells -> NInv p cells.
Proof.
  intros p ops. assert (G : forall cells0 cells, NInv p cells0 -> grun p cells0 ops = Some cells -> NInv p cells).
  { induction ops as [|o t IH]; intros cells0 cells I R; cbn [grun] in R; [injection R as <-; exact I|].
    destruct o as [id c d|c].
    - destruct (gridn_add p id c d cells0) as [cs|] eqn:E; [|discriminate]. apply (IH cs cells); [|exact R]. apply (gridn_add_inv p id c d cells0 cs I E).
    - destruct (gridn_remove p c cells0) as [cs|] eqn:E; [|discriminate]. apply (IH cs cells); [|exact R]. apply (gridn_remove_inv p c cells0 cs I E). }
  intros cells. apply G. apply ninv_nil.
Qed.

Print Assumptions C13_lookup_exact.
Print Assumptions C13_neighbors_exact.
Print Assumptions C13_adjacent_means_differ_by_one.
Print Assumptions C13_neighbors_symmetric.
Print Assumptions C13_components_partition.
Print Assumptions C13_gridn_add_exact.
Print Assumptions C13_gridn_remove_exact.
Print Assumptions C13_gridn_counts_exact_for_every_history.

(* non-vacuity: a 2-D grid with bounds where a border/interior flip and a removal happen *)
Example C13_nonvacuous :
  let p := mkGP 2 (Some ([0;0], [2;2])) 2 in
  option_map (map (fun x => (cid x, nbrs x, border x)))
    (grun p [] [GAdd 0 [0;0] 5; GAdd 1 [1;0] 3; GAdd 2 [1;1] 7; GRemove [0;0]; GAdd 3 [2;1] 1])
  = Some [(1%nat, 2, false); (2%nat, 2, false); (3%nat, 2, false)].
Proof. vm_compute. reflexivity. Qed.
