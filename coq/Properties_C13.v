(* Properties_C13.v — placeholder until GridProofs.v is complete *)
From OmplV Require Import GridModel.
