(* Properties_C13.v — property C13: grid discretizations track cells, neighbours, borders and components exactly.
   Statements only, over GridModel.v. *)
From Coq Require Import List ZArith Bool Arith Permutation.
From OmplV Require Import HeapModel HeapElt GridModel GridProofs GridComps GridBProofs.
Import ListNotations.
Local Open Scope Z_scope.

(* lookups find exactly the cells present *)
Theorem C13_lookup_exact : forall c cells, has c cells = true <-> In c (coords cells).
Proof. exact has_spec. Qed.

(* the neighbour relation consists of exactly the present cells whose coordinates differ by one in a single dimension *)
Theorem C13_neighbors_exact :
  forall cells c x, NoDup (coords cells) ->
    (In x (neighbors c cells) <-> In x cells /\ adjacent c (ccoord x)).
Proof. exact neighbors_exact. Qed.
Theorem C13_adjacent_means_differ_by_one :
  forall a b, adjacent a b <->
    length b = length a /\ exists i, (i < length a)%nat /\ (nth i b 0 = nth i a 0 + 1 \/ nth i b 0 = nth i a 0 - 1) /\
                                     forall j, j <> i -> nth j b 0 = nth j a 0.
Proof. exact adjacent_differ_by_one. Qed.
(* ... and is symmetric *)
Theorem C13_neighbors_symmetric :
  forall cells x y, NoDup (coords cells) -> In x cells -> In y cells ->
    (In y (neighbors (ccoord x) cells) <-> In x (neighbors (ccoord y) cells)).
Proof. exact neighbors_symmetric. Qed.

(* the reported connected components are total, partition the cells, and each block is closed under the
   neighbour relation and connected *)
Theorem C13_components_partition :
  forall cells d, NoDup (coords cells) -> (forall x, In x cells -> length (ccoord x) = d) ->
    exists comps, components cells = Some comps /\ Permutation (concat comps) cells /\
      (forall comp, In comp comps -> comp <> [] /\ closed cells comp /\ connected cells comp).
Proof. exact components_partition. Qed.

(* GridN: after createCell+add of an absent coordinate / remove of a present cell, every cell's neighbour count equals
   its number of present neighbours plus its boundary dimensions, and border <-> count < interior limit *)
Theorem C13_gridn_add_exact :
  forall p id c d cells cells', NInv p cells -> gridn_add p id c d cells = Some cells' ->
    NInv p cells' /\ coords cells' = coords cells ++ [c].
Proof. exact gridn_add_inv. Qed.
Theorem C13_gridn_remove_exact :
  forall p c cells cells', NInv p cells -> gridn_remove p c cells = Some cells' ->
    NInv p cells' /\ coords cells' = without c (coords cells) /\ In c (coords cells).
Proof. exact gridn_remove_inv. Qed.

(* lifted to every history of additions and removals from the empty grid *)
Inductive gop := GAdd (id : nat) (c : coord) (d : Z) | GRemove (c : coord).
Fixpoint grun (p : gparams) (cells : list cell) (ops : list gop) : option (list cell) :=
  match ops with
  | [] => Some cells
  | GAdd id c d :: t => match gridn_add p id c d cells with Some cs => grun p cs t | None => None end
  | GRemove c :: t => match gridn_remove p c cells with Some cs => grun p cs t | None => None end
  end.
Theorem C13_gridn_counts_exact_for_every_history :
  forall p ops cells, grun p [] ops = Some cells -> NInv p cells.
Proof.
  intros p ops. assert (G : forall cells0 cells, NInv p cells0 -> grun p cells0 ops = Some cells -> NInv p cells).
  { induction ops as [|o t IH]; intros cells0 cells I R; cbn [grun] in R; [injection R as <-; exact I|].
    destruct o as [id c d|c].
    - destruct (gridn_add p id c d cells0) as [cs|] eqn:E; [|discriminate]. apply (IH cs cells); [|exact R]. apply (gridn_add_inv p id c d cells0 cs I E).
    - destruct (gridn_remove p c cells0) as [cs|] eqn:E; [|discriminate]. apply (IH cs cells); [|exact R]. apply (gridn_remove_inv p c cells0 cs I E). }
  intros cells. apply G. apply ninv_nil.
Qed.

(* the neighbour statements with their NoDup hypothesis discharged by reachability: for EVERY grid that a
   finite history of additions and removals builds from the empty one, the neighbour relation is exactly
   "present and one step away in one dimension", and it is symmetric *)
Theorem C13_reachable_neighbors_exact_and_symmetric :
  forall p ops cells, grun p [] ops = Some cells ->
    (forall c x, In x (neighbors c cells) <-> In x cells /\ adjacent c (ccoord x)) /\
    (forall x y, In x cells -> In y cells ->
       (In y (neighbors (ccoord x) cells) <-> In x (neighbors (ccoord y) cells))).
Proof.
  intros p ops cells H. destruct (C13_gridn_counts_exact_for_every_history p ops cells H) as [ND _]. split.
  - intros c x. exact (C13_neighbors_exact cells c x ND).
  - intros x y. exact (C13_neighbors_symmetric cells x y ND).
Qed.

(* ---- GridB: the two priority queues.  lt_ext / lt_int are the cell ordering functors (LessThanExternal /
   LessThanInternal on the cell data); as for any heap they must induce a total preorder. ---- *)
Section GridBProps.
  Variables lt_ext lt_int : Z -> Z -> bool.
  Hypothesis te : forall x y, kle Z lt_ext x y = true \/ kle Z lt_ext y x = true.
  Hypothesis re : forall x y z, kle Z lt_ext x y = true -> kle Z lt_ext y z = true -> kle Z lt_ext x z = true.
  Hypothesis ti : forall x y, kle Z lt_int x y = true \/ kle Z lt_int y x = true.
  Hypothesis ri : forall x y z, kle Z lt_int x y = true -> kle Z lt_int y z = true -> kle Z lt_int x z = true.

  (* for every history of add / remove / update from the empty grid (an added cell being distinct from the cells
     still present): counts and flags exact (NInv), heaps ordered with consistent handles, and each heap holds exactly
     the (cell, data) pairs of the cells carrying its flag (W) *)
  Theorem C13_gridb_invariant_for_every_history :
    forall p ops g, brun lt_ext lt_int p gb_empty ops = Some g -> BInv lt_ext lt_int p g.
  Proof. intros p ops g. apply (brun_inv lt_ext lt_int te re ti ri p ops gb_empty g). apply binv_empty. Qed.

  (* every cell sits in exactly one of the two queues: once in the one its border flag names, keyed by its data, and
     not in the other; and the queues hold nothing but cells of their class *)
  Theorem C13_gridb_cell_in_exactly_one_queue :
    forall g x, W lt_ext lt_int g -> In x (gcells g) ->
      In (cid x, cdata x) (map (strip Z) (heap_of (border x) g)) /\
      ~ In (cid x) (ids Z (heap_of (negb (border x)) g)) /\
      NoDup (ids Z (hext g)) /\ NoDup (ids Z (hint g)).
  Proof. exact (cell_in_exactly_one_queue lt_ext lt_int). Qed.
  Theorem C13_gridb_queues_hold_only_cells :
    forall b g e, W lt_ext lt_int g -> In e (heap_of b g) ->
      exists x, In x (gcells g) /\ border x = b /\ cid x = eid e /\ cdata x = ekey e.
  Proof. exact (queues_hold_only_cells lt_ext lt_int). Qed.
  (* countExternal / countInternal *)
  Theorem C13_gridb_queue_sizes :
    forall g, W lt_ext lt_int g ->
      length (hext g) = length (filter (fun x => border x) (gcells g)) /\
      length (hint g) = length (filter (fun x => negb (border x)) (gcells g)).
  Proof. exact (queue_sizes lt_ext lt_int). Qed.

  (* topInternal() is a best interior cell (the best border cell when there is no interior cell), topExternal() a best
     border cell (the best interior cell when there is no border cell) *)
  Theorem C13_gridb_top_internal :
    forall g, W lt_ext lt_int g ->
      match top_internal g with
      | Some id =>
          (exists x, In x (gcells g) /\ border x = false /\ cid x = id /\
                     forall y, In y (gcells g) -> border y = false -> kle Z lt_int (cdata x) (cdata y) = true) \/
          ((forall y, In y (gcells g) -> border y = true) /\
           exists x, In x (gcells g) /\ cid x = id /\ forall y, In y (gcells g) -> kle Z lt_ext (cdata x) (cdata y) = true)
      | None => gcells g = []
      end.
  Proof. exact (top_internal_spec lt_ext lt_int te re ti ri). Qed.
  Theorem C13_gridb_top_external :
    forall g, W lt_ext lt_int g ->
      match top_external g with
      | Some id =>
          (exists x, In x (gcells g) /\ border x = true /\ cid x = id /\
                     forall y, In y (gcells g) -> border y = true -> kle Z lt_ext (cdata x) (cdata y) = true) \/
          ((forall y, In y (gcells g) -> border y = false) /\
           exists x, In x (gcells g) /\ cid x = id /\ forall y, In y (gcells g) -> kle Z lt_int (cdata x) (cdata y) = true)
      | None => gcells g = []
      end.
  Proof. exact (top_external_spec lt_ext lt_int te re ti ri). Qed.

  (* the cell list of GridB evolves exactly as GridN's, and GridB accepts exactly the calls GridN accepts: no heap
     call ever meets a dangling or duplicate handle *)
  Theorem C13_gridb_add_refines_gridn :
    forall p id c d g g', BInv lt_ext lt_int p g -> ~ In id (cidl (gcells g)) ->
      gridb_add lt_ext lt_int p id c d g = Some g' ->
      BInv lt_ext lt_int p g' /\ gridn_add p id c d (gcells g) = Some (gcells g').
  Proof. exact (gridb_add_inv lt_ext lt_int te re ti ri). Qed.
  Theorem C13_gridb_remove_refines_gridn :
    forall p c g g', BInv lt_ext lt_int p g -> gridb_remove lt_ext lt_int p c g = Some g' ->
      BInv lt_ext lt_int p g' /\ gridn_remove p c (gcells g) = Some (gcells g').
  Proof. exact (gridb_remove_inv lt_ext lt_int te re ti ri). Qed.
  Theorem C13_gridb_update_keeps_cells :
    forall p c d g g', BInv lt_ext lt_int p g -> gridb_update lt_ext lt_int c d g = Some g' ->
      BInv lt_ext lt_int p g' /\ gcells g' = upd_cell (set_data d) c (gcells g).
  Proof. exact (gridb_update_inv lt_ext lt_int te re ti ri). Qed.
  Theorem C13_gridb_add_never_dangles :
    forall p id c d g, BInv lt_ext lt_int p g -> ~ In id (cidl (gcells g)) ->
      (gridb_add lt_ext lt_int p id c d g = None <-> gridn_add p id c d (gcells g) = None).
  Proof. exact (gridb_add_total lt_ext lt_int te re ti ri). Qed.
  Theorem C13_gridb_remove_never_dangles :
    forall p c g, BInv lt_ext lt_int p g ->
      (gridb_remove lt_ext lt_int p c g = None <-> ~ In c (coords (gcells g))).
  Proof. exact (gridb_remove_total lt_ext lt_int te re ti ri). Qed.
End GridBProps.

Print Assumptions C13_lookup_exact.
Print Assumptions C13_neighbors_exact.
Print Assumptions C13_adjacent_means_differ_by_one.
Print Assumptions C13_neighbors_symmetric.
Print Assumptions C13_components_partition.
Print Assumptions C13_gridn_add_exact.
Print Assumptions C13_gridn_remove_exact.
Print Assumptions C13_gridn_counts_exact_for_every_history.
Print Assumptions C13_reachable_neighbors_exact_and_symmetric.

Print Assumptions C13_gridb_invariant_for_every_history.
Print Assumptions C13_gridb_cell_in_exactly_one_queue.
Print Assumptions C13_gridb_queues_hold_only_cells.
Print Assumptions C13_gridb_queue_sizes.
Print Assumptions C13_gridb_top_internal.
Print Assumptions C13_gridb_top_external.
Print Assumptions C13_gridb_add_refines_gridn.
Print Assumptions C13_gridb_remove_refines_gridn.
Print Assumptions C13_gridb_update_keeps_cells.
Print Assumptions C13_gridb_add_never_dangles.
Print Assumptions C13_gridb_remove_never_dangles.

(* non-vacuity: a 2-D grid with bounds where a border/interior flip and a removal happen *)
Example C13_nonvacuous :
  let p := mkGP 2 (Some ([0;0], [2;2])) 2 in
  option_map (map (fun x => (cid x, nbrs x, border x)))
    (grun p [] [GAdd 0 [0;0] 5; GAdd 1 [1;0] 3; GAdd 2 [1;1] 7; GRemove [0;0]; GAdd 3 [2;1] 1])
  = Some [(1%nat, 2, false); (2%nat, 2, false); (3%nat, 2, false)].
Proof. vm_compute. reflexivity. Qed.

(* non-vacuity for GridB: the second addition flips cell 0 from the external to the internal queue, the update
   re-sifts it there, and the removal flips it back; the external queue prefers larger data, the internal smaller *)
Example C13_gridb_nonvacuous :
  let p := mkGP 2 None 1 in
  let show := fun g => (map (fun x => (cid x, border x)) (gcells g), map (strip Z) (hext g), map (strip Z) (hint g), top_internal g, top_external g) in
  let ops := [BAdd 0 [0;0] 5; BAdd 1 [1;0] 3; BAdd 2 [7;7] 4; BUpdate [0;0] 1; BRemove [1;0]] in
  map (fun k => option_map show (brun (fun a b => b <? a) Z.ltb p gb_empty (firstn k ops))) [1; 2; 4; 5]%nat
  = [Some ([(0%nat, true)], [(0%nat, 5)], [], Some 0%nat, Some 0%nat);
     Some ([(0%nat, false); (1%nat, false)], [], [(1%nat, 3); (0%nat, 5)], Some 1%nat, Some 1%nat);
     Some ([(0%nat, false); (1%nat, false); (2%nat, true)], [(2%nat, 4)], [(0%nat, 1); (1%nat, 3)], Some 0%nat, Some 2%nat);
     Some ([(0%nat, true); (2%nat, true)], [(2%nat, 4); (0%nat, 1)], [], Some 2%nat, Some 2%nat)].
Proof. vm_compute. reflexivity. Qed.
