(* NNProofs.v — proofs about NNModel.v *)
From Coq Require Import List ZArith Bool Arith Lia Permutation Sorted.
From OmplV Require Import NNModel.
Import ListNotations.
Local Open Scope Z_scope.

Section NNP.
  Variable P : Type.
  Variable d : P -> P -> Z.
  Variable peqb : P -> P -> bool.
  Hypothesis peqb_spec : forall a b, peqb a b = true <-> a = b.

  (* ---- the exhaustive specification ---- *)
  Lemma ins_perm q x l : Permutation (ins P d q x l) (x :: l).
  Proof. induction l as [|y t IH]; simpl; [apply Permutation_refl|]. destruct (d x q <=? d y q); [apply Permutation_refl|]. eapply perm_trans; [apply perm_skip; exact IH|apply perm_swap]. Qed.
  Lemma sort_by_perm q l : Permutation (sort_by P d q l) l.
  Proof. induction l as [|x t IH]; simpl; [constructor|]. eapply perm_trans; [apply ins_perm|apply perm_skip; exact IH]. Qed.

  Definition by_dist (q : P) (a b : P) : Prop := d a q <= d b q.
  Lemma ins_sorted q x l : StronglySorted (by_dist q) l -> StronglySorted (by_dist q) (ins P d q x l).
  Proof.
    induction l as [|y t IH]; intros S; simpl; [repeat constructor|]. inversion S as [|? ? St Fy]; subst.
    destruct (Z.leb_spec (d x q) (d y q)) as [L|L].
    - constructor; [exact S|]. constructor; [exact L|]. rewrite Forall_forall in *. intros z Hz. specialize (Fy z Hz). unfold by_dist in *. lia.
    - constructor; [apply IH; exact St|]. rewrite Forall_forall in *. intros z Hz.
      apply (Permutation_in _ (ins_perm q x t)) in Hz. destruct Hz as [<-|Hz]; [unfold by_dist; lia|apply Fy; exact Hz].
  Qed.
  Lemma sort_by_sorted q l : StronglySorted (by_dist q) (sort_by P d q l).
  Proof. induction l as [|x t IH]; simpl; [constructor|]. apply ins_sorted. exact IH. Qed.

  Lemma In_skipn_subset {X} k (l : list X) y : In y (skipn k l) -> In y l.
  Proof. revert k; induction l as [|a t IH]; intros [|k] H; simpl in *; auto. right. apply (IH k). exact H. Qed.
  Lemma In_firstn_subset {X} k (l : list X) y : In y (firstn k l) -> In y l.
  Proof. revert k; induction l as [|a t IH]; intros [|k] H; simpl in *; auto; try tauto. destruct H as [H|H]; auto. right. apply (IH k). exact H. Qed.
  Lemma sorted_firstn_skipn q l k x y : StronglySorted (by_dist q) l -> In x (firstn k l) -> In y (skipn k l) -> by_dist q x y.
  Proof.
    revert k; induction l as [|a t IH]; intros k S Hx Hy; [destruct k; simpl in *; tauto|].
    destruct k as [|k]; [simpl in Hx; tauto|]. simpl in Hx, Hy. inversion S as [|? ? St Fa]; subst.
    destruct Hx as [<-|Hx]; [|apply (IH k); auto]. rewrite Forall_forall in Fa. apply Fa. apply (In_skipn_subset k). exact Hy.
  Qed.

  (* nearestK: k elements (or all), sorted by distance, members of the structure without repetition beyond the
     multiset, and nothing left out is strictly closer than anything returned *)
  Theorem nearestK_spec q k data :
    let r := nearestK P d q k data in
    length r = Nat.min k (length data) /\
    StronglySorted (by_dist q) r /\
    (exists rest, Permutation (r ++ rest) data /\ forall x y, In x r -> In y rest -> d x q <= d y q).
  Proof.
    unfold nearestK. set (s := sort_by P d q data). split; [|split].
    - rewrite firstn_length. unfold s. rewrite (Permutation_length (sort_by_perm q data)). reflexivity.
    - pose proof (sort_by_sorted q data) as S. fold s in S. clearbody s. revert k. induction S as [|a l Sl IH Fa]; intros k; [destruct k; constructor|].
      destruct k as [|k]; [constructor|]. simpl. constructor; [apply IH|]. rewrite Forall_forall in *. intros z Hz. apply Fa. apply (In_firstn_subset k). exact Hz.
    - exists (skipn k s). split; [rewrite firstn_skipn; apply sort_by_perm|]. intros x y Hx Hy.
      apply (sorted_firstn_skipn q s k x y (sort_by_sorted q data) Hx Hy).
  Qed.

  (* nearestR: exactly the members within the radius, sorted by distance *)
  Theorem nearestR_spec q r data :
    let res := nearestR P d q r data in
    StronglySorted (by_dist q) res /\ Permutation res (filter (fun x => d x q <=? r) data).
  Proof.
    unfold nearestR. split.
    - pose proof (sort_by_sorted q data) as S. induction S as [|a l Sl IH Fa]; simpl; [constructor|].
      destruct (d a q <=? r); [|exact IH]. constructor; [exact IH|]. rewrite Forall_forall in *. intros z Hz. apply filter_In in Hz. apply Fa. tauto.
    - clear. pose proof (sort_by_perm q data) as Pm. induction Pm as [|x l l' _ IH|x y l|l l' l'' _ IH1 _ IH2]; simpl.
      + constructor.
      + destruct (d x q <=? r); [constructor|]; exact IH.
      + destruct (d x q <=? r), (d y q <=? r); try apply Permutation_refl. apply perm_swap.
      + eapply perm_trans; eauto.
  Qed.

  (* remove: exactly one occurrence goes, iff one is present *)
  Lemma remove_first_spec p : forall l r, remove_first P peqb p l = Some r -> Permutation (p :: r) l.
  Proof.
    induction l as [|x t IH]; intros r H; simpl in H; [discriminate|]. destruct (peqb x p) eqn:E.
    - injection H as <-. apply peqb_spec in E. subst. apply Permutation_refl.
    - destruct (remove_first P peqb p t) as [t'|]; [|discriminate]. injection H as <-.
      eapply perm_trans; [apply perm_swap|]. apply perm_skip. apply IH. reflexivity.
  Qed.
  Lemma remove_first_none p : forall l, remove_first P peqb p l = None -> ~ In p l.
  Proof.
    induction l as [|x t IH]; intros H; simpl in *; [tauto|]. destruct (peqb x p) eqn:E; [discriminate|].
    destruct (remove_first P peqb p t); [discriminate|]. intros [->|Hin]; [|apply IH; auto].
    assert (peqb p p = true) by (apply peqb_spec; reflexivity). congruence.
  Qed.
  Theorem lin_remove_spec p data :
    match lin_remove P peqb p data with
    | (true, data') => Permutation (p :: data') data
    | (false, data') => data' = data /\ ~ In p data
    end.
  Proof.
    unfold lin_remove. destruct (remove_first P peqb p (rev data)) as [r|] eqn:E.
    - apply remove_first_spec in E. eapply perm_trans; [apply perm_skip; apply Permutation_sym, Permutation_rev|].
      eapply perm_trans; [exact E|apply Permutation_sym, Permutation_rev].
    - split; [reflexivity|]. apply remove_first_none in E. intros H. apply E. apply in_rev in H. exact H.
  Qed.

  (* nearest (linear): a member at minimal distance *)
  Lemma argmin_spec q : forall l best, let r := argmin_from P d q best l in
    (r = best \/ In r l) /\ d r q <= d best q /\ forall x, In x l -> d r q <= d x q.
  Proof.
    induction l as [|x t IH]; intros best; simpl; [split; [auto|split; [lia|tauto]]|].
    destruct (Z.ltb_spec (d x q) (d best q)) as [L|L].
    - destruct (IH x) as (A & B & C). split; [destruct A as [->|A]; auto|]. split; [lia|]. intros y [<-|Hy]; [exact B|apply C; exact Hy].
    - destruct (IH best) as (A & B & C). split; [destruct A as [->|A]; auto|]. split; [exact B|]. intros y [<-|Hy]; [lia|apply C; exact Hy].
  Qed.
  Theorem lin_nearest_spec q data r : lin_nearest P d q data = Some r -> In r data /\ forall x, In x data -> d r q <= d x q.
  Proof.
    destruct data as [|x t]; [discriminate|]. simpl. intros H. injection H as <-. destruct (argmin_spec q t x) as (A & B & C).
    split; [destruct A as [->|A]; simpl; auto|]. intros y [<-|Hy]; [exact B|apply C; exact Hy].
  Qed.

  (* the square-root approximation still answers with a member *)
  Lemma sqrt_probe_in q data n checks offset : forall fuel j best i dist,
    (match best with Some (i0, _) => (i0 < length data)%nat | None => True end) ->
    sqrt_probe P d q data n checks offset j fuel best = Some (i, dist) -> (i < length data)%nat.
  Proof.
    induction fuel as [|f IH]; intros j best i dist Hb H; simpl in H; [subst; exact Hb|].
    destruct (nth_error data (Nat.modulo (j * checks + offset) n)) as [x|] eqn:E; [|subst; exact Hb].
    eapply IH; [|exact H]. assert (Hi : (Nat.modulo (j * checks + offset) n < length data)%nat) by (apply nth_error_Some; congruence).
    destruct best as [[i0 dmin]|]; [|exact Hi]. destruct (d x q <? dmin); [exact Hi|exact Hb].
  Qed.
  Theorem sqrt_nearest_member q data checks offset i off' :
    sqrt_nearest P d q data checks offset = (Some i, off') -> (i < length data)%nat.
  Proof.
    unfold sqrt_nearest. destruct ((0 <? checks)%nat && (0 <? length data)%nat); [|discriminate].
    destruct (sqrt_probe P d q data (length data) checks offset 0 checks None) as [[i0 d0]|] eqn:E; [|discriminate].
    intros H. injection H as <- _. eapply sqrt_probe_in; [|exact E]. exact I.
  Qed.

  (* ---- GNAT: the pruning tests are sound for a metric ---- *)
  Hypothesis d_sym : forall x y, d x y = d y x.
  Hypothesis d_tri : forall x y z, d x z <= d x y + d y z.

  Lemma within_spec c lo hi l x : within P d c lo hi l = true -> In x l ->
    exists lo' hi', lo = Some lo' /\ hi = Some hi' /\ lo' <= d c x <= hi'.
  Proof.
    unfold within. rewrite forallb_forall. intros H Hx. specialize (H x Hx). apply andb_true_iff in H. destruct H as (H1 & H2).
    destruct lo as [l0|]; [|discriminate]. destruct hi as [h0|]; [|discriminate]. simpl in *.
    apply Z.leb_le in H1, H2. exists l0, h0. auto.
  Qed.

  (* a sibling subtree pruned through the range table of pivot pi holds nothing within tau of q *)
  Theorem prune_by_range_sound q pi lo hi E tau :
    within P d pi lo hi E = true -> pruned_by_range (d q pi) tau lo hi = true -> forall x, In x E -> tau < d q x.
  Proof.
    intros W Hp x Hx. destruct (within_spec pi lo hi E x W Hx) as (l0 & h0 & -> & -> & Hb). simpl in Hp.
    apply orb_true_iff in Hp. destruct Hp as [H|H]; apply Z.ltb_lt in H.
    - pose proof (d_tri q x pi). rewrite (d_sym x pi) in *. lia.
    - pose proof (d_tri pi q x). rewrite (d_sym pi q) in *. lia.
  Qed.
  (* a node skipped through its own radius interval holds nothing within tau of q (its pivot is tested separately) *)
  Theorem prune_by_radius_sound q p minR maxR E tau :
    within P d p minR maxR E = true -> pruned_by_radius (d q p) tau minR maxR = true -> forall x, In x E -> tau < d q x.
  Proof.
    intros W Hp x Hx. destruct (within_spec p minR maxR E x W Hx) as (l0 & h0 & -> & -> & Hb). simpl in Hp.
    apply orb_true_iff in Hp. destruct Hp as [H|H]; apply Z.ltb_lt in H.
    - pose proof (d_tri q x p). rewrite (d_sym x p) in *. lia.
    - pose proof (d_tri p q x). rewrite (d_sym p q) in *. lia.
  Qed.

  (* what the executable invariant check establishes at a node *)
  Theorem inv_ok_node p minR maxR rng dat ch :
    inv_ok P d (GNode p minR maxR rng dat ch) = true ->
    within P d p minR maxR (dat ++ flat_map (elems P) ch) = true /\
    (forall i j ci cj, nth_error ch i = Some ci -> nth_error ch j = Some cj ->
       match ci with GNode pi _ _ rngi _ _ =>
         within P d pi (fst (nth j rngi (None, None))) (snd (nth j rngi (None, None))) (elems P cj) = true end) /\
    (forall c, In c ch -> inv_ok P d c = true).
  Proof.
    cbn [inv_ok]. unfold ranges_ok. intros H. apply andb_true_iff in H. destruct H as (H12 & H3). apply andb_true_iff in H12. destruct H12 as (H1 & H2).
    split; [exact H1|]. split; [|rewrite forallb_forall in H3; exact H3].
    intros i j ci cj Hi Hj. rewrite forallb_forall in H2. specialize (H2 ci (nth_error_In _ _ Hi)). destruct ci as [pi a b rngi e f].
    rewrite forallb_forall in H2. apply (H2 (j, cj)).
    clear - Hj. assert (G : forall s, In (s + j, cj)%nat (combine (seq s (length ch)) ch)).
    { revert j Hj. induction ch as [|c t IH]; intros j Hj s; [destruct j; discriminate|]. destruct j as [|j]; simpl in *.
      - injection Hj as ->. left. f_equal. lia.
      - right. replace (s + S j)%nat with (S s + j)%nat by lia. apply IH. exact Hj. }
    apply (G 0%nat).
  Qed.

  (* the abstract search argument: if every element that was never examined is farther than the k-th best of the
     examined ones, the k best of the examined ones are k best overall *)
  Theorem examined_suffices q k (V U : list P) :
    (k <= length V)%nat ->
    (forall u, In u U -> forall v, In v (nearestK P d q k V) -> d v q < d u q) ->
    forall x y, In x (nearestK P d q k V) -> In y (skipn k (sort_by P d q V) ++ U) -> d x q <= d y q.
  Proof.
    intros Hk HU x y Hx Hy. apply in_app_or in Hy. destruct Hy as [Hy|Hy].
    - apply (sorted_firstn_skipn q (sort_by P d q V) k x y (sort_by_sorted q V) Hx Hy).
    - specialize (HU y Hy x Hx). lia.
  Qed.
End NNP.
