(* Properties_C15.v — property C15 (informed sampling returns only, and all of, the states that can still help).
   Statements only.  Geometry over R in the hyperspheroid's own frame (a = coordinate along the transverse axis,
   b = norm of the orthogonal part; the rotation into the world frame is Eigen's and is checked numerically). *)
From Coq Require Import List ZArith Bool Arith Reals.
From OmplV Require Import PhsModel PhsProofs.
Import ListNotations.

(* points of the unit sphere map to points whose summed focal distance equals the transverse diameter c *)
Theorem C15_sphere_maps_onto_focal_sum : forall c f u1 w, (0 <= f)%R -> (2 * f <= c)%R -> (u1 * u1 + w * w = 1)%R ->
  focal_sum f (r1 c * u1) (r2 c f * w) = c.
Proof. exact sphere_maps_onto_focal_sum. Qed.
(* points of the unit ball map inside: a direct sample never has a larger heuristic cost than the bound *)
Theorem C15_ball_maps_inside : forall c f u1 w, (0 <= f)%R -> (2 * f <= c)%R -> (u1 * u1 + w * w <= 1)%R ->
  (focal_sum f (r1 c * u1) (r2 c f * w) <= c)%R.
Proof. exact ball_maps_inside. Qed.
(* the measure: unit-ball measure times the determinant of diag(r1, r2, ..., r2) *)
Theorem C15_measure_is_scaled_ball : forall n c f,
  phs_measure n c f = (fold_right Rmult 1 (r1 c :: repeat (r2 c f) (n - 1)) * unit_ball n)%R.
Proof. exact phs_measure_is_scaled_ball. Qed.
Theorem C15_unit_ball_values : unit_ball 2 = PI /\ unit_ball 3 = (4 / 3 * PI)%R /\ unit_ball 4 = (PI * PI / 2)%R.
Proof. exact unit_ball_values. Qed.

(* sampler loops, for every sequence of candidate draws and every iteration limit *)
Theorem C15_rejection_sample_success : forall maxc numit tape x it t,
  rejection_sample maxc numit tape = (true, Some x, it, t) -> (cd_cost x < maxc)%Z /\ In x tape /\ it <= numit.
Proof. exact rejection_sample_success. Qed.
Theorem C15_rejection_sample_two_bounds : forall minc maxc numit tape x,
  rejection_sample_minmax minc maxc numit tape = (true, Some x) -> (minc <= cd_cost x < maxc)%Z.
Proof. exact rejection_sample_minmax_success. Qed.
Theorem C15_direct_sample_success : forall numit tape x it t,
  direct_sample numit tape = (true, Some x, it, t) -> cd_inb x = true /\ In x tape /\ it <= numit.
Proof. exact direct_sample_success. Qed.
Theorem C15_direct_sample_two_bounds : forall minc numit tape x,
  direct_sample_minmax minc numit tape = (true, Some x) -> (minc <= cd_cost x)%Z /\ cd_inb x = true.
Proof. exact direct_sample_minmax_success. Qed.

Print Assumptions C15_sphere_maps_onto_focal_sum.
Print Assumptions C15_ball_maps_inside.
Print Assumptions C15_measure_is_scaled_ball.
Print Assumptions C15_unit_ball_values.
Print Assumptions C15_rejection_sample_success.
Print Assumptions C15_rejection_sample_two_bounds.
Print Assumptions C15_direct_sample_success.
Print Assumptions C15_direct_sample_two_bounds.

Example C15_nonvacuous :
  let cd a := mkCand a (Z.abs a + Z.abs (a - 10)) true true in
  rejection_sample 14 5 (map cd [12; 13; 11; 1]%Z) = (true, Some (cd 11%Z), 3, [cd 1%Z]) /\
  rejection_sample 14 2 (map cd [12; 13; 11; 1]%Z) = (false, Some (cd 13%Z), 2, [cd 11%Z; cd 1%Z]) /\
  rejection_sample_minmax 12 16 10 (map cd [20; 5; 12; 11]%Z) = (true, Some (cd 12%Z)).
Proof. vm_compute. repeat split. Qed.
