(* Properties_C15.v — property C15 (informed sampling returns only, and all of, the states that can still help).
   Statements only.  Geometry over R in the hyperspheroid's own frame (a = coordinate along the transverse axis,
   b = norm of the orthogonal part), lifted to vectors of every length and, for any distance-preserving placement of the
   frame, to the world (that Eigen's rotation is distance-preserving is checked numerically on every run). *)
From Coq Require Import List ZArith Bool Arith Reals Lra.
From OmplV Require Import PhsModel PhsProofs PhsGeom.
Import ListNotations.

(* points of the unit sphere map to points whose summed focal distance equals the transverse diameter c *)
Theorem C15_sphere_maps_onto_focal_sum : forall c f u1 w, (0 <= f)%R -> (2 * f <= c)%R -> (u1 * u1 + w * w = 1)%R ->
  focal_sum f (r1 c * u1) (r2 c f * w) = c.
Proof. exact sphere_maps_onto_focal_sum. Qed.
(* points of the unit ball map inside: a direct sample never has a larger heuristic cost than the bound *)
Theorem C15_ball_maps_inside : forall c f u1 w, (0 <= f)%R -> (2 * f <= c)%R -> (u1 * u1 + w * w <= 1)%R ->
  (focal_sum f (r1 c * u1) (r2 c f * w) <= c)%R.
Proof. exact ball_maps_inside. Qed.
(* the measure: unit-ball measure times the determinant of diag(r1, r2, ..., r2) *)
Theorem C15_measure_is_scaled_ball : forall n c f,
  phs_measure n c f = (fold_right Rmult 1 (r1 c :: repeat (r2 c f) (n - 1)) * unit_ball n)%R.
Proof. exact phs_measure_is_scaled_ball. Qed.
Theorem C15_unit_ball_values : unit_ball 2 = PI /\ unit_ball 3 = (4 / 3 * PI)%R /\ unit_ball 4 = (PI * PI / 2)%R.
Proof. exact unit_ball_values. Qed.

(* ---- 'all of': the hyperspheroid is exactly the image of the unit ball, in every dimension *)
(* every point whose summed focal distance is at most c is the image of a point of the unit ball: no state that could
   still improve the solution is outside the sampled region *)
Theorem C15_every_point_within_bound_is_image_of_ball : forall c f a rest, (0 <= f)%R -> (2 * f < c)%R ->
  (focal_sum_n f (a :: rest) <= c)%R ->
  (norm2 (phs_unmap c f (a :: rest)) <= 1)%R /\ phs_map c f (phs_unmap c f (a :: rest)) = a :: rest.
Proof. exact phs_point_is_image_of_ball_n. Qed.
Theorem C15_ball_maps_inside_every_dimension : forall c f u1 rest, (0 <= f)%R -> (2 * f <= c)%R -> (norm2 (u1 :: rest) <= 1)%R ->
  (focal_sum_n f (phs_map c f (u1 :: rest)) <= c)%R.
Proof. exact ball_maps_inside_n. Qed.
Theorem C15_sphere_maps_onto_focal_sum_every_dimension : forall c f u1 rest, (0 <= f)%R -> (2 * f <= c)%R -> (norm2 (u1 :: rest) = 1)%R ->
  focal_sum_n f (phs_map c f (u1 :: rest)) = c.
Proof. exact sphere_maps_onto_focal_sum_n. Qed.
(* open ball <-> heuristic cost strictly below the bound *)
Theorem C15_open_ball_maps_strictly_inside : forall c f u1 rest, (0 <= f)%R -> (2 * f < c)%R -> (norm2 (u1 :: rest) < 1)%R ->
  (focal_sum_n f (phs_map c f (u1 :: rest)) < c)%R.
Proof. exact open_ball_maps_strictly_inside_n. Qed.
Theorem C15_every_point_below_bound_is_image_of_open_ball : forall c f a rest, (0 <= f)%R -> (2 * f < c)%R ->
  (focal_sum_n f (a :: rest) < c)%R -> (norm2 (phs_unmap c f (a :: rest)) < 1)%R.
Proof. exact phs_interior_is_image_of_open_ball_n. Qed.
(* the map is a linear bijection (two-sided inverse phs_unmap), so the uniform density on the ball is carried to the
   uniform density on the hyperspheroid, scaled by the constant Jacobian of C15_measure_is_scaled_ball *)
Theorem C15_transform_inverse_left : forall c f u, (0 <= f)%R -> (2 * f < c)%R -> phs_unmap c f (phs_map c f u) = u.
Proof. exact phs_unmap_map. Qed.
Theorem C15_transform_inverse_right : forall c f x, (0 <= f)%R -> (2 * f < c)%R -> phs_map c f (phs_unmap c f x) = x.
Proof. exact phs_map_unmap. Qed.
Theorem C15_transform_is_linear : forall c f u v k, length u = length v ->
  phs_map c f (vadd u v) = vadd (phs_map c f u) (phs_map c f v) /\
  phs_map c f (map (fun x => (k * x)%R) u) = map (fun x => (k * x)%R) (phs_map c f u).
Proof. exact phs_map_linear. Qed.
(* RNG::uniformInBall: a normalised direction times a radius rho has squared norm rho^2 *)
Theorem C15_ball_point_norm : forall g rho, (0 < norm2 g)%R -> norm2 (ball_point g rho) = (rho * rho)%R.
Proof. exact ball_point_norm. Qed.
(* a direct sample, placed in the world by any distance-preserving T: its summed distance to the placed foci is
   strictly below the bound, for every Gaussian draw with a non-zero vector and every radius in [0, 1) *)
Theorem C15_direct_sample_world_cost_below_bound : forall T : list R -> list R,
  (forall x y, length x = length y -> dist2 (T x) (T y) = dist2 x y) ->
  forall c f g1 grest rho, (0 <= f)%R -> (2 * f < c)%R -> (0 < norm2 (g1 :: grest))%R -> (0 <= rho < 1)%R ->
  let n := length grest in
  (world_focal_sum (T (focus 1 f n)) (T (focus (-1) f n)) (T (phs_map c f (ball_point (g1 :: grest) rho))) < c)%R.
Proof. exact direct_sample_world_cost_below_bound. Qed.
(* and every placed point within the bound is the placement of the image of a ball point *)
Theorem C15_world_point_within_bound_is_image : forall T : list R -> list R,
  (forall x y, length x = length y -> dist2 (T x) (T y) = dist2 x y) ->
  forall c f a rest, (0 <= f)%R -> (2 * f < c)%R ->
  (world_focal_sum (T (focus 1 f (length rest))) (T (focus (-1) f (length rest))) (T (a :: rest)) <= c)%R ->
  exists u, (norm2 u <= 1)%R /\ T (phs_map c f u) = T (a :: rest).
Proof. exact world_point_within_bound_is_image. Qed.


(* sampler loops, for every sequence of candidate draws and every iteration limit *)
Theorem C15_rejection_sample_success : forall maxc numit tape x it t,
  rejection_sample maxc numit tape = (true, Some x, it, t) -> (cd_cost x < maxc)%Z /\ In x tape /\ it <= numit.
Proof. exact rejection_sample_success. Qed.
Theorem C15_rejection_sample_two_bounds : forall minc maxc numit tape x,
  rejection_sample_minmax minc maxc numit tape = (true, Some x) -> (minc <= cd_cost x < maxc)%Z.
Proof. exact rejection_sample_minmax_success. Qed.
Theorem C15_direct_sample_success : forall numit tape x it t,
  direct_sample numit tape = (true, Some x, it, t) -> cd_inb x = true /\ In x tape /\ it <= numit.
Proof. exact direct_sample_success. Qed.
Theorem C15_direct_sample_two_bounds : forall minc numit tape x,
  direct_sample_minmax minc numit tape = (true, Some x) -> (minc <= cd_cost x)%Z /\ cd_inb x = true.
Proof. exact direct_sample_minmax_success. Qed.

Print Assumptions C15_sphere_maps_onto_focal_sum.
Print Assumptions C15_ball_maps_inside.
Print Assumptions C15_measure_is_scaled_ball.
Print Assumptions C15_unit_ball_values.
Print Assumptions C15_every_point_within_bound_is_image_of_ball.
Print Assumptions C15_ball_maps_inside_every_dimension.
Print Assumptions C15_sphere_maps_onto_focal_sum_every_dimension.
Print Assumptions C15_open_ball_maps_strictly_inside.
Print Assumptions C15_every_point_below_bound_is_image_of_open_ball.
Print Assumptions C15_transform_inverse_left.
Print Assumptions C15_transform_inverse_right.
Print Assumptions C15_transform_is_linear.
Print Assumptions C15_ball_point_norm.
Print Assumptions C15_direct_sample_world_cost_below_bound.
Print Assumptions C15_world_point_within_bound_is_image.
Print Assumptions C15_rejection_sample_success.
Print Assumptions C15_rejection_sample_two_bounds.
Print Assumptions C15_direct_sample_success.
Print Assumptions C15_direct_sample_two_bounds.

Example C15_nonvacuous :
  let cd a := mkCand a (Z.abs a + Z.abs (a - 10)) true true in
  rejection_sample 14 5 (map cd [12; 13; 11; 1]%Z) = (true, Some (cd 11%Z), 3, [cd 1%Z]) /\
  rejection_sample 14 2 (map cd [12; 13; 11; 1]%Z) = (false, Some (cd 13%Z), 2, [cd 11%Z; cd 1%Z]) /\
  rejection_sample_minmax 12 16 10 (map cd [20; 5; 12; 11]%Z) = (true, Some (cd 12%Z)).
Proof. vm_compute. repeat split. Qed.

(* the geometric hypotheses are met: c = 10, f = 3 (semi-axes 5 and 4); the point (3, 16/5) is on the surface, the
   identity placement preserves distances *)
Example C15_geometry_nonvacuous :
  (0 <= 3)%R /\ (2 * 3 < 10)%R /\ focal_sum_n 3 [3; 16 / 5]%R = 10%R /\
  (forall x y : list R, length x = length y -> dist2 ((fun v => v) x) ((fun v => v) y) = dist2 x y).
Proof.
  split; [lra|]. split; [lra|]. split; [|reflexivity].
  cbn [focal_sum_n norm2 fold_right].
  replace ((3 - 3) * (3 - 3) + (16 / 5 * (16 / 5) + 0))%R with ((16 / 5) * (16 / 5))%R by field.
  replace ((3 + 3) * (3 + 3) + (16 / 5 * (16 / 5) + 0))%R with ((34 / 5) * (34 / 5))%R by field.
  rewrite !sqrt_square by lra. field.
Qed.
