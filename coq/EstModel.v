(* EstModel.v — geometric::EST::solve (src/ompl/geometric/planners/est/src/EST.cpp) over abstract collaborators, with
   the PDF of PdfModel.v (src/ompl/datastructures/PDF.h) inside: the tree node to expand from is pdf_.sample(u), the
   weights are maintained by addMotion (every neighbour's weight w becomes w / (w + 1), the new motion gets
   1 / (#neighbours + 1)), neighbourhoods come from a linear nearest-neighbour structure (those within the radius,
   sorted by distance: libstdc++'s insertion sort for at most 16 elements, which is stable).
   The arithmetic of weights and distances is a parameter (binary64 for the correspondence, see EstFloat.v).
   The tree part of an iteration is RrtModel's loop (Tree section): an iteration that reaches checkMotion is an input
   (node to expand from, candidate state) of geo_solve with the identity for steering; iterations that `continue`
   earlier (sampleNear failed, candidate rejected by the density test) leave the tree and the PDF unchanged. *)
From Coq Require Import List Bool Arith.
From OmplV Require Import PdfModel RrtModel.
Import ListNotations.

Section Est.
  Variable A : arith.
  Notation T := (T A).
  Variable one : T.
  Variable div : T -> T -> T.
  Variable leb : T -> T -> bool.                 (* a <= b *)
  Variable ofnat : nat -> T.                     (* size_t -> double *)
  Variable St : Type.
  Variable dist : St -> St -> T.
  Variable mv : St -> St -> bool.                (* si_->checkMotion *)
  Variable sat : St -> bool.
  Variable gdist : St -> T.
  Variable goal_state dflt : St.
  Variable radius goal_bias : T.

  Definition tnode := (St * option (nat * unit))%type.
  (* NearestNeighborsLinear::nearestR: indices of the states within the radius, by increasing distance (stable) *)
  Fixpoint ins_sorted (q : St) (tree : list tnode) (j : nat) (l : list nat) : list nat :=
    match l with
    | [] => [j]
    | k :: t => if ltb A (dist (fst (nth j tree (dflt, None))) q) (dist (fst (nth k tree (dflt, None))) q)
                then j :: k :: t else k :: ins_sorted q tree j t
    end.
  Fixpoint within (q : St) (tree : list tnode) (j : nat) : list nat :=
    match tree with
    | [] => []
    | (s, _) :: t => if leb (dist s q) radius then j :: within q t (S j) else within q t (S j)
    end.
  Definition nbrs (tree : list tnode) (q : St) : list nat :=
    fold_left (fun acc j => ins_sorted q tree j acc) (within q tree 0) [].
  (* EST::addMotion on the PDF: the neighbours' weights, then the new element (payload = index in the tree) *)
  Definition leaf_weight (p : pdf A) (j : nat) : T := getw A (hd [] (rows p)) j.
  Definition add_motion (p : pdf A) (idx : nat) (nb : list nat) : pdf A :=
    let p1 := fold_left (fun p j => let w := leaf_weight p j in pdf_update_at A j (div w (add A w one)) p) nb p in
    pdf_add A idx (div one (add A (ofnat (length nb)) one)) p1.
  (* the start states, in the order pis_.nextStart() hands them out *)
  Fixpoint add_starts (tree : list tnode) (p : pdf A) (starts : list St) : list tnode * pdf A :=
    match starts with
    | [] => (tree, p)
    | s :: t => add_starts (tree ++ [(s, None)]) (add_motion p (length tree) (nbrs tree s)) t
    end.
  Definition clamp (tree : list tnode) (i : nat) : nat := Nat.min i (length tree - 1).
  Definition est_select (tree : list tnode) (i : nat * St) : nat := clamp tree (fst i).
  Definition est_extend (n : St) (i : nat * St) : list (St * unit) :=
    match rrt_extend St (fun _ r => r) mv n (snd i) with Some x => [x] | None => [] end.   (* the same function geo_solve runs *)

  Definition tl2 {X} (l : list X) := tl (tl l).
  (* one pass of the while loop: the input of the tree step (None = `continue` before checkMotion), the PDF afterwards,
     the unused variates and sampler results.  tape: rng_.uniform01() draws; samples: sampler_->sampleNear results *)
  Definition est_iter (s : rst St T unit) (p : pdf A) (tape : list T) (samples : list (option St))
    : option (nat * St) * pdf A * list T * list (option St) :=
    let tree := r_tree St T unit s in
    let sel := match pdf_sample A (hd (zero A) tape) one p with SId id => id | _ => O end in
    let u2 := hd (zero A) (tl tape) in
    let finish (x : St) (nb : list nat) (tape' : list T) (samples' : list (option St)) :=
      let n := fst (nth (clamp tree sel) tree (dflt, None)) in
      (Some (sel, x), (if mv n x then add_motion p (length tree) nb else p), tape', samples') in
    if ltb A u2 goal_bias then finish goal_state (nbrs tree goal_state) (tl2 tape) samples
    else match samples with
         | [] => (None, p, tl2 tape, [])
         | None :: ss => (None, p, tl2 tape, ss)
         | Some x :: ss =>
           let nb := nbrs tree x in
           match nb with
           | [] => finish x nb (tl2 tape) ss
           | _ :: _ => let pr := sub A one (div one (ofnat (length nb))) in
                       if ltb A (hd (zero A) (tl2 tape)) pr then (None, p, tl (tl2 tape), ss) else finish x nb (tl (tl2 tape)) ss
           end
         end.
  Definition est_tree_step := tree_step St T (nat * St) unit (ltb A) est_select est_extend sat gdist dflt.
  (* [iters] evaluations of the termination condition that came out false; stops at an exact solution like the loop *)
  Fixpoint est_inputs (iters : nat) (s : rst St T unit) (p : pdf A) (tape : list T) (samples : list (option St))
    : list (nat * St) * pdf A :=
    match r_sol St T unit s with
    | Some _ => ([], p)
    | None =>
      match iters with
      | O => ([], p)
      | S k =>
        let '(i, p', tape', samples') := est_iter s p tape samples in
        match i with
        | None => est_inputs k s p' tape' samples'
        | Some i => let '(l, pf) := est_inputs k (est_tree_step s i) p' tape' samples' in (i :: l, pf)
        end
      end
    end.
  Definition est_run_inputs (starts : list St) (iters : nat) (tape : list T) (samples : list (option St)) : list (nat * St) * pdf A :=
    let '(tree0, p0) := add_starts [] (empty A) starts in
    est_inputs iters (mkR St T unit tree0 None None) p0 tape samples.
  (* tree (state, parent), report (path, approximate flag, difference), and the leaf weights of the PDF *)
  Definition est_solve (starts : list St) (iters : nat) (tape : list T) (samples : list (option St))
    : (list (St * option nat) * option (list St * bool * T)) * list T :=
    let '(ins, pf) := est_run_inputs starts iters tape samples in
    (geo_solve St T (ltb A) (fun _ r => r) mv sat gdist dflt (nat * St) est_select snd starts ins, hd [] (rows pf)).
End Est.
