(* PtcModel.v — executable model of planner termination conditions
   (PlannerTerminationCondition.cpp, IterationTerminationCondition.cpp, CostConvergenceTerminationCondition.cpp).
   Every condition object carries its own terminate_ flag; combinators capture copies that share it. *)
From Coq Require Import List Arith NArith ZArith Bool.
Import ListNotations.

Definition wrap32 (n : N) : N := N.modulo n 4294967296.

Inductive ptc :=
| Fn (term : bool) (k : nat)                      (* PlannerTerminationCondition(fn): fn = harness predicate #k *)
| Periodic (term : bool) (cached : bool) (k : nat) (* PlannerTerminationCondition(fn, period): value cached by the polling thread *)
| Iter (term : bool) (maxc called : N)             (* IterationTerminationCondition converted to a condition *)
| Or (term : bool) (a b : ptc)
| And (term : bool) (a b : ptc)
| Always (term : bool)
| Never (term : bool).

(* eval(): if (terminate_) return true; if periodic return evalValue_; return fn_() *)
Fixpoint eval (env : nat -> bool) (c : ptc) : bool * ptc :=
  match c with
  | Fn t k => (t || env k, c)
  | Periodic t v k => (t || v, c)
  | Iter t m n => if t then (true, c) else
                  let n' := if N.leb n m then wrap32 (n + 1) else n in (N.ltb m n', Iter t m n')   (* saturating (fix) *)
  | Or t a b => if t then (true, c) else
                let '(ra, a') := eval env a in
                if ra then (true, Or t a' b) else let '(rb, b') := eval env b in (rb, Or t a' b')
  | And t a b => if t then (true, c) else
                 let '(ra, a') := eval env a in
                 if ra then let '(rb, b') := eval env b in (rb, And t a' b') else (false, And t a' b)
  | Always t => (true, c)
  | Never t => (t, c)
  end.

(* the counter as it was at the pinned commit: ++timesCalled_ on every evaluation (wraps at 2^32) *)
Definition iter_eval_orig (m n : N) : bool * N := let n' := wrap32 (n + 1) in (N.ltb m n', n').

(* one iteration of the polling thread of every periodic condition in the tree: evalValue_ = fn_() unless terminated *)
Fixpoint poll (env : nat -> bool) (c : ptc) : ptc :=
  match c with
  | Periodic t v k => if t then c else Periodic t (env k) k
  | Or t a b => Or t (poll env a) (poll env b)
  | And t a b => And t (poll env a) (poll env b)
  | _ => c
  end.

Inductive dir := L | R.
Definition set_term (c : ptc) : ptc :=
  match c with
  | Fn _ k => Fn true k | Periodic _ v k => Periodic true v k | Iter _ m n => Iter true m n
  | Or _ a b => Or true a b | And _ a b => And true a b | Always _ => Always true | Never _ => Never true
  end.
(* terminate() on the condition object reached by `path` (combinators hold copies sharing the flag) *)
Fixpoint terminate (path : list dir) (c : ptc) : ptc :=
  match path with
  | [] => set_term c
  | d :: rest =>
    match c with
    | Or t a b => match d with L => Or t (terminate rest a) b | R => Or t a (terminate rest b) end
    | And t a b => match d with L => And t (terminate rest a) b | R => And t a (terminate rest b) end
    | _ => c
    end
  end.
Definition term_flag (c : ptc) : bool :=
  match c with Fn t _ | Periodic t _ _ | Iter t _ _ | Or t _ _ | And t _ _ | Always t | Never t => t end.

Inductive ev := EEval | ETerm (path : list dir) | ESet (k : nat) (b : bool) | EPoll.
Definition upd_env (env : nat -> bool) (k : nat) (b : bool) : nat -> bool := fun j => if j =? k then b else env j.

(* a run: returns the results of the evaluations *)
Fixpoint run (env : nat -> bool) (c : ptc) (evs : list ev) : list bool :=
  match evs with
  | [] => []
  | EEval :: t => let '(r, c') := eval env c in r :: run env c' t
  | ETerm p :: t => run env (terminate p c) t
  | ESet k b :: t => run (upd_env env k b) c t
  | EPoll :: t => run env (poll env c) t
  end.

(* timed condition over an abstract clock reading: [endTime](){ return time::now() > endTime; } *)
Definition timed_eval (endt now : Z) : bool := Z.ltb endt now.

(* CostConvergenceTerminationCondition::processNewSolution, generic over the arithmetic *)
Section CostConv.
  Variable T : Type.
  Variables (add mul div sub : T -> T -> T) (ltb : T -> T -> bool) (ofN : N -> T) (one : T).
  Record cc := mkCC { solutions : N; avg : T; fired : bool }.
  Definition cc_step (window : N) (eps : T) (s : cc) (cost : T) : cc :=
    let n := N.succ (solutions s) in
    let m := N.min n window in
    let newc := div (add (mul (ofN (m - 1)) (avg s)) cost) (ofN m) in
    let lo := mul (sub one eps) (avg s) in
    let hi := mul (add one eps) (avg s) in
    mkCC n newc (fired s || (N.eqb m window && ltb lo newc && ltb newc hi)).
End CostConv.
Arguments mkCC {T}. Arguments solutions {T}. Arguments avg {T}. Arguments fired {T}.
