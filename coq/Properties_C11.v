(* Properties_C11.v — property C11 (updatable binary heap) stated over the model of
   src/ompl/datastructures/BinaryHeap.h.  This file contains statements only; each is
   closed by `exact <lemma>` and followed by Print Assumptions. *)
From Coq Require Import List Arith ZArith Lia Bool Permutation Sorted.
From OmplV Require Import HeapModel HeapCore HeapElt.
Import ListNotations.

Section C11.
  Variable Key : Type.
  Variable lt : Key -> Key -> bool.            (* the LessThan functor *)
  Variable dk : Key.                           (* default used only by total `nth`; never reached under Inv *)
  (* the functor is a strict weak order: its negation-of-converse is total and transitive *)
  Hypothesis le_total : forall x y, kle Key lt x y = true \/ kle Key lt y x = true.
  Hypothesis le_trans : forall x y z, kle Key lt x y = true -> kle Key lt y z = true -> kle Key lt x z = true.

  (* every state reachable by any finite sequence of interface calls satisfies
     heap order, position-field consistency, and uniqueness of handles *)
  Theorem C11_invariant_reachable :
    forall (ops : list (op Key)) (v : list (elt Key)),
      run Key lt dk [] ops = Some v -> Inv Key lt dk v.
  Proof. intros ops v. exact (run_inv Key lt dk le_total le_trans ops [] v (inv_nil Key lt dk)). Qed.

  (* every call refines the abstract multiset machine (spec_rel) and keeps the invariant *)
  Theorem C11_step_refines_multiset :
    forall v o v', Inv Key lt dk v -> step Key lt dk v o = Some v' ->
      Inv Key lt dk v' /\ spec_rel Key lt (map (strip Key) v) o (map (strip Key) v').
  Proof. exact (step_inv_refines Key lt dk le_total le_trans). Qed.

  (* top() is a minimum of the current contents *)
  Theorem C11_top_is_minimum :
    forall v e t, Inv Key lt dk v -> v = e :: t -> forall x, In x v -> kle Key lt (ekey e) (ekey x) = true.
  Proof. exact (top_is_minimum Key lt dk le_total le_trans). Qed.

  (* popping repeatedly yields all elements, in non-decreasing order *)
  Theorem C11_pop_all_sorted_perm :
    forall v, Inv Key lt dk v ->
      Permutation (map (strip Key) (pop_all_e Key lt dk (length v) v)) (map (strip Key) v) /\
      StronglySorted (fun a b => kle Key lt a b = true) (map ekey (pop_all_e Key lt dk (length v) v)).
  Proof. exact (pop_all_sorted_perm Key lt dk le_total le_trans). Qed.

  (* handles keep identifying their own element: the position stored in the element at
     index i is i, and looking the element's id up finds exactly that slot *)
  Theorem C11_handles_identify :
    forall v, Inv Key lt dk v -> forall i, i < length v ->
      find_pos Key (eid (get (de Key dk) v i)) v = Some i /\ nth_error v i = Some (get (de Key dk) v i).
  Proof. exact (handles_identify Key lt dk). Qed.

  (* the two statements above, composed with reachability: in EVERY state that any finite
     sequence of interface calls can produce from the empty heap, top() is a minimum and
     draining the heap yields its contents in non-decreasing order (no Inv hypothesis left) *)
  Theorem C11_reachable_top_is_minimum :
    forall (ops : list (op Key)) e t, run Key lt dk [] ops = Some (e :: t) ->
      forall x, In x (e :: t) -> kle Key lt (ekey e) (ekey x) = true.
  Proof. intros ops e t H. exact (C11_top_is_minimum (e :: t) e t (C11_invariant_reachable ops (e :: t) H) eq_refl). Qed.

  Theorem C11_reachable_pop_all_sorted_perm :
    forall (ops : list (op Key)) v, run Key lt dk [] ops = Some v ->
      Permutation (map (strip Key) (pop_all_e Key lt dk (length v) v)) (map (strip Key) v) /\
      StronglySorted (fun a b => kle Key lt a b = true) (map ekey (pop_all_e Key lt dk (length v) v)).
  Proof. intros ops v H. exact (C11_pop_all_sorted_perm v (C11_invariant_reachable ops v H)). Qed.

  Theorem C11_reachable_handles_identify :
    forall (ops : list (op Key)) v, run Key lt dk [] ops = Some v -> forall i, i < length v ->
      find_pos Key (eid (get (de Key dk) v i)) v = Some i /\ nth_error v i = Some (get (de Key dk) v i).
  Proof. intros ops v H. exact (C11_handles_identify v (C11_invariant_reachable ops v H)). Qed.

  (* sort(list) returns a sorted permutation *)
  Theorem C11_sort_sorted_perm :
    forall l, Permutation (sort_keys Key lt dk l) l /\
              StronglySorted (fun a b => kle Key lt a b = true) (sort_keys Key lt dk l).
  Proof. exact (sort_keys_sorted_perm Key lt dk le_total le_trans). Qed.
End C11.

(* size() = number of live elements: the multiset relation fixes the length *)
Theorem C11_size_tracks_contents :
  forall (Key : Type) (lt : Key -> Key -> bool) c o c', spec_rel Key lt c o c' ->
    length c' = match o with
                | OInsert _ _ => S (length c)
                | OInsertL l => length l + length c
                | ORemove id => length (filter (not_id Key id) c)
                | OUpdateKey id _ => S (length (filter (not_id Key id) c))
                | OPop => length c - 1
                | ORebuild => length c
                | OBuildFrom l => length l
                | OClear => 0
                end.
Proof.
  intros Key lt c o c' H. destruct o; simpl in H;
    try (rewrite (Permutation_length H); simpl; rewrite ?app_length; reflexivity).
  - destruct H as (m & P & _). rewrite (Permutation_length P). simpl. lia.
  - subst. reflexivity.
Qed.

Print Assumptions C11_invariant_reachable.
Print Assumptions C11_step_refines_multiset.
Print Assumptions C11_top_is_minimum.
Print Assumptions C11_pop_all_sorted_perm.
Print Assumptions C11_handles_identify.
Print Assumptions C11_sort_sorted_perm.
Print Assumptions C11_reachable_top_is_minimum.
Print Assumptions C11_reachable_pop_all_sorted_perm.
Print Assumptions C11_reachable_handles_identify.
Print Assumptions C11_size_tracks_contents.

(* ---- the hypotheses are satisfiable: the three comparators the harness uses ---- *)
Definition lt_less (a b : Z) : bool := (a <? b)%Z.
Definition lt_greater (a b : Z) : bool := (b <? a)%Z.
Definition lt_mod3 (a b : Z) : bool := (a mod 3 <? b mod 3)%Z.
Lemma less_total x y : kle Z lt_less x y = true \/ kle Z lt_less y x = true.
Proof. unfold kle, lt_less. destruct (Z.ltb_spec y x), (Z.ltb_spec x y); simpl; auto; lia. Qed.
Lemma less_trans x y z : kle Z lt_less x y = true -> kle Z lt_less y z = true -> kle Z lt_less x z = true.
Proof. unfold kle, lt_less. destruct (Z.ltb_spec y x), (Z.ltb_spec z y), (Z.ltb_spec z x); simpl; auto; lia. Qed.
Lemma greater_total x y : kle Z lt_greater x y = true \/ kle Z lt_greater y x = true.
Proof. unfold kle, lt_greater. destruct (Z.ltb_spec y x), (Z.ltb_spec x y); simpl; auto; lia. Qed.
Lemma greater_trans x y z : kle Z lt_greater x y = true -> kle Z lt_greater y z = true -> kle Z lt_greater x z = true.
Proof. unfold kle, lt_greater. destruct (Z.ltb_spec x y), (Z.ltb_spec y z), (Z.ltb_spec x z); simpl; auto; lia. Qed.
Lemma mod3_total x y : kle Z lt_mod3 x y = true \/ kle Z lt_mod3 y x = true.
Proof. unfold kle, lt_mod3. destruct (Z.ltb_spec (y mod 3) (x mod 3)), (Z.ltb_spec (x mod 3) (y mod 3)); simpl; auto; lia. Qed.
Lemma mod3_trans x y z : kle Z lt_mod3 x y = true -> kle Z lt_mod3 y z = true -> kle Z lt_mod3 x z = true.
Proof. unfold kle, lt_mod3. destruct (Z.ltb_spec (y mod 3) (x mod 3)), (Z.ltb_spec (z mod 3) (y mod 3)), (Z.ltb_spec (z mod 3) (x mod 3)); simpl; auto; lia. Qed.

(* non-vacuity: a non-trivial reachable state (removal in the middle, key update, duplicates) *)
Example C11_nonvacuous :
  exists v, run Z lt_less 0%Z [] [OInsertL (combine (seq 0 7) [5;3;8;3;1;9;2]%Z); ORemove 1; OUpdateKey 5 0%Z; OPop; OInsert 7 4%Z] = Some v
            /\ length v = 6.
Proof. eexists. split; [vm_compute; reflexivity|reflexivity]. Qed.

(* ---- the defect at the pinned commit: removePos only sifted down ---- *)
Definition witness_keys : list Z := [22; 25; 33; 28; 19; 47; 4; 46; 5; 40; 26; 3; 20]%Z.
Definition witness_heap : list (elt Z) :=
  match run Z lt_less 0%Z [] [OInsertL (combine (seq 0 13) witness_keys)] with Some v => v | None => [] end.
(* handle #7 holds key 46; removing it with the original code and popping everything *)
Definition witness_pops_orig : list Z :=
  match find_pos Z 7 witness_heap with
  | Some p => map ekey (pop_all_orig_e Z lt_less 0%Z 20 (removePos_orig_e Z lt_less 0%Z p witness_heap))
  | None => [] end.
Definition witness_pops_fixed : list Z :=
  match find_pos Z 7 witness_heap with
  | Some p => map ekey (pop_all_e Z lt_less 0%Z 20 (removePos_e Z lt_less 0%Z p witness_heap))
  | None => [] end.
Example C11_removePos_orig_refuted :
  witness_pops_orig = [3; 4; 5; 19; 22; 20; 25; 26; 28; 33; 40; 47]%Z.   (* 22 before 20 *)
Proof. vm_compute. reflexivity. Qed.
Example C11_removePos_fixed_witness :
  witness_pops_fixed = [3; 4; 5; 19; 20; 22; 25; 26; 28; 33; 40; 47]%Z.
Proof. vm_compute. reflexivity. Qed.
