(* VssModel.v — the retry loops of the six valid-state samplers (src/ompl/base/samplers/src/*ValidStateSampler.cpp).
   The underlying StateSampler is a tape of states (each sampleUniform / sampleUniformNear / sampleGaussian call takes
   the next one; sample() and sampleNear() have the same loop structure and differ only in which draw they call, so
   one function models both).  [chk] is SpaceInformation::isValid = the user's StateValidityChecker::isValid (it does NOT test the bounds: a
   returned state is in bounds because the underlying sampler's draws are, and interpolants of in-bounds states are),
   [clr] the checker's clearance.  [mid e s] is interpolate(e, s, 0.5),
   [lastv t s] the state DiscreteMotionValidator::checkMotion(t, s, lastValid) leaves in lastValid.first.
   A result is None when the tape is too short (the script ended), otherwise (success flag, output state, rest). *)
From Coq Require Import List ZArith Bool.
Import ListNotations.

Section Vss.
  Variable St : Type.
  Variables (chk : St -> bool) (clr : St -> Z).
  Variable mid : St -> St -> St.
  Variable lastv : St -> St -> St.
  Definition si_valid (s : St) : bool := chk s.
  Definition res := option (bool * St * list St).

  (* do { draw; valid = test; ++attempts } while (!valid && attempts < A): runs max(1,A) times at most *)
  Definition rounds (attempts : nat) : nat := Nat.max 1 attempts.

  (* UniformValidStateSampler: [n] = rounds still allowed *)
  Fixpoint vss_until (test : St -> bool) (n : nat) (state : St) (tape : list St) : res :=
    match n with
    | O => Some (false, state, tape)
    | S k => match tape with
             | [] => None
             | s :: t => if test s then Some (true, s, t) else vss_until test k s t
             end
    end.
  Definition vss_uniform (attempts : nat) (state : St) (tape : list St) : res := vss_until si_valid (rounds attempts) state tape.

  (* GaussianValidStateSampler *)
  Fixpoint vss_gauss_loop (n : nat) (state : St) (tape : list St) : res :=
    match n with
    | O => Some (false, state, tape)
    | S k => match tape with
             | s :: g :: t =>
                 let v1 := si_valid s in let v2 := si_valid g in
                 if negb (eqb v1 v2) then Some (true, if v2 then g else s, t) else vss_gauss_loop k s t
             | _ => None
             end
    end.
  Definition vss_gauss (attempts : nat) (state : St) (tape : list St) : res := vss_gauss_loop (rounds attempts) state tape.

  (* ObstacleBasedValidStateSampler: first an invalid state, then a valid one, then the last valid state on the way *)
  Definition vss_obstacle (attempts : nat) (state : St) (tape : list St) : res :=
    match vss_until (fun s => negb (si_valid s)) (rounds attempts) state tape with
    | None => None
    | Some (false, s, t) => Some (false, s, t)          (* only valid states seen *)
    | Some (true, s, t) =>
        match vss_until si_valid (rounds attempts) s t with
        | None => None
        | Some (false, _, t') => Some (false, s, t')
        | Some (true, temp, t') => Some (true, lastv temp s, t')
        end
    end.

  (* BridgeTestValidStateSampler *)
  Fixpoint vss_bridge_loop (n : nat) (state : St) (tape : list St) : res :=
    match n with
    | O => Some (false, state, tape)
    | S k => match tape with
             | [] => None
             | s :: t =>
                 if si_valid s then vss_bridge_loop k s t
                 else match t with
                      | [] => None
                      | e :: t' =>
                          if si_valid e then vss_bridge_loop k s t'
                          else let m := mid e s in if si_valid m then Some (true, m, t') else vss_bridge_loop k m t'
                      end
             end
    end.
  Definition vss_bridge (attempts : nat) (state : St) (tape : list St) : res := vss_bridge_loop (rounds attempts) state tape.

  (* MaximizeClearanceValidStateSampler *)
  Fixpoint vss_improve (n : nat) (state : St) (dist : Z) (tape : list St) : res :=
    match n with
    | O => Some (true, state, tape)
    | S k => match tape with
             | [] => None
             | w :: t => if chk w && (dist <? clr w)%Z then vss_improve k w (clr w) t else vss_improve k state dist t
             end
    end.
  Definition vss_maxclear (attempts improve : nat) (state : St) (tape : list St) : res :=
    match vss_until chk (rounds attempts) state tape with
    | Some (true, s, t) => vss_improve improve s (clr s) t
    | r => r
    end.

  (* MinimumClearanceValidStateSampler *)
  Definition vss_minclear (attempts : nat) (clearance : Z) (state : St) (tape : list St) : res :=
    vss_until (fun s => chk s && negb (clr s <? clearance)%Z) (rounds attempts) state tape.
End Vss.

(* the instance run against the implementation (harness/vss_driver.cpp): states are the reals of R^1 with integral
   values; bounds |x| <= 100 (zi_inb, used by the check's predicate only); valid iff x mod 4 <> 0 (so that the midpoint of two invalid states can be valid); clearance x mod 7 *)
Definition zi_inb (x : Z) : bool := (Z.abs x <=? 100)%Z.
Definition zi_chk (x : Z) : bool := negb (x mod 4 =? 0)%Z.
Definition zi_clr (x : Z) : Z := (x mod 7)%Z.
Definition zi_mid (e s : Z) : Z := ((e + s) / 2)%Z.
Inductive vkind := VUniform | VGauss | VObstacle | VBridge | VMaxClear | VMinClear.
Definition vss_run (k : vkind) (attempts improve : nat) (clearance : Z) (tape : list Z) : option (bool * Z * nat) :=
  let r := match k with
           | VUniform => vss_uniform Z zi_chk attempts 0%Z tape
           | VGauss => vss_gauss Z zi_chk attempts 0%Z tape
           | VObstacle => vss_obstacle Z zi_chk (fun t s => t) attempts 0%Z tape
           | VBridge => vss_bridge Z zi_chk zi_mid attempts 0%Z tape
           | VMaxClear => vss_maxclear Z zi_chk zi_clr attempts improve 0%Z tape
           | VMinClear => vss_minclear Z zi_chk zi_clr attempts clearance 0%Z tape
           end in
  match r with None => None | Some (b, s, t) => Some (b, s, (length tape - length t)%nat) end.
