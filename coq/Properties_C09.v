(* Properties_C09.v — property C09: copies and persisted data reproduce states and planner graphs exactly.
   Statements only, over CodecModel.v (archive framing abstracted to tokens; boost's byte format not modelled). *)
From Coq Require Import List ZArith Bool Arith.
From OmplV Require Import CodecModel CodecProofs CodecPdProofs CopyModel CopyProofs.
Import ListNotations.

(* serialize then deserialize yields the original state for every nesting of compound spaces, wherever the
   image sits in a larger buffer (running offsets) *)
Theorem C09_deserialize_serialize :
  forall sp st rest, wf sp st = true -> deserialize sp (serialize st ++ rest) = Some (st, rest).
Proof. exact deserialize_serialize. Qed.
Theorem C09_serialization_length :
  forall sp st, wf sp st = true -> bytes_of (serialize st) = ser_len sp.
Proof. exact serialize_length. Qed.
(* converting to the vector of reals and back *)
Theorem C09_reals_roundtrip : forall st extra, from_reals st (to_reals st ++ extra) = (st, extra).
Proof. exact reals_roundtrip. Qed.

(* storing a set of states and loading it back gives the same set; every strict prefix of the stream, a wrong
   marker and a different space signature are rejected *)
Theorem C09_load_store_states :
  forall sp states, Forall (fun s => wf sp s = true) states -> load_states sp (store_states sp states) = LOk states.
Proof. exact load_store_states. Qed.
Theorem C09_load_rejects_every_strict_prefix :
  forall sp states k, (k < length (store_states sp states))%nat -> load_states sp (firstn k (store_states sp states)) = LErr.
Proof. exact load_rejects_every_strict_prefix. Qed.
Theorem C09_load_rejects_wrong_marker :
  forall sp m n sg rest, m <> STATE_MARKER -> load_states sp (TMarker m :: TCount n :: TSig sg :: rest) = LErr.
Proof. exact load_rejects_wrong_marker. Qed.
Theorem C09_load_rejects_other_signature :
  forall sp sp' states, signature sp' <> signature sp -> load_states sp' (store_states sp states) = LErr.
Proof. exact load_rejects_other_signature. Qed.

(* planner data: start/goal marks are looked up by binary search, which is exact as long as the vector is sorted,
   and marking a goal (repaired code) keeps it sorted *)
Theorem C09_binary_search_exact_on_sorted :
  forall v x, sorted_nth v -> (binary_search v x = true <-> In x v).
Proof. exact binary_search_correct. Qed.
Theorem C09_mark_goal_correct :
  forall i g, sorted_nth (goals g) ->
    sorted_nth (goals (mark_goal i g)) /\
    (forall j, binary_search (goals (mark_goal i g)) j = true <-> j = i \/ binary_search (goals g) j = true) /\
    starts (mark_goal i g) = starts g.
Proof. exact mark_goal_correct. Qed.
(* ... lifted to EVERY sequence of markGoalState calls: the vector stays sorted, the lookup answers true for exactly
   the marked indices (and those marked before), and the start marks are untouched *)
Theorem C09_mark_goals_correct_for_every_sequence :
  forall js g, sorted_nth (goals g) ->
    let g' := fold_left (fun h i => mark_goal i h) js g in
    sorted_nth (goals g') /\
    (forall j, binary_search (goals g') j = true <-> In j js \/ binary_search (goals g) j = true) /\
    starts g' = starts g.
Proof.
  intros js. induction js as [|i t IH]; intros g Hs; cbn [fold_left].
  - split; [exact Hs|]. split; [|reflexivity]. intros j. split; [auto | intros [[]|H]; exact H].
  - destruct (C09_mark_goal_correct i g Hs) as (S1 & M1 & St1).
    destruct (IH (mark_goal i g) S1) as (S2 & M2 & St2).
    split; [exact S2|]. split; [|rewrite St2; exact St1].
    intros j. rewrite (M2 j), (M1 j). cbn [In]. intuition (subst; auto).
Qed.

(* a planner-data graph (vertices with tags and states, edges with weights, start / goal marks held as sorted index
   vectors) stored and loaded back: same vertices in index order, same edges, same start marks; a goal mark comes back
   unless the vertex is also marked start (the stored vertex type has a single value: known finding
   C09-start-and-goal-vertex, characterised exactly); with disjoint marks the graph comes back unchanged *)
Theorem C09_load_store_planner_data :
  forall sp g, pd_wf sp g -> load_pd sp (store_pd sp g) = LOk (mkPD (verts g) (edges g) (starts g) (goals_eff g)).
Proof. exact load_store_pd. Qed.
Theorem C09_load_store_planner_data_disjoint_marks :
  forall sp g, pd_wf sp g -> (forall i, In i (starts g) -> ~ In i (goals g)) -> load_pd sp (store_pd sp g) = LOk g.
Proof. exact load_store_pd_disjoint. Qed.
Theorem C09_planner_data_rejects_every_strict_prefix :
  forall sp g k, pd_wf sp g -> (k < length (store_pd sp g))%nat -> load_pd sp (firstn k (store_pd sp g)) = LErr.
Proof. exact load_pd_rejects_every_strict_prefix. Qed.
Theorem C09_planner_data_rejects_wrong_marker :
  forall sp m nv ne sg rest, m <> PD_MARKER -> load_pd sp (TMarker m :: TCount nv :: TCount ne :: TSig sg :: rest) = LErr.
Proof. exact load_pd_rejects_wrong_marker. Qed.
Theorem C09_planner_data_rejects_other_signature :
  forall sp sp' g, signature sp' <> signature sp -> load_pd sp' (store_pd sp g) = LErr.
Proof. exact load_pd_rejects_other_signature. Qed.

(* copyStateData between related spaces (CopyModel.v; a name identifies a space, names are unique within a space):
   the destination keeps its shape; every leaf space the two spaces have in common receives the source's content and
   every other leaf of the destination keeps its own; ALL_DATA_COPIED is reported only when every leaf of the source
   exists in the destination *)
Theorem C09_partial_copy_transfers_exactly_the_common_components :
  forall destS dest srcS src,
    NoDup (names destS) -> NoDup (names srcS) -> compat destS srcS -> shape destS dest -> shape srcS src ->
    let out := copy_state_data destS dest srcS src in
    shape destS (snd out) /\
    (forall l, leaf_val destS (snd out) l =
               match leaf_val destS dest l with
               | None => None
               | Some old => match leaf_val srcS src l with Some v => Some v | None => Some old end
               end) /\
    (fst out = CAll -> incl (leaves srcS) (leaves destS)).
Proof.
  intros destS dest srcS src H1 H2 H3 H4 H5. exact (copy_state_data_spec destS dest srcS src (conj H1 (conj H2 (conj H3 (conj H4 H5))))).
Qed.

Print Assumptions C09_deserialize_serialize.
Print Assumptions C09_serialization_length.
Print Assumptions C09_reals_roundtrip.
Print Assumptions C09_load_store_states.
Print Assumptions C09_load_rejects_every_strict_prefix.
Print Assumptions C09_load_rejects_wrong_marker.
Print Assumptions C09_load_rejects_other_signature.
Print Assumptions C09_binary_search_exact_on_sorted.
Print Assumptions C09_mark_goal_correct.
Print Assumptions C09_mark_goals_correct_for_every_sequence.
Print Assumptions C09_load_store_planner_data.
Print Assumptions C09_load_store_planner_data_disjoint_marks.
Print Assumptions C09_planner_data_rejects_every_strict_prefix.
Print Assumptions C09_planner_data_rejects_wrong_marker.
Print Assumptions C09_planner_data_rejects_other_signature.
Print Assumptions C09_partial_copy_transfers_exactly_the_common_components.

Local Open Scope Z_scope.
(* non-vacuity: SE(2) x discrete x (R^2 x SO(3)) *)
Definition sp_ex : space := SComp [SComp [SReal 2; SSO2]; SDiscrete; SComp [SReal 2; SSO3]].
Definition st_ex : state := VComp [VComp [VLeaf [CD 1; CD 2]; VLeaf [CD 3]]; VLeaf [CI 7]; VComp [VLeaf [CD 4; CD 5]; VLeaf [CD 6; CD 7; CD 8; CD 9]]].
Example C09_nonvacuous : wf sp_ex st_ex = true /\ ser_len sp_ex = 76%nat /\ to_reals st_ex = [1;2;3;4;5;6;7;8;9]
  /\ load_states sp_ex (store_states sp_ex [st_ex; st_ex]) = LOk [st_ex; st_ex]
  /\ signature sp_ex = [16; 0; 9; 0; 3; 1; 2; 2; 1; 7; 1; 0; 5; 1; 2; 3; 3].
Proof. vm_compute. repeat split. Qed.
(* the defect at the pinned commit: markGoalState sorted the START vector; goals marked out of index order are
   then missed by the binary search (vertex 0 marked after vertex 5) *)
Example C09_mark_goal_orig_refuted :
  let g := mark_goal_orig 0 (mark_goal_orig 5 pd_empty) in
  goals g = [5; 0]%nat /\ binary_search (goals g) 0 = false /\
  binary_search (goals (mark_goal 0 (mark_goal 5 pd_empty))) 0 = true.
Proof. vm_compute. repeat split. Qed.
(* a vertex that is both start and goal is written as START only: the goal mark does not survive store/load *)
Example C09_start_and_goal_vertex_refuted :
  let g := mark_goal 0 (mark_start 0 (add_vertex 0 [CD 1] pd_empty)) in
  match load_pd (SReal 1) (store_pd (SReal 1) g) with
  | LOk g' => goals g = [0]%nat /\ goals g' = [] /\ starts g' = [0]%nat
  | LErr => False
  end.
Proof. vm_compute. repeat split. Qed.

(* non-vacuity for the planner-data theorems: three vertices, two edges, vertex 0 start, vertex 2 goal *)
Example C09_planner_data_nonvacuous :
  let g := mkPD [(7%Z, [CD 1]); (0%Z, [CD 2]); (3%Z, [CD 5])] [(0, 1, 10%Z); (1, 2, 20%Z)]%nat [0]%nat [2]%nat in
  pd_wf (SReal 1) g /\ load_pd (SReal 1) (store_pd (SReal 1) g) = LOk g /\ length (store_pd (SReal 1) g) = 9%nat.
Proof.
  cbv zeta. split; [|split; vm_compute; reflexivity]. unfold pd_wf. cbn [verts starts goals length].
  split; [repeat constructor; eexists; vm_compute; reflexivity|]. split; [repeat constructor|]. split; [repeat constructor|]. split; repeat constructor.
Qed.

(* non-vacuity for the partial copy: dest = D[X[A,B],C], source = S[Y[A],B,E]: A and B arrive, C stays, E has no place *)
Example C09_partial_copy_nonvacuous :
  let dS := NComp 10 [NComp 11 [NLeaf 1; NLeaf 2]; NLeaf 3] in
  let sS := NComp 20 [NComp 21 [NLeaf 1]; NLeaf 2; NLeaf 5] in
  copy_state_data dS (VCompS [VCompS [VLeafS 100; VLeafS 200]; VLeafS 300]) sS (VCompS [VCompS [VLeafS 1]; VLeafS 2; VLeafS 5])
  = (CSome, VCompS [VCompS [VLeafS 1; VLeafS 2]; VLeafS 300]).
Proof. vm_compute. reflexivity. Qed.
