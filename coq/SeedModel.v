(* SeedModel.v — executable model of OMPL's seed generator (src/ompl/util/src/RandomNumbers.cpp):
   RNGSeedGenerator = std::ranlux24_base sGen_ + std::uniform_int_distribution<>(1, 1000000000),
   transcribed from libstdc++ 12 (subtract_with_carry_engine<_, 24, 10, 24>::seed / operator(),
   uniform_int_distribution::operator() with the up-scaling loop and the division fallback). *)
From Coq Require Import List NArith Bool Arith.
Import ListNotations.
Local Open Scope N_scope.

Definition lcg_m : N := 2147483563.
Definition two24 : N := 16777216.

Record engine := mkEng { xs : list N; carry : N; pos : nat }.

(* seed(value): LCG 40014 * x mod 2147483563 fills the 24 words (mod 2^24) *)
Fixpoint fill (n : nat) (st : N) : list N :=
  match n with
  | O => []
  | S k => let st' := (40014 * st) mod lcg_m in (st' mod two24) :: fill k st'
  end.
Definition eng_seed (value : N) : engine :=
  let v := if value =? 0 then 19780503 else value in
  let st := if (v mod lcg_m) =? 0 then 1 else v mod lcg_m in
  let x := fill 24 st in
  mkEng x (if nth 23 x 0 =? 0 then 1 else 0) 0.

Fixpoint upd {A} (i : nat) (v : A) (l : list A) : list A :=
  match l, i with
  | [], _ => []
  | _ :: t, O => v :: t
  | h :: t, S j => h :: upd j v t
  end.

(* operator(): subtract with carry, short lag 10, long lag 24 *)
Definition eng_next (e : engine) : N * engine :=
  let p := pos e in
  let ps := if Nat.ltb p 10 then (p + 24 - 10)%nat else (p - 10)%nat in
  let a := nth ps (xs e) 0 in
  let b := nth p (xs e) 0 + carry e in
  let '(xi, c) := if b <=? a then (a - b, 0) else (two24 - b + a, 1) in
  (xi, mkEng (upd p xi (xs e)) c (if Nat.eqb (S p) 24 then 0%nat else S p)).

(* uniform_int_distribution<int>(0, 59) by the two-division rejection: scaling = (2^24-1)/60, past = 60*scaling *)
Fixpoint draw_small (fuel : nat) (e : engine) : option (N * engine) :=
  match fuel with
  | O => None
  | S f => let '(r, e') := eng_next e in
           if r <? 16777200 then Some (r / 279620, e') else draw_small f e'
  end.
(* uniform_int_distribution<int>(1, 10^9): high part from [0,59] times 2^24, plus one raw draw; reject above 999999999 *)
Fixpoint draw_seed (fuel : nat) (e : engine) : option (N * engine) :=
  match fuel with
  | O => None
  | S f => match draw_small 64 e with
           | None => None
           | Some (hi, e1) =>
             let '(lo, e2) := eng_next e1 in
             let ret := two24 * hi + lo in
             if 999999999 <? ret then draw_seed f e2 else Some (ret + 1, e2)
           end
  end.

(* the seed generator object *)
Record sgen := mkSG { first_seed : option N;      (* None = taken from the clock (unknown) *)
                      some_generated : bool;
                      eng : option engine }.       (* None = seeded from the clock (unknown) *)
Definition sg_init : sgen := mkSG None false None.

Definition set_seed (seed : N) (g : sgen) : sgen :=
  if 0 <? seed then
    if some_generated g then mkSG (first_seed g) true (Some (eng_seed seed))       (* error logged, generator reseeded anyway *)
    else mkSG (Some seed) false (Some (eng_seed seed))
  else
    if some_generated g then g                                                    (* warning, ignored *)
    else mkSG (first_seed g) false (Some (eng_seed 1)).                            (* "using 1 instead"; firstSeed_ untouched *)

Inductive seedres := Seed (s : N) | Unknown | OutOfFuel.
Definition next_seed (g : sgen) : seedres * sgen :=
  match eng g with
  | None => (Unknown, mkSG (first_seed g) true None)
  | Some e => match draw_seed 64 e with
              | Some (s, e') => (Seed s, mkSG (first_seed g) true (Some e'))
              | None => (OutOfFuel, mkSG (first_seed g) true (Some e))
              end
  end.

Inductive sop := SSet (s : N) | SNew | SGet.
Inductive sobs := OSeed (r : seedres) | OFirst (f : option N) | ONone.
Fixpoint srun (g : sgen) (ops : list sop) : list sobs :=
  match ops with
  | [] => []
  | SSet s :: t => ONone :: srun (set_seed s g) t
  | SNew :: t => let '(r, g') := next_seed g in OSeed r :: srun g' t
  | SGet :: t => OFirst (first_seed g) :: srun g t
  end.

(* the first n local seeds handed out after setSeed(s) on a fresh process *)
Fixpoint seeds_from (n : nat) (g : sgen) : list seedres :=
  match n with O => [] | S k => let '(r, g') := next_seed g in r :: seeds_from k g' end.
Definition local_seeds (s : N) (n : nat) : list seedres := seeds_from n (set_seed s sg_init).
