(* HeapCore.v — proofs about layer 1 of HeapModel.v (sift loops on an array of
   comparable values).  The comparator is any strict weak order, given as
   totality and transitivity of  le x y := negb (lt y x). *)
From Coq Require Import List Arith Lia Bool Permutation Sorted.
From OmplV Require Import HeapModel.
Import ListNotations.

Section ArrFacts.
  Context {A : Type}.
  Variable d : A.
  Notation get := (get d).

  Lemma length_upd i (x : A) v : length (upd i x v) = length v.
  Proof. revert i; induction v as [|h t IH]; intros [|i]; simpl; auto. Qed.
  Lemma get_upd_eq i (x : A) v : i < length v -> get (upd i x v) i = x.
  Proof. unfold HeapModel.get. revert i; induction v as [|h t IH]; intros [|i] H; simpl in *; try lia; auto; try (apply IH; lia). Qed.
  Lemma get_upd_ne i j (x : A) v : i <> j -> get (upd i x v) j = get v j.
  Proof. unfold HeapModel.get. revert i j; induction v as [|h t IH]; intros [|i] [|j] H; simpl in *; auto; try lia; try (apply IH; lia). Qed.
  Lemma upd_upd_same i (x y : A) v : upd i x (upd i y v) = upd i x v.
  Proof. revert i; induction v as [|h t IH]; intros [|i]; simpl; auto. f_equal; apply IH. Qed.
  Lemma upd_comm i j (x y : A) v : i <> j -> upd i x (upd j y v) = upd j y (upd i x v).
  Proof. revert i j; induction v as [|h t IH]; intros [|i] [|j] H; simpl; auto; try lia. f_equal; apply IH; lia. Qed.
  Lemma upd_get_same i v : upd i (get v i) v = v.
  Proof. unfold HeapModel.get. revert i; induction v as [|h t IH]; intros [|i]; simpl; auto. f_equal; apply IH. Qed.
  Lemma upd_beyond i (x : A) v : length v <= i -> upd i x v = v.
  Proof. revert i; induction v as [|h t IH]; intros [|i] H; simpl in *; auto; try lia. f_equal; apply IH; lia. Qed.

  Lemma perm_get_upd : forall v i (x : A), i < length v -> Permutation (get v i :: upd i x v) (x :: v).
  Proof.
    induction v as [|h t IH]; intros [|i] x H; simpl in *; try lia.
    - apply perm_swap.
    - eapply perm_trans; [apply perm_swap|]. eapply perm_trans; [|apply perm_swap].
      apply perm_skip. apply IH. lia.
  Qed.
  Lemma swap_perm : forall v i j, i < j -> j < length v ->
    Permutation (upd i (get v j) (upd j (get v i) v)) v.
  Proof.
    induction v as [|h t IH]; intros [|i] [|j] Hij Hj; simpl in *; try lia.
    - pose proof (perm_get_upd t j h ltac:(lia)) as P. exact P.
    - apply perm_skip. apply IH; lia.
  Qed.
  Lemma swap_perm2 v i j : i < j -> j < length v ->
    Permutation (upd j (get v i) (upd i (get v j) v)) v.
  Proof. intros. rewrite upd_comm by lia. apply swap_perm; auto. Qed.

  Lemma get_app1 v w i : i < length v -> get (v ++ w) i = get v i.
  Proof. intros. unfold HeapModel.get. apply app_nth1; auto. Qed.
  Lemma get_removelast v i : i < length v - 1 -> get (removelast v) i = get v i.
  Proof.
    revert i; induction v as [|h t IH]; intros i H; simpl in *; [lia|].
    destruct t as [|h' t']; [simpl in *; lia|].
    destruct i as [|i]; [reflexivity|]. simpl. apply IH. simpl in *. lia.
  Qed.
  Lemma length_removelast (v : list A) : length (removelast v) = length v - 1.
  Proof. induction v as [|h t IH]; simpl; auto. destruct t; simpl in *; auto. lia. Qed.
  Lemma removelast_last_get v : v <> [] -> v = removelast v ++ [get v (length v - 1)].
  Proof.
    intros H. rewrite (app_removelast_last d H) at 1. f_equal. f_equal.
    clear. induction v as [|h t IH]; [reflexivity|]. destruct t as [|h' t']; [reflexivity|].
    change (last (h' :: t') d = get (h :: h' :: t') (length (h' :: t'))). rewrite IH.
    simpl. rewrite Nat.sub_0_r. reflexivity.
  Qed.
  Lemma In_get v (x : A) : In x v -> exists i, i < length v /\ get v i = x.
  Proof. intros H. destruct (In_nth v x d H) as (i & Hi & E). exists i; auto. Qed.
End ArrFacts.

Lemma par_lt i : 0 < i -> par i < i.
Proof. intros. unfold par. apply Nat.div_lt_upper_bound; lia. Qed.
Lemma par_child i c : 0 < c -> par c = i <-> (c = 2 * i + 1 \/ c = 2 * i + 2).
Proof.
  intros Hc. unfold par. split.
  - intros H. pose proof (Nat.div_mod (c - 1) 2 ltac:(lia)) as E. rewrite H in E.
    pose proof (Nat.mod_upper_bound (c - 1) 2 ltac:(lia)). lia.
  - intros [->| ->].
    + replace (2 * i + 1 - 1) with (i * 2) by lia. apply Nat.div_mul; lia.
    + replace (2 * i + 2 - 1) with (1 + i * 2) by lia. rewrite Nat.div_add by lia. reflexivity.
Qed.
Lemma par_mono i j : i <= j -> par i <= par j.
Proof. intros. unfold par. apply Nat.div_le_mono; lia. Qed.

Section Heap.
  Variable K : Type.
  Variable lt : K -> K -> bool.
  Definition le x y := negb (lt y x).
  Hypothesis le_total : forall x y, le x y = true \/ le y x = true.
  Hypothesis le_trans : forall x y z, le x y = true -> le y z = true -> le x z = true.
  Variable d : K.
  Notation get := (get d).
  Notation pu_loop := (pu_loop K lt d).
  Notation pd_loop := (pd_loop K lt d).
  Notation percolateUp := (percolateUp K lt d).
  Notation percolateDown := (percolateDown K lt d).

  Lemma lt_le x y : lt x y = true -> le x y = true.
  Proof. intros H. unfold le. destruct (le_total x y) as [E|E]; unfold le in E; auto. rewrite H in E. discriminate. Qed.
  Lemma nlt_le x y : lt x y = false -> le y x = true.
  Proof. unfold le. intros ->. reflexivity. Qed.
  Lemma le_refl x : le x x = true.
  Proof. destruct (le_total x x); auto. Qed.

  Definition ord (v : list K) (i : nat) : Prop := le (get v (par i)) (get v i) = true.
  (* sub-heap property: every node whose parent index is >= k0 dominates its parent *)
  Definition HeapFrom (k0 : nat) (v : list K) : Prop :=
    forall i, 0 < i < length v -> k0 <= par i -> ord v i.
  Definition HeapOrder (v : list K) : Prop := forall i, 0 < i < length v -> ord v i.
  Lemma HeapFrom_0 v : HeapFrom 0 v <-> HeapOrder v.
  Proof. split; intros H i Hi; [apply H; auto; lia|intros _; apply H; auto]. Qed.

  (* ---------- percolateUp ---------- *)
  (* UpInv w h: every order constraint holds except possibly (h, par h); the
     children of h dominate the parent of h ("bridging") *)
  Definition UpInv (w : list K) (h : nat) : Prop :=
    h < length w /\
    (forall i, 0 < i < length w -> i <> h -> ord w i) /\
    (forall c, c < length w -> 0 < c -> par c = h -> 0 < h -> le (get w (par h)) (get w c) = true).

  Lemma pu_loop_spec fuel : forall v tmp h,
    h <= fuel -> UpInv (upd h tmp v) h ->
    let '(v', h') := pu_loop fuel v tmp h in
    length v' = length v /\ h' < length v /\ HeapOrder (upd h' tmp v').
  Proof.
    induction fuel as [|f IH]; intros v tmp h Hf Inv.
    - assert (h = 0) by lia. subst. cbn [HeapModel.pu_loop]. destruct Inv as (Hl & Ho & _). rewrite length_upd in Hl.
      split; [reflexivity|]. split; [exact Hl|]. intros i Hi. apply Ho; [exact Hi|]. lia.
    - cbn [HeapModel.pu_loop]. destruct Inv as (Hl & Ho & Hb). rewrite length_upd in Hl.
      destruct (0 <? h) eqn:Eh; cbn [andb].
      + apply Nat.ltb_lt in Eh.
        destruct (lt tmp (get v (par h))) eqn:Elt.
        * set (p := par h). assert (Hp : p < h) by (apply par_lt; auto).
          set (v1 := upd h (get v p) v).
          specialize (IH v1 tmp p ltac:(lia)).
          assert (Lv1 : length v1 = length v) by apply length_upd.
          assert (G : forall j, get (upd p tmp v1) j = if j =? p then tmp else if j =? h then get v p else get v j).
          { intros j. destruct (Nat.eqb_spec j p) as [->|N1]. rewrite get_upd_eq; auto; lia.
            rewrite get_upd_ne by lia. unfold v1. destruct (Nat.eqb_spec j h) as [->|N2]. rewrite get_upd_eq; auto. rewrite get_upd_ne by lia. reflexivity. }
          assert (G0 : forall j, get (upd h tmp v) j = if j =? h then tmp else get v j).
          { intros j. destruct (Nat.eqb_spec j h) as [->|N]. rewrite get_upd_eq; auto. rewrite get_upd_ne by lia. reflexivity. }
          destruct (pu_loop f v1 tmp p) as [v' h'] eqn:E.
          assert (R : length v' = length v1 /\ h' < length v1 /\ HeapOrder (upd h' tmp v')).
          { apply IH.
            unfold UpInv. rewrite length_upd, Lv1. split; [lia|]. split.
            - intros i Hi Nip. unfold ord. rewrite !G.
              destruct (Nat.eqb_spec i p); [lia|].
              destruct (Nat.eqb_spec i h) as [->|Nih].
              + fold p. rewrite Nat.eqb_refl. apply lt_le. exact Elt.
              + destruct (Nat.eqb_spec (par i) p) as [Epi|Npi].
                * assert (Oi : ord (upd h tmp v) i) by (apply Ho; [rewrite length_upd; lia|lia]).
                  unfold ord in Oi. rewrite !G0 in Oi. rewrite Epi in Oi.
                  destruct (Nat.eqb_spec p h); [lia|]. destruct (Nat.eqb_spec i h); [lia|].
                  eapply le_trans; [apply lt_le; exact Elt|exact Oi].
                * destruct (Nat.eqb_spec (par i) h) as [Eph|Nph].
                  -- specialize (Hb i). rewrite length_upd in Hb. specialize (Hb ltac:(lia) ltac:(lia) Eph Eh).
                     rewrite !G0 in Hb. fold p in Hb. destruct (Nat.eqb_spec p h); [lia|]. destruct (Nat.eqb_spec i h); [lia|]. exact Hb.
                  -- assert (Oi : ord (upd h tmp v) i) by (apply Ho; [rewrite length_upd; lia|lia]).
                     unfold ord in Oi. rewrite !G0 in Oi.
                     destruct (Nat.eqb_spec (par i) h); [lia|]. destruct (Nat.eqb_spec i h); [lia|]. exact Oi.
            - intros c Hc Hc0 Hpc Hp0. rewrite !G.
              destruct (Nat.eqb_spec (par p) p) as [E1|_]; [pose proof (par_lt p Hp0); lia|].
              destruct (Nat.eqb_spec (par p) h) as [E1|_]; [pose proof (par_lt p Hp0); lia|].
              destruct (Nat.eqb_spec c p) as [->|Ncp]; [pose proof (par_lt p Hp0); lia|].
              assert (Op : ord (upd h tmp v) p) by (apply Ho; [rewrite length_upd; lia|lia]).
              unfold ord in Op. rewrite !G0 in Op.
              destruct (Nat.eqb_spec (par p) h) as [E1|_]; [pose proof (par_lt p Hp0); lia|].
              destruct (Nat.eqb_spec p h); [lia|].
              destruct (Nat.eqb_spec c h) as [->|Nch]; [exact Op|].
              assert (Oc : ord (upd h tmp v) c) by (apply Ho; [rewrite length_upd; lia|lia]).
              unfold ord in Oc. rewrite !G0 in Oc. rewrite Hpc in Oc.
              destruct (Nat.eqb_spec p h); [lia|]. destruct (Nat.eqb_spec c h); [lia|].
              eapply le_trans; eauto. }
          destruct R as (R1 & R2 & R3). rewrite Lv1 in *. auto.
        * split; [reflexivity|]. split; [exact Hl|]. intros i Hi.
          destruct (Nat.eq_dec i h) as [->|N]; [|apply Ho; [exact Hi|lia]]. rewrite length_upd in Hi.
          unfold ord. rewrite get_upd_eq by lia. rewrite get_upd_ne by (pose proof (par_lt h Eh); lia).
          apply nlt_le. exact Elt.
      + apply Nat.ltb_ge in Eh. assert (h = 0) by lia. subst.
        split; [reflexivity|]. split; [exact Hl|]. intros i Hi. apply Ho; [exact Hi|lia].
  Qed.

  (* bookkeeping facts of the sift-up loop: the hole only moves up, nothing changes
     if it does not move, and the virtual array is a permutation of the old one *)
  Lemma pu_loop_facts fuel : forall v tmp h, h < length v ->
    let '(v', h') := pu_loop fuel v tmp h in
    length v' = length v /\ h' <= h /\ (h' = h -> v' = v) /\
    Permutation (upd h' tmp v') (upd h tmp v).
  Proof.
    induction fuel as [|f IH]; intros v tmp h Hl; cbn [HeapModel.pu_loop].
    - repeat split; auto.
    - destruct ((0 <? h) && lt tmp (get v (par h))) eqn:E.
      + apply andb_true_iff in E. destruct E as (Eh & _). apply Nat.ltb_lt in Eh.
        pose proof (par_lt h Eh) as Hp.
        specialize (IH (upd h (get v (par h)) v) tmp (par h)). rewrite length_upd in IH.
        specialize (IH ltac:(lia)).
        destruct (pu_loop f (upd h (get v (par h)) v) tmp (par h)) as [v' h'].
        destruct IH as (L & Hle & _ & P). split; [exact L|]. split; [lia|]. split; [lia|].
        eapply perm_trans; [exact P|].
        set (w := upd h tmp v).
        assert (E1 : upd h (get v (par h)) v = upd h (get w (par h)) w).
        { unfold w. rewrite upd_upd_same. rewrite get_upd_ne by lia. reflexivity. }
        rewrite E1. replace tmp with (get w h) at 1 by (unfold w; apply get_upd_eq; lia).
        apply swap_perm; [lia|unfold w; rewrite length_upd; lia].
      + repeat split; auto.
  Qed.

  Lemma percolateUp_spec w h :
    UpInv w h -> HeapOrder (percolateUp h w) /\ Permutation (percolateUp h w) w /\ length (percolateUp h w) = length w.
  Proof.
    intros Inv. pose proof Inv as (Hl & _). unfold HeapModel.percolateUp.
    pose proof (pu_loop_spec (length w) w (get w h) h ltac:(lia)) as S.
    rewrite upd_get_same in S. specialize (S Inv).
    pose proof (pu_loop_facts (length w) w (get w h) h Hl) as F. rewrite upd_get_same in F.
    destruct (pu_loop (length w) w (get w h) h) as [v' h'].
    destruct S as (S1 & S2 & S3). destruct F as (_ & _ & F3 & F4).
    destruct (Nat.eqb_spec h' h) as [->|N].
    - rewrite (F3 eq_refl) in *. rewrite upd_get_same in S3. auto.
    - split; [exact S3|]. split; [exact F4|]. rewrite length_upd. exact S1.
  Qed.

  (* ---------- percolateDown ---------- *)
  Definition DownInv (k0 : nat) (w : list K) (h : nat) : Prop :=
    h < length w /\ k0 <= h /\
    (forall i, 0 < i < length w -> par i <> h -> k0 <= par i -> ord w i) /\
    (forall c, c < length w -> 0 < c -> par c = h -> 0 < h -> k0 <= par h -> le (get w (par h)) (get w c) = true).

  Lemma pd_move k0 v tmp h c :
    DownInv k0 (upd h tmp v) h -> c < length v -> par c = h -> 0 < c ->
    lt (get v c) tmp = true ->
    (forall s, s < length v -> 0 < s -> par s = h -> le (get v c) (get v s) = true) ->
    DownInv k0 (upd c tmp (upd h (get v c) v)) c.
  Proof.
    intros (Hl & Hk & Ho & Hb) Hc Hpc Hc0 Hlt Hmin. rewrite length_upd in Hl.
    assert (Hhc : h < c) by (rewrite <- Hpc; apply par_lt; auto).
    set (v1 := upd h (get v c) v).
    assert (G : forall j, get (upd c tmp v1) j = if j =? c then tmp else if j =? h then get v c else get v j).
    { intros j. destruct (Nat.eqb_spec j c) as [->|N1]. rewrite get_upd_eq; auto. unfold v1; rewrite length_upd; lia.
      rewrite get_upd_ne by lia. unfold v1. destruct (Nat.eqb_spec j h) as [->|N2]. rewrite get_upd_eq; auto. rewrite get_upd_ne by lia. reflexivity. }
    assert (G0 : forall j, get (upd h tmp v) j = if j =? h then tmp else get v j).
    { intros j. destruct (Nat.eqb_spec j h) as [->|N]. rewrite get_upd_eq; auto. rewrite get_upd_ne by lia. reflexivity. }
    assert (Lv1 : length v1 = length v) by apply length_upd.
    unfold DownInv. rewrite !length_upd, !Lv1. split; [lia|]. split; [lia|]. split.
    - intros i Hi Npc Hk0. unfold ord. rewrite !G.
      destruct (Nat.eqb_spec (par i) c); [lia|].
      destruct (Nat.eqb_spec i c) as [->|Nic].
      + rewrite Hpc, Nat.eqb_refl. apply lt_le. exact Hlt.
      + destruct (Nat.eqb_spec i h) as [->|Nih].
        * assert (Pph : par h < h) by (apply par_lt; lia).
          destruct (Nat.eqb_spec (par h) h) as [E|_]; [lia|].
          specialize (Hb c). rewrite length_upd in Hb. specialize (Hb Hc Hc0 Hpc ltac:(lia) Hk0).
          rewrite !G0 in Hb. destruct (Nat.eqb_spec (par h) h); [lia|]. destruct (Nat.eqb_spec c h); [lia|]. exact Hb.
        * destruct (Nat.eqb_spec (par i) h) as [Eph|Nph].
          -- apply Hmin; lia.
          -- assert (Oi : ord (upd h tmp v) i) by (apply Ho; [rewrite length_upd; lia|lia|exact Hk0]).
             unfold ord in Oi. rewrite !G0 in Oi.
             destruct (Nat.eqb_spec (par i) h); [lia|]. destruct (Nat.eqb_spec i h); [lia|]. exact Oi.
    - intros cc Hcc Hcc0 Hpcc _ _. rewrite !G.
      assert (c < cc) by (rewrite <- Hpcc; apply par_lt; auto).
      rewrite Hpc. destruct (Nat.eqb_spec h c); [lia|]. rewrite Nat.eqb_refl.
      destruct (Nat.eqb_spec cc c); [lia|]. destruct (Nat.eqb_spec cc h); [lia|].
      assert (Oi : ord (upd h tmp v) cc) by (apply Ho; [rewrite length_upd; lia|lia|lia]).
      unfold ord in Oi. rewrite !G0 in Oi. rewrite Hpcc in Oi.
      destruct (Nat.eqb_spec c h); [lia|]. destruct (Nat.eqb_spec cc h); [lia|]. exact Oi.
  Qed.

  Lemma pd_stop k0 v tmp h :
    DownInv k0 (upd h tmp v) h ->
    (forall s, s < length v -> 0 < s -> par s = h -> le tmp (get v s) = true) ->
    HeapFrom k0 (upd h tmp v).
  Proof.
    intros (Hl & Hk & Ho & Hb) Hch i Hi Hk0. rewrite length_upd in Hl, Hi.
    destruct (Nat.eq_dec (par i) h) as [E|N]; [|apply Ho; [rewrite length_upd; lia|exact N|exact Hk0]].
    unfold ord. rewrite E. rewrite get_upd_eq by lia.
    assert (h < i) by (rewrite <- E; apply par_lt; lia).
    rewrite get_upd_ne by lia. apply Hch; lia.
  Qed.

  Lemma pd_loop_spec k0 fuel : forall v tmp h,
    length v - h <= fuel -> DownInv k0 (upd h tmp v) h ->
    let '(v', h') := pd_loop fuel v tmp h in
    length v' = length v /\ h' < length v /\ HeapFrom k0 (upd h' tmp v').
  Proof.
    induction fuel as [|f IH]; intros v tmp h Hf Inv.
    - destruct Inv as (Hl & _). rewrite length_upd in Hl. lia.
    - cbn [HeapModel.pd_loop]. pose proof Inv as (Hl & Hk & Ho & Hb). rewrite length_upd in Hl.
      destruct (2 * h + 2 <? length v) eqn:E1.
      + apply Nat.ltb_lt in E1.
        set (l := 2 * h + 2 - 1). assert (Hlv : l = 2 * h + 1) by (unfold l; lia).
        assert (Pl : par l = h) by (apply par_child; lia).
        assert (Pr : par (2 * h + 2) = h) by (apply par_child; lia).
        assert (Kids : forall s, 0 < s -> par s = h -> s = l \/ s = 2 * h + 2).
        { intros s Hs Hp. apply par_child in Hp; auto. lia. }
        destruct (lt (get v l) (get v (2 * h + 2))) eqn:Ecmp.
        * destruct (lt (get v l) tmp) eqn:Elt.
          -- assert (D : DownInv k0 (upd l tmp (upd h (get v l) v)) l).
             { apply pd_move; auto; try lia. intros s Hs Hs0 Hps. destruct (Kids s Hs0 Hps) as [->| ->]; [apply le_refl|apply lt_le; exact Ecmp]. }
             specialize (IH (upd h (get v l) v) tmp l). rewrite length_upd in IH. specialize (IH ltac:(lia) D).
             destruct (pd_loop f (upd h (get v l) v) tmp l) as [v' h']. exact IH.
          -- split; [reflexivity|]. split; [exact Hl|]. apply pd_stop; auto.
             intros s Hs Hs0 Hps. destruct (Kids s Hs0 Hps) as [->| ->]; [apply nlt_le; exact Elt|].
             eapply le_trans; [apply nlt_le; exact Elt|apply lt_le; exact Ecmp].
        * destruct (lt (get v (2 * h + 2)) tmp) eqn:Elt.
          -- assert (D : DownInv k0 (upd (2*h+2) tmp (upd h (get v (2*h+2)) v)) (2*h+2)).
             { apply pd_move; auto; try lia. intros s Hs Hs0 Hps. destruct (Kids s Hs0 Hps) as [->| ->]; [apply nlt_le; exact Ecmp|apply le_refl]. }
             specialize (IH (upd h (get v (2*h+2)) v) tmp (2*h+2)). rewrite length_upd in IH. specialize (IH ltac:(lia) D).
             destruct (pd_loop f (upd h (get v (2*h+2)) v) tmp (2*h+2)) as [v' h']. exact IH.
          -- split; [reflexivity|]. split; [exact Hl|]. apply pd_stop; auto.
             intros s Hs Hs0 Hps. destruct (Kids s Hs0 Hps) as [->| ->]; [|apply nlt_le; exact Elt].
             eapply le_trans; [apply nlt_le; exact Elt|apply nlt_le; exact Ecmp].
      + apply Nat.ltb_ge in E1.
        destruct (2 * h + 2 =? length v) eqn:E2.
        * apply Nat.eqb_eq in E2.
          set (l := 2 * h + 2 - 1). assert (Hlv : l = 2 * h + 1) by (unfold l; lia).
          assert (Pl : par l = h) by (apply par_child; lia).
          assert (Kids : forall s, s < length v -> 0 < s -> par s = h -> s = l).
          { intros s Hsl Hs Hp. apply par_child in Hp; auto. lia. }
          destruct (lt (get v l) tmp) eqn:Elt.
          -- rewrite length_upd. split; [reflexivity|]. split; [lia|].
             assert (D : DownInv k0 (upd l tmp (upd h (get v l) v)) l).
             { apply pd_move; auto; try lia. intros s Hs Hs0 Hps. rewrite (Kids s Hs Hs0 Hps). apply le_refl. }
             apply pd_stop; auto. intros s Hs Hs0 Hps. rewrite length_upd in Hs.
             apply par_child in Hps; lia.
          -- split; [reflexivity|]. split; [exact Hl|]. apply pd_stop; auto.
             intros s Hs Hs0 Hps. rewrite (Kids s Hs Hs0 Hps). apply nlt_le; exact Elt.
        * apply Nat.eqb_neq in E2.
          split; [reflexivity|]. split; [exact Hl|]. apply pd_stop; auto.
          intros s Hs Hs0 Hps. apply par_child in Hps; lia.
  Qed.

  Lemma pd_loop_facts fuel : forall v tmp h, h < length v ->
    let '(v', h') := pd_loop fuel v tmp h in
    length v' = length v /\ h <= h' /\ h' < length v /\ (h' = h -> v' = v) /\
    Permutation (upd h' tmp v') (upd h tmp v).
  Proof.
    induction fuel as [|f IH]; intros v tmp h Hl; cbn [HeapModel.pd_loop].
    - repeat split; auto.
    - assert (Move : forall c, h < c -> c < length v ->
               let '(v', h') := pd_loop f (upd h (get v c) v) tmp c in
               length v' = length v /\ h <= h' /\ h' < length v /\ (h' = h -> v' = v) /\
               Permutation (upd h' tmp v') (upd h tmp v)).
      { intros c Hc Hcl. specialize (IH (upd h (get v c) v) tmp c). rewrite length_upd in IH. specialize (IH Hcl).
        destruct (pd_loop f (upd h (get v c) v) tmp c) as [v' h'].
        destruct IH as (L & Hle & Hlt & _ & P). split; [exact L|]. split; [lia|]. split; [exact Hlt|]. split; [lia|].
        eapply perm_trans; [exact P|].
        set (w := upd h tmp v).
        assert (E1 : upd h (get v c) v = upd h (get w c) w).
        { unfold w. rewrite upd_upd_same. rewrite get_upd_ne by lia. reflexivity. }
        rewrite E1. replace tmp with (get w h) at 1 by (unfold w; apply get_upd_eq; lia).
        apply swap_perm2; [lia|unfold w; rewrite length_upd; lia]. }
      destruct (2 * h + 2 <? length v) eqn:E1.
      + apply Nat.ltb_lt in E1.
        destruct (lt (get v (2 * h + 2 - 1)) (get v (2 * h + 2))).
        * destruct (lt (get v (2 * h + 2 - 1)) tmp); [apply Move; lia|repeat split; auto].
        * destruct (lt (get v (2 * h + 2)) tmp); [apply Move; lia|repeat split; auto].
      + apply Nat.ltb_ge in E1. destruct (2 * h + 2 =? length v) eqn:E2.
        * apply Nat.eqb_eq in E2.
          destruct (lt (get v (2 * h + 2 - 1)) tmp); [|repeat split; auto].
          rewrite length_upd. split; [reflexivity|]. split; [lia|]. split; [lia|]. split; [lia|].
          set (c := 2 * h + 2 - 1). set (w := upd h tmp v).
          assert (E3 : upd h (get v c) v = upd h (get w c) w).
          { unfold w. rewrite upd_upd_same. rewrite get_upd_ne by (unfold c; lia). reflexivity. }
          rewrite E3. replace tmp with (get w h) at 1 by (unfold w; apply get_upd_eq; lia).
          apply swap_perm2; [unfold c; lia|unfold w, c; rewrite length_upd; lia].
        * repeat split; auto.
  Qed.

  Lemma percolateDown_spec k0 w h :
    DownInv k0 w h ->
    HeapFrom k0 (percolateDown h w) /\ Permutation (percolateDown h w) w /\ length (percolateDown h w) = length w.
  Proof.
    intros Inv. pose proof Inv as (Hl & _). unfold HeapModel.percolateDown.
    pose proof (pd_loop_spec k0 (length w) w (get w h) h ltac:(lia)) as S.
    rewrite upd_get_same in S. specialize (S Inv).
    pose proof (pd_loop_facts (length w) w (get w h) h Hl) as F. rewrite upd_get_same in F.
    destruct (pd_loop (length w) w (get w h) h) as [v' h'].
    destruct S as (S1 & S2 & S3). destruct F as (_ & _ & _ & F3 & F4).
    destruct (Nat.eqb_spec h' h) as [->|N].
    - rewrite (F3 eq_refl) in *. rewrite upd_get_same in S3. auto.
    - split; [exact S3|]. split; [exact F4|]. rewrite length_upd. exact S1.
  Qed.

  (* ---------- update(pos) after an arbitrary change of the key at pos ---------- *)
  Definition WeakInv (w : list K) (h : nat) : Prop :=
    h < length w /\
    (forall i, 0 < i < length w -> i <> h -> par i <> h -> ord w i) /\
    (forall c, c < length w -> 0 < c -> par c = h -> 0 < h -> le (get w (par h)) (get w c) = true).

  Lemma heap_upd_weak w h x : HeapOrder w -> h < length w -> WeakInv (upd h x w) h.
  Proof.
    intros H Hl. unfold WeakInv. rewrite length_upd. split; [exact Hl|]. split.
    - intros i Hi N1 N2. unfold ord. rewrite !get_upd_ne by auto. apply H; auto.
    - intros c Hc Hc0 Hp Hh. pose proof (par_lt h Hh). pose proof (par_lt c Hc0).
      rewrite !get_upd_ne by lia.
      eapply le_trans; [apply (H h); lia|]. rewrite <- Hp. apply H; lia.
  Qed.

  Lemma heap_downinv w h : HeapOrder w -> h < length w -> DownInv 0 w h.
  Proof.
    intros H Hl. split; [exact Hl|]. split; [lia|]. split.
    - intros i Hi _ _. apply H; auto.
    - intros c Hc Hc0 Hp Hh _. eapply le_trans; [apply (H h); lia|]. rewrite <- Hp. apply H; lia.
  Qed.

  Lemma update_at_spec w h :
    WeakInv w h ->
    HeapOrder (update_at K lt d h w) /\ Permutation (update_at K lt d h w) w /\ length (update_at K lt d h w) = length w.
  Proof.
    intros (Hl & Ho & Hb). unfold update_at.
    assert (Down : forall u, HeapOrder u -> length u = length w -> Permutation u w ->
              HeapOrder (percolateDown h u) /\ Permutation (percolateDown h u) w /\ length (percolateDown h u) = length w).
    { intros u Hu Lu Pu. destruct (percolateDown_spec 0 u h (heap_downinv u h Hu ltac:(lia))) as (A & B & C).
      split; [apply HeapFrom_0; exact A|]. split; [eapply perm_trans; eauto|lia]. }
    destruct ((0 <? h) && lt (get w h) (get w (par h))) eqn:E.
    - (* the element moves up at least once: afterwards the array is a heap *)
      apply andb_true_iff in E. destruct E as (Eh & Elt). apply Nat.ltb_lt in Eh.
      assert (U : UpInv w h -> False \/ True) by auto. clear U.
      (* unfold one iteration of the loop by hand *)
      assert (Hfuel : exists f, length w = S f) by (exists (length w - 1); lia). destruct Hfuel as (f & Ef).
      pose proof (par_lt h Eh) as Hp.
      set (p := par h) in *. set (tmp := get w h) in *.
      set (v1 := upd h (get w p) w).
      assert (Lv1 : length v1 = length w) by apply length_upd.
      assert (G : forall j, get (upd p tmp v1) j = if j =? p then tmp else if j =? h then get w p else get w j).
      { intros j. destruct (Nat.eqb_spec j p) as [->|N1]. rewrite get_upd_eq; auto; lia.
        rewrite get_upd_ne by lia. unfold v1. destruct (Nat.eqb_spec j h) as [->|N2]. rewrite get_upd_eq; auto. rewrite get_upd_ne by lia. reflexivity. }
      assert (UI : UpInv (upd p tmp v1) p).
      { unfold UpInv. rewrite length_upd, Lv1. split; [lia|]. split.
        - intros i Hi Nip. unfold ord. rewrite !G.
          destruct (Nat.eqb_spec i p); [lia|].
          destruct (Nat.eqb_spec i h) as [->|Nih].
          + fold p. rewrite Nat.eqb_refl. apply lt_le. exact Elt.
          + destruct (Nat.eqb_spec (par i) p) as [Epi|Npi].
            * (* sibling of h *)
              assert (Oi : ord w i) by (apply Ho; [lia|lia|lia]).
              unfold ord in Oi. rewrite Epi in Oi.
              eapply le_trans; [apply lt_le; exact Elt|exact Oi].
            * destruct (Nat.eqb_spec (par i) h) as [Eph|Nph].
              -- apply (Hb i); lia.
              -- apply Ho; lia.
        - intros c Hc Hc0 Hpc Hp0. rewrite !G.
          pose proof (par_lt p Hp0) as Hpp.
          destruct (Nat.eqb_spec (par p) p) as [E1|_]; [lia|].
          destruct (Nat.eqb_spec (par p) h) as [E1|_]; [lia|].
          destruct (Nat.eqb_spec c p) as [->|Ncp]; [lia|].
          assert (Op : ord w p) by (apply Ho; lia).
          destruct (Nat.eqb_spec c h) as [->|Nch]; [exact Op|].
          assert (Oc : ord w c) by (apply Ho; lia).
          unfold ord in Oc. rewrite Hpc in Oc. eapply le_trans; eauto. }
      pose proof (pu_loop_spec f v1 tmp p ltac:(lia) UI) as S.
      pose proof (pu_loop_facts f v1 tmp p ltac:(lia)) as F.
      unfold HeapModel.percolateUp. rewrite Ef. cbn [HeapModel.pu_loop].
      fold tmp. fold p. replace (0 <? h) with true by (symmetry; apply Nat.ltb_lt; exact Eh).
      rewrite Elt. cbn [andb]. fold v1.
      destruct (pu_loop f v1 tmp p) as [v' h'].
      destruct S as (S1 & S2 & S3). destruct F as (_ & F2 & _ & F4).
      destruct (Nat.eqb_spec h' h) as [->|N]; [lia|].
      rewrite <- Ef. apply Down; [exact S3|rewrite length_upd; lia|].
      eapply perm_trans; [exact F4|].
      assert (E1 : v1 = upd h (get w p) w) by reflexivity.
      rewrite E1. replace tmp with (get w h) by reflexivity.
      apply swap_perm; lia.
    - (* no move: percolateUp returns the array unchanged *)
      assert (PU : percolateUp h w = w).
      { unfold HeapModel.percolateUp.
        assert (Hfuel : exists f, length w = S f) by (exists (length w - 1); lia). destruct Hfuel as (f & Ef).
        rewrite Ef. cbn [HeapModel.pu_loop]. rewrite E. rewrite Nat.eqb_refl. reflexivity. }
      rewrite PU.
      assert (DI : DownInv 0 w h).
      { split; [exact Hl|]. split; [lia|]. split.
        - intros i Hi Np _. destruct (Nat.eq_dec i h) as [->|N]; [|apply Ho; auto].
          apply andb_false_iff in E. destruct E as [E|E]; [apply Nat.ltb_ge in E; lia|].
          apply nlt_le. exact E.
        - intros c Hc Hc0 Hp Hh _. apply Hb; auto. }
      destruct (percolateDown_spec 0 w h DI) as (A & B & C).
      split; [apply HeapFrom_0; exact A|]. split; [exact B|exact C].
  Qed.

  (* ---------- the operations ---------- *)
  Lemma heap_app_prefix v x i : i < length v -> get (v ++ [x]) i = get v i.
  Proof. apply get_app1. Qed.

  Lemma insert1_spec v x :
    HeapOrder v -> HeapOrder (insert1 K lt d x v) /\ Permutation (insert1 K lt d x v) (x :: v)
                   /\ length (insert1 K lt d x v) = S (length v).
  Proof.
    intros H. unfold insert1.
    assert (UI : UpInv (v ++ [x]) (length v)).
    { unfold UpInv. rewrite app_length. simpl. split; [lia|]. split.
      - intros i Hi N. unfold ord. assert (i < length v) by lia.
        pose proof (par_lt i ltac:(lia)). rewrite !get_app1 by lia. apply H. lia.
      - intros c Hc Hc0 Hp _. pose proof (par_lt c Hc0). lia. }
    destruct (percolateUp_spec _ _ UI) as (A & B & C).
    split; [exact A|]. split.
    - eapply perm_trans; [exact B|]. apply Permutation_sym, Permutation_cons_append.
    - rewrite C, app_length. simpl. lia.
  Qed.

  Lemma heap_removelast v : HeapOrder v -> HeapOrder (removelast v).
  Proof.
    intros H i Hi. rewrite length_removelast in Hi. unfold ord.
    pose proof (par_lt i ltac:(lia)). rewrite !get_removelast by lia. apply H. lia.
  Qed.

  Lemma removePos_spec v pos :
    HeapOrder v -> pos < length v ->
    HeapOrder (removePos K lt d pos v) /\ Permutation (get v pos :: removePos K lt d pos v) v
    /\ length (removePos K lt d pos v) = length v - 1.
  Proof.
    intros H Hl. unfold removePos.
    assert (Hne : v <> []) by (destruct v; simpl in *; [lia|discriminate]).
    destruct (Nat.ltb_spec pos (length v - 1)) as [Hlt|Hge].
    - set (n := length v - 1) in *. set (r := removelast v).
      assert (Lr : length r = n) by (unfold r; apply length_removelast).
      assert (W : WeakInv (upd pos (get v n) r) pos).
      { apply heap_upd_weak; [apply heap_removelast; exact H|lia]. }
      destruct (update_at_spec _ _ W) as (A & B & C). unfold update_at in *.
      split; [exact A|]. rewrite length_upd in C. split; [|lia].
      eapply perm_trans; [apply perm_skip; exact B|].
      replace (get v pos) with (get r pos) by (unfold r; apply get_removelast; lia).
      eapply perm_trans; [apply perm_get_upd; lia|].
      eapply perm_trans; [apply Permutation_cons_append|]. subst r n.
      rewrite <- (removelast_last_get d v Hne). apply Permutation_refl.
    - assert (pos = length v - 1) by lia. subst pos.
      split; [apply heap_removelast; exact H|]. split; [|apply length_removelast].
      eapply perm_trans; [apply Permutation_cons_append|].
      rewrite <- (removelast_last_get d v Hne). apply Permutation_refl.
  Qed.

  Lemma build_from_spec : forall k v, k <= length v -> HeapFrom k v ->
    HeapOrder (build_from K lt d k v) /\ Permutation (build_from K lt d k v) v
    /\ length (build_from K lt d k v) = length v.
  Proof.
    induction k as [|i IH]; intros v Hk H; cbn [build_from].
    - split; [apply HeapFrom_0; exact H|]. split; auto.
    - assert (DI : DownInv i v i).
      { split; [lia|]. split; [lia|]. split.
        - intros j Hj N Hi. apply H; [exact Hj|lia].
        - intros c _ _ _ Hi0 Hi. pose proof (par_lt i Hi0). lia. }
      destruct (percolateDown_spec i v i DI) as (A & B & C).
      destruct (IH (percolateDown i v) ltac:(lia) A) as (A' & B' & C').
      split; [exact A'|]. split; [eapply perm_trans; eauto|lia].
  Qed.

  Lemma build_spec v :
    HeapOrder (build K lt d v) /\ Permutation (build K lt d v) v /\ length (build K lt d v) = length v.
  Proof.
    unfold build. apply build_from_spec.
    - apply Nat.div_le_upper_bound; lia.
    - intros i Hi Hp. exfalso. unfold par in Hp.
      assert ((i - 1) / 2 < length v / 2); [|lia].
      pose proof (Nat.div_mod (i - 1) 2 ltac:(lia)). pose proof (Nat.div_mod (length v) 2 ltac:(lia)).
      pose proof (Nat.mod_upper_bound (i - 1) 2 ltac:(lia)). pose proof (Nat.mod_upper_bound (length v) 2 ltac:(lia)).
      lia.
  Qed.

  Lemma top_is_min v : HeapOrder v -> forall i, i < length v -> le (get v 0) (get v i) = true.
  Proof.
    intros H i. induction i as [i IH] using lt_wf_ind. intros Hi.
    destruct (Nat.eq_dec i 0) as [->|N]; [apply le_refl|].
    pose proof (par_lt i ltac:(lia)).
    eapply le_trans; [apply (IH (par i)); lia|]. apply H. lia.
  Qed.

  Lemma pop_all_spec : forall fuel v, HeapOrder v -> length v <= fuel ->
    Permutation (pop_all K lt d fuel v) v /\ StronglySorted (fun x y => le x y = true) (pop_all K lt d fuel v).
  Proof.
    induction fuel as [|f IH]; intros v H Hl.
    - destruct v; simpl in *; [|lia]. split; constructor.
    - destruct v as [|x t]; [split; constructor|]. cbn [pop_all].
      destruct (removePos_spec (x :: t) 0 H ltac:(simpl; lia)) as (A & B & C).
      destruct (IH _ A ltac:(simpl in *; lia)) as (P & S).
      change (get (x :: t) 0) with x in B.
      split; [eapply perm_trans; [apply perm_skip; exact P|exact B]|].
      constructor; [exact S|]. apply Forall_forall. intros y Hy.
      assert (In y (x :: t)).
      { eapply Permutation_in; [exact B|]. right. eapply Permutation_in; [exact P|exact Hy]. }
      destruct (In_get d _ _ H0) as (i & Hi & <-).
      apply (top_is_min (x :: t) H i Hi).
  Qed.
End Heap.
