(* LazyRrtModel.v — geometric::LazyRRT::solve over abstract collaborators: motions are added without a motion check; when a new
   state satisfies the goal, the motions from the root to it are validated in order; the first one that fails is removed with
   its whole subtree and planning goes on; otherwise the path is reported. Motions carry the identity of their creation so
   that removals do not disturb the parent links (the library uses pointers). *)
From Coq Require Import List Bool Arith.
Import ListNotations.

Section Lazy.
  Variables St D : Type.
  Variable dist : St -> St -> D.
  Variable dlt : D -> D -> bool.
  Variable steer : St -> St -> St.
  Variable mv : St -> St -> bool.
  Variable sat : St -> bool.
  Variable gdist : St -> D.
  Variable goal_state : St.
  Variable dflt : St.

  Record lnode := mkL { l_id : nat; l_state : St; l_parent : option nat; l_valid : bool }.
  Definition ldflt := mkL 0 dflt None false.
  Fixpoint nearest_from (tree : list lnode) (q : St) (j best : nat) (bd : D) : nat :=
    match tree with
    | [] => best
    | n :: t => if dlt (dist (l_state n) q) bd then nearest_from t q (S j) j (dist (l_state n) q) else nearest_from t q (S j) best bd
    end.
  Definition nearest (tree : list lnode) (q : St) : nat :=
    match tree with [] => O | n :: t => nearest_from t q 1 O (dist (l_state n) q) end.
  Definition find_id (tree : list lnode) (i : nat) : option lnode := find (fun n => Nat.eqb (l_id n) i) tree.
  (* removeMotion: the motion with identity [target] and everything below it *)
  Fixpoint is_desc (fuel : nat) (tree : list lnode) (target : nat) (n : lnode) : bool :=
    match fuel with
    | O => false
    | S f => Nat.eqb (l_id n) target ||
             match l_parent n with
             | Some p => match find_id tree p with Some pn => is_desc f tree target pn | None => false end
             | None => false
             end
    end.
  Definition remove_subtree (fuel : nat) (target : nat) (tree : list lnode) : list lnode :=
    filter (fun n => negb (is_desc fuel tree target n)) tree.
  Definition set_valid (i : nat) (tree : list lnode) : list lnode :=
    map (fun n => if Nat.eqb (l_id n) i then mkL (l_id n) (l_state n) (l_parent n) true else n) tree.
  (* identities from the root to node i *)
  Fixpoint id_chain (fuel : nat) (tree : list lnode) (i : nat) : list nat :=
    match fuel with
    | O => []
    | S f => match find_id tree i with
             | None => []
             | Some n => match l_parent n with None => [i] | Some p => id_chain f tree p ++ [i] end
             end
    end.
  (* the validation pass over the path, root first *)
  Fixpoint validate (fuel : nat) (tree : list lnode) (path : list nat) : list lnode * bool :=
    match path with
    | [] => (tree, true)
    | i :: rest =>
      match find_id tree i with
      | None => (tree, false)
      | Some n =>
        if l_valid n then validate fuel tree rest
        else match l_parent n with
             | None => validate fuel tree rest
             | Some p =>
               match find_id tree p with
               | None => (tree, false)
               | Some pn => if mv (l_state pn) (l_state n) then validate fuel (set_valid i tree) rest else (remove_subtree fuel i tree, false)
               end
             end
      end
    end.
  Record lst := mkLS { ls_tree : list lnode; ls_next : nat; ls_sol : option (list St * D) }.
  Definition lazy_step (s : lst) (r : St) : lst :=
    let tree := ls_tree s in
    let nn := nth (nearest tree r) tree ldflt in
    let d := steer (l_state nn) r in
    let id := ls_next s in
    let tree1 := tree ++ [mkL id d (Some (l_id nn)) false] in
    if sat d then
      let path := id_chain (S id) tree1 id in
      let '(tree2, ok) := validate (S (S id)) tree1 path in
      if ok then mkLS tree2 (S id) (Some (map (fun i => match find_id tree2 i with Some n => l_state n | None => dflt end) path, gdist d))
      else mkLS tree2 (S id) None
    else mkLS tree1 (S id) None.
  Fixpoint lazy_loop (s : lst) (hits : list bool) (samples : list St) : lst :=
    match ls_sol s with
    | Some _ => s
    | None =>
      match hits with
      | [] => s
      | true :: hs => lazy_loop (lazy_step s goal_state) hs samples
      | false :: hs => lazy_loop (lazy_step s (hd dflt samples)) hs (tl samples)
      end
    end.
  Fixpoint roots (starts : list St) (k : nat) : list lnode :=
    match starts with [] => [] | x :: t => mkL k x None true :: roots t (S k) end.
  Definition lazy_solve (starts : list St) (hits : list bool) (samples : list St) : lst :=
    match starts with
    | [] => mkLS [] 0 None
    | _ => lazy_loop (mkLS (roots starts 0) (length starts) None) hits samples
    end.
End Lazy.
