(* MotionProofs.v — proofs about MotionModel.v *)
From Coq Require Import List Arith ZArith Lia Bool.
From OmplV Require Import MotionModel.
Import ListNotations.

Section Proofs.
  Variable valid : nat -> bool.
  Variable vend : bool.

  Lemma lin_scan_spec : forall fuel j nd vis, nd - j <= fuel ->
    match lin_scan valid fuel j nd vis with
    | (None, vis') => (forall i, j <= i < nd -> valid i = true) /\ vis' = vis ++ map Mid (seq j (nd - j))
    | (Some k, vis') => j <= k < nd /\ valid k = false /\ (forall i, j <= i < k -> valid i = true)
                        /\ vis' = vis ++ map Mid (seq j (k - j + 1))
    end.
  Proof.
    induction fuel as [|f IH]; intros j nd vis Hf; cbn [lin_scan].
    - replace (nd - j) with 0 by lia. simpl. rewrite app_nil_r. split; [intros; lia|reflexivity].
    - destruct (Nat.ltb_spec j nd) as [Hlt|Hge].
      + destruct (valid j) eqn:Ev.
        * specialize (IH (S j) nd (vis ++ [Mid j]) ltac:(lia)).
          destruct (lin_scan valid f (S j) nd (vis ++ [Mid j])) as [[k|] vis'].
          -- destruct IH as (A & B & C & D). split; [lia|]. split; [exact B|]. split.
             ++ intros i Hi. destruct (Nat.eq_dec i j) as [->|N]; [exact Ev|apply C; lia].
             ++ rewrite D. rewrite <- app_assoc. f_equal.
                replace (k - j + 1) with (S (k - S j + 1)) by lia. reflexivity.
          -- destruct IH as (A & B). split.
             ++ intros i Hi. destruct (Nat.eq_dec i j) as [->|N]; [exact Ev|apply A; lia].
             ++ rewrite B. rewrite <- app_assoc. f_equal.
                replace (nd - j) with (S (nd - S j)) by lia. reflexivity.
        * split; [lia|]. split; [exact Ev|]. split; [intros; lia|].
          replace (j - j + 1) with 1 by lia. reflexivity.
      + replace (nd - j) with 0 by lia. simpl. rewrite app_nil_r. split; [intros; lia|reflexivity].
  Qed.

  Definition all_valid (nd : nat) : Prop := (forall j, 1 <= j < nd -> valid j = true) /\ vend = true.

  Lemma check_lin_iff nd : verdict (check_lin valid vend nd) = true <-> all_valid nd.
  Proof.
    unfold check_lin, all_valid. pose proof (lin_scan_spec nd 1 nd [] ltac:(lia)) as S.
    destruct (lin_scan valid nd 1 nd []) as [[k|] vis].
    - destruct S as (A & B & _). simpl. split; [discriminate|]. intros (H & _). rewrite H in B by lia. discriminate.
    - destruct S as (A & _). destruct vend; simpl; split; auto; try discriminate. intros (_ & H). discriminate.
  Qed.

  (* the last-valid report of the three-argument form *)
  Lemma check_lin_lastvalid nd :
    verdict (check_lin valid vend nd) = false ->
    exists k den, frac (check_lin valid vend nd) = Some (Z.of_nat k, Z.of_nat den)
      /\ k < den /\ (1 <= nd -> den = nd)                       (* fraction k/nd in [0,1) *)
      /\ (forall j, 1 <= j <= k -> j < nd -> valid j = true)   (* every subdivision point up to it is valid *)
      /\ (k + 1 < nd -> valid (k + 1) = false)                 (* ... and the next one is not *)
      /\ (1 <= nd -> k + 1 = nd -> vend = false).
  Proof.
    unfold check_lin. pose proof (lin_scan_spec nd 1 nd [] ltac:(lia)) as S.
    destruct (lin_scan valid nd 1 nd []) as [[k|] vis].
    - destruct S as (A & B & C & _). simpl. intros _. exists (k - 1), nd.
      split; [f_equal; f_equal; lia|]. split; [lia|]. split; [auto|]. split; [intros; apply C; lia|].
      split; [intros; replace (k - 1 + 1) with k by lia; exact B|intros; lia].
    - destruct S as (A & _). destruct vend; simpl; [discriminate|]. intros _.
      unfold end_frac. destruct (Nat.eqb_spec nd 0) as [->|N].
      + exists 0, 1. split; [reflexivity|]. split; [lia|]. split; [lia|]. split; [intros; lia|]. split; intros; lia.
      + exists (nd - 1), nd. split; [f_equal; f_equal; lia|]. split; [lia|]. split; [auto|].
        split; [intros; apply A; lia|]. split; [intros; lia|reflexivity].
  Qed.

  Lemma check_lin_success_untouched nd : verdict (check_lin valid vend nd) = true -> frac (check_lin valid vend nd) = None.
  Proof.
    unfold check_lin. destruct (lin_scan valid nd 1 nd []) as [[k|] vis]; simpl; [discriminate|].
    destruct vend; simpl; [reflexivity|discriminate].
  Qed.

  Lemma check_lin_counter nd :
    dvalid (check_lin valid vend nd) + dinvalid (check_lin valid vend nd) = 1 /\
    (dvalid (check_lin valid vend nd) = 1 <-> verdict (check_lin valid vend nd) = true).
  Proof.
    unfold check_lin. destruct (lin_scan valid nd 1 nd []) as [[k|] vis]; simpl; [split; [reflexivity|split; discriminate]|].
    destruct vend; simpl; split; try reflexivity; split; auto; discriminate.
  Qed.

  (* visits of the linear form: 1, 2, ... in order, then s2 only after all intermediate points *)
  Lemma check_lin_visits nd :
    exists m, m <= nd - 1 /\
      (visits (check_lin valid vend nd) = map Mid (seq 1 m) \/
       (visits (check_lin valid vend nd) = map Mid (seq 1 m) ++ [End] /\ m = nd - 1)).
  Proof.
    unfold check_lin. pose proof (lin_scan_spec nd 1 nd [] ltac:(lia)) as S.
    destruct (lin_scan valid nd 1 nd []) as [[k|] vis].
    - destruct S as (A & B & C & D). simpl in *. exists k. subst vis. replace (k - 1 + 1) with k by lia.
      split; [lia|left; reflexivity].
    - destruct S as (A & D). simpl in D. subst vis. exists (nd - 1). split; [lia|]. right.
      destruct vend; simpl; auto.
  Qed.

  (* ---------- bisection ---------- *)
  Definition size (q : list (nat * nat)) : nat := fold_right (fun '(a, b) s => (b - a + 1) + s) 0 q.
  Definition wf (q : list (nat * nat)) := Forall (fun '(a, b) => a <= b) q.
  Definition covers (q : list (nat * nat)) (j : nat) := Exists (fun '(a, b) => a <= j <= b) q.

  Lemma size_app q1 q2 : size (q1 ++ q2) = size q1 + size q2.
  Proof. induction q1 as [|[a b] t IH]; simpl; lia. Qed.

  Lemma mid_bounds a b : a <= b -> a <= (a + b) / 2 <= b.
  Proof. intros. split; [apply Nat.div_le_lower_bound; lia|apply Nat.div_le_upper_bound; lia]. Qed.

  Lemma bis_spec fuel : forall q vis, wf q -> size q <= fuel ->
    exists r vis', bis valid fuel q vis = Some (r, vis') /\
      (r = true <-> forall j, covers q j -> valid j = true).
  Proof.
    induction fuel as [|f IH]; intros q vis Hwf Hsz.
    - destruct q as [|[a b] t]; simpl.
      + exists true, vis. split; auto. split; auto. intros _ j Hc. inversion Hc.
      + exfalso. inversion Hwf; subst. simpl in Hsz. lia.
    - destruct q as [|[a b] t]; cbn [bis].
      + exists true, vis. split; auto. split; auto. intros _ j Hc. inversion Hc.
      + inversion Hwf as [|x l Hab Ht]; subst.
        set (mid := (a + b) / 2). pose proof (mid_bounds a b Hab) as Hmid. fold mid in Hmid.
        destruct (valid mid) eqn:Hv.
        * destruct (IH (t ++ (if a <? mid then [(a, mid - 1)] else []) ++ (if mid <? b then [(mid + 1, b)] else [])) (vis ++ [Mid mid])) as (r & vis' & E & I).
          -- unfold wf. rewrite !Forall_app. split; [exact Ht|split].
             ++ destruct (Nat.ltb_spec a mid); constructor; auto. lia.
             ++ destruct (Nat.ltb_spec mid b); constructor; auto. lia.
          -- rewrite !size_app. simpl in Hsz.
             destruct (Nat.ltb_spec a mid); destruct (Nat.ltb_spec mid b); simpl; lia.
          -- exists r, vis'. split; [exact E|]. rewrite I. split; intros H j Hc.
             ++ apply Exists_cons in Hc. destruct Hc as [Hc|Hc].
                ** destruct (Nat.eq_dec j mid) as [->|Hne]; auto.
                   apply H. unfold covers. rewrite !Exists_app. right.
                   destruct (lt_dec j mid).
                   --- left. destruct (Nat.ltb_spec a mid); [constructor; lia|lia].
                   --- right. destruct (Nat.ltb_spec mid b); [constructor; lia|lia].
                ** apply H. unfold covers. rewrite Exists_app. now left.
             ++ unfold covers in Hc. rewrite !Exists_app in Hc. destruct Hc as [Hc|[Hc|Hc]].
                ** apply H. now apply Exists_cons_tl.
                ** destruct (Nat.ltb_spec a mid); inversion Hc as [? ? Hj|? ? Hj]; subst; [|inversion Hj]. apply H. constructor. lia.
                ** destruct (Nat.ltb_spec mid b); inversion Hc as [? ? Hj|? ? Hj]; subst; [|inversion Hj]. apply H. constructor. lia.
        * exists false, (vis ++ [Mid mid]). split; [reflexivity|]. split; [discriminate|].
          intros H. rewrite H in Hv; [discriminate|]. constructor. lia.
  Qed.

  Lemma check_bis_total_iff nd :
    exists r, check_bis valid vend nd = Some r /\ (verdict r = true <-> all_valid nd)
      /\ frac r = None /\ dvalid r + dinvalid r = 1 /\ (dvalid r = 1 <-> verdict r = true).
  Proof.
    unfold check_bis, all_valid. destruct vend; cbn [negb].
    - destruct (Nat.leb_spec 2 nd) as [H2|H2].
      + destruct (bis_spec nd [(1, nd - 1)] [End]) as (r & vis & E & I).
        * constructor; [lia|constructor].
        * simpl. lia.
        * rewrite E. eexists. split; [reflexivity|]. simpl. split.
          -- rewrite I. split.
             ++ intros H. split; [|reflexivity]. intros j Hj. apply H. constructor. lia.
             ++ intros (H & _) j Hc. inversion Hc as [? ? Hj|? ? Hj]; subst; [apply H; lia|inversion Hj].
          -- split; [reflexivity|]. destruct r; simpl; split; auto; split; auto; discriminate.
      + eexists. split; [reflexivity|]. simpl. split; [|split; [reflexivity|split; [reflexivity|tauto]]].
        split; auto. intros _. split; [intros; lia|reflexivity].
    - eexists. split; [reflexivity|]. simpl. split; [|split; [reflexivity|split; [reflexivity|split; discriminate]]].
      split; [discriminate|]. intros (_ & H). discriminate.
  Qed.

  (* ---------- explicit state lists ---------- *)
  Lemma states_lin_spec : forall fuel i count, count - i <= fuel ->
    match states_lin valid fuel i count with
    | None => forall k, i <= k < count -> valid k = true
    | Some k => i <= k < count /\ valid k = false /\ forall m, i <= m < k -> valid m = true
    end.
  Proof.
    induction fuel as [|f IH]; intros i count Hf; cbn [states_lin]; [intros; lia|].
    destruct (Nat.ltb_spec i count) as [Hlt|Hge]; [|intros; lia].
    destruct (valid i) eqn:Ev.
    - specialize (IH (S i) count ltac:(lia)). destruct (states_lin valid f (S i) count) as [k|].
      + destruct IH as (A & B & C). split; [lia|]. split; [exact B|]. intros m Hm.
        destruct (Nat.eq_dec m i) as [->|N]; [exact Ev|apply C; lia].
      + intros k Hk. destruct (Nat.eq_dec k i) as [->|N]; [exact Ev|apply IH; lia].
    - split; [lia|]. split; [exact Ev|intros; lia].
  Qed.

  Definition osize (q : list (nat * nat)) : nat := fold_right (fun '(a, b) s => (b - a - 1) + s) 0 q.
  Definition owf (q : list (nat * nat)) := Forall (fun '(a, b) => a + 1 < b) q.
  Definition ocovers (q : list (nat * nat)) (j : nat) := Exists (fun '(a, b) => a < j < b) q.
  Lemma osize_app q1 q2 : osize (q1 ++ q2) = osize q1 + osize q2.
  Proof. induction q1 as [|[a b] t IH]; simpl; lia. Qed.

  Lemma omid_bounds a b : a + 1 < b -> a < (a + b) / 2 < b.
  Proof.
    intros. split.
    - apply (Nat.lt_le_trans _ (a + 1)); [lia|]. apply Nat.div_le_lower_bound; lia.
    - apply Nat.div_lt_upper_bound; lia.
  Qed.

  Lemma states_bis_spec fuel : forall q vis, owf q -> osize q <= fuel ->
    exists r vis', states_bis valid fuel q vis = Some (r, vis') /\
      (r = true <-> forall j, ocovers q j -> valid j = true).
  Proof.
    induction fuel as [|f IH]; intros q vis Hwf Hsz.
    - destruct q as [|[a b] t]; simpl.
      + exists true, vis. split; auto. split; auto. intros _ j Hc. inversion Hc.
      + exfalso. inversion Hwf; subst. simpl in Hsz. lia.
    - destruct q as [|[a b] t]; cbn [states_bis].
      + exists true, vis. split; auto. split; auto. intros _ j Hc. inversion Hc.
      + inversion Hwf as [|x l Hab Ht]; subst.
        set (mid := (a + b) / 2). pose proof (omid_bounds a b Hab) as Hmid. fold mid in Hmid.
        destruct (valid mid) eqn:Hv.
        * destruct (IH (t ++ (if a <? mid - 1 then [(a, mid)] else []) ++ (if mid + 1 <? b then [(mid, b)] else [])) (vis ++ [mid])) as (r & vis' & E & I).
          -- unfold owf. rewrite !Forall_app. split; [exact Ht|split].
             ++ destruct (Nat.ltb_spec a (mid - 1)); constructor; auto. lia.
             ++ destruct (Nat.ltb_spec (mid + 1) b); constructor; auto.
          -- rewrite !osize_app. simpl in Hsz.
             destruct (Nat.ltb_spec a (mid - 1)); destruct (Nat.ltb_spec (mid + 1) b); simpl; lia.
          -- exists r, vis'. split; [exact E|]. rewrite I. split; intros H j Hc.
             ++ apply Exists_cons in Hc. destruct Hc as [Hc|Hc].
                ** destruct (Nat.eq_dec j mid) as [->|Hne]; auto.
                   apply H. unfold ocovers. rewrite !Exists_app. right.
                   destruct (lt_dec j mid).
                   --- left. destruct (Nat.ltb_spec a (mid - 1)); [constructor; lia|lia].
                   --- right. destruct (Nat.ltb_spec (mid + 1) b); [constructor; lia|lia].
                ** apply H. unfold ocovers. rewrite Exists_app. now left.
             ++ unfold ocovers in Hc. rewrite !Exists_app in Hc. destruct Hc as [Hc|[Hc|Hc]].
                ** apply H. now apply Exists_cons_tl.
                ** destruct (Nat.ltb_spec a (mid - 1)); inversion Hc as [? ? Hj|? ? Hj]; subst; [|inversion Hj]. apply H. constructor. lia.
                ** destruct (Nat.ltb_spec (mid + 1) b); inversion Hc as [? ? Hj|? ? Hj]; subst; [|inversion Hj]. apply H. constructor. lia.
        * exists false, (vis ++ [mid]). split; [reflexivity|]. split; [discriminate|].
          intros H. rewrite H in Hv; [discriminate|]. constructor. lia.
  Qed.

  Lemma check_states_iff count :
    exists r vis, check_states valid count = Some (r, vis) /\ (r = true <-> forall i, i < count -> valid i = true).
  Proof.
    unfold check_states.
    destruct (Nat.eqb_spec count 0) as [->|N0]; [exists true, []; split; auto; split; auto; intros; lia|].
    destruct (Nat.eqb_spec count 1) as [->|N1].
    { exists (valid 0), [0]. split; auto. split; [intros H i Hi; replace i with 0 by lia; exact H|intros H; apply H; lia]. }
    destruct (valid 0) eqn:E0; simpl.
    2:{ exists false, [0]. split; auto. split; [discriminate|]. intros H. rewrite H in E0 by lia. discriminate. }
    destruct (valid (count - 1)) eqn:E1; simpl.
    2:{ exists false, [0; count - 1]. split; auto. split; [discriminate|]. intros H. rewrite H in E1 by lia. discriminate. }
    destruct (Nat.ltb_spec 2 count) as [H2|H2].
    - destruct (states_bis_spec count [(0, count - 1)] [0; count - 1]) as (r & vis & E & I).
      + constructor; [lia|constructor].
      + simpl. lia.
      + exists r, vis. split; [exact E|]. rewrite I. split.
        * intros H i Hi. destruct (Nat.eq_dec i 0) as [->|Ni]; [exact E0|].
          destruct (Nat.eq_dec i (count - 1)) as [->|Nc]; [exact E1|]. apply H. constructor. lia.
        * intros H j Hc. inversion Hc as [? ? Hj|? ? Hj]; subst; [apply H; lia|inversion Hj].
    - exists true, [0; count - 1]. split; auto. split; auto. intros _ i Hi.
      assert (count = 2) by lia. subst. destruct i as [|[|i]]; [exact E0|exact E1|lia].
  Qed.
End Proofs.
