(* Properties_C03.v — property C03 (interrupting, resuming or clearing a planner never corrupts its result).
   Statements only.  The bookkeeping that decides what a planner sees of a query (Planner::setProblemDefinition, clear,
   PlannerInputStates) is modelled exactly and proved for every history; what solve() reports under interruption is
   adjudicated per run by the C01 admission rule (Properties_C01), and "a later solve can only keep or improve" is the
   solution-set theorem C04_best_never_worse (Properties_C04). *)
From Coq Require Import List ZArith Bool Arith.
From OmplV Require Import PisModel PisProofs LedgerModel LedgerProofs RrtModel RrtProofs RrtConnectModel RrtConnectProofs LpaModel LpaProofs.
From OmplV Require RrtStarModel RrtStarCost RrtStarCost2 RrtStarCalls EstModel EstProofs.
Import ListNotations.

(* a fresh query hands out every valid in-bounds start exactly once, in order, then reports that none is left *)
Theorem C03_fresh_query_hands_out_every_valid_start_once : forall w i, w_pis w = Some i -> w_added w = 0 ->
  let starts := pd_starts (get_pd w i) in
  fst (drain_starts (S (length starts)) w) = map fst (filter snd starts) /\
  have_more_starts (snd (drain_starts (S (length starts)) w)) = false.
Proof. exact fresh_query_hands_out_every_valid_start_once. Qed.

(* whatever was handed out belongs to the problem definition in use *)
Theorem C03_start_belongs_to_current_query : forall w s w' i, next_start w = (Some s, w') -> w_pis w = Some i ->
  In (s, true) (pd_starts (get_pd w i)) /\ w_pdefs w' = w_pdefs w /\ w_pis w' = w_pis w /\ w_added w < w_added w'.
Proof. exact next_start_member. Qed.

(* clear() forgets the query progress; so does a different problem definition; the same one keeps it *)
Theorem C03_clear_forgets : forall w i, w_planner w = Some i ->
  let w' := planner_clear w in w_pis w' = Some i /\ w_added w' = 0 /\ w_sampled w' = 0 /\ w_pdefs w' = w_pdefs w.
Proof. exact clear_forgets. Qed.
Theorem C03_new_problem_definition_forgets : forall w i, w_pis w <> Some i ->
  let w' := set_pdef w i in w_pis w' = Some i /\ w_added w' = 0 /\ w_sampled w' = 0 /\ w_planner w' = Some i.
Proof. exact new_pdef_forgets. Qed.
Theorem C03_same_problem_definition_keeps_progress : forall w i, w_pis w = Some i ->
  set_pdef w i = mkW (w_pdefs w) (Some i) (w_pis w) (w_added w) (w_sampled w).
Proof. exact same_pdef_keeps_progress. Qed.
(* hence after clear() the planner is offered exactly the valid starts of the current problem definition again *)
Theorem C03_after_clear_only_current_starts : forall w i, w_planner w = Some i ->
  let w' := planner_clear w in
  fst (drain_starts (S (length (pd_starts (get_pd w i)))) w') = map fst (filter snd (pd_starts (get_pd w i))).
Proof. exact after_clear_only_current_starts. Qed.
Theorem C03_goal_samples_bounded : forall w r w', next_goal w = (r, w') -> w_sampled w' <= S (w_sampled w) /\
  (forall i, w_pis w = Some i -> w_sampled w' <= Nat.max (w_sampled w) (length (pd_goals (get_pd w i)))).
Proof. exact next_goal_counts. Qed.

(* the report of each interrupted / resumed solve is adjudicated by the same admission rule as C01 *)
(* resumed solves of the RRT family (RrtModel.tree_calls: any number of solve() calls on the same planner without clear(), each
   with its own stream of iteration inputs, the tree carried over): the tree keeps its invariant — roots are start states, every
   other node hangs off an earlier node by a motion the extension step vouches for (an extension adds a chain of motions, one in the
   plain planners, one per propagation step with intermediate states) — it only grows, and every call's report is
   real with respect to the tree that call left behind: a chain of vouched motions from a start state, exact => the goal accepts
   the last state, approximate => no state added during that call beats it, no report => that call added nothing.
   Instantiated by geometric::RRT and RLRT (motions checkMotion accepted; the node to extend from is the nearest one / a uniformly
   drawn one) and control::RRT (motions that replay) *)
Theorem C03_rrt_family_resumed_solves_report_real_paths :
  forall (St D I E : Type) (dlt : D -> D -> bool) (select : list (St * option (nat * E)) -> I -> nat) extend sat gdist (dflt : St)
         (EdgeOk : St -> E -> St -> Prop),
  (forall a b c, dlt a b = true -> dlt b c = true -> dlt a c = true) -> (forall a, dlt a a = false) ->
  (forall n i, echain_ok St E EdgeOk n (extend n i)) -> (forall tree i, tree <> [] -> (select tree i < length tree)%nat) ->
  forall starts calls tree0 new_starts, RrtProofs.TInv St E EdgeOk starts tree0 -> (forall x, In x new_starts -> In x starts) ->
  tree0 ++ map (fun x => (x, None)) new_starts <> [] ->
  let res := tree_calls St D I E dlt select extend sat gdist dflt tree0 new_starts calls in
  RrtProofs.TInv St E EdgeOk starts (fst res) /\
  Forall (fun rep => exists base tree, report_ok St D E sat gdist dlt dflt EdgeOk starts base tree rep /\ RrtProofs.TInv St E EdgeOk starts tree /\
                                       exists ext, fst res = tree ++ ext) (snd res).
Proof. exact tree_calls_spec. Qed.
(* resumed solves of geometric::RRTConnect (RrtConnectModel.rc_solves: both trees, the alternation flag and the count of goal states
   taken are kept across calls, the solution and the approximate solution are local to a call): for every number of calls and every
   sample stream per call both trees keep their invariants and every call's report is real — an exact one runs from a start state to
   a goal state with every consecutive pair validated in the direction it is traversed, an approximate one is a start-tree chain *)
Theorem C03_rrtconnect_resumed_solves_report_real_paths :
  forall (St D : Type) dist (dlt : D -> D -> bool) steer mvS mvG gdist goals (dflt : St),
  (forall n r d, steer n r = Some (d, true) -> d = r) ->
  forall starts fuel calls, starts <> [] ->
  Forall (ReportOk St D mvS mvG gdist goals dflt starts) (snd (rc_solves St D dist dlt steer mvS mvG gdist goals dflt fuel starts calls)) /\
  RrtConnectProofs.TInv St mvS mvG true starts (c_ts St D (fst (rc_solves St D dist dlt steer mvS mvG gdist goals dflt fuel starts calls))) /\
  RrtConnectProofs.TInv St mvS mvG false goals (c_tg St D (fst (rc_solves St D dist dlt steer mvS mvG gdist goals dflt fuel starts calls))).
Proof. exact rc_solves_spec. Qed.
(* LazyLBTRRT's incremental shortest-path structure (LPAstarOnGraph, LpaModel.v): with the repaired queue-removal rule, after EVERY
   history of edge insertions, removals and shortest-path computations (any graph, any heuristic): node identities are unique, a
   node's isInQueue flag is true exactly when the queue holds it, it holds it once (BInv), and every node whose cost-to-come differs
   from its one-step look-ahead value is queued (CInv []) — the property whose failure under the pinned rule left stale costs
   behind and let the parent pointers form a cycle *)
Theorem C03_lpastar_queue_invariants_after_every_history :
  forall (hfun : nat -> Z) src tgt fuel, src <> tgt -> forall ops,
  let s := fold_left (fun s o => fst (lpa_step false hfun fuel s o)) ops (lpa_init hfun src tgt) in
  BInv s /\ CInv [] s.
Proof. exact lpa_history_winv. Qed.
Theorem C03_admission_sound : forall r, admissible r = true ->
  (is_solution_status (r_status r) = true -> C01_solution r) /\
  (is_solution_status (r_status r) = false -> r_paths_after r = r_paths_before r).
Proof. exact admissible_sound. Qed.

Print Assumptions C03_fresh_query_hands_out_every_valid_start_once.
Print Assumptions C03_start_belongs_to_current_query.
Print Assumptions C03_clear_forgets.
Print Assumptions C03_new_problem_definition_forgets.
Print Assumptions C03_same_problem_definition_keeps_progress.
Print Assumptions C03_after_clear_only_current_starts.
Print Assumptions C03_goal_samples_bounded.
Print Assumptions C03_rrt_family_resumed_solves_report_real_paths.
(* geometric::RRTstar across solve() calls without clear() (RrtStarCalls: the tree, the goal motions, the best goal motion and the best
   cost persist, the approximate-solution bookkeeping is local to a call): under the order hypotheses of C01_rrtstar_reports_only_real_paths
   and a symmetric-shortcut used only for a symmetric objective, for ANY number of calls with any iteration counts, tapes and samples, every
   call that reports a path reports one that begins at a start state, consists of validated motions, ends in a goal state when exact, and
   carries as stored cost the objective's cost of that path *)
Theorem C03_rrtstar_resumed_solves_report_real_paths :
  forall (St C : Type) (dist : St -> St -> C) (clt : C -> C -> bool) (cadd : C -> C -> C) (c0 : C) (mcost : St -> St -> C) (sym : bool) (csat : C -> bool)
         (steer : St -> St -> St) (maxd : C) (mv : St -> St -> bool) (sat : St -> bool) (gdist : St -> C) (goal_state dflt : St) (bias : C) (kof : nat -> nat),
  (sym = true -> forall a b : St, mcost a b = mcost b a) ->
  (forall a b c : C, RrtStarCost.cle C clt a b -> RrtStarCost.cle C clt b c -> RrtStarCost.cle C clt a c) ->
  forall nn : C -> Prop, (forall a i : C, nn i -> RrtStarCost.cle C clt a (cadd a i)) -> (forall a : C, clt a a = false) -> nn c0 -> (forall a b : St, nn (mcost a b)) ->
  forall (starts : list St) (calls : list (nat * list C * list St)), starts <> nil ->
  Forall (fun rep => exists l : list (RrtStarModel.node St C), RrtStarCalls.ReportOk St C cadd c0 mcost mv sat dflt starts l rep)
         (snd (RrtStarCalls.star_solves St C dist clt cadd c0 mcost sym csat steer maxd mv sat gdist goal_state dflt bias kof starts calls)).
Proof. exact RrtStarCalls.star_solves_spec. Qed.

(* geometric::EST is an instance of the family as well (EstModel: the node to expand from is what the PDF selects, clamped into the tree;
   an extension is the candidate state if checkMotion accepts it): any number of solve() calls, any inputs per call — whatever the PDF,
   the neighbourhood counts and the density test made of the tape — leave a tree of validated motions and real reports *)
Theorem C03_est_resumed_solves_report_real_paths :
  forall (St D : Type) (dlt : D -> D -> bool) (mv : St -> St -> bool) sat gdist (dflt : St),
  (forall a b c, dlt a b = true -> dlt b c = true -> dlt a c = true) -> (forall a, dlt a a = false) ->
  forall starts (calls : list (list (nat * St))) tree0 new_starts, RrtProofs.TInv St unit (gEdge St mv) starts tree0 -> (forall x, In x new_starts -> In x starts) ->
  tree0 ++ map (fun x => (x, None)) new_starts <> [] ->
  let res := tree_calls St D (nat * St) unit dlt (EstModel.est_select St) (EstModel.est_extend St mv) sat gdist dflt tree0 new_starts calls in
  RrtProofs.TInv St unit (gEdge St mv) starts (fst res) /\
  Forall (fun rep => exists base tree, report_ok St D unit sat gdist dlt dflt (gEdge St mv) starts base tree rep /\ RrtProofs.TInv St unit (gEdge St mv) starts tree /\
                                       exists ext, fst res = tree ++ ext) (snd res).
Proof.
  intros St D dlt mv sat gdist dflt Htr Hir. apply (tree_calls_spec St D (nat * St)%type unit dlt (EstModel.est_select St) (EstModel.est_extend St mv) sat gdist dflt (gEdge St mv) Htr Hir).
  - intros n i. unfold EstModel.est_extend. destruct (rrt_extend St (fun _ r => r) mv n (snd i)) as [[d e]|] eqn:Ex; [|exact I].
    split; [apply (rrt_extend_ok St (fun _ r => r) mv n (snd i) d e Ex)|exact I].
  - intros tree i H. apply EstProofs.est_select_lt. exact H.
Qed.

Print Assumptions C03_est_resumed_solves_report_real_paths.
Print Assumptions C03_rrtstar_resumed_solves_report_real_paths.
Print Assumptions C03_rrtconnect_resumed_solves_report_real_paths.
Print Assumptions C03_lpastar_queue_invariants_after_every_history.
Print Assumptions C03_admission_sound.

Example C03_nonvacuous :
  let w0 := mkW [mkPd [(2, true); (4, false); (6, true)]%Z [(3, true); (8, false)]%Z 0; mkPd [(14, true)]%Z [(7, true)]%Z 0] None None 0 0 in
  qrun w0 [QUse 0; QNextStart; QNextStart; QNextStart; QMoreStarts; QClear; QNextStart; QUse 1; QNextStart; QUse 0; QNextStart; QNextGoal; QNextGoal; QNextGoal]
  = [OUnit; OState (Some 2%Z); OState (Some 6%Z); OState None; OBool false; OUnit; OState (Some 2%Z); OUnit; OState (Some 14%Z); OUnit; OState (Some 2%Z);
     OState (Some 3%Z); OState None; OState None].
Proof. vm_compute. reflexivity. Qed.

(* two solve() calls of RRT on the integer line (steps of at most 3, wall between 6 and 7, goal -8): the first reports an
   approximate path, the second — resumed on the same tree — an exact one *)
Definition zsteer3 (n r : Z) : Z := if (3 <? Z.abs (r - n))%Z then (if (n <? r)%Z then n + 3 else n - 3)%Z else r.
Definition zmv67 (a b : Z) : bool := negb ((Z.min a b <=? 6) && (7 <=? Z.max a b))%Z.
Example C03_rrt_resume_nonvacuous :
  rrt_calls Z Z (fun a b => Z.abs (a - b)) Z.ltb zsteer3 zmv67 (fun s => (s =? -8)%Z) (fun s => Z.abs (s + 8)) (-8)%Z 0%Z [0%Z]
            [([false; false], [5; 2]%Z); ([false; true; false; true; true], [-4; 9]%Z)]
  = ([(0%Z, None); (3%Z, Some 0%nat); (2%Z, Some 1%nat); (-3, Some 0%nat)%Z; (-6, Some 3%nat)%Z; (6%Z, Some 1%nat); (-8, Some 4%nat)%Z],
     [Some ([0; 3; 2]%Z, true, 10%Z); Some ([0; -3; -6; -8]%Z, false, 0%Z)]).
Proof. vm_compute. reflexivity. Qed.

(* the pinned rule (std::multiset::erase(key): every node with an equivalent stored key leaves the queue, only one flag is cleared)
   refuted: after five operations node 2 is inconsistent (g = inf, rhs = 1), flagged as queued, and not in the queue; the repaired
   rule keeps it *)
Definition lpa_h0 (_ : nat) : Z := 0%Z.
Definition lpa_run (erase_all : bool) (src tgt : nat) (ops : list lop) :=
  fold_left (fun acc o => let '(s, r) := lpa_step erase_all lpa_h0 50 (fst acc) o in (s, snd acc ++ [r])) ops (lpa_init lpa_h0 src tgt, []).
Definition lpa_lose : list lop := [LIns 0 3 9; LSp; LIns 0 1 1; LIns 0 2 1; LRem 0 1]%nat%Z.
Example C03_lpastar_pinned_rule_loses_nodes_refuted :
  (let s := fst (lpa_run true 0 3 lpa_lose) in (l_queue s, map (fun n => (n_id n, n_g n, n_r n, n_inq n)) (l_nodes s)))
    = ([], [(0%nat, Some 0%Z, Some 0%Z, false); (3%nat, Some 9%Z, Some 9%Z, false); (1%nat, None, None, false); (2%nat, None, Some 1%Z, true)]) /\
  l_queue (fst (lpa_run false 0 3 lpa_lose)) = [2%nat].
Proof. vm_compute. split; reflexivity. Qed.
(* and an eleven-operation history after which computeShortestPath reports cost 2 for the target and then follows the parent
   pointers 6 -> 4 -> 1 -> 4 -> ... without end (the walk does not finish within 50 steps on 6 nodes); with the repaired rule the same
   history ends with every node but the source at infinity and an empty path *)
Definition lpa_hang : list lop :=
  [LIns 5 6 3; LIns 4 1 1; LRem 5 6; LSp; LIns 0 4 1; LSp; LRem 0 4; LIns 2 0 1; LRem 0 2; LIns 4 6 1; LSp]%nat%Z.
Example C03_lpastar_pinned_rule_parent_cycle_refuted :
  (let '(s, r) := lpa_run true 0 6 lpa_hang in
   (last r None, map (fun n => (n_id n, n_par n)) (filter (fun n => Nat.eqb (n_id n) 4 || Nat.eqb (n_id n) 1 || Nat.eqb (n_id n) 6) (l_nodes s))))
    = (Some (Some 2%Z, None), [(6%nat, Some 4%nat); (4%nat, Some 1%nat); (1%nat, Some 4%nat)]) /\
  last (snd (lpa_run false 0 6 lpa_hang)) None = Some (None, Some []).
Proof. vm_compute. split; reflexivity. Qed.
