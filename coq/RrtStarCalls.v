(* RrtStarCalls.v — geometric::RRTstar across solve() calls without clear(): the tree, the goal motions, the best goal motion and the
   best cost persist (members); the approximate-solution bookkeeping is local to a call and starts afresh.  Every call's report is
   real, for any number of calls (C03), and carries the cost of its path (C04). *)
From Coq Require Import List Bool Arith Lia Permutation.
From OmplV Require Import LedgerProofs RrtStarModel RrtStarProofs RrtStarCost RrtStarCost2.
Import ListNotations.

Section Calls.
  Variables St C : Type.
  Variable dist : St -> St -> C.
  Variable clt : C -> C -> bool.
  Variable cadd : C -> C -> C.
  Variable c0 : C.
  Variable mcost : St -> St -> C.
  Variable sym : bool.
  Variable csat : C -> bool.
  Variable steer : St -> St -> St.
  Variable maxd : C.
  Variable mv : St -> St -> bool.
  Variable sat : St -> bool.
  Variable gdist : St -> C.
  Variable goal_state dflt : St.
  Variable bias : C.
  Variable kof : nat -> nat.
  Notation node := (node St C).
  Notation nd := (nd St C c0 dflt).
  Notation n_st := (n_st St C).
  Notation n_par := (n_par St C).
  Notation n_cost := (n_cost St C).
  Notation mkN := (mkN St C).
  Notation star_loop := (star_loop St C dist clt cadd c0 mcost sym csat steer maxd mv sat gdist goal_state dflt bias kof).
  Notation chain := (chain St C c0 dflt).

  Definition star_report (s : rs St C) : option (list St * bool * C * C * bool) :=
    let l := nodes St C s in
    match best St C s, approx St C s with
    | Some (g, bc), _ => Some (chain (S (length l)) l g, false, c0, n_cost (nd l g), csat bc)
    | None, Some (a, ad) => Some (chain (S (length l)) l a, true, ad, n_cost (nd l a), false)
    | None, None => None
    end.
  (* one call of solve() on a planner in state s *)
  Definition star_call (s : rs St C) (iters : nat) (tape : list C) (samples : list St) : rs St C * option (list St * bool * C * C * bool) :=
    let s' := star_loop iters (mkRS St C (nodes St C s) (goals St C s) (best St C s) None) tape samples in (s', star_report s').
  Fixpoint star_calls (s : rs St C) (calls : list (nat * list C * list St)) : rs St C * list (option (list St * bool * C * C * bool)) :=
    match calls with
    | [] => (s, [])
    | (iters, tape, samples) :: rest =>
      let '(s1, rep) := star_call s iters tape samples in let '(s2, reps) := star_calls s1 rest in (s2, rep :: reps)
    end.
  Definition star_solves (starts : list St) (calls : list (nat * list C * list St)) :=
    star_calls (mkRS St C (map (fun x => mkN x None c0 c0) starts) [] None None) calls.
  Lemma star_solve_is_one_call starts iters tape samples :
    star_solve St C dist clt cadd c0 mcost sym csat steer maxd mv sat gdist goal_state dflt bias kof starts iters tape samples =
    (nodes St C (fst (star_call (mkRS St C (map (fun x => mkN x None c0 c0) starts) [] None None) iters tape samples)),
     snd (star_call (mkRS St C (map (fun x => mkN x None c0 c0) starts) [] None None) iters tape samples)).
  Proof. reflexivity. Qed.

  (* ---- every call's report *)
  Hypothesis sym_ok : sym = true -> forall a b, mcost a b = mcost b a.
  Hypothesis cle_trans : forall a b c, cle C clt a b -> cle C clt b c -> cle C clt a c.
  Variable nn : C -> Prop.
  Hypothesis nn_add : forall a i, nn i -> cle C clt a (cadd a i).
  Hypothesis clt_irrefl : forall a, clt a a = false.
  Hypothesis nn_c0 : nn c0.
  Hypothesis nn_mcost : forall a b, nn (mcost a b).
  Variable starts : list St.
  Notation EInv := (EInv St C c0 mv dflt starts).
  Notation GInv := (GInv St C c0 sat dflt).
  Notation FInv := (FInv St C cadd c0 dflt nn).
  Notation XInv := (XInv St C c0 dflt mcost).
  Definition AllInv (s : rs St C) : Prop := nodes St C s <> [] /\ EInv (nodes St C s) /\ GInv s /\ FInv (nodes St C s) /\ XInv (nodes St C s).
  Definition ReportOk (l : list node) (rep : option (list St * bool * C * C * bool)) : Prop :=
    match rep with
    | Some (path, approx, dd, stored, opt) =>
        path <> [] /\ In (hd dflt path) starts /\ consecutive (fun a b => mv a b = true) path /\
        (exists i, i < length l /\ last path dflt = n_st (nd l i) /\ stored = n_cost (nd l i)) /\
        (approx = false -> sat (last path dflt) = true) /\ stored = pathcost St C cadd c0 mcost path
    | None => True
    end.
  Lemma report_spec (s : rs St C) : AllInv s -> ReportOk (nodes St C s) (star_report s).
  Proof.
    intros (A & B & (G1 & G2 & G3) & F & X). unfold star_report. set (l := nodes St C s) in *. destruct F as (HR & HA & HK & HN).
    assert (RP : forall g, g < length l -> let path := chain (S (length l)) l g in
                 path <> [] /\ In (hd dflt path) starts /\ consecutive (fun a b => mv a b = true) path /\ last path dflt = n_st (nd l g) /\
                 n_cost (nd l g) = pathcost St C cadd c0 mcost path).
    { intros g Hg path. destruct (chain_spec St C c0 mv dflt starts (S (length l)) l g B Hg) as (C1 & C2). destruct (C2 ltac:(congruence)) as (C3 & C4).
      assert (Hnone : kth St C c0 dflt l g (length l) = None).
      { destruct (kth St C c0 dflt l g (length l)) eqn:E; [|reflexivity]. pose proof (kth_bound St C c0 dflt l g (length l) Hg HR HA ltac:(congruence)). lia. }
      destruct (chain_reaches_root St C c0 dflt (length l) l g Hnone) as (k & r & Hk1 & Hk2 & Hk3).
      destruct (chain_hd St C c0 dflt (S (length l)) l g k r Hk2 Hk3 ltac:(lia)) as (H1 & _).
      destruct (chain_cost St C cadd c0 dflt mcost (S (length l)) l g k r HK X HR Hg Hk2 Hk3 ltac:(lia)) as (H2 & _).
      split; [exact C3|]. split; [|split; [exact C1|split; [exact C4|exact H2]]]. unfold path. rewrite H1.
      pose proof (kth_lt St C c0 dflt k l g r HR Hg Hk2) as Hr. specialize (B r Hr). rewrite Hk3 in B. exact B. }
    destruct (best St C s) as [[g bc]|] eqn:Eb.
    - destruct (G1 g (G2 g bc eq_refl)) as (Hg & Hsat). fold l in Hg, Hsat. destruct (RP g Hg) as (P1 & P2 & P3 & P4 & P5).
      split; [exact P1|]. split; [exact P2|]. split; [exact P3|]. split; [exists g; split; [exact Hg|split; [exact P4|reflexivity]]|]. split; [intros _; rewrite P4; exact Hsat|exact P5].
    - destruct (approx St C s) as [[a ad]|] eqn:Ea; [|exact I]. specialize (G3 a ad eq_refl). fold l in G3. destruct (RP a G3) as (P1 & P2 & P3 & P4 & P5).
      split; [exact P1|]. split; [exact P2|]. split; [exact P3|]. split; [exists a; split; [exact G3|split; [exact P4|reflexivity]]|]. split; [intros H; discriminate|exact P5].
  Qed.
  Lemma call_inv (s : rs St C) iters tape samples : AllInv s -> AllInv (fst (star_call s iters tape samples)).
  Proof.
    intros (A & B & (G1 & G2 & G3) & F & X). unfold star_call. cbn [fst].
    apply (star_loop_x St C clt cadd c0 dflt dist mcost sym csat steer maxd mv sat gdist goal_state bias kof sym_ok cle_trans nn nn_add clt_irrefl nn_c0 nn_mcost starts iters
             (mkRS St C (nodes St C s) (goals St C s) (best St C s) None) tape samples); cbn [nodes goals best approx]; try assumption.
    split; [exact G1|]. split; [exact G2|]. intros a d H. discriminate.
  Qed.
  (* any number of solve() calls: the invariants hold after each and every call's report is real and carries the cost of its path *)
  Theorem star_calls_spec : forall calls (s : rs St C), AllInv s ->
    AllInv (fst (star_calls s calls)) /\ Forall (fun rep => exists l, ReportOk l rep) (snd (star_calls s calls)).
  Proof.
    induction calls as [|[[iters tape] samples] rest IH]; intros s HI; cbn [star_calls]; [split; [exact HI|constructor]|].
    pose proof (call_inv s iters tape samples HI) as H1. destruct (star_call s iters tape samples) as [s1 rep] eqn:Ec. cbn [fst] in H1.
    destruct (IH s1 H1) as (H2 & H3). destruct (star_calls s1 rest) as [s2 reps]. cbn [fst snd] in *. split; [exact H2|]. constructor; [|exact H3].
    exists (nodes St C s1). unfold star_call in Ec. injection Ec as <- <-. apply report_spec. 
    pose proof (call_inv s iters tape samples HI) as H4. unfold star_call in H4. cbn [fst] in H4. exact H4.
  Qed.

  Lemma init_all : starts <> [] -> AllInv (mkRS St C (map (fun x => mkN x None c0 c0) starts) [] None None).
  Proof.
    intros Hs. set (s0 := mkRS St C (map (fun x => mkN x None c0 c0) starts) [] None None).
    assert (N0 : forall j, nd (nodes St C s0) j = mkN (nth j starts dflt) None c0 c0).
    { intros j. cbn [nodes s0]. unfold RrtStarModel.nd. change (mkN dflt None c0 c0) with ((fun x => mkN x None c0 c0) dflt). rewrite map_nth. reflexivity. }
    split; [cbn [nodes s0]; destruct starts; [congruence|discriminate]|]. split; [|split; [|split]].
    - intros j Hj. rewrite N0. cbn [RrtStarModel.n_par RrtStarModel.n_st]. cbn [nodes s0] in Hj. rewrite map_length in Hj. apply nth_In. exact Hj.
    - split; [intros g []|]. split; [intros g c H; discriminate|intros a d H; discriminate].
    - split; [|split; [|split]].
      + intros j p _ Hp. rewrite N0 in Hp. discriminate.
      + intros j. constructor. intros p (_ & Hp). rewrite N0 in Hp. discriminate.
      + intros j. unfold K. rewrite N0. exact I.
      + intros j. rewrite N0. exact nn_c0.
    - split; [intros j p Hp; rewrite N0 in Hp; discriminate|intros j _ _; rewrite N0; reflexivity].
  Qed.
  Theorem star_solves_spec : forall calls, starts <> [] -> Forall (fun rep => exists l, ReportOk l rep) (snd (star_solves starts calls)).
  Proof. intros calls Hs. unfold star_solves. apply (star_calls_spec calls _ (init_all Hs)). Qed.
End Calls.
