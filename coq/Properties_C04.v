(* Properties_C04.v — property C04: solution ordering (best first) and cost algebra.  Statements only. *)
From Coq Require Import List ZArith Bool Sorted Permutation Reals.
From OmplV Require Import SolModel SolProofs SpacesModel CostModel CostProofs RrtStarModel RrtStarProofs RrtStarCost RrtStarCost2.
Import ListNotations.

(* for solutions that share one objective (or none), operator< IS the intended lexicographic order:
   exact before approximate; among approximate smaller difference; among exact objective-satisfying first, then better cost *)
Theorem C04_operator_lt_is_lexicographic :
  forall a b, homog a b -> slt a b = lexlt (rank a) (rank b).
Proof. exact slt_rank. Qed.

(* hence a strict weak order: irreflexive, transitive, and incomparability means equal rank *)
Theorem C04_strict_weak_order :
  (forall r, lexlt r r = false) /\
  (forall r s t, lexlt r s = true -> lexlt s t = true -> lexlt r t = true) /\
  (forall r s, lexlt r s = false -> lexlt s r = false -> r = s).
Proof. split; [exact lexlt_irrefl|split; [exact lexlt_trans|exact lexlt_total]]. Qed.

(* after any sequence of additions the stored solutions are in order and nothing is lost *)
Theorem C04_set_sorted_after_add :
  forall s set, Homog (set ++ [s]) -> ordered (sol_add s set) /\ Permutation (sol_add s set) (set ++ [s]).
Proof. intros s set H. split; [apply sort_ordered; exact H|apply sort_perm]. Qed.

(* ... lifted to EVERY sequence of addSolution calls: the set is a permutation of everything added and, once
   something was added, it is in order (so its head is the best solution found so far) *)
Theorem C04_set_sorted_for_every_add_sequence :
  forall sols set0, Homog (set0 ++ sols) ->
    let set := fold_left (fun st s => sol_add s st) sols set0 in
    Permutation set (set0 ++ sols) /\ (sols <> [] -> ordered set).
Proof.
  induction sols as [|s t IH]; intros set0 H; cbn [fold_left].
  - split; [rewrite app_nil_r; apply Permutation_refl | intros C; contradiction C; reflexivity].
  - assert (P1 : Permutation (sol_add s set0) (set0 ++ [s])) by apply sort_perm.
    assert (P2 : Permutation (sol_add s set0 ++ t) (set0 ++ s :: t)).
    { replace (set0 ++ s :: t) with ((set0 ++ [s]) ++ t) by (rewrite <- app_assoc; reflexivity).
      apply Permutation_app_tail. exact P1. }
    assert (H' : Homog (sol_add s set0 ++ t)).
    { intros a b Ha Hb. apply H; eapply Permutation_in; eauto. }
    destruct (IH (sol_add s set0) H') as [Q O]. split.
    + eapply perm_trans; [exact Q|exact P2].
    + intros _. destruct t as [|u t'].
      * cbn [fold_left]. apply sort_ordered. intros a b Ha Hb. apply H; assumption.
      * apply O. discriminate.
Qed.

(* the problem definition hands out the best solution first *)
Theorem C04_top_is_best :
  forall s set t, Homog (set ++ [s]) -> sol_top (sol_add s set) = Some t ->
    forall x, In x (set ++ [s]) -> lexlt (rank x) (rank t) = false.
Proof.
  intros s set t H Ht x Hx. destruct (C04_set_sorted_after_add s set H) as (O & P).
  unfold sol_top in Ht. destruct (sol_add s set) as [|y l] eqn:E; [discriminate|]. injection Ht as ->.
  apply (Permutation_in _ (Permutation_sym P)) in Hx. destruct Hx as [<-|Hx]; [apply lexlt_irrefl|].
  inversion O as [|? ? _ F]; subst. rewrite Forall_forall in F. apply F. exact Hx.
Qed.

(* the best stored solution never gets worse when another solution is added *)
Theorem C04_best_never_worse :
  forall s set t0 t1, Homog (set ++ [s]) -> sol_top set = Some t0 -> sol_top (sol_add s set) = Some t1 ->
    lexlt (rank t0) (rank t1) = false.
Proof.
  intros s set t0 t1 H H0 H1. apply (C04_top_is_best s set t1 H H1). apply in_or_app. left.
  unfold sol_top in H0. destruct set; [discriminate|]. injection H0 as ->. left. reflexivity.
Qed.

(* path length is never below the straight-line (direct) distance, for any metric *)
Theorem C04_path_length_ge_direct_distance :
  forall (X : Type) (d : X -> X -> R), (forall x, d x x = 0%R) -> (forall x y z, (d x z <= d x y + d y z)%R) ->
    forall p a, (d a (last p a) <= plen X d (a :: p))%R.
Proof. exact plen_ge_direct. Qed.

(* ---- how a reported path's cost is computed (CostModel.v: PathGeometric::cost with the shipped objectives; its
   binary64 instance reproduces the library's value bit for bit on every reported path) ---- *)
(* path length objective: the cost is the path's length, hence (theorem above) never below the direct distance *)
Theorem C04_length_cost_is_path_length :
  forall (S : Type) (d : S -> S -> R) (p : list (pt RA S)), cost_length RA S d p = plen S d (map fst p).
Proof. exact cost_length_is_length. Qed.
(* state-cost integral: never below (smallest state cost on the path) x (path length): the admissible bound used for it *)
Theorem C04_integral_cost_lower_bound :
  forall (S : Type) (d : S -> S -> R), (forall x y, (0 <= d x y)%R) ->
    forall cmin (p : list (pt RA S)), (0 <= cmin)%R -> Forall (fun s => (cmin <= snd s)%R) p ->
      (cmin * plen S d (map fst p) <= cost_integral RA S d p)%R.
Proof. exact cost_integral_lower_bound. Qed.
(* mechanical work (only positive changes of the state cost accrue, plus weight x length): the cost of a path is never below
   weight x path length, never below its net climb plus weight x path length, hence in a metric space never below
   max(c(last) - c(first), 0) + weight x direct distance — the admissible lower bound for a query *)
Theorem C04_work_cost_lower_bounds :
  forall (S : Type) (d : S -> S -> R), (forall x y, (0 <= d x y)%R) ->
    forall w (p : list (pt RA S)) (s0 : pt RA S), (0 <= w)%R ->
      (w * plen S d (map fst (s0 :: p)) <= cost_work RA S d w (s0 :: p))%R /\
      ((snd (last p s0) - snd s0) + w * plen S d (map fst (s0 :: p)) <= cost_work RA S d w (s0 :: p))%R.
Proof. exact cost_work_lower_bounds. Qed.
Theorem C04_work_cost_admissible_bound :
  forall (S : Type) (d : S -> S -> R), (forall x, d x x = 0%R) -> (forall x y z, (d x z <= d x y + d y z)%R) -> (forall x y, (0 <= d x y)%R) ->
    forall w (p : list (pt RA S)) (s0 : pt RA S), (0 <= w)%R ->
      (Rmax (snd (last p s0) - snd s0) 0 + w * d (fst s0) (fst (last p s0)) <= cost_work RA S d w (s0 :: p))%R.
Proof. exact cost_work_admissible_bound. Qed.
(* its motion cost depends on the direction of the motion (so the objective must not claim to be symmetric: planners that
   rewire reuse the cost of the opposite motion for symmetric objectives) *)
Theorem C04_work_motion_cost_is_directional :
  forall w, work_motion RA unit (fun _ _ => 1%R) w (tt, 0%R) (tt, 1%R) <> work_motion RA unit (fun _ _ => 1%R) w (tt, 1%R) (tt, 0%R).
Proof. exact work_motion_not_symmetric. Qed.
(* the weighted multi-objective (MultiOptimizationObjective: motion cost = sum of weight x component motion cost): the cost of a
   path is the weighted sum of the costs its components give it, for every list of components; the instance the cost driver runs *)
Theorem C04_multi_cost_is_weighted_sum :
  forall (S : Type) (comps : list (R * (pt RA S -> pt RA S -> R))) (p : list (pt RA S)),
    cost_multi RA S comps p = fold_right (fun k acc => (fst k * path_cost RA S (f0 RA) (fadd RA) (snd k) p + acc)%R) 0%R comps.
Proof. exact cost_multi_is_weighted_sum. Qed.
Theorem C04_multi_length_plus_integral :
  forall (S : Type) (d : S -> S -> R) w1 w2 (p : list (pt RA S)),
    cost_multi RA S ((w1, length_motion RA S d) :: (w2, integral_motion RA S d) :: nil) p = (w1 * cost_length RA S d p + w2 * cost_integral RA S d p)%R.
Proof. exact cost_length_plus_integral. Qed.
(* what geometric::RRTstar stores (RrtStarModel, the planner as a whole; its runs agree with the library bit for bit incl. every cost):
   after any number of iterations, under the order hypotheses of C01_rrtstar_reports_only_real_paths, every motion's cost is its parent's
   cost combined with its incCost (updateChildCosts restores this in the whole subtree after every rewiring), incCosts are motion costs,
   and the parent structure is acyclic — so the cost stored with the reported motion is the combination of the incCosts along the
   reported path: for this planner the stored cost is not merely 'never better than' but equal to the cost accumulated along its path *)
Theorem C04_rrtstar_cost_is_parent_cost_plus_inccost :
  forall (St C : Type) (clt : C -> C -> bool) (cadd : C -> C -> C) (c0 : C) (dflt : St),
  (forall a b c : C, cle C clt a b -> cle C clt b c -> cle C clt a c) ->
  forall nn : C -> Prop, (forall a i : C, nn i -> cle C clt a (cadd a i)) -> (forall a : C, clt a a = false) -> nn c0 ->
  forall (dist mcost : St -> St -> C) (sym : bool) (csat : C -> bool) (steer : St -> St -> St) (maxd : C) (mv : St -> St -> bool) (sat : St -> bool)
         (gdist : St -> C) (goal_state : St) (bias : C) (kof : nat -> nat),
  (forall a b : St, nn (mcost a b)) ->
  forall (starts : list St) (iters : nat) (tape : list C) (samples : list St), starts <> nil ->
  let tree := fst (star_solve St C dist clt cadd c0 mcost sym csat steer maxd mv sat gdist goal_state dflt bias kof starts iters tape samples) in
  forall j, match n_par St C (nd St C c0 dflt tree j) with
            | Some p => n_cost St C (nd St C c0 dflt tree j) = cadd (n_cost St C (nd St C c0 dflt tree p)) (n_inc St C (nd St C c0 dflt tree j))
            | None => True
            end.
Proof.
  intros St C clt cadd c0 dflt H1 nn H2 H3 H4 dist mcost sym csat steer maxd mv sat gdist goal_state bias kof H5 starts iters tape samples Hs tree j.
  destruct (star_solve_full St C clt cadd c0 dflt H1 nn H2 H3 H4 dist mcost sym csat steer maxd mv sat gdist goal_state bias kof H5 starts iters tape samples Hs) as (_ & (_ & _ & HK & _) & _).
  exact (HK j).
Qed.
(* ... and that cost is the objective's cost of the reported path, accumulated from its first state as PathGeometric::cost does —
   PROVIDED the symmetric-cost shortcut of the rewiring pass (reuse of the cost of the opposite motion when isSymmetric() answers true)
   is only taken for an objective whose motion cost really is symmetric.  This hypothesis is the defect repaired in
   MechanicalWorkOptimizationObjective (it answered true); the example after the assumptions shows what happens without it *)
Theorem C04_rrtstar_stored_cost_is_cost_of_reported_path :
  forall (St C : Type) (clt : C -> C -> bool) (cadd : C -> C -> C) (c0 : C) (dflt : St) (dist mcost : St -> St -> C) (sym : bool) (csat : C -> bool)
         (steer : St -> St -> St) (maxd : C) (mv : St -> St -> bool) (sat : St -> bool) (gdist : St -> C) (goal_state : St) (bias : C) (kof : nat -> nat),
  (sym = true -> forall a b : St, mcost a b = mcost b a) ->
  (forall a b c : C, cle C clt a b -> cle C clt b c -> cle C clt a c) ->
  forall nn : C -> Prop, (forall a i : C, nn i -> cle C clt a (cadd a i)) -> (forall a : C, clt a a = false) -> nn c0 -> (forall a b : St, nn (mcost a b)) ->
  forall (starts : list St) (iters : nat) (tape : list C) (samples : list St), starts <> nil ->
  match snd (star_solve St C dist clt cadd c0 mcost sym csat steer maxd mv sat gdist goal_state dflt bias kof starts iters tape samples) with
  | Some (path, _, _, stored, _) => stored = pathcost St C cadd c0 mcost path
  | None => True
  end.
Proof. exact star_stored_cost_is_path_cost. Qed.
(* minimax objectives: the path cost is the worst state cost evaluated along any motion, both end states of every
   motion included (or the identity cost): the maximum for MinimaxObjective, the minimum for max-min clearance *)
Theorem C04_minimax_cost_is_max :
  forall ident motions, Forall (fun ev => ev <> []) motions ->
    (ident <= mm_path RA better_min ident motions)%R /\
    (forall ev c, In ev motions -> In c ev -> (c <= mm_path RA better_min ident motions)%R) /\
    (mm_path RA better_min ident motions = ident \/ exists ev, In ev motions /\ In (mm_path RA better_min ident motions) ev).
Proof. exact minimax_path_cost_is_max. Qed.
Theorem C04_clearance_cost_is_min :
  forall ident motions, Forall (fun ev => ev <> []) motions ->
    (mm_path RA better_max ident motions <= ident)%R /\
    (forall ev c, In ev motions -> In c ev -> (mm_path RA better_max ident motions <= c)%R) /\
    (mm_path RA better_max ident motions = ident \/ exists ev, In ev motions /\ In (mm_path RA better_max ident motions) ev).
Proof. exact clearance_path_cost_is_min. Qed.

Print Assumptions C04_operator_lt_is_lexicographic.
Print Assumptions C04_strict_weak_order.
Print Assumptions C04_set_sorted_after_add.
Print Assumptions C04_set_sorted_for_every_add_sequence.
Print Assumptions C04_top_is_best.
Print Assumptions C04_best_never_worse.
Print Assumptions C04_path_length_ge_direct_distance.
Print Assumptions C04_length_cost_is_path_length.
Print Assumptions C04_integral_cost_lower_bound.
Print Assumptions C04_work_cost_lower_bounds.
Print Assumptions C04_work_cost_admissible_bound.
Print Assumptions C04_work_motion_cost_is_directional.
Print Assumptions C04_multi_cost_is_weighted_sum.
Print Assumptions C04_multi_length_plus_integral.
Print Assumptions C04_rrtstar_cost_is_parent_cost_plus_inccost.
Print Assumptions C04_rrtstar_stored_cost_is_cost_of_reported_path.
Print Assumptions C04_minimax_cost_is_max.
Print Assumptions C04_clearance_cost_is_min.

Local Open Scope Z_scope.
(* non-vacuity *)
Example C04_nonvacuous :
  map sid (sol_add (mkSol 3 false 0 true true false 7 9) [mkSol 0 false 0 false true false 5 9; mkSol 1 true 2 false true false 1 1; mkSol 2 true 1 false true false 9 9])
  = [3%nat; 0%nat; 2%nat; 1%nat].
Proof. vm_compute. reflexivity. Qed.
(* solutions with and without an objective mixed: incomparability is not transitive, so operator< is not a
   strict weak order on such a set (b ~ c, c ~ d, yet b < d) and std::sort's contract is void *)
Example C04_mixed_objective_refuted :
  let b := mkSol 0 false 0 false true false 1 20 in     (* objective cost 1, length 2.0  *)
  let c := mkSol 1 false 0 false false false 0 20 in    (* no objective, length 2.0 (x10) *)
  let d := mkSol 2 false 0 false true false 2 5 in      (* objective cost 2, length 0.5 (x10) *)
  slt b c = false /\ slt c b = false /\ slt c d = false /\ slt d c = false /\ slt b d = true.
Proof. vm_compute. repeat split. Qed.

(* the symmetric shortcut on a direction-dependent objective (climbing costs ten times the distance, descending once): two iterations on
   the line — 10 is reached from 0 at cost 100; then 5 is added below 0 at cost 50 and 10 is rewired through 5 with the cost of the
   DESCENT from 10 to 5 — and the planner reports the path 0, 5, 10 with a stored cost of 55 although the path costs 100.  With the
   objective answering isSymmetric() = false the neighbour is not rewired (50 + 50 is not better than 100) and the report is 0, 10 at 100 *)
Example C04_rrtstar_symmetric_shortcut_on_directional_cost_refuted :
  let mc := fun a b : Z => if (a <? b)%Z then (10 * (b - a))%Z else (a - b)%Z in
  let run := fun sym => snd (star_solve Z Z (fun a b => Z.abs (a - b)) Z.ltb Z.add 0%Z mc sym (fun _ => false) (fun _ r => r) 1000%Z (fun _ _ => true)
                                (fun x => (x =? 10)%Z) (fun x => Z.abs (x - 10)) 10%Z 0%Z 0%Z (fun _ => 10%nat) [0%Z] 2 [5%Z; 5%Z] [10%Z; 5%Z]) in
  run true = Some ([0; 5; 10]%Z, false, 0%Z, 55%Z, false) /\ pathcost Z Z Z.add 0%Z mc [0; 5; 10]%Z = 100%Z /\
  run false = Some ([0; 10]%Z, false, 0%Z, 100%Z, false).
Proof. vm_compute. repeat split. Qed.
