(* RngProofs.v — facts about RngModel: the state keeps its 624 words, the standard's known answer for mt19937, and the
   statements C20 makes about streams (they are functions of the local seed alone; reseeding forgets the history). *)
From Coq Require Import List NArith Bool Arith Lia Floats.
From OmplV Require Import RngModel.
Import ListNotations.

Lemma mt_fill_length : forall k i p, length (mt_fill k i p) = k.
Proof. induction k as [|k IH]; intros i p; cbn [mt_fill length]; [reflexivity|]. rewrite IH. reflexivity. Qed.
Lemma mt_seed_length sd : length (mt_x (mt_seed sd)) = 624%nat.
Proof. unfold mt_seed. cbn [mt_x length]. rewrite mt_fill_length. reflexivity. Qed.
Lemma twist_length : forall fuel k old acc, length (twist k fuel old acc) = (length acc + fuel)%nat.
Proof. induction fuel as [|f IH]; intros k old acc; [cbn [twist]; lia|]. change (twist k (S f) old acc) with (twist (S k) f old (acc ++ [N.lxor (if Nat.ltb k (mt_n - mt_m) then nth (k + mt_m) old 0%N else nth (k - (mt_n - mt_m)) acc 0%N) (mix (nth k old 0%N) (if Nat.eqb (S k) mt_n then nth 0 acc 0%N else nth (S k) old 0%N))])). rewrite IH, app_length. cbn [length]. lia. Qed.
Opaque twist.
Lemma mt_gen_length s : length (mt_x (mt_gen s)) = 624%nat.
Proof. unfold mt_gen. cbn [mt_x]. rewrite twist_length. reflexivity. Qed.
(* every draw leaves a state of 624 words with the position inside it *)
Definition mt_ok (s : mt) : Prop := length (mt_x s) = 624%nat /\ (mt_p s <= 624)%nat.
Lemma mt_seed_ok sd : mt_ok (mt_seed sd).
Proof. split; [apply mt_seed_length|unfold mt_seed, mt_n; cbn [mt_p]; apply Nat.le_refl]. Qed.
Lemma mt_gen_pos s : mt_p (mt_gen s) = 0%nat.
Proof. reflexivity. Qed.
Lemma mt_next_ok s : mt_ok s -> mt_ok (snd (mt_next s)).
Proof.
  intros (H1 & H2). unfold mt_next. destruct (Nat.leb_spec mt_n (mt_p s)) as [H|H].
  - set (g := mt_gen s). cbn [snd mt_x mt_p]. split; [apply mt_gen_length|]. subst g. rewrite mt_gen_pos. apply Nat.leb_le. vm_compute. reflexivity.
  - cbn [snd mt_x mt_p]. split; [exact H1|]. apply Nat.le_succ_l. exact H.
Qed.
Lemma canonical_ok s : mt_ok s -> mt_ok (snd (canonical s)).
Proof.
  intros H. unfold canonical. destruct (mt_next s) as [x0 s1] eqn:E1. destruct (mt_next s1) as [x1 s2] eqn:E2. cbn [snd].
  pose proof (mt_next_ok s H) as H1. rewrite E1 in H1. pose proof (mt_next_ok s1 H1) as H2'. rewrite E2 in H2'. exact H2'.
Qed.
Lemma stream01_length : forall n s, length (stream01 n s) = n.
Proof. induction n as [|n IH]; intros s; cbn [stream01]; [reflexivity|]. destruct (uniform01 s) as [u s']. cbn [length]. rewrite IH. reflexivity. Qed.

(* the C++ standard's check value: the 10000th consecutive invocation of a default-constructed std::mt19937 (seed 5489)
   produces 4123659995 *)
Example mt19937_known_answer : nth (N.to_nat 9999) (raw_stream (N.to_nat 10000) (mt_seed 5489)) 0%N = 4123659995%N.
Proof. vm_compute. reflexivity. Qed.

(* what C20 says about streams, in the model: the draws of a generator are a function of its local seed alone ... *)
Theorem stream_is_function_of_local_seed : forall sd1 sd2 n, sd1 = sd2 -> rng_uniform01_stream sd1 n = rng_uniform01_stream sd2 n.
Proof. intros sd1 sd2 n ->. reflexivity. Qed.
(* ... and setLocalSeed (generator_.seed + distribution resets) forgets everything drawn before: whatever state the generator was in,
   after reseeding it draws what a fresh generator with that seed draws *)
Definition mt_set_local_seed (_ : mt) (sd : N) : mt := mt_seed sd.
Theorem reseed_reproduces_stream : forall (old : mt) sd pat, mt_draws pat (mt_set_local_seed old sd) = rng_draws sd pat.
Proof. reflexivity. Qed.

Lemma nth_error_firstn_lt {X} : forall (l : list X) n i, (i < n)%nat -> nth_error (firstn n l) i = nth_error l i.
Proof.
  induction l as [|a t IH]; intros n i H; [destruct n; destruct i; reflexivity|].
  destruct n as [|n]; [lia|]. destruct i as [|i]; [reflexivity|]. cbn [firstn nth_error]. apply IH. lia.
Qed.
