(* LedgerModel.v — the admission rule for planner reports (C01; reused by C02/C03/C17/C19).
   A run of a planner is observed through logging collaborators (validity checker, motion validator, goal, problem
   definition); the harness turns it into a [run] record of facts, and [admissible] decides whether the report is
   backed by those facts.  States are identified by integer ids (exact coordinate tuples are numbered by the harness).
   Lengths are integers: goal differences in units of 1e-9, invalid stretches in eighths of the resolution length. *)
From Coq Require Import List ZArith Bool.
Import ListNotations.
Local Open Scope Z_scope.

(* PlannerStatus::StatusType *)
Definition ST_UNKNOWN := 0. Definition ST_INVALID_START := 1. Definition ST_INVALID_GOAL := 2.
Definition ST_UNRECOGNIZED_GOAL := 3. Definition ST_TIMEOUT := 4. Definition ST_APPROXIMATE := 5.
Definition ST_EXACT := 6. Definition ST_CRASH := 7. Definition ST_ABORT := 8. Definition ST_INFEASIBLE := 9.
(* PlannerStatus(bool hasSolution, bool isApproximate) and operator bool *)
Definition status_of_flags (has approx : bool) : Z := if has then (if approx then ST_APPROXIMATE else ST_EXACT) else ST_TIMEOUT.
Definition is_solution_status (s : Z) : bool := (s =? ST_APPROXIMATE) || (s =? ST_EXACT).

Record pstate := mkP { p_id : Z; p_inb : bool; p_valid : bool; p_goal : bool; p_gdist : Z }.
Record seg := mkSeg { s_recheck : bool;      (* SpaceInformation::checkMotion on the pair, asked again *)
                      s_maxinv : Z }.        (* longest run of invalid dense samples, in eighths of the resolution length *)
Record run := mkRun {
  r_starts : list (Z * bool * bool);         (* start states of the problem: id, valid, in bounds *)
  r_status : Z;                              (* what solve() returned *)
  r_has_path : bool;                         (* the problem definition holds a solution path after solve() *)
  r_paths_before : Z; r_paths_after : Z;     (* number of solutions held before / after *)
  r_approx : bool; r_diff : Z;               (* hasApproximateSolution / getSolutionDifference *)
  r_tol : Z;                                 (* slack allowed between the reported difference and the last state's distance to the
                                                goal's reference state: 1 (rounding) for planners that report distanceGoal of the last
                                                state, the goal threshold for planners that measure to a sampled state of the region *)
  r_path : list pstate;                      (* the reported path *)
  r_acc : list (Z * Z);                      (* motions the validator accepted, restricted to path states *)
  r_segs : list seg;                         (* per consecutive pair *)
  r_classA : bool;                           (* planner builds paths from individually validated motions *)
  r_sym : bool }.                            (* interpolation is symmetric: an accepted (b,a) covers (a,b) *)

Definition pair_eqb (x y : Z * Z) : bool := (fst x =? fst y) && (snd x =? snd y).
Definition covered (sym : bool) (acc : list (Z * Z)) (a b : Z) : bool :=
  (a =? b) || existsb (pair_eqb (a, b)) acc || (sym && existsb (pair_eqb (b, a)) acc).
Fixpoint pairs_covered (sym : bool) (acc : list (Z * Z)) (p : list pstate) : bool :=
  match p with
  | a :: ((b :: _) as tl) => covered sym acc (p_id a) (p_id b) && pairs_covered sym acc tl
  | _ => true
  end.
Definition last_state (p : list pstate) : option pstate := match rev p with x :: _ => Some x | [] => None end.
Definition start_ok (starts : list (Z * bool * bool)) (p : list pstate) : bool :=
  match p with
  | a :: _ => existsb (fun s => let '(i, v, b) := s in (i =? p_id a) && v && b) starts
  | [] => false
  end.
Definition goal_ok (r : run) : bool :=
  match last_state (r_path r) with
  | None => false
  | Some l =>
      if r_approx r then (r_status r =? ST_APPROXIMATE) && (Z.abs (r_diff r - p_gdist l) <=? r_tol r)
      else (r_status r =? ST_EXACT) && p_goal l
  end.
Definition stretch_limit : Z := 16.   (* twice the resolution length, in eighths *)
Definition segs_ok (r : run) : bool :=
  (Z.of_nat (length (r_segs r)) =? Z.of_nat (length (r_path r)) - 1) &&
  forallb (fun s => (s_maxinv s <? stretch_limit) && (negb (r_classA r) || s_recheck s)) (r_segs r).

Inductive verdict := Vok | Vstatus_without_path | Vpath_without_status | Vstart | Vbounds | Vinvalid_state | Vgoal | Vstretch_or_recheck | Vuncovered.
Definition adjudicate (r : run) : verdict :=
  if is_solution_status (r_status r) then
    if negb (r_has_path r) || match r_path r with [] => true | _ => false end then Vstatus_without_path
    else if negb (start_ok (r_starts r) (r_path r)) then Vstart
    else if negb (forallb p_inb (r_path r)) then Vbounds
    else if r_classA r && negb (forallb p_valid (r_path r)) then Vinvalid_state
    else if negb (goal_ok r) then Vgoal
    else if negb (segs_ok r) then Vstretch_or_recheck
    else if r_classA r && negb (pairs_covered (r_sym r) (r_acc r) (r_path r)) then Vuncovered
    else Vok
  else if negb (r_paths_after r =? r_paths_before r) then Vpath_without_status
  else Vok.
Definition admissible (r : run) : bool := match adjudicate r with Vok => true | _ => false end.

(* ---- the abstract single-tree planner (RRT / EST / KPIECE / PDST shape): nodes are added only below an existing node
   through a motion the validator accepted; the report is the parent chain of the chosen node *)
Record tree := mkT { t_root : Z; t_edges : list (Z * Z) }.          (* (child, parent), newest first *)
Definition in_tree (t : tree) (x : Z) : bool := (x =? t_root t) || existsb (fun e => fst e =? x) (t_edges t).
Definition parent_of (t : tree) (x : Z) : option Z :=
  match find (fun e => fst e =? x) (t_edges t) with Some e => Some (snd e) | None => None end.
(* extend: only when the parent is in the tree, the child is new, and the validator accepted parent -> child *)
Definition extend (mv : Z -> Z -> bool) (t : tree) (p c : Z) : tree :=
  if in_tree t p && negb (in_tree t c) && mv p c then mkT (t_root t) ((c, p) :: t_edges t) else t.
Fixpoint chain (t : tree) (fuel : nat) (x : Z) (acc : list Z) : list Z :=
  match fuel with
  | O => x :: acc
  | S k => match parent_of t x with Some p => chain t k p (x :: acc) | None => x :: acc end
  end.
Definition report_path (t : tree) (x : Z) : list Z := chain t (length (t_edges t)) x [].
Fixpoint ids_covered (acc : list (Z * Z)) (p : list Z) : bool :=
  match p with
  | a :: ((b :: _) as tl) => covered false acc a b && ids_covered acc tl
  | _ => true
  end.
Definition accepted_motions (t : tree) : list (Z * Z) := map (fun e => (snd e, fst e)) (t_edges t).

(* PathGeometric::check(): first state valid and every consecutive checkMotion true (empty path: true) *)
Section PathCheck.
  Variable St : Type.
  Variables (valid : St -> bool) (mv : St -> St -> bool).
  Fixpoint motions_ok (p : list St) : bool :=
    match p with
    | a :: ((b :: _) as tl) => mv a b && motions_ok tl
    | _ => true
    end.
  Definition path_check (p : list St) : bool :=
    match p with [] => true | a :: _ => valid a && motions_ok p end.
End PathCheck.
