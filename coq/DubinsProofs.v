(* DubinsProofs.v — segments compose additively (so the point at arc length s of a word is the end of its prefix: a
   prefix of a curve is a curve of that length), each segment moves the position by at most its length, hence the
   length of a word is at least the straight-line distance between its end poses; symmetrised distances are symmetric;
   the minimum over candidate words is a lower bound of each and attained. *)
From Coq Require Import List Reals Lra Psatz.
From OmplV Require Import DubinsModel.
Import ListNotations.
Local Open Scope R_scope.

Lemma seg_split : forall k a b p, seg_apply k (a + b) p = seg_apply k b (seg_apply k a p).
Proof.
  intros k a b [x y th]. destruct k; cbn [seg_apply px py pth].
  - replace (th + a + b) with (th + (a + b)) by ring. f_equal; ring.
  - replace (th - a - b) with (th - (a + b)) by ring. f_equal; ring.
  - f_equal; ring.
Qed.
Lemma seg_zero : forall k p, seg_apply k 0 p = p.
Proof.
  intros k [x y th]. destruct k; cbn [seg_apply px py pth].
  - rewrite Rplus_0_r. f_equal; ring.
  - rewrite Rminus_0_r. f_equal; ring.
  - f_equal; ring.
Qed.
Lemma run_app : forall w1 w2 p, run (w1 ++ w2) p = run w2 (run w1 p).
Proof. induction w1 as [|[k v] r IH]; intros w2 p; [reflexivity | cbn [app run]; apply IH]. Qed.

(* chord of an arc: (sin A - sin B)^2 + (cos A - cos B)^2 = 2 - 2 cos (A - B) *)
Lemma chord_sq : forall A B, (sin A - sin B) * (sin A - sin B) + (cos A - cos B) * (cos A - cos B) = 2 - 2 * cos (A - B).
Proof. intros A B. rewrite cos_minus. pose proof (sin2_cos2 A) as HA. pose proof (sin2_cos2 B) as HB. unfold Rsqr in *. nra. Qed.
Lemma one_minus_cos_le : forall v, 2 - 2 * cos v <= v * v.
Proof.
  intros v. replace v with (2 * (v / 2)) at 1 by field. rewrite cos_2a_sin.
  assert (H : Rabs (sin (v / 2)) <= Rabs (v / 2)).
  { destruct (Rle_dec 0 (v / 2)) as [Hp|Hn].
    - rewrite (Rabs_pos_eq (v / 2)) by exact Hp. destruct (Rle_dec (v / 2) 1) as [H1|H1].
      + destruct (Req_dec (v / 2) 0) as [->|Hz]; [rewrite sin_0, Rabs_R0; lra|].
        assert (0 < v / 2) by lra. pose proof (sin_lt_x (v / 2) H). assert (0 <= sin (v / 2)) by (apply sin_ge_0; [lra | pose proof PI_RGT_0; pose proof PI2_3_2; unfold PI2 in *; lra]).
        rewrite Rabs_pos_eq by assumption. lra.
      + pose proof (SIN_bound (v / 2)). apply Rabs_le. lra.
    - assert (Hq : 0 < - (v / 2)) by lra. rewrite <- (Rabs_Ropp (v / 2)), <- (Rabs_Ropp (sin (v / 2))), <- sin_neg.
      rewrite (Rabs_pos_eq (- (v / 2))) by lra. destruct (Rle_dec (- (v / 2)) 1) as [H1|H1].
      + pose proof (sin_lt_x (- (v / 2)) Hq). assert (0 <= sin (- (v / 2))) by (apply sin_ge_0; [lra | pose proof PI_RGT_0; pose proof PI2_3_2; unfold PI2 in *; lra]).
        rewrite Rabs_pos_eq by assumption. lra.
      + pose proof (SIN_bound (- (v / 2))). apply Rabs_le. lra. }
  assert (H2 : sin (v / 2) * sin (v / 2) <= (v / 2) * (v / 2)).
  { assert (E1 : sin (v / 2) * sin (v / 2) = Rabs (sin (v / 2)) * Rabs (sin (v / 2))) by (rewrite <- Rabs_mult; rewrite Rabs_pos_eq; [reflexivity | nra]).
    assert (E2 : (v / 2) * (v / 2) = Rabs (v / 2) * Rabs (v / 2)) by (rewrite <- Rabs_mult; rewrite Rabs_pos_eq; [reflexivity | nra]).
    rewrite E1, E2. apply Rmult_le_compat; try apply Rabs_pos; exact H. }
  nra.
Qed.

(* each segment moves the position by at most its length *)
Lemma seg_displacement : forall k v p, pdist p (seg_apply k v p) <= Rabs v.
Proof.
  intros k v [x y th]. unfold pdist. destruct k; cbn [seg_apply px py pth].
  - replace ((x + sin (th + v) - sin th - x) * (x + sin (th + v) - sin th - x) + (y - cos (th + v) + cos th - y) * (y - cos (th + v) + cos th - y))
      with ((sin (th + v) - sin th) * (sin (th + v) - sin th) + (cos (th + v) - cos th) * (cos (th + v) - cos th)) by ring.
    rewrite chord_sq. replace (th + v - th) with v by ring. rewrite <- sqrt_Rsqr_abs. apply sqrt_le_1_alt. unfold Rsqr. apply one_minus_cos_le.
  - replace ((x - sin (th - v) + sin th - x) * (x - sin (th - v) + sin th - x) + (y + cos (th - v) - cos th - y) * (y + cos (th - v) - cos th - y))
      with ((sin (th - v) - sin th) * (sin (th - v) - sin th) + (cos (th - v) - cos th) * (cos (th - v) - cos th)) by ring.
    rewrite chord_sq. replace (th - v - th) with (- v) by ring. rewrite cos_neg. rewrite <- sqrt_Rsqr_abs. apply sqrt_le_1_alt. unfold Rsqr. apply one_minus_cos_le.
  - replace ((x + v * cos th - x) * (x + v * cos th - x) + (y + v * sin th - y) * (y + v * sin th - y)) with (v * v * (sin th * sin th + cos th * cos th)) by ring.
    pose proof (sin2_cos2 th) as H. unfold Rsqr in H. rewrite H, Rmult_1_r. rewrite <- sqrt_Rsqr_abs. unfold Rsqr. apply Rle_refl.
Qed.
(* Euclidean triangle inequality in the plane *)
Lemma pdist_triangle : forall p q r, pdist p r <= pdist p q + pdist q r.
Proof.
  intros p q r. unfold pdist.
  set (a := px q - px p). set (b := py q - py p). set (c := px r - px q). set (d := py r - py q).
  replace (px r - px p) with (a + c) by (unfold a, c; ring). replace (py r - py p) with (b + d) by (unfold b, d; ring).
  clearbody a b c d.
  assert (H1 : 0 <= sqrt (a * a + b * b)) by apply sqrt_pos. assert (H2 : 0 <= sqrt (c * c + d * d)) by apply sqrt_pos.
  assert (S0 : forall u v, 0 <= u * u + v * v) by (intros u v; pose proof (Rle_0_sqr u); pose proof (Rle_0_sqr v); unfold Rsqr in *; lra).
  apply Rsqr_incr_0_var; [|lra]. rewrite (Rsqr_sqrt _ (S0 (a + c) (b + d))). unfold Rsqr.
  replace ((sqrt (a * a + b * b) + sqrt (c * c + d * d)) * (sqrt (a * a + b * b) + sqrt (c * c + d * d)))
    with (sqrt (a * a + b * b) * sqrt (a * a + b * b) + sqrt (c * c + d * d) * sqrt (c * c + d * d) + 2 * (sqrt (a * a + b * b) * sqrt (c * c + d * d))) by ring.
  rewrite (sqrt_sqrt _ (S0 a b)), (sqrt_sqrt _ (S0 c d)). rewrite <- (sqrt_mult _ _ (S0 a b) (S0 c d)).
  assert (CS : a * c + b * d <= sqrt ((a * a + b * b) * (c * c + d * d))).
  { destruct (Rle_dec 0 (a * c + b * d)) as [Hp|Hn].
    - apply Rsqr_incr_0_var; [|apply sqrt_pos]. rewrite Rsqr_sqrt by (apply Rmult_le_pos; apply S0). unfold Rsqr.
      assert (0 <= (a * d - b * c) * (a * d - b * c)) by (pose proof (Rle_0_sqr (a * d - b * c)); unfold Rsqr in *; lra). nra.
    - pose proof (sqrt_pos ((a * a + b * b) * (c * c + d * d))). lra. }
  lra.
Qed.
Lemma pdist_refl : forall p, pdist p p = 0.
Proof. intros p. unfold pdist. replace ((px p - px p) * (px p - px p) + (py p - py p) * (py p - py p)) with 0 by ring. apply sqrt_0. Qed.

(* the curve is never shorter than the straight line between its end poses *)
Theorem word_length_ge_distance : forall w p, pdist p (run w p) <= wlen w.
Proof.
  induction w as [|[k v] r IH]; intros p; cbn [run wlen fold_right snd].
  - rewrite pdist_refl. lra.
  - pose proof (pdist_triangle p (seg_apply k v p) (run r (seg_apply k v p))). pose proof (seg_displacement k v p). specialize (IH (seg_apply k v p)). unfold wlen in IH. lra.
Qed.

(* the point at arc length s: the end of the prefix; following the rest of the word from there reaches the same end.
   (all segment lengths non-negative, 0 <= s <= total) *)
Fixpoint suffix (w : word) (s : R) : word :=
  match w with
  | [] => []
  | (k, v) :: r => if Rle_dec s v then (k, v - s) :: r else suffix r (s - v)
  end.
Theorem prefix_then_suffix : forall w s p, run (suffix w s) (run (prefix w s) p) = run w p.
Proof.
  induction w as [|[k v] r IH]; intros s p; [reflexivity|]. cbn [prefix suffix].
  destruct (Rle_dec s v) as [H|H].
  - cbn [run]. replace v with (s + (v - s)) at 2 by ring. rewrite seg_split. reflexivity.
  - cbn [run]. apply IH.
Qed.
Theorem prefix_length : forall w s, Forall (fun sg => 0 <= snd sg) w -> 0 <= s <= wlen w -> wlen (prefix w s) = s.
Proof.
  induction w as [|[k v] r IH]; intros s Hw Hs; cbn [prefix wlen fold_right snd] in *.
  - lra.
  - inversion Hw as [|? ? Hv Hr]; subst. cbn [snd] in Hv. rewrite (Rabs_pos_eq v Hv) in Hs.
    destruct (Rle_dec s v) as [H|H]; cbn [wlen fold_right snd].
    + rewrite Rabs_pos_eq by lra. lra.
    + rewrite (Rabs_pos_eq v Hv). fold (wlen (prefix r (s - v))). rewrite IH; [lra | exact Hr | fold (wlen r) in Hs; lra].
Qed.

(* symmetrised distances are symmetric; the best of the candidate words is a lower bound of every candidate *)
Theorem sym_dist_symmetric : forall d a b, sym_dist d a b = sym_dist d b a.
Proof. intros d a b. unfold sym_dist. apply Rmin_comm. Qed.
Theorem best_of_le_each : forall ls d0 x, In x ls -> best_of ls d0 <= x.
Proof.
  induction ls as [|y r IH]; intros d0 x H; [destruct H|]. cbn [best_of fold_right]. destruct H as [->|H].
  - apply Rmin_l.
  - eapply Rle_trans; [apply Rmin_r | apply IH; exact H].
Qed.
Theorem best_of_attained : forall ls d0, best_of ls d0 = d0 \/ In (best_of ls d0) ls.
Proof.
  induction ls as [|y r IH]; intros d0; [left; reflexivity|]. cbn [best_of fold_right].
  destruct (Rmin_case_strong y (fold_right Rmin d0 r) (fun z => z = d0 \/ In z (y :: r))) as [H|H]; auto.
  - intros _. right. left. reflexivity.
  - intros _. destruct (IH d0) as [E|E]; [left; exact E | right; right; exact E].
Qed.
