(* HeapElt.v — proofs about layer 2 of HeapModel.v: elements with ids (handles) and
   the `position` field; every operation of the public interface preserves the
   invariant and refines the abstract multiset specification. *)
From Coq Require Import List Arith Lia Bool Permutation Sorted.
From OmplV Require Import HeapModel HeapCore.
Import ListNotations.

Lemma map_removelast {A B} (f : A -> B) l : map f (removelast l) = removelast (map f l).
Proof. induction l as [|a t IH]; [reflexivity|]. destruct t; [reflexivity|]. simpl in *. f_equal. exact IH. Qed.

Lemma perm_filter {A} (f : A -> bool) l l' : Permutation l l' -> Permutation (filter f l) (filter f l').
Proof.
  induction 1 as [|x l l' _ IH|x y l|l l' l'' _ IH1 _ IH2]; simpl.
  - constructor.
  - destruct (f x); [constructor|]; exact IH.
  - destruct (f x), (f y); try apply Permutation_refl. apply perm_swap.
  - eapply perm_trans; eauto.
Qed.

Section EltProofs.
  Variable Key : Type.
  Variable lt : Key -> Key -> bool.
  Variable dk : Key.
  Definition kle (x y : Key) : bool := negb (lt y x).
  Hypothesis kle_total : forall x y, kle x y = true \/ kle y x = true.
  Hypothesis kle_trans : forall x y z, kle x y = true -> kle y z = true -> kle x z = true.

  Notation elt := (elt Key).
  Notation de := (de Key dk).
  Notation gete := (get de).
  Definition K1 : Type := (nat * Key)%type.
  Definition strip (e : elt) : K1 := (eid e, ekey e).
  Definition lt1 (a b : K1) : bool := lt (snd a) (snd b).
  Definition d1 : K1 := (0, dk).
  Notation le1 := (le K1 lt1).
  Notation HeapOrder1 := (HeapOrder K1 lt1 d1).

  Lemma le1_total x y : le1 x y = true \/ le1 y x = true.
  Proof. apply (kle_total (snd x) (snd y)). Qed.
  Lemma le1_trans x y z : le1 x y = true -> le1 y z = true -> le1 x z = true.
  Proof. apply (kle_trans (snd x) (snd y) (snd z)). Qed.

  Definition ids (v : list elt) : list nat := map (@eid Key) v.
  Lemma ids_strip v : ids v = map fst (map strip v).
  Proof. unfold ids. rewrite map_map. reflexivity. Qed.

  (* ---- commutation of the element-level code with the projection to (id,key) ---- *)
  Lemma strip_get v i : strip (gete v i) = get d1 (map strip v) i.
  Proof. unfold get. change d1 with (strip de). rewrite map_nth. reflexivity. Qed.
  Lemma map_upd (e : elt) i v : map strip (upd i e v) = upd i (strip e) (map strip v).
  Proof. revert i; induction v as [|a t IH]; intros [|i]; simpl; auto. f_equal. apply IH. Qed.
  Lemma elt_lt_strip a b : elt_lt Key lt a b = lt1 (strip a) (strip b).
  Proof. reflexivity. Qed.

  Lemma pu_loop_e_strip fuel : forall v tmp h,
    pu_loop K1 lt1 d1 fuel (map strip v) (strip tmp) h =
    (map strip (fst (pu_loop_e Key lt dk fuel v tmp h)), snd (pu_loop_e Key lt dk fuel v tmp h)).
  Proof.
    induction fuel as [|f IH]; intros v tmp h; cbn [pu_loop pu_loop_e]; [reflexivity|].
    rewrite elt_lt_strip, strip_get.
    destruct ((0 <? h) && lt1 (strip tmp) (get d1 (map strip v) (par h))); [|reflexivity].
    rewrite <- IH. rewrite map_upd.
    change (strip (setpos Key (gete v (par h)) h)) with (strip (gete v (par h))).
    rewrite strip_get. reflexivity.
  Qed.

  Lemma percolateUp_e_strip p v :
    map strip (percolateUp_e Key lt dk p v) = percolateUp K1 lt1 d1 p (map strip v).
  Proof.
    unfold percolateUp_e, percolateUp. rewrite map_length, <- strip_get, pu_loop_e_strip.
    destruct (pu_loop_e Key lt dk (length v) v (gete v p) p) as [v' h']. cbn [fst snd].
    destruct (h' =? p); [reflexivity|]. rewrite map_upd. reflexivity.
  Qed.

  Lemma pd_loop_e_strip fuel : forall v tmp h,
    pd_loop K1 lt1 d1 fuel (map strip v) (strip tmp) h =
    (map strip (fst (pd_loop_e Key lt dk fuel v tmp h)), snd (pd_loop_e Key lt dk fuel v tmp h)).
  Proof.
    induction fuel as [|f IH]; intros v tmp h; cbn [pd_loop pd_loop_e]; [reflexivity|].
    rewrite map_length. rewrite !elt_lt_strip, !strip_get.
    assert (SP : forall c, map strip (upd h (setpos Key (gete v c) h) v) = upd h (get d1 (map strip v) c) (map strip v)).
    { intros c. rewrite map_upd. rewrite <- strip_get. reflexivity. }
    destruct (2 * h + 2 <? length v).
    - destruct (lt1 (get d1 (map strip v) (2 * h + 2 - 1)) (get d1 (map strip v) (2 * h + 2))).
      + rewrite ?elt_lt_strip, ?strip_get.
        destruct (lt1 (get d1 (map strip v) (2 * h + 2 - 1)) (strip tmp)); [|reflexivity].
        rewrite <- IH, SP. reflexivity.
      + rewrite ?elt_lt_strip, ?strip_get.
        destruct (lt1 (get d1 (map strip v) (2 * h + 2)) (strip tmp)); [|reflexivity].
        rewrite <- IH, SP. reflexivity.
    - destruct (2 * h + 2 =? length v); [|reflexivity].
      destruct (lt1 (get d1 (map strip v) (2 * h + 2 - 1)) (strip tmp)); [|reflexivity].
      cbn [fst snd]. rewrite SP. reflexivity.
  Qed.

  Lemma percolateDown_e_strip p v :
    map strip (percolateDown_e Key lt dk p v) = percolateDown K1 lt1 d1 p (map strip v).
  Proof.
    unfold percolateDown_e, percolateDown. rewrite map_length, <- strip_get, pd_loop_e_strip.
    destruct (pd_loop_e Key lt dk (length v) v (gete v p) p) as [v' h']. cbn [fst snd].
    destruct (h' =? p); [reflexivity|]. rewrite map_upd. reflexivity.
  Qed.

  Lemma build_from_e_strip k : forall v,
    map strip (build_from_e Key lt dk k v) = build_from K1 lt1 d1 k (map strip v).
  Proof. induction k as [|i IH]; intros v; cbn [build_from_e build_from]; [reflexivity|]. rewrite IH, percolateDown_e_strip. reflexivity. Qed.
  Lemma build_e_strip v : map strip (build_e Key lt dk v) = build K1 lt1 d1 (map strip v).
  Proof. unfold build_e, build. rewrite map_length. apply build_from_e_strip. Qed.

  Lemma removePos_e_strip p v :
    map strip (removePos_e Key lt dk p v) = removePos K1 lt1 d1 p (map strip v).
  Proof.
    unfold removePos_e, removePos. rewrite map_length.
    destruct (p <? length v - 1); [|apply map_removelast].
    rewrite percolateDown_e_strip, percolateUp_e_strip, map_upd, map_removelast.
    rewrite <- strip_get. reflexivity.
  Qed.

  Lemma insert_e_strip id k v :
    map strip (insert_e Key lt dk id k v) = insert1 K1 lt1 d1 (id, k) (map strip v).
  Proof. unfold insert_e, insert1. rewrite percolateUp_e_strip, map_app, map_length. reflexivity. Qed.

  Lemma pop_all_e_strip fuel : forall v,
    map strip (pop_all_e Key lt dk fuel v) = pop_all K1 lt1 d1 fuel (map strip v).
  Proof.
    induction fuel as [|f IH]; intros v; [reflexivity|]. destruct v as [|x t]; [reflexivity|].
    cbn [pop_all_e]. change (map strip (x :: t)) with (strip x :: map strip t). cbn [pop_all].
    cbn [map]. f_equal. rewrite IH. f_equal. apply (removePos_e_strip 0 (x :: t)).
  Qed.

  (* ---- the position field ---- *)
  Definition PosOK (v : list elt) : Prop := forall i, i < length v -> epos (gete v i) = i.

  Lemma posok_upd v i e : PosOK v -> PosOK (upd i (setpos Key e i) v).
  Proof.
    intros H j Hj. rewrite length_upd in Hj. destruct (Nat.eq_dec i j) as [->|N].
    - rewrite get_upd_eq by exact Hj. reflexivity.
    - rewrite get_upd_ne by exact N. apply H; exact Hj.
  Qed.

  Lemma pu_loop_e_props fuel : forall v tmp h, PosOK v ->
    PosOK (fst (pu_loop_e Key lt dk fuel v tmp h)) /\ length (fst (pu_loop_e Key lt dk fuel v tmp h)) = length v.
  Proof.
    induction fuel as [|f IH]; intros v tmp h H; cbn [pu_loop_e]; [auto|].
    destruct ((0 <? h) && elt_lt Key lt tmp (gete v (par h))); [|auto].
    destruct (IH (upd h (setpos Key (gete v (par h)) h) v) tmp (par h) (posok_upd _ _ _ H)) as (A & B).
    split; [exact A|]. rewrite B. apply length_upd.
  Qed.
  Lemma percolateUp_e_props p v : PosOK v ->
    PosOK (percolateUp_e Key lt dk p v) /\ length (percolateUp_e Key lt dk p v) = length v.
  Proof.
    intros H. unfold percolateUp_e. destruct (pu_loop_e_props (length v) v (gete v p) p H) as (A & B).
    destruct (pu_loop_e Key lt dk (length v) v (gete v p) p) as [v' h']. cbn [fst] in *.
    destruct (h' =? p); [auto|]. split; [apply posok_upd; exact A|]. rewrite length_upd. exact B.
  Qed.
  Lemma pd_loop_e_props fuel : forall v tmp h, PosOK v ->
    PosOK (fst (pd_loop_e Key lt dk fuel v tmp h)) /\ length (fst (pd_loop_e Key lt dk fuel v tmp h)) = length v.
  Proof.
    induction fuel as [|f IH]; intros v tmp h H; cbn [pd_loop_e]; [auto|].
    assert (R : forall c, PosOK (fst (pd_loop_e Key lt dk f (upd h (setpos Key (gete v c) h) v) tmp c)) /\
              length (fst (pd_loop_e Key lt dk f (upd h (setpos Key (gete v c) h) v) tmp c)) = length v).
    { intros c. destruct (IH (upd h (setpos Key (gete v c) h) v) tmp c (posok_upd _ _ _ H)) as (A & B).
      split; [exact A|]. rewrite B. apply length_upd. }
    destruct (2 * h + 2 <? length v).
    - destruct (elt_lt Key lt (gete v (2 * h + 2 - 1)) (gete v (2 * h + 2))).
      + destruct (elt_lt Key lt (gete v (2 * h + 2 - 1)) tmp); [apply R|auto].
      + destruct (elt_lt Key lt (gete v (2 * h + 2)) tmp); [apply R|auto].
    - destruct (2 * h + 2 =? length v); [|auto].
      destruct (elt_lt Key lt (gete v (2 * h + 2 - 1)) tmp); [|auto].
      cbn [fst]. split; [apply posok_upd; exact H|apply length_upd].
  Qed.
  Lemma percolateDown_e_props p v : PosOK v ->
    PosOK (percolateDown_e Key lt dk p v) /\ length (percolateDown_e Key lt dk p v) = length v.
  Proof.
    intros H. unfold percolateDown_e. destruct (pd_loop_e_props (length v) v (gete v p) p H) as (A & B).
    destruct (pd_loop_e Key lt dk (length v) v (gete v p) p) as [v' h']. cbn [fst] in *.
    destruct (h' =? p); [auto|]. split; [apply posok_upd; exact A|]. rewrite length_upd. exact B.
  Qed.
  Lemma build_from_e_posok k : forall v, PosOK v -> PosOK (build_from_e Key lt dk k v).
  Proof. induction k as [|i IH]; intros v H; cbn [build_from_e]; [exact H|]. apply IH. apply percolateDown_e_props. exact H. Qed.
  Lemma posok_removelast v : PosOK v -> PosOK (removelast v).
  Proof. intros H i Hi. rewrite length_removelast in Hi. rewrite get_removelast by exact Hi. apply H. lia. Qed.
  Lemma removePos_e_posok p v : PosOK v -> PosOK (removePos_e Key lt dk p v).
  Proof.
    intros H. unfold removePos_e. destruct (p <? length v - 1); [|apply posok_removelast; exact H].
    apply percolateDown_e_props. apply percolateUp_e_props. apply posok_upd. apply posok_removelast. exact H.
  Qed.
  Lemma posok_app v id k : PosOK v -> PosOK (v ++ [mkElt id k (length v)]).
  Proof.
    intros H i Hi. rewrite app_length in Hi. simpl in Hi.
    destruct (Nat.eq_dec i (length v)) as [->|N].
    - unfold get. rewrite nth_middle. reflexivity.
    - rewrite get_app1 by lia. apply H. lia.
  Qed.
  Lemma insert_e_posok id k v : PosOK v -> PosOK (insert_e Key lt dk id k v).
  Proof. intros H. unfold insert_e. apply percolateUp_e_props. apply posok_app. exact H. Qed.

  Lemma mk_elts_get l : forall b i, i < length l -> epos (gete (mk_elts Key b l) i) = b + i.
  Proof.
    induction l as [|[id k] t IH]; intros b i Hi; simpl in *; [lia|].
    destruct i as [|i]; [simpl; lia|]. change (epos (gete (mk_elts Key (S b) t) i) = b + S i).
    rewrite IH by lia. lia.
  Qed.
  Lemma mk_elts_length l : forall b, length (mk_elts Key b l) = length l.
  Proof. induction l as [|[id k] t IH]; intros b; simpl; auto. Qed.
  Lemma mk_elts_strip l : forall b, map strip (mk_elts Key b l) = l.
  Proof. induction l as [|[id k] t IH]; intros b; simpl; [reflexivity|]. f_equal. apply IH. Qed.
  Lemma posok_mk_elts l : PosOK (mk_elts Key 0 l).
  Proof. intros i Hi. rewrite mk_elts_length in Hi. rewrite mk_elts_get by exact Hi. reflexivity. Qed.

  (* ---- handles ---- *)
  Lemma find_pos_some id : forall v p, find_pos Key id v = Some p ->
    exists i, i < length v /\ eid (gete v i) = id /\ epos (gete v i) = p.
  Proof.
    induction v as [|e t IH]; intros p H; simpl in H; [discriminate|].
    destruct (Nat.eqb_spec (eid e) id) as [E|N].
    - injection H as <-. exists 0. simpl. split; [lia|]. auto.
    - destruct (IH p H) as (i & Hi & A & B). exists (S i). simpl. split; [lia|]. auto.
  Qed.
  Lemma find_pos_posok id v p : PosOK v -> find_pos Key id v = Some p -> p < length v /\ eid (gete v p) = id.
  Proof. intros H F. destruct (find_pos_some id v p F) as (i & Hi & A & B). rewrite H in B by exact Hi. subst. auto. Qed.
  Lemma find_pos_none id v : find_pos Key id v = None <-> ~ In id (ids v).
  Proof.
    induction v as [|e t IH]; simpl; [tauto|].
    destruct (Nat.eqb_spec (eid e) id) as [E|N]; [split; [discriminate|intros H; exfalso; apply H; auto]|].
    rewrite IH. tauto.
  Qed.
  Lemma find_pos_get v : NoDup (ids v) -> forall i, i < length v ->
    find_pos Key (eid (gete v i)) v = Some (epos (gete v i)).
  Proof.
    induction v as [|e t IH]; intros ND i Hi; simpl in *; [lia|]. inversion ND as [|x l Hx ND']; subst.
    destruct i as [|i]; [simpl; rewrite Nat.eqb_refl; reflexivity|].
    change (gete (e :: t) (S i)) with (gete t i).
    destruct (Nat.eqb_spec (eid e) (eid (gete t i))) as [E|N]; [|apply IH; auto; lia].
    exfalso. apply Hx. rewrite E. unfold get. apply in_map. apply nth_In. lia.
  Qed.

  (* ---- a key change through a handle ---- *)
  Lemma set_key_notin id k v : ~ In id (ids v) -> set_key Key id k v = v.
  Proof.
    induction v as [|e t IH]; intros H; simpl in *; [reflexivity|].
    destruct (Nat.eqb_spec (eid e) id) as [E|N]; [exfalso; apply H; auto|]. f_equal. apply IH. tauto.
  Qed.
  Lemma set_key_strip id k : forall v p, NoDup (ids v) -> p < length v -> eid (gete v p) = id ->
    map strip (set_key Key id k v) = upd p (id, k) (map strip v).
  Proof.
    induction v as [|e t IH]; intros p ND Hp E; simpl in *; [lia|]. inversion ND as [|x l Hx ND']; subst.
    destruct p as [|p].
    - simpl in *. rewrite Nat.eqb_refl. cbn [map upd]. f_equal. rewrite set_key_notin by exact Hx. reflexivity.
    - change (gete (e :: t) (S p)) with (gete t p) in *.
      destruct (Nat.eqb_spec (eid e) (eid (gete t p))) as [E'|N].
      + exfalso. apply Hx. rewrite E'. unfold get. apply in_map. apply nth_In. lia.
      + cbn [map upd]. f_equal. apply IH; auto. lia.
  Qed.
  Lemma set_key_posok id k v : PosOK v -> PosOK (set_key Key id k v).
  Proof.
    intros H i Hi. unfold set_key in *. rewrite map_length in Hi. unfold get.
    set (f := fun e : elt => if eid e =? id then mkElt (eid e) k (epos e) else e).
    rewrite (nth_indep _ de (f de)) by (rewrite map_length; exact Hi). rewrite map_nth.
    fold (gete v i). unfold f. destruct (eid (gete v i) =? id); [cbn [epos]|]; apply H; exact Hi.
  Qed.
  Lemma set_key_length id k v : length (set_key Key id k v) = length v.
  Proof. apply map_length. Qed.

  (* ---- the invariant ---- *)
  Definition Inv (v : list elt) : Prop := HeapOrder1 (map strip v) /\ PosOK v /\ NoDup (ids v).

  Lemma nodup_of_perm v (c : list K1) : Permutation (map strip v) c -> NoDup (map fst c) -> NoDup (ids v).
  Proof. intros P ND. rewrite ids_strip. eapply Permutation_NoDup; [|exact ND]. apply Permutation_map, Permutation_sym, P. Qed.

  Lemma filter_notin id (c : list K1) : ~ In id (map fst c) -> filter (fun q => negb (fst q =? id)) c = c.
  Proof.
    induction c as [|a t IH]; intros H; simpl in *; [reflexivity|].
    destruct (Nat.eqb_spec (fst a) id) as [E|N]; [exfalso; apply H; auto|]. simpl. f_equal. apply IH. tauto.
  Qed.
  Lemma upd_filter id (x : K1) : forall (c : list K1) p, NoDup (map fst c) -> p < length c -> fst (get d1 c p) = id ->
    Permutation (upd p x c) (x :: filter (fun q => negb (fst q =? id)) c).
  Proof.
    induction c as [|a t IH]; intros p ND Hp E; simpl in *; [lia|]. inversion ND as [|y l Hy ND']; subst.
    destruct p as [|p].
    - simpl in *. rewrite Nat.eqb_refl. simpl. rewrite filter_notin by exact Hy. apply Permutation_refl.
    - change (get d1 (a :: t) (S p)) with (get d1 t p) in *.
      destruct (Nat.eqb_spec (fst a) (fst (get d1 t p))) as [E'|N].
      + exfalso. apply Hy. rewrite E'. unfold get. apply in_map. apply nth_In. lia.
      + simpl. eapply perm_trans; [apply perm_skip; apply IH; auto; lia|apply perm_swap].
  Qed.
  Lemma remove_filter id (y : K1) r c : NoDup (map fst c) -> Permutation (y :: r) c -> fst y = id ->
    Permutation r (filter (fun q => negb (fst q =? id)) c).
  Proof.
    intros ND P E.
    assert (ND' : NoDup (map fst (y :: r))) by (eapply Permutation_NoDup; [apply Permutation_map, Permutation_sym, P|exact ND]).
    simpl in ND'. inversion ND' as [|a l Ha _]; subst.
    eapply perm_trans; [|apply perm_filter; exact P]. simpl. rewrite Nat.eqb_refl. simpl.
    rewrite filter_notin by exact Ha. apply Permutation_refl.
  Qed.

  Lemma nodup_fst_filter (f : K1 -> bool) c : NoDup (map fst c) -> NoDup (map fst (filter f c)).
  Proof.
    induction c as [|a t IH]; simpl; intros ND; [constructor|]. inversion ND as [|x l Hx ND']; subst.
    destruct (f a); simpl; [constructor|]; auto.
    intros Hin. apply Hx. apply in_map_iff in Hin. destruct Hin as (q & E & Hq). apply filter_In in Hq.
    apply in_map_iff. exists q. tauto.
  Qed.

  Lemma nodup_ids_spec l : nodup_ids l = true -> NoDup l.
  Proof.
    induction l as [|a t IH]; intros H; simpl in *; [constructor|].
    apply andb_true_iff in H. destruct H as (A & B). constructor; [|apply IH; exact B].
    intros Hin. apply negb_true_iff in A. assert (existsb (Nat.eqb a) t = true); [|congruence].
    apply existsb_exists. exists a. split; [exact Hin|apply Nat.eqb_refl].
  Qed.

  (* abstract specification: the contents as a multiset of (id,key) pairs *)
  Definition not_id (id : nat) (q : K1) : bool := negb (fst q =? id).
  Definition spec_rel (c : list K1) (o : op Key) (c' : list K1) : Prop :=
    match o with
    | OInsert id k => Permutation c' ((id, k) :: c)
    | OInsertL l => Permutation c' (l ++ c)
    | ORemove id => Permutation c' (filter (not_id id) c)
    | OUpdateKey id k => Permutation c' ((id, k) :: filter (not_id id) c)
    | OPop => exists m, Permutation c (m :: c') /\ Forall (fun x => kle (snd m) (snd x) = true) c
    | ORebuild => Permutation c' c
    | OBuildFrom l => Permutation c' l
    | OClear => c' = []
    end.

  Lemma inv_nil : Inv [].
  Proof. split; [intros i Hi; simpl in Hi; lia|]. split; [intros i Hi; simpl in Hi; lia|constructor]. Qed.

  Lemma insert_e_inv id k v : Inv v -> ~ In id (ids v) ->
    Inv (insert_e Key lt dk id k v) /\ Permutation (map strip (insert_e Key lt dk id k v)) ((id, k) :: map strip v).
  Proof.
    intros (H & P & ND) Hid. rewrite insert_e_strip.
    destruct (insert1_spec K1 lt1 le1_total le1_trans d1 (map strip v) (id, k) H) as (A & B & _).
    split; [|exact B]. split; [rewrite insert_e_strip; exact A|]. split; [apply insert_e_posok; exact P|].
    eapply nodup_of_perm; [rewrite insert_e_strip; exact B|]. simpl. constructor; rewrite <- ids_strip; auto.
  Qed.

  Lemma insert_list_inv : forall l v, Inv v -> NoDup (map fst l) -> (forall id, In id (map fst l) -> ~ In id (ids v)) ->
    Inv (insert_list Key lt dk l v) /\ Permutation (map strip (insert_list Key lt dk l v)) (l ++ map strip v).
  Proof.
    induction l as [|[id k] t IH]; intros v I ND F; unfold insert_list in *; cbn [fold_left fst snd].
    - split; [exact I|apply Permutation_refl].
    - simpl in ND. inversion ND as [|a l' Ha ND']; subst.
      destruct (insert_e_inv id k v I (F id (or_introl eq_refl))) as (I1 & P1).
      destruct (IH (insert_e Key lt dk id k v) I1 ND') as (I2 & P2).
      { intros id' Hin Hin'. rewrite ids_strip in Hin'.
        apply (Permutation_in _ (Permutation_map fst P1)) in Hin'. simpl in Hin'. destruct Hin' as [<-|Hin'].
        - apply Ha. exact Hin.
        - rewrite <- ids_strip in Hin'. apply (F id'); [right; exact Hin|exact Hin']. }
      split; [exact I2|]. eapply perm_trans; [exact P2|].
      eapply perm_trans; [apply Permutation_app_head; exact P1|]. simpl.
      apply Permutation_sym, Permutation_middle.
  Qed.

  Lemma fresh_ids_spec l v : fresh_ids Key l v = true -> forall id, In id (map fst l) -> ~ In id (ids v).
  Proof.
    intros H id Hin. apply in_map_iff in Hin. destruct Hin as (p & <- & Hp).
    unfold fresh_ids in H. rewrite forallb_forall in H. specialize (H p Hp). unfold live in H.
    apply find_pos_none. destruct (find_pos Key (fst p) v); [discriminate|reflexivity].
  Qed.

  Theorem step_inv_refines v o v' :
    Inv v -> step Key lt dk v o = Some v' -> Inv v' /\ spec_rel (map strip v) o (map strip v').
  Proof.
    intros I S. pose proof I as (H & P & ND). destruct o as [id k|l|id|id k| | |l|]; cbn [step] in S.
    - (* insert *)
      unfold live in S. destruct (find_pos Key id v) eqn:F; [discriminate|]. injection S as <-.
      apply insert_e_inv; [exact I|]. apply find_pos_none. exact F.
    - (* insert(vector) *)
      destruct (fresh_ids Key l v && nodup_ids (map fst l)) eqn:E; [|discriminate]. injection S as <-.
      apply andb_true_iff in E. destruct E as (E1 & E2).
      apply insert_list_inv; [exact I|apply nodup_ids_spec; exact E2|apply fresh_ids_spec; exact E1].
    - (* remove(handle) *)
      destruct (find_pos Key id v) as [p|] eqn:F; [|discriminate]. injection S as <-.
      destruct (find_pos_posok id v p P F) as (Hp & Eid).
      destruct (removePos_spec K1 lt1 le1_total le1_trans d1 (map strip v) p H ltac:(rewrite map_length; exact Hp)) as (A & B & _).
      rewrite <- removePos_e_strip in A, B.
      assert (R : Permutation (map strip (removePos_e Key lt dk p v)) (filter (not_id id) (map strip v))).
      { eapply remove_filter; [rewrite <- ids_strip; exact ND|exact B|]. rewrite <- strip_get. exact Eid. }
      split; [|exact R]. split; [exact A|]. split; [apply removePos_e_posok; exact P|].
      eapply nodup_of_perm; [exact R|]. apply nodup_fst_filter. rewrite <- ids_strip. exact ND.
    - (* key change + update(handle) *)
      destruct (find_pos Key id v) as [p|] eqn:F; [|discriminate]. injection S as <-.
      destruct (find_pos_posok id v p P F) as (Hp & Eid).
      set (v1 := set_key Key id k v).
      assert (E1 : map strip v1 = upd p (id, k) (map strip v)) by (apply set_key_strip; auto).
      assert (W : WeakInv K1 lt1 d1 (map strip v1) p).
      { rewrite E1. apply heap_upd_weak; [exact le1_trans|exact H|rewrite map_length; exact Hp]. }
      destruct (update_at_spec K1 lt1 le1_total le1_trans d1 _ _ W) as (A & B & _). unfold update_at in A, B.
      rewrite <- percolateUp_e_strip, <- percolateDown_e_strip in A, B.
      assert (R : Permutation (map strip (percolateDown_e Key lt dk p (percolateUp_e Key lt dk p v1)))
                    ((id, k) :: filter (not_id id) (map strip v))).
      { eapply perm_trans; [exact B|]. rewrite E1. apply upd_filter.
        - rewrite <- ids_strip; exact ND.
        - rewrite map_length; exact Hp.
        - rewrite <- strip_get. exact Eid. }
      split; [|exact R]. split; [exact A|]. split.
      + apply percolateDown_e_props. apply percolateUp_e_props. apply set_key_posok. exact P.
      + eapply nodup_of_perm; [exact R|]. simpl. constructor.
        * intros Hin. apply in_map_iff in Hin. destruct Hin as (q & E & Hq). apply filter_In in Hq.
          destruct Hq as (_ & Hq). unfold not_id in Hq. rewrite E, Nat.eqb_refl in Hq. discriminate.
        * apply nodup_fst_filter. rewrite <- ids_strip. exact ND.
    - (* pop *)
      destruct v as [|e t]; [discriminate|]. injection S as <-.
      destruct (removePos_spec K1 lt1 le1_total le1_trans d1 (map strip (e :: t)) 0 H ltac:(simpl; lia)) as (A & B & _).
      rewrite <- removePos_e_strip in A, B.
      assert (R : Permutation (map strip (removePos_e Key lt dk 0 (e :: t))) (filter (not_id (eid e)) (map strip (e :: t)))).
      { eapply remove_filter; [rewrite <- ids_strip; exact ND|exact B|reflexivity]. }
      split.
      + split; [exact A|]. split; [apply removePos_e_posok; exact P|].
        eapply nodup_of_perm; [exact R|]. apply nodup_fst_filter. rewrite <- ids_strip. exact ND.
      + exists (strip e). split; [apply Permutation_sym; exact B|].
        apply Forall_forall. intros x Hx. destruct (In_get d1 _ _ Hx) as (i & Hi & <-).
        apply (top_is_min K1 lt1 le1_total le1_trans d1 (map strip (e :: t)) H i Hi).
    - (* rebuild *)
      injection S as <-. destruct (build_spec K1 lt1 le1_total le1_trans d1 (map strip v)) as (A & B & _).
      rewrite <- build_e_strip in A, B. split; [|exact B]. split; [exact A|]. split.
      + unfold build_e. apply build_from_e_posok. exact P.
      + eapply nodup_of_perm; [exact B|]. rewrite <- ids_strip. exact ND.
    - (* buildFrom *)
      destruct (nodup_ids (map fst l)) eqn:E; [|discriminate]. injection S as <-.
      destruct (build_spec K1 lt1 le1_total le1_trans d1 (map strip (mk_elts Key 0 l))) as (A & B & _).
      rewrite <- build_e_strip in A, B. rewrite mk_elts_strip in B. split; [|exact B]. split; [exact A|]. split.
      + unfold build_e. apply build_from_e_posok. apply posok_mk_elts.
      + eapply nodup_of_perm; [exact B|]. apply nodup_ids_spec. exact E.
    - (* clear *)
      injection S as <-. split; [apply inv_nil|reflexivity].
  Qed.

  Theorem run_inv : forall ops v v', Inv v -> run Key lt dk v ops = Some v' -> Inv v'.
  Proof.
    induction ops as [|o t IH]; intros v v' I R; cbn [run] in R; [injection R as <-; exact I|].
    destruct (step Key lt dk v o) as [v1|] eqn:S; [|discriminate].
    apply (IH v1 v'); [|exact R]. apply (step_inv_refines v o v1 I S).
  Qed.

  (* ---- consequences of the invariant ---- *)
  Theorem top_is_minimum v e t : Inv v -> v = e :: t -> forall x, In x v -> kle (ekey e) (ekey x) = true.
  Proof.
    intros (H & _) -> x Hx.
    assert (Hs : In (strip x) (map strip (e :: t))) by (apply in_map; exact Hx).
    destruct (In_get d1 _ _ Hs) as (i & Hi & E).
    pose proof (top_is_min K1 lt1 le1_total le1_trans d1 _ H i Hi) as T. rewrite E in T. exact T.
  Qed.

  Theorem handles_identify v : Inv v -> forall i, i < length v ->
    find_pos Key (eid (gete v i)) v = Some i /\ nth_error v i = Some (gete v i).
  Proof.
    intros (_ & P & ND) i Hi. split.
    - rewrite find_pos_get by auto. rewrite P by exact Hi. reflexivity.
    - unfold get. apply nth_error_nth'. exact Hi.
  Qed.

  Theorem pop_all_sorted_perm v : Inv v ->
    Permutation (map strip (pop_all_e Key lt dk (length v) v)) (map strip v) /\
    StronglySorted (fun a b => kle a b = true) (map (@ekey Key) (pop_all_e Key lt dk (length v) v)).
  Proof.
    intros (H & _). rewrite pop_all_e_strip.
    destruct (pop_all_spec K1 lt1 le1_total le1_trans d1 (length v) (map strip v) H ltac:(rewrite map_length; lia)) as (A & B).
    split; [exact A|].
    rewrite <- pop_all_e_strip in B.
    replace (map (@ekey Key) (pop_all_e Key lt dk (length v) v)) with (map snd (map strip (pop_all_e Key lt dk (length v) v)))
      by (rewrite map_map; reflexivity).
    induction B as [|a l _ IH F]; simpl; constructor; [exact IH|].
    apply Forall_forall. intros y Hy. apply in_map_iff in Hy. destruct Hy as (q & <- & Hq).
    rewrite Forall_forall in F. apply (F q Hq).
  Qed.

  Lemma snd_combine_seq (l : list Key) : forall b, map snd (combine (seq b (length l)) l) = l.
  Proof. induction l as [|a t IH]; intros b; simpl; [reflexivity|]. f_equal. apply IH. Qed.
  Lemma fst_combine_seq (l : list Key) : forall b, map fst (combine (seq b (length l)) l) = seq b (length l).
  Proof. induction l as [|a t IH]; intros b; simpl; [reflexivity|]. f_equal. apply IH. Qed.

  Theorem sort_keys_sorted_perm (l : list Key) :
    Permutation (sort_keys Key lt dk l) l /\ StronglySorted (fun a b => kle a b = true) (sort_keys Key lt dk l).
  Proof.
    unfold sort_keys. set (c := combine (seq 0 (length l)) l).
    assert (I : Inv (build_e Key lt dk (mk_elts Key 0 c))).
    { destruct (build_spec K1 lt1 le1_total le1_trans d1 (map strip (mk_elts Key 0 c))) as (A & B & _).
      rewrite <- build_e_strip in A, B. rewrite mk_elts_strip in B. split; [exact A|]. split.
      - unfold build_e. apply build_from_e_posok. apply posok_mk_elts.
      - eapply nodup_of_perm; [exact B|]. unfold c. rewrite fst_combine_seq. apply seq_NoDup. }
    destruct (pop_all_sorted_perm _ I) as (A & B). split; [|exact B].
    replace (map (@ekey Key) (pop_all_e Key lt dk (length (build_e Key lt dk (mk_elts Key 0 c))) (build_e Key lt dk (mk_elts Key 0 c))))
      with (map snd (map strip (pop_all_e Key lt dk (length (build_e Key lt dk (mk_elts Key 0 c))) (build_e Key lt dk (mk_elts Key 0 c)))))
      by (rewrite map_map; reflexivity).
    eapply perm_trans; [apply Permutation_map; exact A|].
    destruct (build_spec K1 lt1 le1_total le1_trans d1 (map strip (mk_elts Key 0 c))) as (_ & B' & _).
    rewrite <- build_e_strip in B'. rewrite mk_elts_strip in B'.
    eapply perm_trans; [apply Permutation_map; exact B'|]. unfold c. rewrite snd_combine_seq. apply Permutation_refl.
  Qed.
End EltProofs.
