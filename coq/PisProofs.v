(* PisProofs.v — each valid start of the current query is handed out exactly once and in order; clear() and a new
   problem definition forget the old query completely. *)
From Coq Require Import List ZArith Bool Arith Lia.
From OmplV Require Import PisModel.
Import ListNotations.

Lemma scan_start_some : forall l a s a', scan_start l a = (Some s, a') ->
  exists pre post, l = pre ++ (s, true) :: post /\ Forall (fun x => snd x = false) pre /\ a' = a + length pre + 1.
Proof.
  induction l as [|[x ok] t IH]; intros a s a' H; cbn [scan_start] in H; [discriminate|].
  destruct ok.
  - inversion H; subst. exists [], t. cbn. repeat split; [constructor | lia].
  - apply IH in H. destruct H as [pre [post [E [F A]]]]. exists ((x, false) :: pre), post. subst t. cbn.
    repeat split; [constructor; [reflexivity | exact F] | lia].
Qed.
Lemma scan_start_none : forall l a a', scan_start l a = (None, a') -> Forall (fun x => snd x = false) l /\ a' = a + length l.
Proof.
  induction l as [|[x ok] t IH]; intros a a' H; cbn [scan_start] in H.
  - inversion H. split; [constructor | cbn; lia].
  - destruct ok; [discriminate|]. apply IH in H. destruct H as [F A]. split; [constructor; [reflexivity | exact F] | cbn; lia].
Qed.

Lemma filter_all_false : forall (l : list (Z * bool)), Forall (fun x => snd x = false) l -> filter snd l = [].
Proof. induction l as [|x t IH]; intros H; [reflexivity|]. inversion H; subst. cbn. rewrite H2. apply IH. exact H3. Qed.

Lemma skipn_app_exact : forall {A} (l1 l2 : list A), skipn (length l1) (l1 ++ l2) = l2.
Proof. induction l1 as [|x t IH]; intros l2; [reflexivity | cbn; apply IH]. Qed.
Lemma skipn_more : forall {A} (l : list A) a k, skipn (a + k) l = skipn k (skipn a l).
Proof. intros A l a. revert l. induction a as [|a IH]; intros l k; [reflexivity|]. destruct l; [cbn; rewrite skipn_nil; reflexivity | cbn; apply IH]. Qed.

(* one call *)
Theorem next_start_member : forall w s w' i, next_start w = (Some s, w') -> w_pis w = Some i ->
  In (s, true) (pd_starts (get_pd w i)) /\ w_pdefs w' = w_pdefs w /\ w_pis w' = w_pis w /\ w_added w < w_added w'.
Proof.
  intros w s w' i H Hp. unfold next_start in H. rewrite Hp in H.
  destruct (scan_start (skipn (w_added w) (pd_starts (get_pd w i))) (w_added w)) as [r a] eqn:E.
  inversion H; subst. apply scan_start_some in E. destruct E as [pre [post [E [F A]]]].
  cbn [w_pdefs w_pis w_added]. split; [|split; [reflexivity | split; [symmetry; exact Hp | lia]]].
  rewrite <- (firstn_skipn (w_added w) (pd_starts (get_pd w i))). rewrite E.
  apply in_or_app. right. apply in_or_app. right. left. reflexivity.
Qed.

(* draining: exactly the valid starts not yet handed out, in order, each once *)
Lemma drain_spec : forall fuel w i, w_pis w = Some i ->
  length (pd_starts (get_pd w i)) - w_added w < fuel ->
  fst (drain_starts fuel w) = map fst (filter snd (skipn (w_added w) (pd_starts (get_pd w i)))) /\
  have_more_starts (snd (drain_starts fuel w)) = false /\
  w_pis (snd (drain_starts fuel w)) = Some i /\ w_pdefs (snd (drain_starts fuel w)) = w_pdefs w.
Proof.
  induction fuel as [|k IH]; intros w i Hp Hf; [lia|].
  cbn [drain_starts]. unfold next_start. rewrite Hp.
  destruct (scan_start (skipn (w_added w) (pd_starts (get_pd w i))) (w_added w)) as [r a] eqn:E.
  destruct r as [s|].
  - apply scan_start_some in E. destruct E as [pre [post [E [F A]]]].
    set (w1 := mkW (w_pdefs w) (w_planner w) (Some i) a (w_sampled w)).
    assert (Hp1 : w_pis w1 = Some i) by reflexivity.
    assert (G : get_pd w1 i = get_pd w i) by reflexivity.
    assert (Hlen : length (skipn (w_added w) (pd_starts (get_pd w i))) = length pre + 1 + length post).
    { rewrite E. rewrite app_length. cbn. lia. }
    rewrite skipn_length in Hlen.
    assert (Hf1 : length (pd_starts (get_pd w1 i)) - w_added w1 < k) by (rewrite G; cbn; lia).
    specialize (IH w1 i Hp1 Hf1). destruct (drain_starts k w1) as [l w2] eqn:D. cbn [fst snd] in *.
    destruct IH as [I1 [I2 [I3 I4]]]. split; [|split; [exact I2 | split; [exact I3 | exact I4]]].
    rewrite I1. rewrite G. cbn [w_added w1]. subst a.
    replace (w_added w + length pre + 1) with (w_added w + (length pre + 1)) by lia.
    rewrite skipn_more. rewrite E.
    replace (length pre + 1) with (length (pre ++ [(s, true)])) by (rewrite app_length; cbn; lia).
    replace (pre ++ (s, true) :: post) with ((pre ++ [(s, true)]) ++ post) by (rewrite <- app_assoc; reflexivity).
    rewrite skipn_app_exact. rewrite <- app_assoc. rewrite filter_app. rewrite (filter_all_false pre F). cbn. reflexivity.
  - apply scan_start_none in E. destruct E as [F A]. cbn [fst snd].
    rewrite (filter_all_false _ F). split; [reflexivity|]. split.
    + unfold have_more_starts. cbn [w_pis w_added]. change (get_pd _ i) with (get_pd w i). rewrite skipn_length in A.
      apply Nat.ltb_ge. lia.
    + split; reflexivity.
Qed.

Theorem fresh_query_hands_out_every_valid_start_once : forall w i, w_pis w = Some i -> w_added w = 0 ->
  let starts := pd_starts (get_pd w i) in
  fst (drain_starts (S (length starts)) w) = map fst (filter snd starts) /\
  have_more_starts (snd (drain_starts (S (length starts)) w)) = false.
Proof.
  intros w i Hp Ha starts. destruct (drain_spec (S (length starts)) w i Hp) as [H1 [H2 _]]; [subst starts; lia|].
  rewrite Ha in H1. cbn [skipn] in H1. split; assumption.
Qed.

(* clear() and a different problem definition forget the previous query *)
Theorem clear_forgets : forall w i, w_planner w = Some i ->
  let w' := planner_clear w in w_pis w' = Some i /\ w_added w' = 0 /\ w_sampled w' = 0 /\ w_pdefs w' = w_pdefs w.
Proof. intros w i H. unfold planner_clear, pis_use. cbn. rewrite H. cbn. auto. Qed.
Theorem new_pdef_forgets : forall w i, w_pis w <> Some i ->
  let w' := set_pdef w i in w_pis w' = Some i /\ w_added w' = 0 /\ w_sampled w' = 0 /\ w_planner w' = Some i.
Proof.
  intros w i H. unfold set_pdef, pis_use. cbn.
  destruct (w_pis w) as [j|] eqn:E; [|cbn; auto].
  destruct (Nat.eqb i j) eqn:Eq; [apply Nat.eqb_eq in Eq; subst; contradiction | cbn; auto].
Qed.
Theorem same_pdef_keeps_progress : forall w i, w_pis w = Some i -> set_pdef w i = mkW (w_pdefs w) (Some i) (w_pis w) (w_added w) (w_sampled w).
Proof. intros w i H. unfold set_pdef, pis_use. cbn. rewrite H. rewrite Nat.eqb_refl. reflexivity. Qed.

(* so: after clear() (or after switching to problem definition i) the starts handed out are exactly the valid starts
   of the CURRENT problem definition, whatever the history before *)
Theorem after_clear_only_current_starts : forall w i, w_planner w = Some i ->
  let w' := planner_clear w in
  fst (drain_starts (S (length (pd_starts (get_pd w i)))) w') = map fst (filter snd (pd_starts (get_pd w i))).
Proof.
  intros w i H w'. destruct (clear_forgets w i H) as [H1 [H2 [_ H4]]]. fold w' in H1, H2, H4.
  assert (G : get_pd w' i = get_pd w i) by (unfold get_pd; rewrite H4; reflexivity).
  pose proof (fresh_query_hands_out_every_valid_start_once w' i H1 H2) as [F _]. rewrite G in F. exact F.
Qed.

(* goals: the always-terminating nextGoal() draws at most one sample per call and at most maxSampleCount per query *)
Theorem next_goal_counts : forall w r w', next_goal w = (r, w') -> w_sampled w' <= S (w_sampled w) /\
  (forall i, w_pis w = Some i -> w_sampled w' <= Nat.max (w_sampled w) (length (pd_goals (get_pd w i)))).
Proof.
  intros w r w' H. unfold next_goal in H. destruct (w_pis w) as [i|] eqn:E.
  - destruct (Nat.ltb (w_sampled w) (length (pd_goals (get_pd w i)))) eqn:L.
    + destruct (nth _ (pd_goals (get_pd w i)) (0%Z, false)) as [g ok]. inversion H; subst. cbn. apply Nat.ltb_lt in L.
      split; [lia|]. intros j Hj. inversion Hj; subst. lia.
    + inversion H; subst. split; [lia|]. intros j Hj. lia.
  - inversion H; subst. split; [lia|]. intros j Hj. discriminate.
Qed.
