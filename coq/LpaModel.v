(* LpaModel.v — ompl::LPAstarOnGraph (the incremental shortest-path structure of LazyLBTRRT) on LazyLBTRRT's graph type (undirected,
   per-vertex edge lists in insertion order): insertEdge / removeEdge as LazyLBTRRT calls them (both directions), and
   computeShortestPath with its queue of inconsistent nodes ordered by stored keys.  Costs are integers or infinity (None).
   [erase_all] selects the queue removal rule: true = the pinned code's std::multiset::erase(key), which removes EVERY node whose
   stored key is equivalent to the given node's; false = the repaired rule, which removes that node only. *)
From Coq Require Import List Bool Arith ZArith.
Import ListNotations.
Local Open Scope Z_scope.

Definition cost := option Z.                       (* None = infinity *)
Definition cadd (a : cost) (c : Z) : cost := match a with Some x => Some (x + c) | None => None end.
Definition clt (a b : cost) : bool := match a, b with Some x, Some y => x <? y | Some _, None => true | None, _ => false end.
Definition ceq (a b : cost) : bool := match a, b with Some x, Some y => x =? y | None, None => true | _, _ => false end.
Definition cmin (a b : cost) : cost := if clt b a then b else a.        (* std::min(a, b) = (b < a) ? b : a *)
Definition key := (cost * cost)%type.
Definition klt (a b : key) : bool := if negb (ceq (fst a) (fst b)) then clt (fst a) (fst b) else clt (snd a) (snd b).

Record lnode := mkN { n_id : nat; n_g : cost; n_h : Z; n_r : cost; n_k : key; n_inq : bool; n_par : option nat }.
Definition calc_key (n : lnode) : key := (cmin (n_g n) (cadd (n_r n) (n_h n)), cmin (n_g n) (n_r n)).
Record lpa := mkLpa { l_nodes : list lnode;                     (* the nodes created so far *)
                      l_queue : list nat;                       (* identities, in the multiset's order *)
                      l_adj : list (nat * list (nat * Z));      (* per vertex: incident edges (other end, weight) in insertion order *)
                      l_src : nat; l_tgt : nat }.

Section Lpa.
  Variable erase_all : bool.
  Variable hfun : nat -> Z.

  Definition find_node (s : lpa) (i : nat) : option lnode := find (fun n => Nat.eqb (n_id n) i) (l_nodes s).
  Definition new_node (i : nat) : lnode := let n := mkN i None (hfun i) None (None, None) false None in mkN i None (hfun i) None (calc_key n) false None.
  (* getNode: creates the node on first use *)
  Definition get_node (s : lpa) (i : nat) : lpa * lnode :=
    match find_node s i with
    | Some n => (s, n)
    | None => let n := new_node i in (mkLpa (l_nodes s ++ [n]) (l_queue s) (l_adj s) (l_src s) (l_tgt s), n)
    end.
  Definition put_node (s : lpa) (n : lnode) : lpa :=
    mkLpa (map (fun m => if Nat.eqb (n_id m) (n_id n) then n else m) (l_nodes s)) (l_queue s) (l_adj s) (l_src s) (l_tgt s).
  Definition key_of (s : lpa) (i : nat) : key := match find_node s i with Some n => n_k n | None => (None, None) end.
  (* multiset::insert: after the last element that is not greater *)
  Fixpoint q_insert (s : lpa) (k : key) (i : nat) (q : list nat) : list nat :=
    match q with
    | [] => [i]
    | j :: t => if klt k (key_of s j) then i :: q else j :: q_insert s k i t
    end.
  Definition q_remove (s : lpa) (k : key) (i : nat) (q : list nat) : list nat :=
    if erase_all then filter (fun j => klt (key_of s j) k || klt k (key_of s j)) q      (* every element equivalent to k goes *)
    else filter (fun j => negb (Nat.eqb j i)) q.
  Definition set_inq (s : lpa) (i : nat) (b : bool) : lpa :=
    match find_node s i with Some n => put_node s (mkN (n_id n) (n_g n) (n_h n) (n_r n) (n_k n) b (n_par n)) | None => s end.
  Definition insert_queue (s : lpa) (i : nat) : lpa :=
    match find_node s i with
    | Some n => let n' := mkN (n_id n) (n_g n) (n_h n) (n_r n) (calc_key n) true (n_par n) in
                let s1 := put_node s n' in
                mkLpa (l_nodes s1) (q_insert s1 (n_k n') i (l_queue s1)) (l_adj s1) (l_src s1) (l_tgt s1)
    | None => s
    end.
  Definition remove_queue (s : lpa) (i : nat) : lpa :=
    match find_node s i with
    | Some n => if n_inq n then
                  let s1 := put_node s (mkN (n_id n) (n_g n) (n_h n) (n_r n) (n_k n) false (n_par n)) in
                  mkLpa (l_nodes s1) (q_remove s1 (n_k n) i (l_queue s1)) (l_adj s1) (l_src s1) (l_tgt s1)
                else s
    | None => s
    end.
  Definition update_vertex (s : lpa) (i : nat) : lpa :=
    match find_node s i with
    | Some n => if negb (ceq (n_g n) (n_r n)) then (if n_inq n then insert_queue (remove_queue s i) i else insert_queue s i)
                else if n_inq n then remove_queue s i else s
    | None => s
    end.
  Definition adj_of (s : lpa) (u : nat) : list (nat * Z) := match find (fun p => Nat.eqb (fst p) u) (l_adj s) with Some p => snd p | None => [] end.
  (* chooseBestIncomingNode: first strict minimum of g(u) + c over the incident edges *)
  Fixpoint best_in (s : lpa) (es : list (nat * Z)) (best : option nat) (bmin : cost) : lpa * option nat * cost :=
    match es with
    | [] => (s, best, bmin)
    | (u, c) :: t => let '(s1, nu) := get_node s u in
                     let cur := cadd (n_g nu) c in
                     if clt cur bmin then best_in s1 t (Some u) cur else best_in s1 t best bmin
    end.
  Definition choose_best (s : lpa) (v : nat) : lpa :=
    let '(s1, best, bmin) := best_in s (adj_of s v) None None in
    match find_node s1 v with
    | Some n => put_node s1 (mkN (n_id n) (n_g n) (n_h n) bmin (n_k n) (n_inq n) best)
    | None => s1
    end.
  (* insertEdge(u, v, c) *)
  Definition insert_edge (s : lpa) (u v : nat) (c : Z) : lpa :=
    let '(s1, nu) := get_node s u in let '(s2, nv) := get_node s1 v in
    if clt (cadd (n_g nu) c) (n_r nv) then update_vertex (put_node s2 (mkN (n_id nv) (n_g nv) (n_h nv) (cadd (n_g nu) c) (n_k nv) (n_inq nv) (Some u))) v
    else s2.
  (* removeEdge(u, v), the edge already gone from the graph *)
  Definition remove_edge (s : lpa) (u v : nat) : lpa :=
    let '(s1, nu) := get_node s u in let '(s2, nv) := get_node s1 v in
    let s3 := match n_par nv with Some p => if Nat.eqb p u then choose_best s2 v else s2 | None => s2 end in
    update_vertex s3 v.
  Definition adj_add (adj : list (nat * list (nat * Z))) (a b : nat) (c : Z) : list (nat * list (nat * Z)) :=
    if existsb (fun p => Nat.eqb (fst p) a) adj then map (fun p => if Nat.eqb (fst p) a then (fst p, snd p ++ [(b, c)]) else p) adj else adj ++ [(a, [(b, c)])].
  Definition adj_del (adj : list (nat * list (nat * Z))) (a b : nat) : list (nat * list (nat * Z)) :=
    map (fun p => if Nat.eqb (fst p) a then (fst p, filter (fun e => negb (Nat.eqb (fst e) b)) (snd p)) else p) adj.
  (* LazyLBTRRT::addEdgeLb / removeEdgeLb *)
  Definition op_insert (s : lpa) (u v : nat) (c : Z) : lpa :=
    let s0 := mkLpa (l_nodes s) (l_queue s) (adj_add (adj_add (l_adj s) u v c) v u c) (l_src s) (l_tgt s) in
    insert_edge (insert_edge s0 u v c) v u c.
  Definition has_edge (s : lpa) (u v : nat) : bool := existsb (fun e => Nat.eqb (fst e) v) (adj_of s u).
  Definition op_remove (s : lpa) (u v : nat) : lpa :=
    if has_edge s u v then
      let s0 := mkLpa (l_nodes s) (l_queue s) (adj_del (adj_del (l_adj s) u v) v u) (l_src s) (l_tgt s) in
      remove_edge (remove_edge s0 u v) v u
    else s.

  (* computeShortestPath: the search loop *)
  Definition over_step (s : lpa) (u : lnode) : lpa :=
    let s1 := put_node s (mkN (n_id u) (n_r u) (n_h u) (n_r u) (n_k u) false (n_par u)) in          (* g := rhs; popHead *)
    let s2 := mkLpa (l_nodes s1) (tl (l_queue s1)) (l_adj s1) (l_src s1) (l_tgt s1) in
    fold_left (fun st e =>
                 let '(st1, nv) := get_node st (fst e) in
                 if clt (cadd (n_r u) (snd e)) (n_r nv)
                 then update_vertex (put_node st1 (mkN (n_id nv) (n_g nv) (n_h nv) (cadd (n_r u) (snd e)) (n_k nv) (n_inq nv) (Some (n_id u)))) (fst e)
                 else st1) (adj_of s2 (n_id u)) s2.
  Definition under_step (s : lpa) (u : lnode) : lpa :=
    let s1 := update_vertex (put_node s (mkN (n_id u) None (n_h u) (n_r u) (n_k u) (n_inq u) (n_par u))) (n_id u) in
    fold_left (fun st e =>
                 let '(st1, nv) := get_node st (fst e) in
                 if Nat.eqb (fst e) (l_src st1) || negb (match n_par nv with Some p => Nat.eqb p (n_id u) | None => false end) then st1
                 else update_vertex (choose_best st1 (fst e)) (fst e)) (adj_of s1 (n_id u)) s1.
  (* the flag says whether the loop ended by itself (false = out of fuel) *)
  Fixpoint search (fuel : nat) (s : lpa) : lpa * bool :=
    match fuel with
    | O => (s, false)
    | S f =>
      match l_queue s, find_node s (l_tgt s) with
      | top :: _, Some t =>
        match find_node s top with
        | Some u =>
          (* target_->calculateKey() stores the key as a side effect *)
          let t' := mkN (n_id t) (n_g t) (n_h t) (n_r t) (calc_key t) (n_inq t) (n_par t) in
          let s0 := put_node s t' in
          let u0 := if Nat.eqb top (l_tgt s) then t' else u in
          if klt (n_k u0) (n_k t') || negb (ceq (n_r t') (n_g t')) then
            let s1 := if clt (n_r u0) (n_g u0) then over_step s0 u0 else under_step s0 u0 in
            search f s1
          else (s0, true)
        | None => (s, true)
        end
      | _, _ => (s, true)
      end
    end.
  (* the walk over the parent pointers; None = it did not end within the fuel (a cycle) *)
  Fixpoint walk (fuel : nat) (s : lpa) (i : option nat) (acc : list nat) : option (list nat) :=
    match i with
    | None => Some acc
    | Some j => match fuel with
                | O => None
                | S f => walk f s (match find_node s j with Some n => n_par n | None => None end) (j :: acc)
                end
    end.
  Definition shortest_path (fuel : nat) (s : lpa) : lpa * cost * option (list nat) :=
    match l_queue s with
    | [] => (s, None, Some [])
    | _ => let '(s1, fin) := search fuel s in
           if negb fin then (s1, None, None)
           else match find_node s1 (l_tgt s1) with
                | Some t => (s1, n_g t, match n_g t with None => Some [] | Some _ => walk fuel s1 (Some (l_tgt s1)) [] end)
                | None => (s1, None, Some [])
                end
    end.
  Definition lpa_init (src tgt : nat) : lpa :=
    let s0 := mkN src None (hfun src) (Some 0) (None, None) false None in
    let s1 := mkN tgt None 0 None (None, None) false None in
    let st := mkLpa [mkN src None (hfun src) (Some 0) (calc_key s0) false None; mkN tgt None 0 None (calc_key s1) false None] [] [] src tgt in
    insert_queue st src.
End Lpa.

(* scripts *)
Inductive lop := LIns (u v : nat) (c : Z) | LRem (u v : nat) | LSp.
Definition lpa_step (erase_all : bool) (hfun : nat -> Z) (fuel : nat) (s : lpa) (o : lop) : lpa * option (cost * option (list nat)) :=
  match o with
  | LIns u v c => (op_insert erase_all hfun s u v c, None)
  | LRem u v => (op_remove erase_all hfun s u v, None)
  | LSp => let '(s1, c, p) := shortest_path erase_all hfun fuel s in (s1, Some (c, p))
  end.
