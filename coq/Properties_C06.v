(* Properties_C06.v — property C06 (state-space distances obey the metric laws) for the piecewise-algebraic spaces:
   R^n, SO(2), time, discrete and arbitrary nested weighted compounds of them.  Statements only. *)
From Coq Require Import List Bool Arith Reals Floats.
From OmplV Require Import SpacesModel SpacesReal SpacesFloat.
Import ListNotations.
Local Open Scope R_scope.

Section C06.
  Variables (fm : R -> R -> R) (fl : R -> R) (eps : R).
  Notation A := (ReA fm fl eps).

  (* non-negative, symmetric, zero on the diagonal, triangle inequality, for every in-bounds triple of every
     space obtained from the leaves by weighted composition (weights >= 0) *)
  Theorem C06_distance_is_metric : forall sp, metric_on fm fl eps sp.
  Proof. exact (distance_is_metric fm fl eps). Qed.

  (* the distance of a compound space is the weighted sum of its components' distances *)
  Theorem C06_compound_is_weighted_sum : forall subs xs ys,
    distance A (Comp A subs) (C A xs) (C A ys) = csum fm fl eps subs xs ys.
  Proof. exact (compound_distance_weighted_sum fm fl eps). Qed.

  (* never larger than the reported maximum extent (R^n; SO(2): <= pi) *)
  Theorem C06_rv_distance_le_extent : forall bs a b, rv_inb bs a -> rv_inb bs b -> rv_distance A a b <= extent A (RV A bs).
  Proof. exact (rv_le_extent fm fl eps). Qed.
  Theorem C06_so2_distance_le_extent : forall a b, so2_inb a -> so2_inb b -> 0 <= so2_distance A a b <= extent A (SO2 A).
  Proof. intros a b Ha Hb. apply (so2_dist_facts fm fl eps a b Ha Hb). Qed.
  (* and on every space built from the bounded leaves by weighted composition (weights >= 0, compounds nested to any depth):
     CompoundStateSpace::getMaximumExtent sums weight x extent over the components with a positive weight (the repaired rule) *)
  Theorem C06_distance_le_extent_every_bounded_space : forall sp, bounded_sp fm fl eps sp ->
    forall a b, inb fm fl eps sp a -> inb fm fl eps sp b -> distance A sp a b <= extent A sp.
  Proof. exact (distance_le_extent fm fl eps). Qed.
End C06.

Print Assumptions C06_distance_is_metric.
Print Assumptions C06_compound_is_weighted_sum.
Print Assumptions C06_rv_distance_le_extent.
Print Assumptions C06_so2_distance_le_extent.
Print Assumptions C06_distance_le_extent_every_bounded_space.

(* non-vacuity and a defect, on the binary64 instance *)
Local Open Scope float_scope.
Example C06_nonvacuous :
  distance FlA (Comp FlA [(1, RV FlA [(0,1);(0,1)]); (0.5, SO2 FlA)]) (C FlA [L FlA [0.25;0.5]; L FlA [3]]) (C FlA [L FlA [1;0.5]; L FlA [-3]])
  = 0.89159265358979312.
Proof. vm_compute. reflexivity. Qed.
(* the pinned rule skipped components whose weight is below epsilon while the distance still adds them: two in-bounds states farther
   apart than the reported maximum extent; with the repaired rule (every positive weight) the extent is 2^-60 as well *)
Example C06_compound_extent_refuted :
  let sp := Comp FlA [(0x1p-60, RV FlA [(0, 1)])] in
  extent_orig FlA sp = 0 /\ distance FlA sp (C FlA [L FlA [0]]) (C FlA [L FlA [1]]) = 0x1p-60 /\ extent FlA sp = 0x1p-60.
Proof. vm_compute. repeat split; reflexivity. Qed.
