(* RrtConnectProofs.v — what geometric::RRTConnect reports, for every stream of samples and every collaborator: the start tree
   only contains motions validated parent -> child hanging off start states, the goal tree motions validated child -> parent
   hanging off goal states; an exact report is the start-tree chain to the connection followed by the goal-tree chain back to
   a goal state, every consecutive pair validated in the direction it is traversed; an approximate report is a start-tree
   chain whose last state's goal distance is the reported difference. *)
From Coq Require Import List Bool Arith Lia.
From OmplV Require Import RrtConnectModel LedgerProofs.
Import ListNotations.

Section RcP.
  Variables St D : Type.
  Variable dist : St -> St -> D.
  Variable dlt : D -> D -> bool.
  Variable steer : St -> St -> option (St * bool).
  Variable mvS mvG : St -> St -> bool.
  Variable gdist : St -> D.
  Variable goals : list St.
  Variable dflt : St.
  Hypothesis steer_reach : forall n r d, steer n r = Some (d, true) -> d = r.
  Notation node := (node St).
  Notation nearest := (nearest St D dist dlt).
  Notation st_at := (st_at St dflt).
  Notation grow := (grow St D dist dlt steer mvS mvG dflt).
  Notation connect_more := (connect_more St D dist dlt steer mvS mvG dflt).

  Lemma nearest_from_lt : forall t q j best bd, (best < j)%nat -> (nearest_from St D dist dlt t q j best bd < j + length t)%nat.
  Proof. induction t as [|[s p] t IH]; intros q j best bd H; cbn [nearest_from length]; [lia|]. destruct (dlt (dist s q) bd); [specialize (IH q (S j) j (dist s q) ltac:(lia))|specialize (IH q (S j) best bd ltac:(lia))]; lia. Qed.
  Lemma nearest_lt tree q : tree <> [] -> (nearest tree q < length tree)%nat.
  Proof. destruct tree as [|[s p] t]; [congruence|]. intros _. cbn [RrtConnectModel.nearest length]. pose proof (nearest_from_lt t q 1 0 (dist s q) ltac:(lia)). lia. Qed.

  (* the edge relation of a tree: start tree (b = true) parent -> child by mvS; goal tree child -> parent by mvG *)
  Definition Eb (b : bool) (p c : St) : Prop := if b then mvS p c = true else mvG c p = true.
  Definition TInv (b : bool) (roots : list St) (tree : list node) : Prop :=
    (forall i s, nth_error tree i = Some (s, None) -> In s roots) /\
    (forall i s p, nth_error tree i = Some (s, Some p) -> (p < i)%nat /\ exists ps pp, nth_error tree p = Some (ps, pp) /\ Eb b ps s).

  Lemma nth_error_snoc {A} (l : list A) x i : nth_error (l ++ [x]) i = if (i <? length l)%nat then nth_error l i else if (i =? length l)%nat then Some x else None.
  Proof.
    destruct (Nat.ltb_spec i (length l)); [apply nth_error_app1; assumption|]. rewrite nth_error_app2 by lia.
    destruct (Nat.eqb_spec i (length l)) as [->|N]; [rewrite Nat.sub_diag; reflexivity|]. destruct (i - length l)%nat eqn:E0; [lia|]. cbn. destruct n; reflexivity.
  Qed.
  Lemma st_at_snoc_new tree s p : st_at (tree ++ [(s, p)]) (length tree) = s.
  Proof. unfold RrtConnectModel.st_at. rewrite app_nth2 by lia. rewrite Nat.sub_diag. reflexivity. Qed.
  Lemma st_at_app_old tree ext j : (j < length tree)%nat -> st_at (tree ++ ext) j = st_at tree j.
  Proof. intros H. unfold RrtConnectModel.st_at. rewrite app_nth1 by exact H. reflexivity. Qed.
  Lemma st_at_nth tree i s p : nth_error tree i = Some (s, p) -> st_at tree i = s.
  Proof. intros H. unfold RrtConnectModel.st_at. erewrite nth_error_nth by exact H. reflexivity. Qed.

  Lemma TInv_snoc_root b roots tree g : TInv b roots tree -> In g roots -> TInv b roots (tree ++ [(g, None)]).
  Proof.
    intros (T1 & T2) Hg. split.
    - intros i s Hi. rewrite nth_error_snoc in Hi. destruct (i <? length tree)%nat; [apply (T1 i s Hi)|]. destruct (i =? length tree)%nat; [injection Hi as <-; exact Hg|discriminate].
    - intros i s p Hi. rewrite nth_error_snoc in Hi. destruct (Nat.ltb_spec i (length tree)) as [L|L].
      + destruct (T2 i s p Hi) as (A2 & ps & pp & A3 & A4). split; [exact A2|]. exists ps, pp. split; [rewrite nth_error_app1 by lia; exact A3|exact A4].
      + destruct (i =? length tree)%nat; discriminate.
  Qed.
  Lemma TInv_snoc_edge b roots tree d ni : TInv b roots tree -> (ni < length tree)%nat -> Eb b (st_at tree ni) d -> TInv b roots (tree ++ [(d, Some ni)]).
  Proof.
    intros (T1 & T2) Hni He. split.
    - intros i s Hi. rewrite nth_error_snoc in Hi. destruct (i <? length tree)%nat; [apply (T1 i s Hi)|]. destruct (i =? length tree)%nat; discriminate.
    - intros i s p Hi. rewrite nth_error_snoc in Hi. destruct (Nat.ltb_spec i (length tree)) as [L|L].
      + destruct (T2 i s p Hi) as (A2 & ps & pp & A3 & A4). split; [exact A2|]. exists ps, pp. split; [rewrite nth_error_app1 by lia; exact A3|exact A4].
      + destruct (Nat.eqb_spec i (length tree)) as [->|N]; [|discriminate]. injection Hi as <- <-. split; [exact Hni|].
        destruct (nth_error tree ni) as [[ps pp]|] eqn:En; [|apply nth_error_None in En; lia]. exists ps, pp. split; [rewrite nth_error_app1 by lia; exact En|].
        rewrite (st_at_nth tree ni ps pp En) in He. exact He.
  Qed.

  (* growTree *)
  Lemma grow_spec b roots tree r : tree <> [] -> TInv b roots tree ->
    TInv b roots (fst (grow tree b r)) /\
    match snd (grow tree b r) with
    | Trapped => fst (grow tree b r) = tree
    | g => exists d ni, fst (grow tree b r) = tree ++ [(d, Some ni)] /\ (ni < length tree)%nat /\ (g = Reached -> d = r)
    end.
  Proof.
    intros Hne T. unfold RrtConnectModel.grow. set (ni := nearest tree r). assert (Hni : (ni < length tree)%nat) by (apply nearest_lt; exact Hne).
    destruct (steer (st_at tree ni) r) as [[d reach]|] eqn:Es; [|cbn [fst snd]; auto].
    destruct (if b then mvS (st_at tree ni) d else mvG d (st_at tree ni)) eqn:Em; [|cbn [fst snd]; auto].
    assert (He : Eb b (st_at tree ni) d) by (unfold Eb; destruct b; exact Em).
    cbn [fst snd]. split; [apply TInv_snoc_edge; assumption|].
    destruct reach; exists d, ni; (split; [reflexivity|]; split; [exact Hni|]); [intros _; apply (steer_reach _ _ _ Es)|discriminate].
  Qed.
  Lemma connect_more_spec b roots r : forall fuel tree, tree <> [] -> TInv b roots tree ->
    TInv b roots (fst (connect_more fuel tree b r)) /\ exists ext, fst (connect_more fuel tree b r) = tree ++ ext /\
      (snd (connect_more fuel tree b r) = Reached -> ext <> [] /\ st_at (tree ++ ext) (length (tree ++ ext) - 1) = r /\ exists pp, nth_error (tree ++ ext) (length (tree ++ ext) - 1) = Some (r, Some pp)).
  Proof.
    induction fuel as [|f IH]; intros tree Hne T; cbn [RrtConnectModel.connect_more].
    - cbn [fst snd]. split; [exact T|]. exists []. rewrite app_nil_r. split; [reflexivity|discriminate].
    - destruct (grow_spec b roots tree r Hne T) as (T' & G). destruct (grow tree b r) as [t' g] eqn:Eg. cbn [fst snd] in T', G. destruct g.
      + cbn [fst snd]. subst t'. split; [exact T|]. exists []. rewrite app_nil_r. split; [reflexivity|discriminate].
      + destruct G as (d & ni & -> & Hni & _). destruct (IH (tree ++ [(d, Some ni)]) ltac:(destruct tree; discriminate) T') as (X & ext & E & R).
        split; [exact X|]. exists ((d, Some ni) :: ext). rewrite E, <- app_assoc. split; [reflexivity|]. intros HR. destruct (R HR) as (R1 & R2 & R3). rewrite <- app_assoc in R2, R3. split; [discriminate|]. split; [exact R2|exact R3].
      + destruct G as (d & ni & -> & Hni & Hd). cbn [fst snd]. split; [exact T'|]. exists [(d, Some ni)]. split; [reflexivity|]. intros _. specialize (Hd eq_refl). subst d.
        split; [discriminate|]. rewrite app_length. cbn [length]. replace (length tree + 1 - 1)%nat with (length tree) by lia. split; [apply st_at_snoc_new|]. exists ni. rewrite nth_error_snoc, Nat.ltb_irrefl, Nat.eqb_refl. reflexivity.
  Qed.

  (* one extension of [T] followed by the connect attempt on [O] *)
  Lemma pair_spec b RT RO T O r fuel : T <> [] -> O <> [] -> TInv b RT T -> TInv (negb b) RO O ->
    let T1 := fst (grow T b r) in let gs := snd (grow T b r) in
    TInv b RT T1 /\
    match gs with
    | Trapped => T1 = T
    | _ => exists d ni, T1 = T ++ [(d, Some ni)] /\ (ni < length T)%nat /\
        let O1 := fst (grow O (negb b) d) in let gsc0 := snd (grow O (negb b) d) in
        let O2 := match gsc0 with Advanced => fst (connect_more fuel O1 (negb b) d) | _ => O1 end in
        let gsc := match gsc0 with Advanced => snd (connect_more fuel O1 (negb b) d) | _ => gsc0 end in
        TInv (negb b) RO O2 /\ exists extO, O2 = O ++ extO /\ (gsc0 <> Trapped -> extO <> []) /\ (gsc0 = Trapped -> extO = []) /\
          (gsc = Reached -> gsc0 <> Trapped /\ exists pp, nth_error O2 (length O2 - 1) = Some (d, Some pp))
    end.
  Proof.
    intros HT HO IT IO. cbn zeta. destruct (grow_spec b RT T r HT IT) as (T1I & G). split; [exact T1I|].
    destruct (snd (grow T b r)) eqn:Egs; [exact G| |].
    all: destruct G as (d & ni & ET & Hni & _); exists d, ni; split; [exact ET|]; split; [exact Hni|];
      destruct (grow_spec (negb b) RO O d HO IO) as (O1I & G1); destruct (snd (grow O (negb b) d)) eqn:Eg0.
    all: try (rewrite G1 in *; split; [exact IO|]; exists []; rewrite app_nil_r; split; [reflexivity|]; split; [congruence|]; split; [reflexivity|discriminate]).
    all: destruct G1 as (d1 & n1 & EO1 & Hn1 & Hd1).
    - (* Advanced, Advanced *) rewrite EO1 in *. destruct (connect_more_spec (negb b) RO d fuel (O ++ [(d1, Some n1)]) ltac:(destruct O; discriminate) O1I) as (X & ext & E & R).
      split; [exact X|]. exists ((d1, Some n1) :: ext). rewrite E, <- app_assoc. split; [reflexivity|]. split; [discriminate|]. split; [discriminate|].
      intros HR. destruct (R HR) as (_ & _ & (pp & R3)). split; [discriminate|]. exists pp. rewrite <- app_assoc in R3. exact R3.
    - (* Advanced, Reached *) split; [exact O1I|]. exists [(d1, Some n1)]. split; [exact EO1|]. split; [discriminate|]. split; [discriminate|]. intros _. split; [discriminate|].
      rewrite EO1, app_length. cbn [length]. replace (length O + 1 - 1)%nat with (length O) by lia. exists n1. rewrite nth_error_snoc, Nat.ltb_irrefl, Nat.eqb_refl. rewrite (Hd1 eq_refl). reflexivity.
    - rewrite EO1 in *. destruct (connect_more_spec (negb b) RO d fuel (O ++ [(d1, Some n1)]) ltac:(destruct O; discriminate) O1I) as (X & ext & E & R).
      split; [exact X|]. exists ((d1, Some n1) :: ext). rewrite E, <- app_assoc. split; [reflexivity|]. split; [discriminate|]. split; [discriminate|].
      intros HR. destruct (R HR) as (_ & _ & (pp & R3)). split; [discriminate|]. exists pp. rewrite <- app_assoc in R3. exact R3.
    - split; [exact O1I|]. exists [(d1, Some n1)]. split; [exact EO1|]. split; [discriminate|]. split; [discriminate|]. intros _. split; [discriminate|].
      rewrite EO1, app_length. cbn [length]. replace (length O + 1 - 1)%nat with (length O) by lia. exists n1. rewrite nth_error_snoc, Nat.ltb_irrefl, Nat.eqb_refl. rewrite (Hd1 eq_refl). reflexivity.
  Qed.

  Variable starts : list St.
  Notation c_ts := (c_ts St D). Notation c_tg := (c_tg St D). Notation c_approx := (c_approx St D). Notation c_sol := (c_sol St D).
  Definition CInv (s : cst St D) : Prop :=
    TInv true starts (c_ts s) /\ TInv false goals (c_tg s) /\ c_ts s <> [] /\
    (forall i dd, c_approx s = Some (i, dd) -> (i < length (c_ts s))%nat /\ dd = gdist (st_at (c_ts s) i)) /\
    (forall sm gm, c_sol s = Some (sm, gm) -> (sm < length (c_ts s))%nat /\ (gm < length (c_tg s))%nat /\ st_at (c_ts s) sm = st_at (c_tg s) gm /\
                                             exists p, parent_of St (c_ts s) sm = Some p).
  Lemma add_goal_inv s : CInv s -> c_sol s = None -> CInv (add_goal St D goals s) /\ c_sol (add_goal St D goals s) = None /\
    c_ts (add_goal St D goals s) = c_ts s /\ c_approx (add_goal St D goals s) = c_approx s.
  Proof.
    intros (I1 & I2 & I3 & I4 & I5) Hs. unfold add_goal. destruct ((length (c_tg s) =? 0)%nat || (c_gcount St D s <? length (c_tg s) / 2)%nat); [|split; [exact (conj I1 (conj I2 (conj I3 (conj I4 I5))))|auto]].
    destruct (nth_error goals (c_gcount St D s)) as [g|] eqn:Eg; [|split; [exact (conj I1 (conj I2 (conj I3 (conj I4 I5))))|auto]]. cbn [RrtConnectModel.c_ts RrtConnectModel.c_tg RrtConnectModel.c_approx RrtConnectModel.c_sol].
    split; [|auto]. split; [exact I1|]. split; [apply TInv_snoc_root; [exact I2|eapply nth_error_In; exact Eg]|]. split; [exact I3|]. split; [exact I4|]. intros sm gm H. rewrite Hs in H. discriminate.
  Qed.
  Lemma approx_ext (ts ext : list node) (a : option (nat * D)) :
    (forall i dd, a = Some (i, dd) -> (i < length ts)%nat /\ dd = gdist (st_at ts i)) ->
    (forall i dd, a = Some (i, dd) -> (i < length (ts ++ ext))%nat /\ dd = gdist (st_at (ts ++ ext) i)).
  Proof. intros H i dd E. destruct (H i dd E) as (A & B). split; [rewrite app_length; lia|]. rewrite st_at_app_old by exact A. exact B. Qed.
  Lemma upd_approx_ok (s : cst St D) ts' i : (i < length ts')%nat ->
    (forall j dd, c_approx s = Some (j, dd) -> (j < length ts')%nat /\ dd = gdist (st_at ts' j)) ->
    forall j dd, upd_approx St D dlt gdist dflt s ts' i = Some (j, dd) -> (j < length ts')%nat /\ dd = gdist (st_at ts' j).
  Proof.
    intros Hi H j dd. unfold upd_approx. destruct (c_approx s) as [[bi bd]|] eqn:Ea.
    - destruct (dlt (gdist (st_at ts' i)) bd); intros E; [injection E as <- <-; auto|apply H; exact E].
    - intros E. injection E as <- <-. auto.
  Qed.

  Lemma step_inv fuel s0 r : CInv s0 -> c_sol s0 = None -> CInv (rc_step St D dist dlt steer mvS mvG gdist goals dflt fuel s0 r).
  Proof.
    intros I0 Hs0. unfold rc_step.
    set (b := c_flag St D s0).
    set (sA := mkC St D (c_ts s0) (c_tg s0) (negb b) (c_gcount St D s0) (c_approx s0) (c_sol s0)).
    assert (IA : CInv sA) by exact I0.
    destruct (add_goal_inv sA IA Hs0) as (I & Hs & Ets & Eap). set (s := add_goal St D goals sA) in *.
    destruct (c_tg s) as [|g0 gt] eqn:Etg; [exact I|]. 
    assert (Htg : c_tg s <> []) by (rewrite Etg; discriminate). rewrite <- Etg. clear g0 gt Etg.
    destruct I as (I1 & I2 & I3 & I4 & I5).
    destruct b.
    - pose proof (pair_spec true starts goals (c_ts s) (c_tg s) r fuel I3 Htg I1 I2) as PS. cbn zeta in PS. cbn [negb] in PS |- *.
      destruct (grow (c_ts s) true r) as [tree1 gs] eqn:Eg. cbn [fst snd] in PS. destruct PS as (T1I & PS).
      destruct gs; [exact (conj I1 (conj I2 (conj I3 (conj I4 I5))))| |].
      all: destruct PS as (d & ni & ET & Hni & PS); assert (Er : st_at tree1 (length (c_ts s)) = d) by (rewrite ET; apply st_at_snoc_new); rewrite Er;
        destruct (grow (c_tg s) false d) as [O1 g0] eqn:Eg0; cbn [fst snd] in PS.
      all: set (PP := match g0 with Advanced => connect_more fuel O1 false d | _ => (O1, g0) end) in *;
           assert (EP1 : match g0 with Advanced => fst (connect_more fuel O1 false d) | _ => O1 end = fst PP) by (unfold PP; destruct g0; reflexivity);
           assert (EP2 : match g0 with Advanced => snd (connect_more fuel O1 false d) | _ => g0 end = snd PP) by (unfold PP; destruct g0; reflexivity);
           rewrite EP1, EP2 in PS; clearbody PP; destruct PP as [O2 gsc]; cbn [fst snd] in PS; destruct PS as (O2I & extO & EO & N1 & N2 & RR).
      all: assert (NE1 : tree1 <> []) by (rewrite ET; destruct (c_ts s); discriminate).
      all: assert (AX : forall i dd, c_approx s = Some (i, dd) -> (i < length tree1)%nat /\ dd = gdist (st_at tree1 i)) by (rewrite ET; apply approx_ext; exact I4).
      all: assert (LT : length tree1 = S (length (c_ts s))) by (rewrite ET, app_length; cbn; lia).
      all: destruct gsc.
      all: try (destruct g0; cbv beta iota; unfold CInv; cbn [RrtConnectModel.c_ts RrtConnectModel.c_tg RrtConnectModel.c_approx RrtConnectModel.c_sol]; (split; [exact T1I|]; split; [exact O2I|]; split; [exact NE1|]; split; [first [exact AX | apply upd_approx_ok; [lia|exact AX]]|intros sm gm H; discriminate])).
      all: destruct (RR eq_refl) as (NT & pp & NP); assert (EO2 : extO <> []) by (apply N1; exact NT);
           assert (LO : (1 <= length O2)%nat) by (rewrite EO, app_length; destruct extO; [congruence|cbn; lia]).
      all: destruct g0; [congruence| |].
      all: cbv beta iota; unfold CInv; cbn [RrtConnectModel.c_ts RrtConnectModel.c_tg RrtConnectModel.c_approx RrtConnectModel.c_sol]; split; [exact T1I|]; split; [exact O2I|]; split; [exact NE1|]; split; [exact AX|]; intros sm gm H; injection H as <- <-;
           split; [lia|]; split; [lia|]; split; [rewrite Er; symmetry; apply (st_at_nth O2 _ d (Some pp) NP)|];
           exists ni; unfold parent_of; rewrite ET, nth_error_snoc, Nat.ltb_irrefl, Nat.eqb_refl; reflexivity.
    - pose proof (pair_spec false goals starts (c_tg s) (c_ts s) r fuel Htg I3 I2 I1) as PS. cbn zeta in PS. cbn [negb] in PS |- *.
      destruct (grow (c_tg s) false r) as [tree1 gs] eqn:Eg. cbn [fst snd] in PS. destruct PS as (T1I & PS).
      destruct gs; [exact (conj I1 (conj I2 (conj I3 (conj I4 I5))))| |].
      all: destruct PS as (d & ni & ET & Hni & PS); assert (Er : st_at tree1 (length (c_tg s)) = d) by (rewrite ET; apply st_at_snoc_new); rewrite Er;
        destruct (grow (c_ts s) true d) as [O1 g0] eqn:Eg0; cbn [fst snd] in PS.
      all: set (PP := match g0 with Advanced => connect_more fuel O1 true d | _ => (O1, g0) end) in *;
           assert (EP1 : match g0 with Advanced => fst (connect_more fuel O1 true d) | _ => O1 end = fst PP) by (unfold PP; destruct g0; reflexivity);
           assert (EP2 : match g0 with Advanced => snd (connect_more fuel O1 true d) | _ => g0 end = snd PP) by (unfold PP; destruct g0; reflexivity);
           rewrite EP1, EP2 in PS; clearbody PP; destruct PP as [O2 gsc]; cbn [fst snd] in PS; destruct PS as (O2I & extO & EO & N1 & N2 & RR).
      all: assert (NE2 : O2 <> []) by (rewrite EO; destruct (c_ts s); [congruence|discriminate]).
      all: assert (LO : (1 <= length O2)%nat) by (destruct O2; [congruence|cbn; lia]).
      all: assert (AX : forall i dd, c_approx s = Some (i, dd) -> (i < length O2)%nat /\ dd = gdist (st_at O2 i)) by (rewrite EO; apply approx_ext; exact I4).
      all: assert (LT : length tree1 = S (length (c_tg s))) by (rewrite ET, app_length; cbn; lia).
      all: destruct gsc.
      all: try (destruct g0; cbv beta iota; unfold CInv; cbn [RrtConnectModel.c_ts RrtConnectModel.c_tg RrtConnectModel.c_approx RrtConnectModel.c_sol]; (split; [exact O2I|]; split; [exact T1I|]; split; [exact NE2|]; split; [first [exact AX | apply upd_approx_ok; [lia|exact AX]]|intros sm gm H; discriminate])).
      all: destruct (RR eq_refl) as (NT & pp & NP).
      all: destruct g0; [congruence| |].
      all: cbv beta iota; unfold CInv; cbn [RrtConnectModel.c_ts RrtConnectModel.c_tg RrtConnectModel.c_approx RrtConnectModel.c_sol]; split; [exact O2I|]; split; [exact T1I|]; split; [exact NE2|]; split; [exact AX|]; intros sm gm H; injection H as <- <-;
           split; [lia|]; split; [lia|]; split; [rewrite Er; apply (st_at_nth O2 _ d (Some pp) NP)|];
           exists pp; unfold parent_of; rewrite NP; reflexivity.
  Qed.

  Lemma loop_inv fuel : forall samples s, CInv s -> CInv (rc_loop St D dist dlt steer mvS mvG gdist goals dflt fuel s samples).
  Proof.
    induction samples as [|r t IH]; intros s I; cbn [rc_loop]; [destruct (c_sol s); exact I|].
    destruct (c_sol s) eqn:Es; [exact I|]. pose proof (step_inv fuel s r I Es) as I'.
    destruct (RrtConnectModel.c_tg St D (rc_step St D dist dlt steer mvS mvG gdist goals dflt fuel s r)) eqn:Et; [exact I'|]. apply IH. exact I'.
  Qed.

  (* chains *)
  Lemma consecutive_snoc (R : St -> St -> Prop) : forall (l : list St) s, l <> [] -> consecutive R l -> R (last l dflt) s -> consecutive R (l ++ [s]).
  Proof.
    induction l as [|a t IH]; intros s Hn Hl Hm; [congruence|]. destruct t as [|b t'].
    - cbn in *. auto.
    - change (consecutive R (a :: b :: (t' ++ [s]))). destruct Hl as (Hab & Hr). split; [exact Hab|]. apply (IH s); [discriminate|exact Hr|exact Hm].
  Qed.
  Lemma consecutive_app2 (R : St -> St -> Prop) : forall l1 l2 : list St, l1 <> [] -> l2 <> [] -> consecutive R l1 -> consecutive R l2 -> R (last l1 dflt) (hd dflt l2) -> consecutive R (l1 ++ l2).
  Proof.
    induction l1 as [|a t IH]; intros l2 H1 H2 C1 C2 HR; [congruence|]. destruct t as [|b t'].
    - destruct l2 as [|c l2']; [congruence|]. cbn in *. auto.
    - change (consecutive R (a :: b :: (t' ++ l2))). destruct C1 as (Hab & Hr). split; [exact Hab|]. apply (IH l2); [discriminate|exact H2|exact Hr|exact C2|exact HR].
  Qed.
  Lemma consecutive_rev (R : St -> St -> Prop) : forall l : list St, consecutive R l -> consecutive (fun a b => R b a) (rev l).
  Proof.
    induction l as [|a t IH]; intros C; [exact I|]. destruct t as [|b t']; [exact I|]. destruct C as (Hab & Hr). specialize (IH Hr). cbn [rev] in *.
    apply consecutive_snoc; [destruct (rev t'); discriminate|exact IH|]. rewrite last_last. exact Hab.
  Qed.
  Lemma consecutive_weaken (R R' : St -> St -> Prop) : (forall a b, R a b -> R' a b) -> forall l : list St, consecutive R l -> consecutive R' l.
  Proof. intros H. induction l as [|a t IH]; intros C; [exact I|]. destruct t as [|b t']; [exact I|]. destruct C as (Hab & Hr). split; [apply H; exact Hab|apply IH; exact Hr]. Qed.
  Lemma chain_spec b roots tree : TInv b roots tree -> forall fuel i s p, (i < fuel)%nat -> nth_error tree i = Some (s, p) ->
    chain St fuel tree i <> [] /\ last (chain St fuel tree i) dflt = s /\ In (hd dflt (chain St fuel tree i)) roots /\ consecutive (Eb b) (chain St fuel tree i).
  Proof.
    intros (T1 & T2). induction fuel as [|f IH]; intros i s p Hi En; [lia|]. cbn [chain]. rewrite En. destruct p as [pi|].
    - destruct (T2 i s pi En) as (Hp & ps & pp & Ep & Em). destruct (IH pi ps pp ltac:(lia) Ep) as (C1 & C2 & C3 & C4).
      split; [destruct (chain St f tree pi); discriminate|]. split; [apply last_last|]. split; [destruct (chain St f tree pi); [congruence|exact C3]|].
      apply consecutive_snoc; [exact C1|exact C4|rewrite C2; exact Em].
    - pose proof (T1 i s En) as Hin. cbn. split; [discriminate|]. split; [reflexivity|]. split; [exact Hin|exact I].
  Qed.
  Lemma hd_rev_last (l : list St) : hd dflt (rev l) = last l dflt.
  Proof. induction l as [|a t IH]; [reflexivity|]. cbn [rev]. destruct t as [|b t']; [reflexivity|]. change (last (a :: b :: t') dflt) with (last (b :: t') dflt). rewrite <- IH. cbn [rev]. destruct (rev t' ++ [b]) eqn:E; [destruct (rev t'); discriminate|reflexivity]. Qed.
  Lemma last_rev_hd (l : list St) : last (rev l) dflt = hd dflt l.
  Proof. destruct l as [|a t]; [reflexivity|]. cbn [rev hd]. apply last_last. Qed.
  Lemma last_app_ne (l1 l2 : list St) : l2 <> [] -> last (l1 ++ l2) dflt = last l2 dflt.
  Proof. intros H. induction l1 as [|a t IH]; [reflexivity|]. cbn [app]. destruct (t ++ l2) as [|x l] eqn:E; [destruct t; [cbn in E; congruence|discriminate]|]. change (last (a :: x :: l) dflt) with (last (x :: l) dflt). exact IH. Qed.

  (* what a call of solve() reports *)
  Definition ReportOk (rep : option (list St * bool * option D)) : Prop :=
    match rep with
    | Some (path, false, _) =>
        path <> [] /\ In (hd dflt path) starts /\ In (last path dflt) goals /\ consecutive (fun a b => mvS a b = true \/ mvG a b = true) path
    | Some (path, true, Some dd) =>
        path <> [] /\ In (hd dflt path) starts /\ consecutive (fun a b => mvS a b = true) path /\ dd = gdist (last path dflt)
    | Some (_, true, None) => False
    | None => True
    end.
  Lemma report_spec s : CInv s -> ReportOk (rc_report St D s).
  Proof.
    intros (I1 & I2 & I3 & I4 & I5). unfold rc_report, ReportOk. destruct (c_sol s) as [[sm gm]|] eqn:Esol.
    - destruct (I5 sm gm eq_refl) as (S1 & S2 & S3 & (p & S4)). rewrite S4.
      unfold parent_of in S4. destruct (nth_error (c_ts s) sm) as [[ssm psm]|] eqn:Esm; [|discriminate]. subst psm.
      pose proof I1 as (_ & T2). destruct (T2 sm ssm p Esm) as (Hp & ps & pp & Ep & Em).
      destruct (chain_spec true starts (c_ts s) I1 (S (length (c_ts s))) p ps pp ltac:(lia) Ep) as (A1 & A2 & A3 & A4).
      destruct (nth_error (c_tg s) gm) as [[sg pg]|] eqn:Egm; [|apply nth_error_None in Egm; lia].
      destruct (chain_spec false goals (c_tg s) I2 (S (length (c_tg s))) gm sg pg ltac:(lia) Egm) as (B1 & B2 & B3 & B4).
      set (A := chain St (S (length (c_ts s))) (c_ts s) p) in *. set (B := chain St (S (length (c_tg s))) (c_tg s) gm) in *.
      assert (RB : rev B <> []) by (destruct B; [congruence|cbn; destruct (rev B); discriminate]).
      split; [destruct A; [congruence|discriminate]|]. split; [destruct A; [congruence|exact A3]|]. split; [rewrite last_app_ne by exact RB; rewrite last_rev_hd; exact B3|].
      apply consecutive_app2; [exact A1|exact RB| | |].
      + apply (consecutive_weaken (Eb true)); [intros a b H; left; exact H|exact A4].
      + apply (consecutive_weaken (fun a b => Eb false b a)); [intros a b H; right; exact H|apply consecutive_rev; exact B4].
      + left. rewrite A2, hd_rev_last, B2. rewrite (st_at_nth _ _ _ _ Esm) in S3. rewrite (st_at_nth _ _ _ _ Egm) in S3. rewrite <- S3. exact Em.
    - destruct (c_approx s) as [[i dd]|] eqn:Ea; [|exact I].
      destruct (I4 i dd eq_refl) as (A1 & A2). destruct (nth_error (c_ts s) i) as [[si pi]|] eqn:Ei; [|apply nth_error_None in Ei; lia].
      destruct (chain_spec true starts (c_ts s) I1 (S (length (c_ts s))) i si pi ltac:(lia) Ei) as (C1 & C2 & C3 & C4).
      split; [exact C1|]. split; [exact C3|]. split; [exact C4|]. rewrite C2, A2, (st_at_nth _ _ _ _ Ei). reflexivity.
  Qed.
  Lemma init_inv : starts <> [] -> CInv (mkC St D (map (fun x => (x, None)) starts) [] true 0 None None).
  Proof.
    intros Hs. split; [|split; [|split; [|split]]]; cbn [RrtConnectModel.c_ts RrtConnectModel.c_tg RrtConnectModel.c_approx RrtConnectModel.c_sol].
    - split; [intros i s Hi|intros i s p Hi]; rewrite nth_error_map in Hi; destruct (nth_error starts i) eqn:E0; try discriminate. cbn in Hi. injection Hi as <-. eapply nth_error_In; exact E0.
    - split; [intros i s Hi|intros i s p Hi]; destruct i; discriminate.
    - destruct starts; [congruence|discriminate].
    - intros i dd H. discriminate.
    - intros sm gm H. discriminate.
  Qed.
  Theorem rc_solve_spec fuel samples : starts <> [] ->
    let s := fst (rc_solve St D dist dlt steer mvS mvG gdist goals dflt fuel starts samples) in
    TInv true starts (c_ts s) /\ TInv false goals (c_tg s) /\
    match snd (rc_solve St D dist dlt steer mvS mvG gdist goals dflt fuel starts samples) with
    | Some (path, false, _) =>
        path <> [] /\ In (hd dflt path) starts /\ In (last path dflt) goals /\ consecutive (fun a b => mvS a b = true \/ mvG a b = true) path
    | Some (path, true, Some dd) =>
        path <> [] /\ In (hd dflt path) starts /\ consecutive (fun a b => mvS a b = true) path /\ dd = gdist (last path dflt)
    | Some (_, true, None) => False
    | None => True
    end.
  Proof.
    intros Hs. unfold rc_solve. cbn [fst snd]. pose proof (loop_inv fuel samples _ (init_inv Hs)) as I.
    split; [apply I|]. split; [apply I|]. apply (report_spec _ I).
  Qed.
  (* any number of solve() calls without clear(): both trees keep their invariants and every call's report is real *)
  Lemma resume_inv fuel s samples : CInv s -> CInv (rc_resume St D dist dlt steer mvS mvG gdist goals dflt fuel s samples).
  Proof.
    intros (I1 & I2 & I3 & _ & _). unfold rc_resume. apply loop_inv. split; [exact I1|]. split; [exact I2|]. split; [exact I3|]. split; [intros i dd H; discriminate|intros sm gm H; discriminate].
  Qed.
  Theorem rc_calls_spec fuel : forall calls s, CInv s ->
    CInv (fst (rc_calls St D dist dlt steer mvS mvG gdist goals dflt fuel s calls)) /\ Forall ReportOk (snd (rc_calls St D dist dlt steer mvS mvG gdist goals dflt fuel s calls)).
  Proof.
    induction calls as [|smp rest IH]; intros s I; cbn [rc_calls]; [cbn; split; [exact I|constructor]|].
    pose proof (resume_inv fuel s smp I) as I1. destruct (IH _ I1) as (A & B).
    destruct (rc_calls St D dist dlt steer mvS mvG gdist goals dflt fuel (rc_resume St D dist dlt steer mvS mvG gdist goals dflt fuel s smp) rest) as [s2 reps]. cbn [fst snd] in *.
    split; [exact A|]. constructor; [apply report_spec; exact I1|exact B].
  Qed.
  Theorem rc_solves_spec fuel calls : starts <> [] ->
    Forall ReportOk (snd (rc_solves St D dist dlt steer mvS mvG gdist goals dflt fuel starts calls)) /\
    TInv true starts (c_ts (fst (rc_solves St D dist dlt steer mvS mvG gdist goals dflt fuel starts calls))) /\
    TInv false goals (c_tg (fst (rc_solves St D dist dlt steer mvS mvG gdist goals dflt fuel starts calls))).
  Proof. intros Hs. unfold rc_solves. destruct (rc_calls_spec fuel calls _ (init_inv Hs)) as (A & B). split; [exact B|]. split; apply A. Qed.
End RcP.
