(* SpacesModel.v — one arithmetic-generic transcription of the piecewise-algebraic state spaces
   (RealVectorStateSpace.cpp, SO2StateSpace.cpp, TimeStateSpace.cpp, DiscreteStateSpace.cpp and the weighted
   CompoundStateSpace of StateSpace.cpp): distance, interpolate, enforceBounds, satisfiesBounds, equalStates,
   getMaximumExtent.  Same order of floating-point operations as the C++.  Definitions only. *)
From Coq Require Import List Bool Arith.
Import ListNotations.

Record farith := mkFA {
  F : Type; f0 : F; f2 : F; fhalf : F;
  fadd : F -> F -> F; fsub : F -> F -> F; fmul : F -> F -> F;
  fsqrt : F -> F; fabs : F -> F; ffloor : F -> F; ffmod : F -> F -> F;
  flt : F -> F -> bool; fle : F -> F -> bool;
  fpi : F; feps : F }.        (* feps = std::numeric_limits<double>::epsilon() *)

Section Spaces.
  Variable A : farith.
  Notation F := (F A).
  Notation "x +. y" := (fadd A x y) (at level 50, left associativity).
  Notation "x -. y" := (fsub A x y) (at level 50, left associativity).
  Notation "x *. y" := (fmul A x y) (at level 40, left associativity).
  Notation "x <. y" := (flt A x y) (at level 70).
  Notation "x <=. y" := (fle A x y) (at level 70).
  Definition fgt (x y : F) := y <. x.
  Definition fge (x y : F) := y <=. x.
  Definition twopi : F := f2 A *. fpi A.
  Definition eps2 : F := feps A *. f2 A.

  (* leaf kinds: bounds for R^n are (low, high) per dimension *)
  Inductive space :=
  | RV (bounds : list (F * F))
  | SO2
  | TimeB (lo hi : F) | TimeU
  | Disc (lo hi : F)
  | Comp (subs : list (F * space)).       (* (weight, subspace) *)
  Inductive sv := L (vals : list F) | C (subs : list sv).

  (* ---- R^n ---- *)
  Fixpoint rv_sqdist (a b : list F) (acc : F) : F :=
    match a, b with x :: a', y :: b' => let diff := x -. y in rv_sqdist a' b' (acc +. diff *. diff) | _, _ => acc end.
  Definition rv_distance (a b : list F) : F := fsqrt A (rv_sqdist a b (f0 A)).
  Fixpoint rv_interp (a b : list F) (t : F) : list F :=
    match a, b with x :: a', y :: b' => (x +. (y -. x) *. t) :: rv_interp a' b' t | _, _ => [] end.
  Fixpoint rv_enforce (bs : list (F * F)) (a : list F) : list F :=
    match bs, a with
    | (lo, hi) :: bs', x :: a' => (if fgt x hi then hi else if x <. lo then lo else x) :: rv_enforce bs' a'
    | _, _ => a
    end.
  Fixpoint rv_satisfies (bs : list (F * F)) (a : list F) : bool :=
    match bs, a with
    | (lo, hi) :: bs', x :: a' => if fgt (x -. feps A) hi || ((x +. feps A) <. lo) then false else rv_satisfies bs' a'
    | _, _ => true
    end.
  Fixpoint rv_equal (a b : list F) : bool :=
    match a, b with x :: a', y :: b' => if fgt (fabs A (x -. y)) eps2 then false else rv_equal a' b' | _, _ => true end.
  Fixpoint rv_sqextent (bs : list (F * F)) (acc : F) : F :=
    match bs with (lo, hi) :: bs' => let d := hi -. lo in rv_sqextent bs' (acc +. d *. d) | [] => acc end.

  (* ---- SO(2) ---- *)
  Definition so2_distance (a b : F) : F := let d := fabs A (a -. b) in if fgt d (fpi A) then twopi -. d else d.
  Definition so2_interp (from to t : F) : F :=
    let diff := to -. from in
    if fabs A diff <=. fpi A then from +. diff *. t
    else
      let diff' := if fgt diff (f0 A) then twopi -. diff else (f0 A -. twopi) -. diff in
      let v := from -. diff' *. t in
      if fge v (fpi A) then v -. twopi else if v <. (f0 A -. fpi A) then v +. twopi else v.
  (* as it stood at the pinned commit: wrap only when v > pi *)
  Definition so2_interp_orig (from to t : F) : F :=
    let diff := to -. from in
    if fabs A diff <=. fpi A then from +. diff *. t
    else
      let diff' := if fgt diff (f0 A) then twopi -. diff else (f0 A -. twopi) -. diff in
      let v := from -. diff' *. t in
      if fgt v (fpi A) then v -. twopi else if v <. (f0 A -. fpi A) then v +. twopi else v.
  Definition so2_enforce (x : F) : F :=
    let v := ffmod A x twopi in
    if v <. (f0 A -. fpi A) then v +. twopi else if fge v (fpi A) then v -. twopi else v.
  Definition so2_satisfies (x : F) : bool := (x <. fpi A) && fge x (f0 A -. fpi A).
  Definition so2_equal (a b : F) : bool := fabs A (a -. b) <. eps2.

  (* ---- time ---- *)
  Definition lin_interp (from to t : F) : F := from +. (to -. from) *. t.
  Definition clamp (lo hi x : F) : F := if fgt x hi then hi else if x <. lo then lo else x.
  Definition time_satisfies (lo hi x : F) : bool := fge x (lo -. feps A) && (x <=. (hi +. feps A)).

  (* ---- discrete (int values carried as integral F) ---- *)
  Definition disc_interp (from to t : F) : F := ffloor A ((from +. (to -. from) *. t) +. fhalf A).
  Definition disc_enforce (lo hi x : F) : F := if x <. lo then lo else if fgt x hi then hi else x.
  Definition disc_satisfies (lo hi x : F) : bool := fge x lo && (x <=. hi).
  Definition disc_equal (a b : F) : bool := negb (a <. b) && negb (b <. a).

  (* ---- samplers as functions of the drawn variates (u uniform in [0,1), g standard normal) ---- *)
  Definition fmax (a b : F) : F := if a <. b then b else a.       (* std::max *)
  Definition fmin (a b : F) : F := if b <. a then b else a.       (* std::min *)
  Definition uniform_real (lo hi u : F) : F := (hi -. lo) *. u +. lo.          (* RNG::uniformReal *)
  Definition gaussian (mean sd g : F) : F := g *. sd +. mean.                  (* RNG::gaussian *)
  Fixpoint rv_sample_uniform (bs : list (F * F)) (us : list F) : list F :=
    match bs, us with (lo, hi) :: bs', u :: us' => uniform_real lo hi u :: rv_sample_uniform bs' us' | _, _ => [] end.
  Fixpoint rv_sample_near (bs : list (F * F)) (near : list F) (dist : F) (us : list F) : list F :=
    match bs, near, us with
    | (lo, hi) :: bs', x :: near', u :: us' => uniform_real (fmax lo (x -. dist)) (fmin hi (x +. dist)) u :: rv_sample_near bs' near' dist us'
    | _, _, _ => []
    end.
  Fixpoint rv_sample_gauss (bs : list (F * F)) (mean : list F) (sd : F) (gs : list F) : list F :=
    match bs, mean, gs with
    | (lo, hi) :: bs', x :: mean', g :: gs' =>
      let v := gaussian x sd g in (if v <. lo then lo else if fgt v hi then hi else v) :: rv_sample_gauss bs' mean' sd gs'
    | _, _, _ => []
    end.
  Definition so2_sample_uniform (u : F) : F := uniform_real (f0 A -. fpi A) (fpi A) u.
  Definition so2_sample_near (near dist u : F) : F := so2_enforce (uniform_real (near -. dist) (near +. dist) u).
  Definition so2_sample_gauss (mean sd g : F) : F := so2_enforce (gaussian mean sd g).

  Definition hd0 (l : list F) : F := match l with x :: _ => x | [] => f0 A end.

  (* ---- the generic interface ---- *)
  Fixpoint distance (sp : space) (a b : sv) : F :=
    match sp, a, b with
    | RV _, L x, L y => rv_distance x y
    | SO2, L x, L y => so2_distance (hd0 x) (hd0 y)
    | TimeB _ _, L x, L y | TimeU, L x, L y | Disc _ _, L x, L y => fabs A (hd0 x -. hd0 y)
    | Comp subs, C xs, C ys =>
      (fix go (ss : list (F * space)) (xs ys : list sv) (acc : F) : F :=
         match ss, xs, ys with
         | (w, s) :: ss', x :: xs', y :: ys' => go ss' xs' ys' (acc +. w *. distance s x y)
         | _, _, _ => acc
         end) subs xs ys (f0 A)
    | _, _, _ => f0 A
    end.
  Fixpoint interpolate (sp : space) (a b : sv) (t : F) : sv :=
    match sp, a, b with
    | RV _, L x, L y => L (rv_interp x y t)
    | SO2, L x, L y => L [so2_interp (hd0 x) (hd0 y) t]
    | TimeB _ _, L x, L y | TimeU, L x, L y => L [lin_interp (hd0 x) (hd0 y) t]
    | Disc _ _, L x, L y => L [disc_interp (hd0 x) (hd0 y) t]
    | Comp subs, C xs, C ys =>
      C ((fix go (ss : list (F * space)) (xs ys : list sv) : list sv :=
            match ss, xs, ys with
            | (_, s) :: ss', x :: xs', y :: ys' => interpolate s x y t :: go ss' xs' ys'
            | _, _, _ => []
            end) subs xs ys)
    | _, _, _ => a
    end.
  Fixpoint enforce (sp : space) (a : sv) : sv :=
    match sp, a with
    | RV bs, L x => L (rv_enforce bs x)
    | SO2, L x => L [so2_enforce (hd0 x)]
    | TimeB lo hi, L x => L [clamp lo hi (hd0 x)]
    | TimeU, L x => L x
    | Disc lo hi, L x => L [disc_enforce lo hi (hd0 x)]
    | Comp subs, C xs =>
      C ((fix go (ss : list (F * space)) (xs : list sv) : list sv :=
            match ss, xs with (_, s) :: ss', x :: xs' => enforce s x :: go ss' xs' | _, _ => [] end) subs xs)
    | _, _ => a
    end.
  Fixpoint satisfies (sp : space) (a : sv) : bool :=
    match sp, a with
    | RV bs, L x => rv_satisfies bs x
    | SO2, L x => so2_satisfies (hd0 x)
    | TimeB lo hi, L x => time_satisfies lo hi (hd0 x)
    | TimeU, L _ => true
    | Disc lo hi, L x => disc_satisfies lo hi (hd0 x)
    | Comp subs, C xs =>
      (fix go (ss : list (F * space)) (xs : list sv) : bool :=
         match ss, xs with (_, s) :: ss', x :: xs' => satisfies s x && go ss' xs' | _, _ => true end) subs xs
    | _, _ => false
    end.
  Fixpoint equal (sp : space) (a b : sv) : bool :=
    match sp, a, b with
    | RV _, L x, L y => rv_equal x y
    | SO2, L x, L y | TimeB _ _, L x, L y | TimeU, L x, L y => so2_equal (hd0 x) (hd0 y)
    | Disc _ _, L x, L y => disc_equal (hd0 x) (hd0 y)
    | Comp subs, C xs, C ys =>
      (fix go (ss : list (F * space)) (xs ys : list sv) : bool :=
         match ss, xs, ys with
         | (_, s) :: ss', x :: xs', y :: ys' => equal s x y && go ss' xs' ys'
         | _, _, _ => true
         end) subs xs ys
    | _, _, _ => false
    end.
  (* getMaximumExtent; [incl] says which weights take part in a compound's sum (a zero weight must not, its component may be unbounded) *)
  Fixpoint extent_gen (incl : F -> bool) (sp : space) : F :=
    match sp with
    | RV bs => fsqrt A (rv_sqextent bs (f0 A))
    | SO2 => fpi A
    | TimeB lo hi => hi -. lo
    | TimeU => f2 A *. fhalf A
    | Disc lo hi => hi -. lo
    | Comp subs =>
      (fix go (ss : list (F * space)) (acc : F) : F :=
         match ss with
         | (w, s) :: ss' => go ss' (if incl w then acc +. w *. extent_gen incl s else acc)
         | [] => acc
         end) subs (f0 A)
    end.
  Definition extent (sp : space) : F := extent_gen (fun w => fgt w (f0 A)) sp.              (* the repaired rule: every positive weight *)
  Definition extent_orig (sp : space) : F := extent_gen (fun w => fge w (feps A)) sp.       (* the pinned rule: weights >= epsilon only *)
End Spaces.
