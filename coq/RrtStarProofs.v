(* RrtStarProofs.v — geometric::RRTstar keeps a tree of validated motions through parent selection and rewiring: for every
   objective, validator, neighbourhood size, tape and sampler every motion's parent edge has been accepted by the motion
   validator in the direction parent -> child (the rewired ones included: they are checked from the new motion towards the
   neighbour; the validity cached from parent selection is never used for the opposite direction, because the chosen parent is
   skipped by the rewiring pass), roots are start states, states never change.  Consequently every consecutive pair of a
   reported path is a validated motion and an exact report ends in a state the goal accepts.
   Needs no hypothesis on the arithmetic of costs.  That following parents from the reported motion reaches a root (rewiring never
   closes a cycle), that updateChildCosts restores cost = parent's cost + incCost, and what the stored cost means, is RrtStarCost.v /
   RrtStarCost2.v (they need an order on costs in which adding a motion cost never decreases a cost). *)
From Coq Require Import List Bool Arith Lia Permutation.
From OmplV Require Import LedgerProofs RrtStarModel.
Import ListNotations.

Section StarP.
  Variables St C : Type.
  Variable dist : St -> St -> C.
  Variable clt : C -> C -> bool.
  Variable cadd : C -> C -> C.
  Variable c0 : C.
  Variable mcost : St -> St -> C.
  Variable sym : bool.
  Variable csat : C -> bool.
  Variable steer : St -> St -> St.
  Variable maxd : C.
  Variable mv : St -> St -> bool.
  Variable sat : St -> bool.
  Variable gdist : St -> C.
  Variable goal_state dflt : St.
  Variable bias : C.
  Variable kof : nat -> nat.
  Notation node := (node St C).
  Notation nd := (nd St C c0 dflt).
  Notation n_st := (n_st St C).
  Notation n_par := (n_par St C).
  Notation n_inc := (n_inc St C).
  Notation n_cost := (n_cost St C).
  Notation mkN := (mkN St C).

  (* ---- list facts *)
  Lemma updn_length {X} : forall (v : list X) i x, length (updn i x v) = length v.
  Proof. induction v as [|h t IH]; intros [|i] x; cbn [updn length]; try reflexivity. rewrite IH. reflexivity. Qed.
  Lemma nth_updn_eq {X} (d : X) : forall (v : list X) i x, i < length v -> nth i (updn i x v) d = x.
  Proof. induction v as [|h t IH]; intros [|i] x H; cbn [updn nth length] in *; try lia; [reflexivity|]. apply IH. lia. Qed.
  Lemma nth_updn_ne {X} (d : X) : forall (v : list X) i j x, i <> j -> nth j (updn i x v) d = nth j v d.
  Proof. induction v as [|h t IH]; intros [|i] [|j] x H; cbn [updn nth]; try reflexivity; try lia. apply IH. lia. Qed.
  Lemma updn_ge {X} : forall (v : list X) i x, length v <= i -> updn i x v = v.
  Proof. induction v as [|h t IH]; intros [|i] x H; cbn [updn length] in *; try reflexivity; try lia. f_equal. apply IH. lia. Qed.
  Lemma ins_by_perm key : forall j l, Permutation (ins_by C clt key j l) (j :: l).
  Proof.
    intros j. induction l as [|k t IH]; cbn [ins_by]; [apply Permutation_refl|].
    destruct (clt (key j) (key k)); [apply Permutation_refl|]. eapply Permutation_trans; [apply perm_skip; exact IH|apply perm_swap].
  Qed.
  Lemma sort_by_perm key l : Permutation (sort_by C clt key l) l.
  Proof.
    unfold sort_by.
    assert (G : forall l acc, Permutation (fold_left (fun acc j => ins_by C clt key j acc) l acc) (l ++ acc)).
    { induction l0 as [|j t IH]; intros acc; cbn [fold_left app]; [apply Permutation_refl|].
      eapply Permutation_trans; [apply IH|]. eapply Permutation_trans; [apply Permutation_app_head; apply ins_by_perm|]. apply Permutation_sym, Permutation_middle. }
    specialize (G l []). rewrite app_nil_r in G. exact G.
  Qed.
  Lemma in_firstn {X} : forall n (l : list X) x, In x (firstn n l) -> In x l.
  Proof. induction n as [|n IH]; intros [|a t] x H; cbn [firstn] in H; try contradiction. destruct H as [<-|H]; [left; reflexivity|right; apply IH; exact H]. Qed.
  Lemma neighbours_lt (l : list node) x b : In b (neighbours St C dist clt c0 dflt kof l x) -> b < length l.
  Proof. unfold neighbours. intros H. apply in_firstn in H. apply (Permutation_in _ (sort_by_perm _ _)) in H. apply in_seq in H. lia. Qed.

  (* ---- nearest *)
  Lemma nearest_from_lt : forall (l : list node) q j best bd, best < j -> nearest_from St C dist clt l q j best bd < j + length l.
  Proof.
    induction l as [|n t IH]; intros q j best bd H; cbn [nearest_from length]; [lia|].
    destruct (clt (dist (n_st n) q) bd); [specialize (IH q (S j) j (dist (n_st n) q) ltac:(lia))|specialize (IH q (S j) best bd ltac:(lia))]; lia.
  Qed.
  Lemma nearest_lt (l : list node) q : l <> [] -> nearest St C dist clt l q < length l.
  Proof. destruct l as [|n t]; [congruence|]. intros _. unfold nearest. pose proof (nearest_from_lt t q 1 0 (dist (n_st n) q) ltac:(lia)). cbn [length]. lia. Qed.

  (* ---- what a pass may change: costs anywhere; parent (and incCost) only as the cases below allow; states never *)
  Definition same_shape (l l' : list node) : Prop :=
    length l' = length l /\ forall j, n_st (nd l' j) = n_st (nd l j) /\ n_par (nd l' j) = n_par (nd l j).
  Lemma same_shape_refl l : same_shape l l.
  Proof. split; [reflexivity|intros j; split; reflexivity]. Qed.
  Lemma same_shape_trans l1 l2 l3 : same_shape l1 l2 -> same_shape l2 l3 -> same_shape l1 l3.
  Proof. intros (A1 & A2) (B1 & B2). split; [congruence|]. intros j. destruct (A2 j) as (A3 & A4). destruct (B2 j) as (B3 & B4). split; congruence. Qed.
  Lemma same_shape_cost (l : list node) j c : same_shape l (updn j (mkN (n_st (nd l j)) (n_par (nd l j)) (n_inc (nd l j)) c) l).
  Proof.
    split; [apply updn_length|]. intros k. unfold RrtStarModel.nd. destruct (Nat.eq_dec j k) as [<-|Hne].
    - destruct (Nat.lt_ge_cases j (length l)) as [Hj|Hj].
      + rewrite nth_updn_eq by exact Hj. split; reflexivity.
      + rewrite updn_ge by exact Hj. split; reflexivity.
    - rewrite nth_updn_ne by exact Hne. split; reflexivity.
  Qed.
  Lemma upd_children_shape : forall fuel (l : list node) m, same_shape l (upd_children St C cadd c0 dflt fuel l m).
  Proof.
    induction fuel as [|f IH]; intros l m; cbn [upd_children]; [apply same_shape_refl|].
    assert (G : forall (js : list nat) (l0 : list node), same_shape l0 (fold_left (fun l j => if match n_par (nd l j) with Some p => Nat.eqb p m | None => false end
                 then upd_children St C cadd c0 dflt f (updn j (mkN (n_st (nd l j)) (n_par (nd l j)) (n_inc (nd l j)) (cadd (n_cost (nd l m)) (n_inc (nd l j)))) l) j else l) js l0)).
    { induction js as [|j t IHj]; intros l0; cbn [fold_left]; [apply same_shape_refl|].
      eapply same_shape_trans; [|apply IHj].
      destruct (match n_par (nd l0 j) with Some p => Nat.eqb p m | None => false end); [|apply same_shape_refl].
      eapply same_shape_trans; [apply same_shape_cost|apply IH]. }
    apply G.
  Qed.

  (* ---- parent selection *)
  Notation choose := (choose St C dist clt c0 maxd mv dflt).
  Lemma choose_spec : forall (l : list node) x ni nbh order marks0 ch marks,
    choose l x ni nbh order marks0 = (ch, marks) ->
    (forall pos, mark_of marks pos = Some true -> mark_of marks0 pos = Some true \/ ch = Some pos) /\
    match ch with
    | Some i => In i order /\ (nth i nbh 0 = ni \/ mv (n_st (nd l (nth i nbh 0))) x = true)
    | None => True
    end.
  Proof.
    intros l x ni nbh. induction order as [|i t IH]; intros marks0 ch marks H; cbn [RrtStarModel.choose] in H.
    - injection H as <- <-. split; [intros pos Hp; left; exact Hp|exact I].
    - destruct (Nat.eqb (nth i nbh 0) ni || (clt (dist (n_st (nd l (nth i nbh 0))) x) maxd && mv (n_st (nd l (nth i nbh 0))) x)) eqn:E.
      + injection H as <- <-. split.
        * intros pos Hp. cbn [mark_of] in Hp. destruct (Nat.eqb_spec i pos) as [->|Hne]; [right; reflexivity|left; exact Hp].
        * split; [left; reflexivity|]. apply orb_prop in E. destruct E as [E|E]; [left; apply Nat.eqb_eq; exact E|right; apply andb_prop in E; tauto].
      + destruct (IH _ _ _ H) as (I1 & I2). split.
        * intros pos Hp. destruct (I1 pos Hp) as [Hq|Hq]; [|right; exact Hq]. cbn [mark_of] in Hq. destruct (Nat.eqb i pos); [discriminate|left; exact Hq].
        * destruct ch as [i'|]; [|exact I]. destruct I2 as (I3 & I4). split; [right; exact I3|exact I4].
  Qed.

  (* ---- the rewiring pass *)
  Notation rewire := (rewire St C dist clt cadd c0 mcost sym maxd mv dflt).
  Lemma rewire_spec : forall nbh (l : list node) pos changed incs marks idx x,
    idx < length l -> n_st (nd l idx) = x -> (forall b, In b nbh -> b < idx) ->
    (forall k, mark_of marks (pos + k) = Some true -> n_par (nd l idx) = Some (nth k nbh 0)) ->
    let l' := fst (rewire l idx x nbh incs marks pos changed) in
    length l' = length l /\
    forall j, n_st (nd l' j) = n_st (nd l j) /\
              (n_par (nd l' j) = n_par (nd l j) \/ (n_par (nd l' j) = Some idx /\ mv x (n_st (nd l j)) = true)).
  Proof.
    induction nbh as [|b t IH]; intros l pos changed incs marks idx x Hidx Hx Hlt Hm; cbn [RrtStarModel.rewire].
    - cbn [fst]. split; [reflexivity|]. intros j. split; [reflexivity|left; reflexivity].
    - assert (Hlt' : forall b', In b' t -> b' < idx) by (intros b' Hb; apply Hlt; right; exact Hb).
      assert (Hm' : forall k, mark_of marks (S pos + k) = Some true -> n_par (nd l idx) = Some (nth k t 0)).
      { intros k Hk. replace (S pos + k) with (pos + S k) in Hk by lia. apply (Hm (S k) Hk). }
      destruct (match n_par (nd l idx) with Some p => Nat.eqb p b | None => false end) eqn:Ep; [apply IH; assumption|].
      destruct (clt (cadd (n_cost (nd l idx)) (if sym then nth pos incs c0 else mcost x (n_st (nd l b)))) (n_cost (nd l b))); [|apply IH; assumption].
      set (inc' := if sym then nth pos incs c0 else mcost x (n_st (nd l b))).
      destruct (match mark_of marks pos with None => clt (dist (n_st (nd l b)) x) maxd && mv x (n_st (nd l b)) | Some v => v end) eqn:Eok; [|apply IH; assumption].
      assert (Hmv : mv x (n_st (nd l b)) = true).
      { destruct (mark_of marks pos) as [v|] eqn:Em.
        - subst v. specialize (Hm 0). rewrite Nat.add_0_r in Hm. specialize (Hm Em). cbn [nth] in Hm. rewrite Hm in Ep. rewrite Nat.eqb_refl in Ep. discriminate.
        - apply andb_prop in Eok. tauto. }
      assert (Hb : b < idx) by (apply Hlt; left; reflexivity).
      set (l1 := updn b (mkN (n_st (nd l b)) (Some idx) inc' (cadd (n_cost (nd l idx)) inc')) l).
      set (l2 := upd_children St C cadd c0 dflt (length l1) l1 b).
      assert (L1 : length l1 = length l) by apply updn_length.
      assert (S1 : forall j, n_st (nd l1 j) = n_st (nd l j) /\ n_par (nd l1 j) = if Nat.eqb j b then Some idx else n_par (nd l j)).
      { intros j. unfold l1, RrtStarModel.nd. destruct (Nat.eqb_spec j b) as [->|Hne].
        - rewrite nth_updn_eq by lia. split; reflexivity.
        - rewrite nth_updn_ne by congruence. split; reflexivity. }
      destruct (upd_children_shape (length l1) l1 b) as (L2 & S2). fold l2 in L2, S2.
      assert (Hidx2 : idx < length l2) by lia.
      assert (Hx2 : n_st (nd l2 idx) = x) by (destruct (S2 idx) as (A & _); destruct (S1 idx) as (B & _); congruence).
      assert (Hp2 : n_par (nd l2 idx) = n_par (nd l idx)).
      { destruct (S2 idx) as (_ & A). destruct (S1 idx) as (_ & B). rewrite A, B. destruct (Nat.eqb_spec idx b); [lia|reflexivity]. }
      assert (Hm2 : forall k, mark_of marks (S pos + k) = Some true -> n_par (nd l2 idx) = Some (nth k t 0)) by (intros k Hk; rewrite Hp2; apply Hm'; exact Hk).
      destruct (IH l2 (S pos) true incs marks idx x Hidx2 Hx2 Hlt' Hm2) as (L3 & S3). cbv zeta in L3, S3.
      split; [lia|]. intros j. destruct (S3 j) as (A1 & A2). destruct (S2 j) as (B1 & B2). destruct (S1 j) as (C1 & C2).
      split; [congruence|]. destruct A2 as [A2|(A2 & A3)].
      + rewrite A2, B2, C2. destruct (Nat.eqb_spec j b) as [->|Hne]; [right; split; [reflexivity|exact Hmv]|left; reflexivity].
      + right. split; [exact A2|]. rewrite B1, C1 in A3. exact A3.
  Qed.

  (* ---- the invariant of the tree *)
  Variable starts : list St.
  Definition EInv (l : list node) : Prop :=
    forall j, j < length l ->
      match n_par (nd l j) with
      | None => In (n_st (nd l j)) starts
      | Some p => p < length l /\ mv (n_st (nd l p)) (n_st (nd l j)) = true
      end.
  Definition GInv (s : rs St C) : Prop :=
    (forall g, In g (goals St C s) -> g < length (nodes St C s) /\ sat (n_st (nd (nodes St C s) g)) = true) /\
    (forall g c, best St C s = Some (g, c) -> In g (goals St C s)) /\
    (forall a d, approx St C s = Some (a, d) -> a < length (nodes St C s)).
  Notation star_step := (star_step St C dist clt cadd c0 mcost sym csat steer maxd mv sat gdist dflt kof).
  Lemma scan_goals_in : forall (l : list node) gs b, In (fst (scan_goals St C clt c0 csat dflt l gs b)) gs \/ scan_goals St C clt c0 csat dflt l gs b = b.
  Proof.
    intros l. induction gs as [|g t IH]; intros b; cbn [scan_goals]; [right; reflexivity|].
    destruct (clt (n_cost (nd l g)) (snd b)).
    - destruct (csat (n_cost (nd l g))); [left; left; reflexivity|]. destruct (IH (g, n_cost (nd l g))) as [H|H]; [left; right; exact H|left; left; rewrite H; reflexivity].
    - destruct (IH b) as [H|H]; [left; right; exact H|right; exact H].
  Qed.
  Lemma star_step_inv (s : rs St C) r : nodes St C s <> [] -> EInv (nodes St C s) -> GInv s ->
    nodes St C (star_step s r) <> [] /\ EInv (nodes St C (star_step s r)) /\ GInv (star_step s r).
  Proof.
    intros Hne HE HG. unfold RrtStarModel.star_step. set (l := nodes St C s) in *.
    set (ni := nearest St C dist clt l r). set (n := n_st (nd l ni)). set (x := steer n r).
    destruct (mv n x) eqn:Emv; [|split; [exact Hne|split; [exact HE|exact HG]]].
    set (idx := length l). set (nbh := neighbours St C dist clt c0 dflt kof l x).
    set (incs := map (fun b => mcost (n_st (nd l b)) x) nbh). set (costs := map (fun b => cadd (n_cost (nd l b)) (mcost (n_st (nd l b)) x)) nbh).
    set (order := sort_by C clt (fun i => nth i costs c0) (seq 0 (length nbh))).
    destruct (choose l x ni nbh order []) as [ch marks] eqn:Ech.
    destruct (choose_spec l x ni nbh order [] ch marks Ech) as (CM & CS).
    assert (Hni : ni < length l) by (apply nearest_lt; exact Hne).
    set (m := match ch with Some i => mkN x (Some (nth i nbh 0)) (nth i incs c0) (nth i costs c0) | None => mkN x (Some ni) (mcost n x) (cadd (n_cost (nd l ni)) (mcost n x)) end).
    assert (Hm : n_st m = x /\ exists p, n_par m = Some p /\ p < length l /\ mv (n_st (nd l p)) x = true /\ (forall pos, mark_of marks pos = Some true -> p = nth pos nbh 0)).
    { unfold m. destruct ch as [i|].
      - destruct CS as (Hin & Hor). split; [reflexivity|]. exists (nth i nbh 0). split; [reflexivity|].
        assert (Hi : i < length nbh) by (apply (Permutation_in _ (sort_by_perm _ _)) in Hin; apply in_seq in Hin; lia).
        split; [apply (neighbours_lt l x); apply nth_In; exact Hi|]. split.
        + destruct Hor as [Hor|Hor]; [rewrite Hor; exact Emv|exact Hor].
        + intros pos Hp. destruct (CM pos Hp) as [Hq|Hq]; [discriminate|]. injection Hq as <-. reflexivity.
      - split; [reflexivity|]. exists ni. split; [reflexivity|]. split; [exact Hni|]. split; [exact Emv|]. intros pos Hp. destruct (CM pos Hp) as [Hq|Hq]; discriminate. }
    destruct Hm as (Hmst & p & Hmp & Hpl & Hpmv & Hmarks).
    set (l1 := l ++ [m]).
    assert (N1 : forall j, j < length l -> nd l1 j = nd l j) by (intros j Hj; unfold l1, RrtStarModel.nd; rewrite app_nth1 by exact Hj; reflexivity).
    assert (N1m : nd l1 idx = m) by (unfold l1, idx, RrtStarModel.nd; rewrite app_nth2 by lia; rewrite Nat.sub_diag; reflexivity).
    assert (L1 : length l1 = S idx) by (unfold l1, idx; rewrite app_length; cbn [length]; lia).
    destruct (rewire l1 idx x nbh incs marks 0 false) as [l2 changed] eqn:Erw.
    assert (RW := rewire_spec nbh l1 0 false incs marks idx x ltac:(lia) ltac:(rewrite N1m; exact Hmst) (fun b Hb => neighbours_lt l x b Hb)
                   ltac:(intros k Hk; rewrite N1m, Hmp; f_equal; apply Hmarks; exact Hk)).
    rewrite Erw in RW. cbn [fst] in RW. destruct RW as (L2 & S2).
    assert (HE2 : EInv l2).
    { intros j Hj. destruct (S2 j) as (A1 & A2). rewrite A1. destruct A2 as [A2|(A2 & A3)].
      - rewrite A2. destruct (Nat.eq_dec j idx) as [->|Hne2].
        + rewrite N1m, Hmp, Hmst. split; [lia|]. destruct (S2 p) as (B1 & _). rewrite B1, (N1 p Hpl). exact Hpmv.
        + assert (Hjl : j < length l) by (unfold idx in *; lia). rewrite (N1 j Hjl). specialize (HE j Hjl).
          destruct (n_par (nd l j)) as [q|]; [|exact HE]. destruct HE as (H1 & H2). split; [lia|]. destruct (S2 q) as (B1 & _). rewrite B1, (N1 q H1). exact H2.
      - rewrite A2. split; [lia|]. destruct (S2 idx) as (B1 & _). rewrite B1, N1m, Hmst. exact A3. }
    set (isg := sat x). set (gs := if isg then goals St C s ++ [idx] else goals St C s).
    destruct HG as (G1 & G2 & G3).
    assert (HG1 : forall g, In g gs -> g < length l2 /\ sat (n_st (nd l2 g)) = true).
    { intros g Hg. assert (Hc : In g (goals St C s) \/ (isg = true /\ g = idx)).
      { unfold gs in Hg. destruct isg; [apply in_app_or in Hg; destruct Hg as [Hg|[<-|[]]]; [left; exact Hg|right; split; reflexivity]|left; exact Hg]. }
      destruct Hc as [Hc|(Hc1 & ->)].
      - destruct (G1 g Hc) as (H1 & H2). fold l in H1, H2. split; [lia|]. destruct (S2 g) as (B1 & _). rewrite B1, (N1 g H1). exact H2.
      - split; [lia|]. destruct (S2 idx) as (B1 & _). rewrite B1, N1m, Hmst. exact Hc1. }
    cbn [nodes goals best approx]. split; [intros E; rewrite E in L2; cbn in L2; lia|]. split; [exact HE2|].
    split; [exact HG1|]. split.
    - intros g c. assert (Hsub : forall g', In g' (goals St C s) -> In g' gs) by (intros g' Hg'; unfold gs; destruct isg; [apply in_or_app; left; exact Hg'|exact Hg']).
      destruct (changed || isg).
      + destruct (best St C s) as [[bg bc]|] eqn:Eb.
        * intros H. injection H as H. destruct (scan_goals_in l2 gs (bg, bc)) as [Hs|Hs]; [rewrite H in Hs; exact Hs|]. rewrite Hs in H. injection H as <- _. apply Hsub. apply (G2 bg bc eq_refl).
        * destruct gs as [|g0 gt]; [discriminate|]. intros H. injection H as <- _. left. reflexivity.
      + intros H. apply Hsub. apply (G2 g c H).
    - intros a d. destruct gs as [|g0 gt].
      + destruct (approx St C s) as [[a0 ad]|] eqn:Ea.
        * specialize (G3 a0 ad eq_refl). fold l in G3. fold idx in G3. destruct (clt (gdist x) ad); intros H; injection H as <- _; cbn [nodes]; lia.
        * intros H. injection H as <- _. cbn [nodes]. lia.
      + intros H. specialize (G3 a d H). fold l in G3. fold idx in G3. cbn [nodes]. lia.
  Qed.

  Notation star_loop := (star_loop St C dist clt cadd c0 mcost sym csat steer maxd mv sat gdist goal_state dflt bias kof).
  Lemma star_loop_inv : forall iters (s : rs St C) tape samples, nodes St C s <> [] -> EInv (nodes St C s) -> GInv s ->
    let s' := star_loop iters s tape samples in nodes St C s' <> [] /\ EInv (nodes St C s') /\ GInv s'.
  Proof.
    induction iters as [|k IH]; intros s tape samples Hn HE HG; cbn [RrtStarModel.star_loop]; [split; [exact Hn|split; [exact HE|exact HG]]|].
    destruct (match goals St C s with
              | [] => if clt (hd c0 tape) bias then (goal_state, tl tape, samples) else (hd dflt samples, tl tape, tl samples)
              | _ :: _ => (hd dflt samples, tape, tl samples)
              end) as [[r tape'] samples'].
    destruct (star_step_inv s r Hn HE HG) as (A & B & D).
    destruct (done St C csat (star_step s r)); [split; [exact A|split; [exact B|exact D]]|]. apply IH; assumption.
  Qed.
  (* following parents: every consecutive pair is a validated motion parent -> child; the last state is the motion's *)
  Lemma consecutive_snoc {X} (R : X -> X -> Prop) : forall (p : list X) b d, consecutive R p -> (p = [] \/ R (last p d) b) -> consecutive R (p ++ [b]).
  Proof.
    induction p as [|a t IH]; intros b d Hc Hl; [exact I|]. destruct t as [|a' t'].
    - cbn [app]. split; [destruct Hl as [Hl|Hl]; [discriminate|exact Hl]|exact I].
    - change (consecutive R (a :: a' :: (t' ++ [b]))). destruct Hc as (H1 & H2). split; [exact H1|]. apply (IH b d H2). right. destruct Hl as [Hl|Hl]; [discriminate|exact Hl].
  Qed.
  Notation chain := (chain St C c0 dflt).
  Lemma chain_spec : forall fuel (l : list node) i, EInv l -> i < length l ->
    consecutive (fun a b => mv a b = true) (chain fuel l i) /\ (fuel <> 0 -> chain fuel l i <> [] /\ last (chain fuel l i) dflt = n_st (nd l i)).
  Proof.
    induction fuel as [|f IH]; intros l i HE Hi; cbn [RrtStarModel.chain]; [split; [exact I|congruence]|].
    specialize (HE i Hi) as HEi. destruct (n_par (nd l i)) as [p|] eqn:Ep.
    - destruct HEi as (Hp & Hmv). destruct (IH l p HE Hp) as (C1 & C2). split.
      + apply (consecutive_snoc _ _ _ dflt C1). destruct f as [|f']; [left; reflexivity|right]. destruct (C2 ltac:(congruence)) as (_ & C3). rewrite C3. exact Hmv.
      + intros _. split; [destruct (chain f l p); discriminate|apply last_last].
    - split; [exact I|]. intros _. split; [discriminate|reflexivity].
  Qed.

  (* geometric::RRTstar: the tree consists of validated motions, and so does every reported path; an exact report ends in a state
     the goal accepts.  (Partial: see the header — that the path begins at a start state needs the cost argument.) *)
  Theorem star_solve_partial : forall iters tape samples, starts <> [] ->
    let res := star_solve St C dist clt cadd c0 mcost sym csat steer maxd mv sat gdist goal_state dflt bias kof starts iters tape samples in
    EInv (fst res) /\
    match snd res with
    | Some (path, approx, dd, stored, opt) =>
        path <> [] /\ consecutive (fun a b => mv a b = true) path /\
        (exists i, i < length (fst res) /\ last path dflt = n_st (nd (fst res) i) /\ stored = n_cost (nd (fst res) i)) /\
        (approx = false -> sat (last path dflt) = true)
    | None => True
    end.
  Proof.
    intros iters tape samples Hs. cbv zeta. unfold RrtStarModel.star_solve.
    set (s0 := mkRS St C (map (fun x => mkN x None c0 c0) starts) [] None None).
    assert (H0 : nodes St C s0 <> [] /\ EInv (nodes St C s0) /\ GInv s0).
    { cbn [nodes s0]. split; [destruct starts; [congruence|discriminate]|]. split.
      - intros j Hj. rewrite map_length in Hj. unfold RrtStarModel.nd.
        change (mkN dflt None c0 c0) with ((fun x => mkN x None c0 c0) dflt). rewrite map_nth. cbn [RrtStarModel.n_par RrtStarModel.n_st]. apply nth_In. exact Hj.
      - split; [intros g []|]. split; [intros g c H; discriminate|intros a d H; discriminate]. }
    destruct H0 as (A0 & B0 & D0). destruct (star_loop_inv iters s0 tape samples A0 B0 D0) as (A & B & (G1 & G2 & G3)). cbv zeta in *.
    set (s := star_loop iters s0 tape samples) in *. cbn [fst snd]. split; [exact B|].
    destruct (best St C s) as [[g bc]|] eqn:Eb.
    - destruct (G1 g (G2 g bc eq_refl)) as (Hg & Hsat). destruct (chain_spec (S (length (nodes St C s))) (nodes St C s) g B Hg) as (C1 & C2).
      destruct (C2 ltac:(congruence)) as (C3 & C4). split; [exact C3|]. split; [exact C1|]. split; [exists g; split; [exact Hg|split; [exact C4|reflexivity]]|]. intros _. rewrite C4. exact Hsat.
    - destruct (approx St C s) as [[a ad]|] eqn:Ea; [|exact I]. specialize (G3 a ad eq_refl).
      destruct (chain_spec (S (length (nodes St C s))) (nodes St C s) a B G3) as (C1 & C2). destruct (C2 ltac:(congruence)) as (C3 & C4).
      split; [exact C3|]. split; [exact C1|]. split; [exists a; split; [exact G3|split; [exact C4|reflexivity]]|]. intros H. discriminate.
  Qed.
End StarP.
