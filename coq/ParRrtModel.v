(* ParRrtModel.v — geometric::pRRT: several threads run the RRT loop on one tree.  What is atomic in the sources (each under one
   lock): reading the nearest node, appending a motion, and updating the shared solution record.  Between these a thread works on
   its own data (steering, motion check, goal test).  The model is the machine over these atomic events; a schedule is any list
   of events of any number of threads. *)
From Coq Require Import List Bool Arith.
From OmplV Require Import RrtModel.
Import ListNotations.

Section Par.
  Variables St D I : Type.
  Variable dlt : D -> D -> bool.
  Variable select : list (St * option (nat * unit)) -> I -> nat.
  Variable extend : St -> I -> option St.        (* steer + checkMotion on the thread's own data: the state to add, if the motion is valid *)
  Variable sat : St -> bool.
  Variable gdist : St -> D.
  Variable dflt : St.
  Notation node := (St * option (nat * unit))%type.

  (* what a thread holds between its atomic steps *)
  Inductive tphase := Idle | Chosen (pi : nat) (d : St) | Added (idx : nat).
  Inductive pevent :=
  | ESel (t : nat) (i : I)      (* nnLock_: nearest(); then, unlocked, steer and checkMotion *)
  | EAdd (t : nat)              (* nnLock_: nn_->add(motion) *)
  | EGoal (t : nat).            (* goal test on the thread's motion, then sol->lock: solution / approximate solution *)
  Record par_state := mkPar { q_tree : list node; q_phase : list (nat * tphase); q_sol : option nat; q_approx : option (nat * D) }.
  Fixpoint phase_of (l : list (nat * tphase)) (t : nat) : tphase :=
    match l with [] => Idle | (u, ph) :: r => if Nat.eqb u t then ph else phase_of r t end.
  Definition set_phase (l : list (nat * tphase)) (t : nat) (ph : tphase) : list (nat * tphase) := (t, ph) :: l.
  Definition par_step (s : par_state) (e : pevent) : par_state :=
    match e with
    | ESel t i =>
      match phase_of (q_phase s) t with
      | Idle =>
        let pi := select (q_tree s) i in
        match extend (fst (nth pi (q_tree s) (dflt, None))) i with
        | Some d => mkPar (q_tree s) (set_phase (q_phase s) t (Chosen pi d)) (q_sol s) (q_approx s)
        | None => s
        end
      | _ => s
      end
    | EAdd t =>
      match phase_of (q_phase s) t with
      | Chosen pi d => mkPar (q_tree s ++ [(d, Some (pi, tt))]) (set_phase (q_phase s) t (Added (length (q_tree s)))) (q_sol s) (q_approx s)
      | _ => s
      end
    | EGoal t =>
      match phase_of (q_phase s) t with
      | Added idx =>
        let st := fst (nth idx (q_tree s) (dflt, None)) in
        if sat st then mkPar (q_tree s) (set_phase (q_phase s) t Idle) (Some idx) (Some (idx, gdist st))
        else mkPar (q_tree s) (set_phase (q_phase s) t Idle) (q_sol s)
                 (match q_approx s with
                  | Some (_, bd) => if dlt (gdist st) bd then Some (idx, gdist st) else q_approx s
                  | None => Some (idx, gdist st)
                  end)
      | _ => s
      end
    end.
  Definition par_run (starts : list St) (sched : list pevent) : par_state :=
    fold_left par_step sched (mkPar (map (fun x => (x, None)) starts) [] None None).
  (* solve() after the threads have been joined: the solution if one was recorded, otherwise the approximate one *)
  Definition par_report (s : par_state) : option (list (option unit * St) * bool) :=
    match q_sol s with
    | Some i => Some (chain St unit (S (length (q_tree s))) (q_tree s) i, false)
    | None => match q_approx s with
              | Some (i, _) => Some (chain St unit (S (length (q_tree s))) (q_tree s) i, true)
              | None => None
              end
    end.
End Par.
