(* SpacesRun.v — runner for the binary64 instance of the spaces model (used by generated cases files) *)
From Coq Require Import List Floats.
From OmplV Require Import SpacesModel SpacesFloat SamplersModel.
Import ListNotations.
Local Open Scope float_scope.

Notation fspace := (space FlA).
Notation fsv := (sv FlA).
Fixpoint flat (a : fsv) : list float :=
  match a with L _ x => x | C _ xs => flat_map flat xs end.
Definition b2f (b : bool) : float := if b then 1 else 0.

(* the default samplers: the arithmetic-generic definitions of SamplersModel.v (proved over R in SamplersReal.v),
   instantiated with binary64 *)
Definition sample_uniform (sp : fspace) (tape : list float) : fsv * list float := g_sample_uniform FlA sp tape.
Definition sample_near (sp : fspace) (near : fsv) (dist : float) (tape : list float) : fsv * list float := g_sample_near FlA PrimFloat.div sp near dist tape.
Definition sample_gauss (sp : fspace) (mean : fsv) (sd : float) (tape : list float) : fsv * list float := g_sample_gauss FlA PrimFloat.div sp mean sd tape.

Inductive sop :=
| ODist (a b : fsv) | OInterp (t : float) (a b : fsv) | OEnf (a : fsv) | OSat (a : fsv) | OEq (a b : fsv) | OExt
| OSampleU (tape : list float)
| ORvNear (dist : float) (tape : list float) (near : list float) | ORvGauss (sd : float) (tape : list float) (mean : list float)
| OSo2Near (dist u near : float) | OSo2Gauss (sd g mean : float)
| OReparam (s u : float) (a b : fsv) | OGeo (t : float) (a b : fsv)
| ONear (dist : float) (tape : list float) (near : fsv) | OGauss (sd : float) (tape : list float) (mean : fsv)
| ORng (kind : nat) (a b c v : float).     (* RNG::uniformReal / uniformInt / halfNormalReal / halfNormalInt / gaussian on one variate *)

Definition rv_bounds (sp : fspace) : list (float * float) := match sp with RV _ bs => bs | _ => [] end.
Definition run_op (sp : fspace) (o : sop) : list float :=
  match o with
  | ODist a b => [distance FlA sp a b]
  | OInterp t a b => flat (interpolate FlA sp a b t)
  | OEnf a => flat (enforce FlA sp a)
  | OSat a => [b2f (satisfies FlA sp a)]
  | OEq a b => [b2f (equal FlA sp a b)]
  | OExt => [extent FlA sp]
  | OSampleU tape => flat (fst (sample_uniform sp tape))
  | ORvNear d tape near => rv_sample_near FlA (rv_bounds sp) near d tape
  | ORvGauss sd tape mean => rv_sample_gauss FlA (rv_bounds sp) mean sd tape
  | OSo2Near d u near => [so2_sample_near FlA near d u]
  | OSo2Gauss sd g mean => [so2_sample_gauss FlA mean sd g]
  | OReparam s u a b =>
    let p := interpolate FlA sp (interpolate FlA sp a b s) b u in
    let q := interpolate FlA sp a b (s + (1 - s) * u) in flat p ++ flat q ++ [distance FlA sp p q]
  | ONear d tape near => flat (fst (sample_near sp near d tape))
  | OGauss sd tape mean => flat (fst (sample_gauss sp mean sd tape))
  | OGeo t a b => [distance FlA sp a (interpolate FlA sp a b t); t * distance FlA sp a b]
  | ORng k a b c v =>
    match k with
    | 0%nat => [uniform_real FlA a b v]
    | 1%nat => [uniform_int FlA a b v]
    | 2%nat => [half_normal_real FlA PrimFloat.div a b c v]
    | 3%nat => [half_normal_int FlA PrimFloat.div a b c v]
    | _ => [gaussian FlA a b v]
    end
  end.
Definition run_ops (sp : fspace) (ops : list sop) : list (list float) := map (run_op sp) ops.
