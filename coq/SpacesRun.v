(* SpacesRun.v — runner for the binary64 instance of the spaces model (used by generated cases files) *)
From Coq Require Import List Floats.
From OmplV Require Import SpacesModel SpacesFloat.
Import ListNotations.
Local Open Scope float_scope.

Notation fspace := (space FlA).
Notation fsv := (sv FlA).
Fixpoint flat (a : fsv) : list float :=
  match a with L _ x => x | C _ xs => flat_map flat xs end.
Definition b2f (b : bool) : float := if b then 1 else 0.

(* leaf samplers with the variates taken from a tape (RNG hook): returns the state and the unused tape *)
Definition take1 (tape : list float) : float * list float := match tape with u :: t => (u, t) | [] => (0, []) end.
Fixpoint sample_uniform (sp : fspace) (tape : list float) : fsv * list float :=
  match sp with
  | RV _ bs => let n := length bs in (L FlA (rv_sample_uniform FlA bs (firstn n tape)), skipn n tape)
  | SO2 _ => let '(u, t) := take1 tape in (L FlA [so2_sample_uniform FlA u], t)
  | TimeB _ lo hi => let '(u, t) := take1 tape in (L FlA [uniform_real FlA lo hi u], t)
  | TimeU _ => (L FlA [0], tape)
  | Disc _ lo hi => let '(u, t) := take1 tape in
                    let r := fl_floor (uniform_real FlA lo (hi + 1) u) in (L FlA [if hi <? r then hi else r], t)
  | Comp _ subs =>
    let '(vs, t) := (fix go (ss : list (float * fspace)) (tape : list float) : list fsv * list float :=
                       match ss with
                       | [] => ([], tape)
                       | (_, s) :: ss' => let '(v, t1) := sample_uniform s tape in let '(vs, t2) := go ss' t1 in (v :: vs, t2)
                       end) subs tape in (C FlA vs, t)
  end.

(* near / Gaussian sampling of the default samplers for every modelled space (CompoundStateSampler scales the
   distance / deviation by weight / weightSum, or samples uniformly when that importance is below epsilon) *)
Definition hd0f (l : list float) : float := match l with x :: _ => x | [] => 0 end.
Definition wsum (subs : list (float * fspace)) : float := fold_left (fun acc ws => acc + fst ws) subs 0.
Definition importance (wsumv w : float) : float := if wsumv <? feps FlA then 1 else w / wsumv.
Definition uniform_int (lo hi u : float) : float :=
  let r := fl_floor (uniform_real FlA lo (hi + 1) u) in if hi <? r then hi else r.
Fixpoint sample_near (sp : fspace) (near : fsv) (dist : float) (tape : list float) : fsv * list float :=
  match sp, near with
  | RV _ bs, L _ x => let n := length bs in (L FlA (rv_sample_near FlA bs x dist (firstn n tape)), skipn n tape)
  | SO2 _, L _ x => let '(u, t) := take1 tape in (L FlA [so2_sample_near FlA (hd0f x) dist u], t)
  | TimeB _ _ _, L _ x | TimeU _, L _ x =>
      let '(u, t) := take1 tape in (enforce FlA sp (L FlA [uniform_real FlA (hd0f x - dist) (hd0f x + dist) u]), t)
  | Disc _ lo hi, L _ x =>
      let '(u, t) := take1 tape in
      let d := fl_floor (dist + 0.5) in (enforce FlA sp (L FlA [uniform_int (hd0f x - d) (hd0f x + d) u]), t)
  | Comp _ subs, C _ xs =>
      let ws := wsum subs in
      let '(vs, t) := (fix go (ss : list (float * fspace)) (xs : list fsv) (tape : list float) : list fsv * list float :=
                         match ss, xs with
                         | (w, s) :: ss', x :: xs' =>
                             let wi := importance ws w in
                             let '(v, t1) := if feps FlA <? wi then sample_near s x (dist * wi) tape else sample_uniform s tape in
                             let '(vs, t2) := go ss' xs' t1 in (v :: vs, t2)
                         | _, _ => ([], tape)
                         end) subs xs tape in (C FlA vs, t)
  | _, _ => (near, tape)
  end.
Fixpoint sample_gauss (sp : fspace) (mean : fsv) (sd : float) (tape : list float) : fsv * list float :=
  match sp, mean with
  | RV _ bs, L _ x => let n := length bs in (L FlA (rv_sample_gauss FlA bs x sd (firstn n tape)), skipn n tape)
  | SO2 _, L _ x => let '(g, t) := take1 tape in (L FlA [so2_sample_gauss FlA (hd0f x) sd g], t)
  | TimeB _ _ _, L _ x | TimeU _, L _ x =>
      let '(g, t) := take1 tape in (enforce FlA sp (L FlA [gaussian FlA (hd0f x) sd g]), t)
  | Disc _ lo hi, L _ x =>
      let '(g, t) := take1 tape in (enforce FlA sp (L FlA [fl_floor (gaussian FlA (hd0f x) sd g + 0.5)]), t)
  | Comp _ subs, C _ xs =>
      let ws := wsum subs in
      let '(vs, t) := (fix go (ss : list (float * fspace)) (xs : list fsv) (tape : list float) : list fsv * list float :=
                         match ss, xs with
                         | (w, s) :: ss', x :: xs' =>
                             let '(v, t1) := sample_gauss s x (sd * importance ws w) tape in
                             let '(vs, t2) := go ss' xs' t1 in (v :: vs, t2)
                         | _, _ => ([], tape)
                         end) subs xs tape in (C FlA vs, t)
  | _, _ => (mean, tape)
  end.

Inductive sop :=
| ODist (a b : fsv) | OInterp (t : float) (a b : fsv) | OEnf (a : fsv) | OSat (a : fsv) | OEq (a b : fsv) | OExt
| OSampleU (tape : list float)
| ORvNear (dist : float) (tape : list float) (near : list float) | ORvGauss (sd : float) (tape : list float) (mean : list float)
| OSo2Near (dist u near : float) | OSo2Gauss (sd g mean : float)
| OReparam (s u : float) (a b : fsv) | OGeo (t : float) (a b : fsv)
| ONear (dist : float) (tape : list float) (near : fsv) | OGauss (sd : float) (tape : list float) (mean : fsv).

Definition rv_bounds (sp : fspace) : list (float * float) := match sp with RV _ bs => bs | _ => [] end.
Definition run_op (sp : fspace) (o : sop) : list float :=
  match o with
  | ODist a b => [distance FlA sp a b]
  | OInterp t a b => flat (interpolate FlA sp a b t)
  | OEnf a => flat (enforce FlA sp a)
  | OSat a => [b2f (satisfies FlA sp a)]
  | OEq a b => [b2f (equal FlA sp a b)]
  | OExt => [extent FlA sp]
  | OSampleU tape => flat (fst (sample_uniform sp tape))
  | ORvNear d tape near => rv_sample_near FlA (rv_bounds sp) near d tape
  | ORvGauss sd tape mean => rv_sample_gauss FlA (rv_bounds sp) mean sd tape
  | OSo2Near d u near => [so2_sample_near FlA near d u]
  | OSo2Gauss sd g mean => [so2_sample_gauss FlA mean sd g]
  | OReparam s u a b =>
    let p := interpolate FlA sp (interpolate FlA sp a b s) b u in
    let q := interpolate FlA sp a b (s + (1 - s) * u) in flat p ++ flat q ++ [distance FlA sp p q]
  | ONear d tape near => flat (fst (sample_near sp near d tape))
  | OGauss sd tape mean => flat (fst (sample_gauss sp mean sd tape))
  | OGeo t a b => [distance FlA sp a (interpolate FlA sp a b t); t * distance FlA sp a b]
  end.
Definition run_ops (sp : fspace) (ops : list sop) : list (list float) := map (run_op sp) ops.
