From Coq Require Import List ZArith Bool Lia Sorted Permutation Reals Lra.
From OmplV Require Import SolModel.
Import ListNotations.
Local Open Scope Z_scope.

Definition homog (a b : sol) : Prop := has_opt a = has_opt b /\ maximize a = maximize b.

Lemma slt_rank a b : homog a b -> slt a b = lexlt (rank a) (rank b).
Proof.
  intros (H1 & H2). unfold slt, rank, lexlt, better.
  destruct (approx a), (approx b), (optimized a), (optimized b); cbn [negb andb orb];
    rewrite <- ?H1, <- ?H2; destruct (has_opt a), (maximize a); simpl;
    repeat match goal with |- context [?x <? ?y] => destruct (Z.ltb_spec x y) end;
    repeat match goal with |- context [?x =? ?y] => destruct (Z.eqb_spec x y) end; simpl; try reflexivity; try lia.
Qed.

Lemma lexlt_irrefl r : lexlt r r = false.
Proof. destruct r as [[a b] c]. unfold lexlt. rewrite !Z.ltb_irrefl, !Z.eqb_refl. reflexivity. Qed.
Lemma lexlt_trans r s t : lexlt r s = true -> lexlt s t = true -> lexlt r t = true.
Proof.
  destruct r as [[a1 a2] a3], s as [[b1 b2] b3], t as [[c1 c2] c3]. unfold lexlt.
  repeat match goal with |- context [?x <? ?y] => destruct (Z.ltb_spec x y) end;
  repeat match goal with |- context [?x =? ?y] => destruct (Z.eqb_spec x y) end; simpl; try reflexivity; try discriminate; try lia.
Qed.
Lemma lexlt_total r s : lexlt r s = false -> lexlt s r = false -> r = s.
Proof.
  destruct r as [[a1 a2] a3], s as [[b1 b2] b3]. unfold lexlt.
  repeat match goal with |- context [?x <? ?y] => destruct (Z.ltb_spec x y) end;
  repeat match goal with |- context [?x =? ?y] => destruct (Z.eqb_spec x y) end; simpl; try discriminate; intros; f_equal; try f_equal; lia.
Qed.

(* a set of solutions that share one objective (or none) *)
Definition Homog (l : list sol) : Prop := forall a b, In a l -> In b l -> homog a b.

Lemma insert_perm x l : Permutation (insert x l) (x :: l).
Proof. induction l as [|y t IH]; simpl; [apply Permutation_refl|]. destruct (slt x y); [apply Permutation_refl|]. eapply perm_trans; [apply perm_skip; exact IH|apply perm_swap]. Qed.
Lemma sort_perm l : Permutation (sort l) l.
Proof. induction l as [|x t IH]; simpl; [constructor|]. eapply perm_trans; [apply insert_perm|apply perm_skip; exact IH]. Qed.

Definition ordered (l : list sol) : Prop := StronglySorted (fun a b => lexlt (rank b) (rank a) = false) l.

Lemma insert_ordered x l : Homog (x :: l) -> ordered l -> ordered (insert x l).
Proof.
  induction l as [|y t IH]; intros H O; simpl; [repeat constructor|].
  inversion O as [|? ? Ot Fy]; subst.
  assert (Hxy : homog x y) by (apply H; simpl; auto).
  destruct (slt x y) eqn:E.
  - constructor; [exact O|]. rewrite slt_rank in E by exact Hxy. constructor.
    + destruct (lexlt (rank y) (rank x)) eqn:E2; [|reflexivity]. pose proof (lexlt_trans _ _ _ E E2) as C. rewrite lexlt_irrefl in C. discriminate.
    + rewrite Forall_forall in *. intros z Hz. specialize (Fy z Hz).
      destruct (lexlt (rank z) (rank x)) eqn:E2; [|reflexivity]. pose proof (lexlt_trans _ _ _ E2 E) as C. congruence.
  - constructor.
    + apply IH; [|exact Ot]. intros a b Ha Hb. apply H; simpl in *; tauto.
    + rewrite slt_rank in E by exact Hxy. rewrite Forall_forall in *. intros z Hz.
      apply (Permutation_in _ (insert_perm x t)) in Hz. destruct Hz as [<-|Hz]; [exact E|apply Fy; exact Hz].
Qed.
Lemma sort_ordered l : Homog l -> ordered (sort l).
Proof.
  induction l as [|x t IH]; intros H; simpl; [constructor|]. apply insert_ordered.
  - intros a b Ha Hb. apply H; simpl in *.
    + destruct Ha as [<-|Ha]; [auto|right; apply (Permutation_in _ (sort_perm t)); exact Ha].
    + destruct Hb as [<-|Hb]; [auto|right; apply (Permutation_in _ (sort_perm t)); exact Hb].
  - apply IH. intros a b Ha Hb. apply H; simpl; auto.
Qed.

(* path length (sum of consecutive distances) is at least the direct distance, for any metric *)
Section PathLen.
  Variable X : Type.
  Variable d : X -> X -> R.
  Hypothesis d_refl : forall x, d x x = 0%R.
  Hypothesis d_tri : forall x y z, (d x z <= d x y + d y z)%R.
  Fixpoint plen (p : list X) : R :=
    match p with
    | a :: ((b :: _) as t) => (d a b + plen t)%R
    | _ => 0%R
    end.
  Lemma plen_ge_direct : forall p a, (d a (last p a) <= plen (a :: p))%R.
  Proof.
    induction p as [|b t IH]; intros a.
    - simpl. rewrite d_refl. lra.
    - change (plen (a :: b :: t)) with (d a b + plen (b :: t))%R.
      assert (E : last (b :: t) a = last t b) by (clear; revert b; induction t as [|c t' IH]; intros b; [reflexivity|]; simpl in *; destruct t'; auto).
      rewrite E. specialize (IH b). pose proof (d_tri a b (last t b)). lra.
  Qed.
End PathLen.
