(* Properties_C10.v — property C10: nearest-neighbour structures answer like exhaustive search.  Statements only. *)
From Coq Require Import List ZArith Bool Arith Permutation Sorted.
From OmplV Require Import NNModel NNProofs GnatModel GnatProofs GnatFullModel GnatFullProofs.
Import ListNotations.
Local Open Scope Z_scope.

Section C10.
  Variable P : Type.
  Variable d : P -> P -> Z.            (* the distance function *)
  Variable peqb : P -> P -> bool.
  Hypothesis peqb_spec : forall a b, peqb a b = true <-> a = b.

  (* k-nearest (exhaustive form): min(k,n) members, in non-decreasing distance, nothing returned twice beyond the
     multiset held, and nothing left out is strictly closer than anything returned *)
  Theorem C10_nearestK_exact : forall q k data,
    let r := nearestK P d q k data in
    length r = Nat.min k (length data) /\ StronglySorted (by_dist P d q) r /\
    (exists rest, Permutation (r ++ rest) data /\ forall x y, In x r -> In y rest -> d x q <= d y q).
  Proof. exact (nearestK_spec P d). Qed.

  Theorem C10_nearestR_exact : forall q r data,
    let res := nearestR P d q r data in
    StronglySorted (by_dist P d q) res /\ Permutation res (filter (fun x => d x q <=? r) data).
  Proof. exact (nearestR_spec P d). Qed.

  Theorem C10_nearest_exact : forall q data r,
    lin_nearest P d q data = Some r -> In r data /\ forall x, In x data -> d r q <= d x q.
  Proof. exact (lin_nearest_spec P d). Qed.

  (* removal takes out exactly one occurrence, iff one is present *)
  Theorem C10_remove_exact : forall p data,
    match lin_remove P peqb p data with
    | (true, data') => Permutation (p :: data') data
    | (false, data') => data' = data /\ ~ In p data
    end.
  Proof. exact (lin_remove_spec P d peqb peqb_spec). Qed.

  (* the square-root approximation still answers with a current member *)
  Theorem C10_sqrt_nearest_member : forall q data checks offset i off',
    sqrt_nearest P d q data checks offset = (Some i, off') -> (i < length data)%nat.
  Proof. exact (sqrt_nearest_member P d). Qed.

  (* GNAT, for a metric: both pruning tests only discard subtrees that hold nothing within tau of the query *)
  Hypothesis d_sym : forall x y, d x y = d y x.
  Hypothesis d_tri : forall x y z, d x z <= d x y + d y z.
  Theorem C10_gnat_prune_by_range_sound : forall q pi lo hi E tau,
    within P d pi lo hi E = true -> pruned_by_range (d q pi) tau lo hi = true -> forall x, In x E -> tau < d q x.
  Proof. exact (prune_by_range_sound P d d_sym d_tri). Qed.
  Theorem C10_gnat_prune_by_radius_sound : forall q p minR maxR E tau,
    within P d p minR maxR E = true -> pruned_by_radius (d q p) tau minR maxR = true -> forall x, In x E -> tau < d q x.
  Proof. exact (prune_by_radius_sound P d d_sym d_tri). Qed.
  (* what the executable tree check (run on dumps of the implementation's trees) establishes at every node *)
  Theorem C10_gnat_invariant_meaning : forall p minR maxR rng dat ch,
    inv_ok P d (GNode p minR maxR rng dat ch) = true ->
    within P d p minR maxR (dat ++ flat_map (elems P) ch) = true /\
    (forall i j ci cj, nth_error ch i = Some ci -> nth_error ch j = Some cj ->
       match ci with GNode pi _ _ rngi _ _ =>
         within P d pi (fst (nth j rngi (None, None))) (snd (nth j rngi (None, None))) (elems P cj) = true end) /\
    (forall c, In c ch -> inv_ok P d c = true).
  Proof. exact (inv_ok_node P d). Qed.
  (* the search argument: elements never examined are irrelevant once they are farther than the k-th best examined one *)
  Theorem C10_examined_suffices : forall q k (V U : list P), (k <= length V)%nat ->
    (forall u, In u U -> forall v, In v (nearestK P d q k V) -> d v q < d u q) ->
    forall x y, In x (nearestK P d q k V) -> In y (skipn k (sort_by P d q V) ++ U) -> d x q <= d y q.
  Proof. exact (examined_suffices P d). Qed.

  (* ---- the GNAT search loops themselves (GnatModel.v: Node::nearestK / nearestR, nearestKInternal / nearestRInternal),
     on every tree satisfying the executable invariant, for every removal cache, every sequence of offset_ values seen
     by the node visits and every order in which the node queue yields its entries: the search returns, and returns
     exactly what exhaustive search over the live elements returns ---- *)
  Theorem C10_gnat_nearestR_exact : forall removed offs pick r q tree,
    inv_ok_root P d tree = true ->
    exists nbh piv, gnat_nearestR P d removed offs pick r q tree = Some (nbh, piv) /\
      Permutation (map snd nbh) (filter (fun x => d q x <=? r) (lelems P removed tree)) /\
      StronglySorted (nle P) nbh /\ dists_ok P d q nbh.
  Proof.
    intros removed offs pick r q tree IR.
    destruct (gnat_nearestR P d removed offs pick r q tree) as [[nbh piv]|] eqn:G.
    - exists nbh, piv. split; [reflexivity|]. exact (gnat_nearestR_spec P d peqb d_sym d_tri removed offs pick r q tree nbh piv IR G).
    - exfalso. exact (gnat_nearestR_total P d removed offs pick r q tree G).
  Qed.
  Hypothesis d_nonneg : forall x y, 0 <= d x y.
  Theorem C10_gnat_nearestK_exact : forall removed offs pick k q tree, (1 <= k)%nat ->
    inv_ok_root P d tree = true ->
    exists nbh piv, gnat_nearestK P d peqb removed offs pick k q tree = Some (nbh, piv) /\
      StronglySorted (nle P) nbh /\ dists_ok P d q nbh /\ length nbh = Nat.min k (length (lelems P removed tree)) /\
      exists rest, Permutation (lelems P removed tree) (map snd nbh ++ rest) /\
                   forall x y, In x (map snd nbh) -> In y rest -> d q x <= d q y.
  Proof.
    intros removed offs pick k q tree Hk IR.
    destruct (gnat_nearestK P d peqb removed offs pick k q tree) as [[nbh piv]|] eqn:G.
    - exists nbh, piv. split; [reflexivity|]. exact (gnat_nearestK_spec P d peqb d_sym d_tri removed offs pick k Hk d_nonneg q tree nbh piv IR G).
    - exfalso. exact (gnat_nearestK_total P d peqb removed offs pick k q tree G).
  Qed.
  (* the live elements are the tree's elements minus the removal cache, as long as no pivot is in the cache
     (remove() rebuilds the tree at once when the removed element is a pivot) *)
  Theorem C10_gnat_live_elements : forall removed tree,
    (forall p, In p (pivots P tree) -> removed p = false) ->
    lelems P removed tree = filter (fun x => negb (removed x)) (elems P tree).
  Proof. exact (lelems_filter P). Qed.
  (* remove() / nearest(): the flag nearestKInternal(data, 1) returns with its single element is true only for a pivot of
     the tree and false only for a data element that is not in the removal cache: remove() therefore rebuilds the tree
     whenever it would otherwise leave a removed pivot behind (pivots are offered to queries without an isRemoved test) *)
  Theorem C10_gnat_nearest1_flag_meaning : forall removed offs pick q tree nbh piv,
    gnat_nearestK P d peqb removed offs pick 1 q tree = Some (nbh, piv) ->
    forall dd x, nbh = [(dd, x)] ->
      if piv then In x (map (node_pivot P) (anodes P tree))
      else (In x (flat_map (node_data P) (anodes P tree)) /\ removed x = false).
  Proof. exact (gnat_nearest1_flag P d peqb). Qed.
End C10.

Print Assumptions C10_nearestK_exact.
Print Assumptions C10_nearestR_exact.
Print Assumptions C10_nearest_exact.
Print Assumptions C10_remove_exact.
Print Assumptions C10_sqrt_nearest_member.
Print Assumptions C10_gnat_prune_by_range_sound.
Print Assumptions C10_gnat_prune_by_radius_sound.
Print Assumptions C10_gnat_invariant_meaning.
Print Assumptions C10_examined_suffices.
Print Assumptions C10_gnat_nearestR_exact.
Print Assumptions C10_gnat_nearestK_exact.
Print Assumptions C10_gnat_live_elements.
Print Assumptions C10_gnat_nearest1_flag_meaning.

(* ---- the whole GNAT structure (GnatFullModel.v: add with range / radius updates, split with greedy k-centres, bulk
   add, rebuild, removal cache, clear — the model whose tree equals the library's node by node after every operation
   of the generated histories): for EVERY history of operations, every stream of random numbers feeding the k-centre
   choice, and every parameter set with degree, minDegree, maxDegree >= 1, the structure satisfies the invariant the
   search theorems above take as their hypothesis, never keeps a pivot in the removal cache, holds exactly the elements
   it should, and therefore answers every query like exhaustive search over its contents ---- *)
Section C10full.
  Variable P : Type.
  Variable d : P -> P -> Z.
  Variable peqb : P -> P -> bool.
  Hypothesis d_sym : forall x y, d x y = d y x.
  Hypothesis d_refl : forall x, d x x = 0.
  Hypothesis d_nonneg : forall x y, 0 <= d x y.
  Hypothesis d_tri : forall x y z, d x z <= d x y + d y z.
  Hypothesis peqb_spec : forall x y, peqb x y = true <-> x = y.
  Variable par : params.
  Hypothesis Hmin : (1 <= p_minDeg par)%nat.
  Hypothesis Hmax : (1 <= p_maxDeg par)%nat.
  Hypothesis Hdeg : (1 <= p_degree par)%nat.
  Notation GI := (GI P d peqb).
  Notation contents := (contents P peqb).
  Notation gstep := (gstep P d peqb par).
  Notation isrem := (isrem P peqb).

  Theorem C10_gnat_invariant_after_every_history : forall ops tape,
    GI (fst (fold_left gstep ops (gf_empty P par, tape))).
  Proof. exact (history_inv P d peqb d_sym d_refl d_nonneg par Hmin Hmax Hdeg peqb_spec). Qed.
  (* what the invariant is: the boolean search invariant on the tree, and live elements = contents *)
  Theorem C10_gnat_invariant_is_the_search_invariant : forall g t, GI g -> g_tree P g = Some t ->
    inv_ok_root P d (to_g P t) = true /\ lelems P (isrem (g_removed P g)) (to_g P t) = contents g.
  Proof. exact (GI_search P d peqb). Qed.
  (* contents: each operation changes them as the abstract multiset says *)
  Theorem C10_gnat_add_contents : forall g x tape g' tp, GI g -> gf_add P d peqb par g x tape = (g', tp) ->
    GI g' /\ (isrem (g_removed P g) x = false -> Permutation (contents g') (x :: contents g)) /\
    (g_removed P g' = g_removed P g \/ g_removed P g' = []).
  Proof. exact (add_spec P d peqb d_sym d_refl d_nonneg par Hmin Hmax Hdeg). Qed.
  Theorem C10_gnat_add_list_contents : forall l g tape g' tp, GI g -> gf_add_list P d peqb par g l tape = (g', tp) ->
    GI g' /\ ((forall x, In x l -> isrem (g_removed P g) x = false) -> Permutation (contents g') (l ++ contents g)).
  Proof. exact (add_list_spec P d peqb d_sym d_refl d_nonneg par Hmin Hmax Hdeg). Qed.
  Theorem C10_gnat_remove_contents : forall g x tape b g' tp, GI g -> gf_remove P d peqb par g x tape = (b, g', tp) ->
    GI g' /\ (b = false -> g' = g) /\
    (b = true -> Permutation (contents g') (filter (fun y => negb (peqb y x)) (contents g))).
  Proof. exact (remove_spec P d peqb d_sym d_refl d_nonneg par Hmin Hmax Hdeg peqb_spec). Qed.
  Theorem C10_gnat_rebuild_contents : forall g tape g' tp, gf_rebuild P d peqb par g tape = (g', tp) ->
    (g_tree P g = None -> g_removed P g = []) ->
    GI g' /\ Permutation (contents g') (contents g) /\ g_removed P g' = [].
  Proof. exact (rebuild_spec P d peqb d_sym d_refl d_nonneg par Hmin Hmax Hdeg). Qed.
  (* queries after any history *)
  Theorem C10_gnat_nearestK_exact_after_every_history : forall ops tape t offs pick k q, (1 <= k)%nat ->
    let g := fst (fold_left gstep ops (gf_empty P par, tape)) in
    g_tree P g = Some t ->
    exists nbh piv, gnat_nearestK P d peqb (isrem (g_removed P g)) offs pick k q (to_g P t) = Some (nbh, piv) /\
      StronglySorted (nle P) nbh /\ dists_ok P d q nbh /\ length nbh = Nat.min k (length (contents g)) /\
      exists rest, Permutation (contents g) (map snd nbh ++ rest) /\
                   forall x y, In x (map snd nbh) -> In y rest -> d q x <= d q y.
  Proof. exact (history_nearestK P d peqb d_sym d_refl d_nonneg par Hmin Hmax Hdeg peqb_spec d_tri). Qed.
  Theorem C10_gnat_nearestR_exact_after_every_history : forall ops tape t offs pick r q,
    let g := fst (fold_left gstep ops (gf_empty P par, tape)) in
    g_tree P g = Some t ->
    exists nbh piv, gnat_nearestR P d (isrem (g_removed P g)) offs pick r q (to_g P t) = Some (nbh, piv) /\
      Permutation (map snd nbh) (filter (fun x => d q x <=? r) (contents g)) /\
      StronglySorted (nle P) nbh /\ dists_ok P d q nbh.
  Proof. exact (history_nearestR P d peqb d_sym d_refl d_nonneg par Hmin Hmax Hdeg peqb_spec d_tri). Qed.
End C10full.

Print Assumptions C10_gnat_invariant_after_every_history.
Print Assumptions C10_gnat_invariant_is_the_search_invariant.
Print Assumptions C10_gnat_add_contents.
Print Assumptions C10_gnat_add_list_contents.
Print Assumptions C10_gnat_remove_contents.
Print Assumptions C10_gnat_rebuild_contents.
Print Assumptions C10_gnat_nearestK_exact_after_every_history.
Print Assumptions C10_gnat_nearestR_exact_after_every_history.

(* non-vacuity: L1 metric on Z^2 *)
Definition l1 (a b : Z * Z) : Z := Z.abs (fst a - fst b) + Z.abs (snd a - snd b).
Example C10_nonvacuous :
  map (fun p => l1 p (1, 1)) (nearestK (Z * Z) l1 (1, 1) 3 [(0,0); (5,5); (1,0); (2,2); (9,9); (3,1); (5,5)]) = [1; 2; 2]
  /\ inv_ok_root (Z * Z) l1
       (GNode (0,0) None None []
          [] [GNode (1,0) (Some 3) (Some 3) [(Some 0, Some 3); (Some 17, Some 17); (Some 7, Some 9)] [(2,2); (3,1)] [];
              GNode (9,9) (Some 0) (Some 0) [(Some 14, Some 17); (Some 0, Some 0); (Some 8, Some 10)] [] [];
              GNode (5,5) (Some 0) (Some 2) [(Some 6, Some 9); (Some 8, Some 8); (Some 0, Some 2)] [(5,5); (4,4)] []]) = true.
Proof. vm_compute. split; reflexivity. Qed.

(* non-vacuity for the search loops: the tree above with (3,1) in the removal cache; query (4,3) *)
Definition peq2 (a b : Z * Z) : bool := (fst a =? fst b) && (snd a =? snd b).
Example C10_gnat_search_nonvacuous :
  let tree := GNode (0,0) None None []
          [] [GNode (1,0) (Some 3) (Some 3) [(Some 0, Some 3); (Some 17, Some 17); (Some 7, Some 9)] [(2,2); (3,1)] [];
              GNode (9,9) (Some 0) (Some 0) [(Some 14, Some 17); (Some 0, Some 0); (Some 8, Some 10)] [] [];
              GNode (5,5) (Some 0) (Some 2) [(Some 6, Some 9); (Some 8, Some 8); (Some 0, Some 2)] [(5,5); (4,4)] []] in
  let rem := fun x => peq2 x (3,1) in
  option_map (fun r => map fst (fst r)) (gnat_nearestK _ l1 peq2 rem (fun n => n) (fun _ => 1%nat) 3 (4,3) tree) = Some [1; 3; 3]
  /\ option_map fst (gnat_nearestR _ l1 rem (fun n => (2 * n)%nat) (fun _ => 0%nat) 3 (4,3) tree)
     = Some [(1, (4,4)); (3, (5,5)); (3, (2,2)); (3, (5,5))]
  /\ option_map fst (gnat_nearestR _ l1 (fun _ => false) (fun n => (2 * n)%nat) (fun _ => 0%nat) 3 (4,3) tree)
     = Some [(1, (4,4)); (3, (5,5)); (3, (2,2)); (3, (3,1)); (3, (5,5))].
Proof. vm_compute. repeat split; reflexivity. Qed.

(* non-vacuity for the structure theorems: a history with splits, a removal kept in the cache, a pivot removal
   (rebuild) on the L1 plane; degree 2, minDegree 2, maxDegree 3, 2 elements per leaf, cache of 3 *)
Definition par0 : params := mkPar 2 2 3 2 3 false.
Definition hist0 : list (gop (Z * Z)) :=
  [GAdd _ (0,0); GAdd _ (5,5); GAdd _ (1,0); GAdd _ (2,2); GAdd _ (9,9); GAdd _ (3,1); GAdd _ (7,2); GAdd _ (4,8);
   GRemove _ (2,2); GAddList _ [(6,6); (8,1)]; GRemove _ (0,0)].
Definition tape0 : list (Z * Z) := [(1, 3); (2, 3); (0, 1); (1, 2); (1, 4)].
Example C10_gnat_structure_nonvacuous :
  let g1 := fst (fold_left (gstep _ l1 peq2 par0) (firstn 10 hist0) (gf_empty _ par0, tape0)) in
  let g := fst (fold_left (gstep _ l1 peq2 par0) hist0 (gf_empty _ par0, tape0)) in
  (* after the first ten operations: a tree with two subtrees, (2,2) in the removal cache *)
  option_map (fun t => length (f_children _ t)) (g_tree _ g1) = Some 2%nat /\ g_removed _ g1 = [(2,2)] /\
  contents _ peq2 g1 = [(0, 0); (1, 0); (3, 1); (5, 5); (4, 8); (9, 9); (6, 6); (7, 2); (8, 1)] /\
  (* removing the root pivot (0,0) rebuilds: cache empty, the element gone *)
  option_map (fun t => length (f_children _ t)) (g_tree _ g) = Some 2%nat /\ g_removed _ g = [] /\
  contents _ peq2 g = [(1, 0); (3, 1); (7, 2); (8, 1); (5, 5); (9, 9); (4, 8); (6, 6)].
Proof. vm_compute. repeat split; reflexivity. Qed.
