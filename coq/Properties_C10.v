(* Properties_C10.v — property C10: nearest-neighbour structures answer like exhaustive search.  Statements only. *)
From Coq Require Import List ZArith Bool Arith Permutation Sorted.
From OmplV Require Import NNModel NNProofs GnatModel GnatProofs.
Import ListNotations.
Local Open Scope Z_scope.

Section C10.
  Variable P : Type.
  Variable d : P -> P -> Z.            (* the distance function *)
  Variable peqb : P -> P -> bool.
  Hypothesis peqb_spec : forall a b, peqb a b = true <-> a = b.

  (* k-nearest (exhaustive form): min(k,n) members, in non-decreasing distance, nothing returned twice beyond the
     multiset held, and nothing left out is strictly closer than anything returned *)
  Theorem C10_nearestK_exact : forall q k data,
    let r := nearestK P d q k data in
    length r = Nat.min k (length data) /\ StronglySorted (by_dist P d q) r /\
    (exists rest, Permutation (r ++ rest) data /\ forall x y, In x r -> In y rest -> d x q <= d y q).
  Proof. exact (nearestK_spec P d). Qed.

  Theorem C10_nearestR_exact : forall q r data,
    let res := nearestR P d q r data in
    StronglySorted (by_dist P d q) res /\ Permutation res (filter (fun x => d x q <=? r) data).
  Proof. exact (nearestR_spec P d). Qed.

  Theorem C10_nearest_exact : forall q data r,
    lin_nearest P d q data = Some r -> In r data /\ forall x, In x data -> d r q <= d x q.
  Proof. exact (lin_nearest_spec P d). Qed.

  (* removal takes out exactly one occurrence, iff one is present *)
  Theorem C10_remove_exact : forall p data,
    match lin_remove P peqb p data with
    | (true, data') => Permutation (p :: data') data
    | (false, data') => data' = data /\ ~ In p data
    end.
  Proof. exact (lin_remove_spec P d peqb peqb_spec). Qed.

  (* the square-root approximation still answers with a current member *)
  Theorem C10_sqrt_nearest_member : forall q data checks offset i off',
    sqrt_nearest P d q data checks offset = (Some i, off') -> (i < length data)%nat.
  Proof. exact (sqrt_nearest_member P d). Qed.

  (* GNAT, for a metric: both pruning tests only discard subtrees that hold nothing within tau of the query *)
  Hypothesis d_sym : forall x y, d x y = d y x.
  Hypothesis d_tri : forall x y z, d x z <= d x y + d y z.
  Theorem C10_gnat_prune_by_range_sound : forall q pi lo hi E tau,
    within P d pi lo hi E = true -> pruned_by_range (d q pi) tau lo hi = true -> forall x, In x E -> tau < d q x.
  Proof. exact (prune_by_range_sound P d d_sym d_tri). Qed.
  Theorem C10_gnat_prune_by_radius_sound : forall q p minR maxR E tau,
    within P d p minR maxR E = true -> pruned_by_radius (d q p) tau minR maxR = true -> forall x, In x E -> tau < d q x.
  Proof. exact (prune_by_radius_sound P d d_sym d_tri). Qed.
  (* what the executable tree check (run on dumps of the implementation's trees) establishes at every node *)
  Theorem C10_gnat_invariant_meaning : forall p minR maxR rng dat ch,
    inv_ok P d (GNode p minR maxR rng dat ch) = true ->
    within P d p minR maxR (dat ++ flat_map (elems P) ch) = true /\
    (forall i j ci cj, nth_error ch i = Some ci -> nth_error ch j = Some cj ->
       match ci with GNode pi _ _ rngi _ _ =>
         within P d pi (fst (nth j rngi (None, None))) (snd (nth j rngi (None, None))) (elems P cj) = true end) /\
    (forall c, In c ch -> inv_ok P d c = true).
  Proof. exact (inv_ok_node P d). Qed.
  (* the search argument: elements never examined are irrelevant once they are farther than the k-th best examined one *)
  Theorem C10_examined_suffices : forall q k (V U : list P), (k <= length V)%nat ->
    (forall u, In u U -> forall v, In v (nearestK P d q k V) -> d v q < d u q) ->
    forall x y, In x (nearestK P d q k V) -> In y (skipn k (sort_by P d q V) ++ U) -> d x q <= d y q.
  Proof. exact (examined_suffices P d). Qed.

  (* ---- the GNAT search loops themselves (GnatModel.v: Node::nearestK / nearestR, nearestKInternal / nearestRInternal),
     on every tree satisfying the executable invariant, for every removal cache, every sequence of offset_ values seen
     by the node visits and every order in which the node queue yields its entries: the search returns, and returns
     exactly what exhaustive search over the live elements returns ---- *)
  Theorem C10_gnat_nearestR_exact : forall removed offs pick r q tree,
    inv_ok_root P d tree = true ->
    exists nbh piv, gnat_nearestR P d removed offs pick r q tree = Some (nbh, piv) /\
      Permutation (map snd nbh) (filter (fun x => d q x <=? r) (lelems P removed tree)) /\
      StronglySorted (nle P) nbh /\ dists_ok P d q nbh.
  Proof.
    intros removed offs pick r q tree IR.
    destruct (gnat_nearestR P d removed offs pick r q tree) as [[nbh piv]|] eqn:G.
    - exists nbh, piv. split; [reflexivity|]. exact (gnat_nearestR_spec P d peqb d_sym d_tri removed offs pick r q tree nbh piv IR G).
    - exfalso. exact (gnat_nearestR_total P d removed offs pick r q tree G).
  Qed.
  Hypothesis d_nonneg : forall x y, 0 <= d x y.
  Theorem C10_gnat_nearestK_exact : forall removed offs pick k q tree, (1 <= k)%nat ->
    inv_ok_root P d tree = true ->
    exists nbh piv, gnat_nearestK P d peqb removed offs pick k q tree = Some (nbh, piv) /\
      StronglySorted (nle P) nbh /\ dists_ok P d q nbh /\ length nbh = Nat.min k (length (lelems P removed tree)) /\
      exists rest, Permutation (lelems P removed tree) (map snd nbh ++ rest) /\
                   forall x y, In x (map snd nbh) -> In y rest -> d q x <= d q y.
  Proof.
    intros removed offs pick k q tree Hk IR.
    destruct (gnat_nearestK P d peqb removed offs pick k q tree) as [[nbh piv]|] eqn:G.
    - exists nbh, piv. split; [reflexivity|]. exact (gnat_nearestK_spec P d peqb d_sym d_tri removed offs pick k Hk d_nonneg q tree nbh piv IR G).
    - exfalso. exact (gnat_nearestK_total P d peqb removed offs pick k q tree G).
  Qed.
  (* the live elements are the tree's elements minus the removal cache, as long as no pivot is in the cache
     (remove() rebuilds the tree at once when the removed element is a pivot) *)
  Theorem C10_gnat_live_elements : forall removed tree,
    (forall p, In p (pivots P tree) -> removed p = false) ->
    lelems P removed tree = filter (fun x => negb (removed x)) (elems P tree).
  Proof. exact (lelems_filter P). Qed.
  (* remove() / nearest(): the flag nearestKInternal(data, 1) returns with its single element is true only for a pivot of
     the tree and false only for a data element that is not in the removal cache: remove() therefore rebuilds the tree
     whenever it would otherwise leave a removed pivot behind (pivots are offered to queries without an isRemoved test) *)
  Theorem C10_gnat_nearest1_flag_meaning : forall removed offs pick q tree nbh piv,
    gnat_nearestK P d peqb removed offs pick 1 q tree = Some (nbh, piv) ->
    forall dd x, nbh = [(dd, x)] ->
      if piv then In x (map (node_pivot P) (anodes P tree))
      else (In x (flat_map (node_data P) (anodes P tree)) /\ removed x = false).
  Proof. exact (gnat_nearest1_flag P d peqb). Qed.
End C10.

Print Assumptions C10_nearestK_exact.
Print Assumptions C10_nearestR_exact.
Print Assumptions C10_nearest_exact.
Print Assumptions C10_remove_exact.
Print Assumptions C10_sqrt_nearest_member.
Print Assumptions C10_gnat_prune_by_range_sound.
Print Assumptions C10_gnat_prune_by_radius_sound.
Print Assumptions C10_gnat_invariant_meaning.
Print Assumptions C10_examined_suffices.
Print Assumptions C10_gnat_nearestR_exact.
Print Assumptions C10_gnat_nearestK_exact.
Print Assumptions C10_gnat_live_elements.
Print Assumptions C10_gnat_nearest1_flag_meaning.

(* non-vacuity: L1 metric on Z^2 *)
Definition l1 (a b : Z * Z) : Z := Z.abs (fst a - fst b) + Z.abs (snd a - snd b).
Example C10_nonvacuous :
  map (fun p => l1 p (1, 1)) (nearestK (Z * Z) l1 (1, 1) 3 [(0,0); (5,5); (1,0); (2,2); (9,9); (3,1); (5,5)]) = [1; 2; 2]
  /\ inv_ok_root (Z * Z) l1
       (GNode (0,0) None None []
          [] [GNode (1,0) (Some 3) (Some 3) [(Some 0, Some 3); (Some 17, Some 17); (Some 7, Some 9)] [(2,2); (3,1)] [];
              GNode (9,9) (Some 0) (Some 0) [(Some 14, Some 17); (Some 0, Some 0); (Some 8, Some 10)] [] [];
              GNode (5,5) (Some 0) (Some 2) [(Some 6, Some 9); (Some 8, Some 8); (Some 0, Some 2)] [(5,5); (4,4)] []]) = true.
Proof. vm_compute. split; reflexivity. Qed.

(* non-vacuity for the search loops: the tree above with (3,1) in the removal cache; query (4,3) *)
Definition peq2 (a b : Z * Z) : bool := (fst a =? fst b) && (snd a =? snd b).
Example C10_gnat_search_nonvacuous :
  let tree := GNode (0,0) None None []
          [] [GNode (1,0) (Some 3) (Some 3) [(Some 0, Some 3); (Some 17, Some 17); (Some 7, Some 9)] [(2,2); (3,1)] [];
              GNode (9,9) (Some 0) (Some 0) [(Some 14, Some 17); (Some 0, Some 0); (Some 8, Some 10)] [] [];
              GNode (5,5) (Some 0) (Some 2) [(Some 6, Some 9); (Some 8, Some 8); (Some 0, Some 2)] [(5,5); (4,4)] []] in
  let rem := fun x => peq2 x (3,1) in
  option_map (fun r => map fst (fst r)) (gnat_nearestK _ l1 peq2 rem (fun n => n) (fun _ => 1%nat) 3 (4,3) tree) = Some [1; 3; 3]
  /\ option_map fst (gnat_nearestR _ l1 rem (fun n => (2 * n)%nat) (fun _ => 0%nat) 3 (4,3) tree)
     = Some [(1, (4,4)); (3, (5,5)); (3, (2,2)); (3, (5,5))]
  /\ option_map fst (gnat_nearestR _ l1 (fun _ => false) (fun n => (2 * n)%nat) (fun _ => 0%nat) 3 (4,3) tree)
     = Some [(1, (4,4)); (3, (5,5)); (3, (2,2)); (3, (3,1)); (3, (5,5))].
Proof. vm_compute. repeat split; reflexivity. Qed.
