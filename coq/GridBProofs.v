(* GridBProofs.v — GridB (the gridb operations of GridModel): every cell sits in exactly one of the two heaps, the heap chosen by its
   border flag and keyed by its data; the cell list evolves exactly as GridN's; no heap call ever dangles. *)
From Coq Require Import List ZArith Bool Arith Permutation Lia.
From OmplV Require Import HeapModel HeapCore HeapElt GridModel GridProofs.
Import ListNotations.
Local Open Scope Z_scope.

Definition entry (b : bool) (x : cell) : list (nat * Z) := if Bool.eqb (border x) b then [(cid x, cdata x)] else [].
Definition contents (b : bool) (cells : list cell) : list (nat * Z) := flat_map (entry b) cells.
Definition cidl (cells : list cell) : list nat := map cid cells.

Lemma contents_app b l1 l2 : contents b (l1 ++ l2) = contents b l1 ++ contents b l2.
Proof. unfold contents. induction l1 as [|a t IH]; simpl; [reflexivity|]. rewrite IH, app_assoc. reflexivity. Qed.
Lemma contents_mid b l1 z l2 : contents b (l1 ++ z :: l2) = contents b l1 ++ entry b z ++ contents b l2.
Proof. rewrite contents_app. reflexivity. Qed.
Lemma contents_in b cells q : In q (contents b cells) <-> exists x, In x cells /\ border x = b /\ q = (cid x, cdata x).
Proof.
  unfold contents. rewrite in_flat_map. split.
  - intros (x & Hx & Hq). exists x. unfold entry in Hq. destruct (Bool.eqb (border x) b) eqn:E; [|destruct Hq].
    apply eqb_prop in E. destruct Hq as [<-|[]]. auto.
  - intros (x & Hx & <- & ->). exists x. split; [exact Hx|]. unfold entry. rewrite eqb_reflx. left. reflexivity.
Qed.
Lemma contents_ids b cells id : In id (map fst (contents b cells)) -> In id (cidl cells).
Proof.
  intros H. apply in_map_iff in H. destruct H as (q & <- & Hq). apply contents_in in Hq. destruct Hq as (x & Hx & _ & ->).
  simpl. unfold cidl. apply in_map. exact Hx.
Qed.
Lemma contents_noid b id l : ~ In id (cidl l) -> filter (not_id Z id) (contents b l) = contents b l.
Proof. intros H. apply (filter_notin Z). intros Hin. apply H. eapply contents_ids. exact Hin. Qed.
Lemma filter_entry b x : filter (not_id Z (cid x)) (entry b x) = [].
Proof. unfold entry. destruct (Bool.eqb (border x) b); [|reflexivity]. simpl. unfold not_id. simpl. rewrite Nat.eqb_refl. reflexivity. Qed.
Lemma filter_contents_mid b l1 x l2 : ~ In (cid x) (cidl l1) -> ~ In (cid x) (cidl l2) ->
  filter (not_id Z (cid x)) (contents b (l1 ++ x :: l2)) = contents b l1 ++ contents b l2.
Proof.
  intros H1 H2. rewrite contents_mid, !filter_app, filter_entry, !contents_noid by assumption. reflexivity.
Qed.
Lemma entry_same b x y : border x = border y -> cid x = cid y -> cdata x = cdata y -> entry b x = entry b y.
Proof. unfold entry. intros -> -> ->. reflexivity. Qed.

(* ---- the cell list seen through one coordinate ---- *)
Lemma upd_cell_absent f c l : ~ In c (coords l) -> upd_cell f c l = l.
Proof.
  intros H. unfold upd_cell. rewrite <- (map_id l) at 2. apply map_ext_in. intros x Hx.
  destruct (coord_eqb (ccoord x) c) eqn:E; [|reflexivity]. exfalso. apply H. apply coord_eqb_spec in E. subst c.
  unfold coords. apply in_map. exact Hx.
Qed.
Lemma upd_cell_mid f c l1 x l2 : ccoord x = c -> ~ In c (coords l1) -> ~ In c (coords l2) ->
  upd_cell f c (l1 ++ x :: l2) = l1 ++ f x :: l2.
Proof.
  intros E H1 H2. unfold upd_cell. rewrite map_app. cbn [map]. fold (upd_cell f c l1). fold (upd_cell f c l2).
  rewrite !upd_cell_absent by assumption. rewrite E, coord_eqb_refl. reflexivity.
Qed.
Lemma filter_absent c l : ~ In c (coords l) -> filter (fun y => negb (coord_eqb (ccoord y) c)) l = l.
Proof.
  induction l as [|a t IH]; intros H; simpl in *; [reflexivity|].
  destruct (coord_eqb (ccoord a) c) eqn:E; simpl.
  - exfalso. apply H. left. apply coord_eqb_spec. exact E.
  - f_equal. apply IH. tauto.
Qed.
Lemma filter_mid c l1 x l2 : ccoord x = c -> ~ In c (coords l1) -> ~ In c (coords l2) ->
  filter (fun y => negb (coord_eqb (ccoord y) c)) (l1 ++ x :: l2) = l1 ++ l2.
Proof.
  intros E H1 H2. rewrite filter_app. cbn [filter]. rewrite E, coord_eqb_refl. cbn [negb]. rewrite !filter_absent by assumption. reflexivity.
Qed.
Lemma coords_app l1 l2 : coords (l1 ++ l2) = coords l1 ++ coords l2. Proof. apply map_app. Qed.
Lemma cidl_app l1 l2 : cidl (l1 ++ l2) = cidl l1 ++ cidl l2. Proof. apply map_app. Qed.
Lemma not_in_app {A} (a : A) l1 l2 : ~ In a (l1 ++ l2) -> ~ In a l1 /\ ~ In a l2.
Proof. intros H. split; intros Hin; apply H; apply in_or_app; auto. Qed.

Lemma split_cell c cells x : NoDup (coords cells) -> NoDup (cidl cells) -> find_cell c cells = Some x ->
  exists l1 l2, cells = l1 ++ x :: l2 /\ ccoord x = c /\ ~ In c (coords l1) /\ ~ In c (coords l2) /\
                ~ In (cid x) (cidl l1) /\ ~ In (cid x) (cidl l2).
Proof.
  intros ND NI F. apply find_cell_some in F. destruct F as (Hx & E). apply in_split in Hx. destruct Hx as (l1 & l2 & ->).
  exists l1, l2. rewrite coords_app in ND. rewrite cidl_app in NI. cbn [coords cidl map] in ND, NI.
  apply NoDup_remove_2 in ND. apply NoDup_remove_2 in NI. rewrite E in ND. apply not_in_app in ND. apply not_in_app in NI.
  destruct ND, NI. auto 10.
Qed.
Lemma find_cell_present c cells : In c (coords cells) -> exists x, find_cell c cells = Some x.
Proof. intros H. destruct (find_cell c cells) as [x|] eqn:F; [eauto|]. apply find_cell_none in F. contradiction. Qed.

Section GB.
  Variables lt_ext lt_int : Z -> Z -> bool.
  Hypothesis te : forall x y, kle Z lt_ext x y = true \/ kle Z lt_ext y x = true.
  Hypothesis re : forall x y z, kle Z lt_ext x y = true -> kle Z lt_ext y z = true -> kle Z lt_ext x z = true.
  Hypothesis ti : forall x y, kle Z lt_int x y = true \/ kle Z lt_int y x = true.
  Hypothesis ri : forall x y z, kle Z lt_int x y = true -> kle Z lt_int y z = true -> kle Z lt_int x z = true.
  Notation strip := (strip Z).

  (* ---- the three heap calls GridB makes, against an abstract content ---- *)
  Section OneHeap.
    Variable lt : Z -> Z -> bool.
    Hypothesis tot : forall x y, kle Z lt x y = true \/ kle Z lt y x = true.
    Hypothesis tra : forall x y z, kle Z lt x y = true -> kle Z lt y z = true -> kle Z lt x z = true.
    Notation HInv := (Inv Z lt 0).
    Notation hstep := (HeapModel.step Z lt 0).

    Lemma in_ids v c id : Permutation (map strip v) c -> (In id (ids Z v) <-> In id (map fst c)).
    Proof.
      intros P. rewrite ids_strip. split; intros H.
      - eapply Permutation_in; [apply Permutation_map; exact P|exact H].
      - eapply Permutation_in; [apply Permutation_map, Permutation_sym; exact P|exact H].
    Qed.
    Lemma h_update v c id k : HInv v -> Permutation (map strip v) c -> In id (map fst c) ->
      exists v', hstep v (OUpdateKey id k) = Some v' /\ HInv v' /\ Permutation (map strip v') ((id, k) :: filter (not_id Z id) c).
    Proof.
      intros I P Hin. apply (in_ids v c id P) in Hin.
      destruct (hstep v (OUpdateKey id k)) as [v'|] eqn:S.
      - exists v'. split; [reflexivity|]. destruct (step_inv_refines Z lt 0 tot tra v _ v' I S) as (I' & R). split; [exact I'|].
        cbn [spec_rel] in R. eapply perm_trans; [exact R|]. apply perm_skip. apply perm_filter. exact P.
      - exfalso. cbn [HeapModel.step] in S. destruct (find_pos Z id v) eqn:F; [discriminate|]. apply find_pos_none in F. contradiction.
    Qed.
    Lemma h_remove v c id : HInv v -> Permutation (map strip v) c -> In id (map fst c) ->
      exists v', hstep v (ORemove id) = Some v' /\ HInv v' /\ Permutation (map strip v') (filter (not_id Z id) c).
    Proof.
      intros I P Hin. apply (in_ids v c id P) in Hin.
      destruct (hstep v (ORemove id)) as [v'|] eqn:S.
      - exists v'. split; [reflexivity|]. destruct (step_inv_refines Z lt 0 tot tra v _ v' I S) as (I' & R). split; [exact I'|].
        cbn [spec_rel] in R. eapply perm_trans; [exact R|]. apply perm_filter. exact P.
      - exfalso. cbn [HeapModel.step] in S. destruct (find_pos Z id v) eqn:F; [discriminate|]. apply find_pos_none in F. contradiction.
    Qed.
    Lemma h_insert v c id k : HInv v -> Permutation (map strip v) c -> ~ In id (map fst c) ->
      exists v', hstep v (OInsert id k) = Some v' /\ HInv v' /\ Permutation (map strip v') ((id, k) :: c).
    Proof.
      intros I P Hin. rewrite <- (in_ids v c id P) in Hin.
      destruct (hstep v (OInsert id k)) as [v'|] eqn:S.
      - exists v'. split; [reflexivity|]. destruct (step_inv_refines Z lt 0 tot tra v _ v' I S) as (I' & R). split; [exact I'|].
        cbn [spec_rel] in R. eapply perm_trans; [exact R|]. apply perm_skip. exact P.
      - exfalso. cbn [HeapModel.step] in S. unfold live in S. destruct (find_pos Z id v) eqn:F; [|discriminate].
        assert (F' : find_pos Z id v <> None) by congruence. apply F'. apply find_pos_none. exact Hin.
    Qed.
  End OneHeap.

  Notation InvE := (Inv Z lt_ext 0).
  Notation InvI := (Inv Z lt_int 0).

  (* the well-formedness of a GridB state: unique coordinates and cell identities, both heaps ordered with
     consistent handles, and each heap holds exactly the (cell, data) pairs of the cells carrying its flag *)
  Definition W (g : gridb) : Prop :=
    NoDup (coords (gcells g)) /\ NoDup (cidl (gcells g)) /\ InvE (hext g) /\ InvI (hint g) /\
    Permutation (map strip (hext g)) (contents true (gcells g)) /\
    Permutation (map strip (hint g)) (contents false (gcells g)).

  Lemma entry_true_in x : border x = true -> entry true x = [(cid x, cdata x)]. Proof. unfold entry. intros ->. reflexivity. Qed.
  Lemma entry_false_in x : border x = false -> entry false x = [(cid x, cdata x)]. Proof. unfold entry. intros ->. reflexivity. Qed.
  Lemma entry_true_out x : border x = false -> entry true x = []. Proof. unfold entry. intros ->. reflexivity. Qed.
  Lemma entry_false_out x : border x = true -> entry false x = []. Proof. unfold entry. intros ->. reflexivity. Qed.

  Lemma id_in_mid b l1 x l2 : border x = b -> In (cid x) (map fst (contents b (l1 ++ x :: l2))).
  Proof.
    intros E. apply in_map_iff. exists (cid x, cdata x). split; [reflexivity|]. apply contents_in. exists x.
    split; [apply in_or_app; right; left; reflexivity|auto].
  Qed.
  Lemma id_notin_mid b l1 x l2 : border x <> b -> ~ In (cid x) (cidl l1) -> ~ In (cid x) (cidl l2) ->
    ~ In (cid x) (map fst (contents b (l1 ++ x :: l2))).
  Proof.
    intros E H1 H2 Hin. rewrite contents_mid in Hin. rewrite !map_app in Hin.
    apply in_app_or in Hin. destruct Hin as [Hin|Hin]; [apply H1; eapply contents_ids; exact Hin|].
    apply in_app_or in Hin. destruct Hin as [Hin|Hin]; [|apply H2; eapply contents_ids; exact Hin].
    unfold entry in Hin. destruct (Bool.eqb (border x) b) eqn:Eb; [apply eqb_prop in Eb; contradiction|destruct Hin].
  Qed.

  (* resift after a neighbour's counter changed: never dangles, keeps both heaps exact *)
  Lemma resift_w l1 old new l2 he hi :
    cid new = cid old ->
    ~ In (cid old) (cidl l1) -> ~ In (cid old) (cidl l2) ->
    InvE he -> InvI hi ->
    Permutation (map strip he) (contents true (l1 ++ old :: l2)) ->
    Permutation (map strip hi) (contents false (l1 ++ old :: l2)) ->
    exists g', resift lt_ext lt_int (border old) new (mkGB (l1 ++ new :: l2) he hi) = Some g' /\
               gcells g' = l1 ++ new :: l2 /\ InvE (hext g') /\ InvI (hint g') /\
               Permutation (map strip (hext g')) (contents true (l1 ++ new :: l2)) /\
               Permutation (map strip (hint g')) (contents false (l1 ++ new :: l2)).
  Proof.
    intros Eid H1 H2 IE II PE PI. unfold resift. cbn [gcells hext hint].
    pose proof (filter_contents_mid true l1 old l2 H1 H2) as FT. pose proof (filter_contents_mid false l1 old l2 H1 H2) as FF.
    destruct (border new) eqn:Bn; destruct (border old) eqn:Bo.
    - (* border -> border: re-sift in the external heap *)
      destruct (h_update lt_ext te re he _ (cid new) (cdata new) IE PE) as (he' & S & IE' & PE').
      { rewrite Eid. apply id_in_mid. exact Bo. }
      rewrite S. cbn [obind]. eexists. split; [reflexivity|]. cbn [gcells hext hint]. split; [reflexivity|]. split; [exact IE'|]. split; [exact II|]. split.
      + eapply perm_trans; [exact PE'|]. rewrite Eid, FT, contents_mid, (entry_true_in new Bn), Eid. apply Permutation_middle.
      + eapply perm_trans; [exact PI|]. rewrite !contents_mid, (entry_false_out new Bn), (entry_false_out old Bo). apply Permutation_refl.
    - (* interior -> border: leave the internal heap, enter the external one *)
      destruct (h_remove lt_int ti ri hi _ (cid new) II PI) as (hi' & S & II' & PI').
      { rewrite Eid. apply id_in_mid. exact Bo. }
      rewrite S. cbn [obind].
      destruct (h_insert lt_ext te re he _ (cid new) (cdata new) IE PE) as (he' & S2 & IE' & PE').
      { rewrite Eid. apply id_notin_mid; [rewrite Bo; discriminate|exact H1|exact H2]. }
      rewrite S2. cbn [obind]. eexists. split; [reflexivity|]. cbn [gcells hext hint]. split; [reflexivity|]. split; [exact IE'|]. split; [exact II'|]. split.
      + eapply perm_trans; [exact PE'|]. rewrite !contents_mid, (entry_true_in new Bn), (entry_true_out old Bo). cbn [app]. apply Permutation_middle.
      + eapply perm_trans; [exact PI'|]. rewrite Eid, FF, contents_mid, (entry_false_out new Bn). apply Permutation_refl.
    - (* border -> interior *)
      destruct (h_remove lt_ext te re he _ (cid new) IE PE) as (he' & S & IE' & PE').
      { rewrite Eid. apply id_in_mid. exact Bo. }
      rewrite S. cbn [obind].
      destruct (h_insert lt_int ti ri hi _ (cid new) (cdata new) II PI) as (hi' & S2 & II' & PI').
      { rewrite Eid. apply id_notin_mid; [rewrite Bo; discriminate|exact H1|exact H2]. }
      rewrite S2. cbn [obind]. eexists. split; [reflexivity|]. cbn [gcells hext hint]. split; [reflexivity|]. split; [exact IE'|]. split; [exact II'|]. split.
      + eapply perm_trans; [exact PE'|]. rewrite Eid, FT, contents_mid, (entry_true_out new Bn). apply Permutation_refl.
      + eapply perm_trans; [exact PI'|]. rewrite !contents_mid, (entry_false_in new Bn), (entry_false_out old Bo). cbn [app]. apply Permutation_middle.
    - (* interior -> interior: re-sift in the internal heap *)
      destruct (h_update lt_int ti ri hi _ (cid new) (cdata new) II PI) as (hi' & S & II' & PI').
      { rewrite Eid. apply id_in_mid. exact Bo. }
      rewrite S. cbn [obind]. eexists. split; [reflexivity|]. cbn [gcells hext hint]. split; [reflexivity|]. split; [exact IE|]. split; [exact II'|]. split.
      + eapply perm_trans; [exact PE|]. rewrite !contents_mid, (entry_true_out new Bn), (entry_true_out old Bo). apply Permutation_refl.
      + eapply perm_trans; [exact PI'|]. rewrite Eid, FF, contents_mid, (entry_false_in new Bn), Eid. apply Permutation_middle.
  Qed.

  Definition keeps (f : cell -> cell) : Prop := forall x, cid (f x) = cid x /\ ccoord (f x) = ccoord x.
  Lemma keeps_inc l : keeps (inc_nb l). Proof. intros x. split; reflexivity. Qed.
  Lemma keeps_dec l : keeps (dec_nb l). Proof. intros x. split; reflexivity. Qed.
  Lemma coords_upd f c cells : keeps f -> coords (upd_cell f c cells) = coords cells.
  Proof. intros K. unfold upd_cell. apply coords_map_preserve. intros x. destruct (coord_eqb (ccoord x) c); [apply K|reflexivity]. Qed.
  Lemma cidl_upd f c cells : keeps f -> cidl (upd_cell f c cells) = cidl cells.
  Proof. intros K. unfold upd_cell, cidl. rewrite map_map. apply map_ext. intros x. destruct (coord_eqb (ccoord x) c); [apply K|reflexivity]. Qed.

  Lemma touch_w f g n : keeps f -> W g -> In (ccoord n) (coords (gcells g)) ->
    exists g', touch lt_ext lt_int f (Some g) n = Some g' /\ W g' /\ gcells g' = upd_cell f (ccoord n) (gcells g).
  Proof.
    intros K (ND & NI & IE & II & PE & PI) Hin. unfold touch. cbn [obind].
    destruct (find_cell_present _ _ Hin) as (old & F). rewrite F.
    destruct (split_cell _ _ _ ND NI F) as (l1 & l2 & Ec & Eo & C1 & C2 & D1 & D2).
    rewrite Ec in *. rewrite (upd_cell_mid f _ l1 old l2 Eo C1 C2).
    destruct (resift_w l1 old (f old) l2 (hext g) (hint g) (proj1 (K old)) D1 D2 IE II PE PI) as (g' & R & Gc & IE' & II' & PE' & PI').
    exists g'. split; [exact R|]. split; [|exact Gc]. unfold W. rewrite Gc.
    split; [|split; [|auto]].
    - rewrite coords_app in *. cbn [coords map] in *. rewrite (proj2 (K old)). exact ND.
    - rewrite cidl_app in *. cbn [cidl map] in *. rewrite (proj1 (K old)). exact NI.
  Qed.

  Lemma fold_touch_none f nb : fold_left (touch lt_ext lt_int f) nb None = None.
  Proof. induction nb as [|n t IH]; [reflexivity|]. cbn [fold_left]. exact IH. Qed.

  Lemma fold_touch_w f : keeps f -> forall nb g, W g -> (forall n, In n nb -> In (ccoord n) (coords (gcells g))) ->
    exists g1, fold_left (touch lt_ext lt_int f) nb (Some g) = Some g1 /\ W g1 /\ gcells g1 = fold_upd f nb (gcells g).
  Proof.
    intros K. induction nb as [|n t IH]; intros g Wg Hin.
    - exists g. split; [reflexivity|]. split; [exact Wg|reflexivity].
    - destruct (touch_w f g n K Wg (Hin n (or_introl eq_refl))) as (g' & T & Wg' & Gc).
      cbn [fold_left]. rewrite T. destruct (IH g' Wg') as (g1 & F1 & W1 & G1).
      { intros m Hm. rewrite Gc, coords_upd by exact K. apply Hin. right. exact Hm. }
      exists g1. split; [exact F1|]. split; [exact W1|]. rewrite G1, Gc. reflexivity.
  Qed.

  Lemma nb_present c cells n : NoDup (coords cells) -> In n (neighbors c cells) -> In (ccoord n) (coords cells).
  Proof. intros ND H. apply neighbors_exact in H; [|exact ND]. unfold coords. apply in_map. tauto. Qed.

  Lemma cidl_fold_upd f nb cells : keeps f -> cidl (fold_upd f nb cells) = cidl cells.
  Proof.
    intros K. revert cells. unfold fold_upd. induction nb as [|n t IH]; intros cells; cbn [fold_left]; [reflexivity|].
    rewrite IH. apply cidl_upd. exact K.
  Qed.
  Lemma coords_fold_upd f nb cells : keeps f -> coords (fold_upd f nb cells) = coords cells.
  Proof.
    intros K. revert cells. unfold fold_upd. induction nb as [|n t IH]; intros cells; cbn [fold_left]; [reflexivity|].
    rewrite IH. apply coords_upd. exact K.
  Qed.

  Lemma nodup_snoc {A} (l : list A) a : NoDup l -> ~ In a l -> NoDup (l ++ [a]).
  Proof. intros ND H. eapply Permutation_NoDup; [apply Permutation_cons_append|]. constructor; assumption. Qed.

  (* ---- add ---- *)
  Theorem gridb_add_refines p id c d g cells' :
    W g -> ~ In id (cidl (gcells g)) -> gridn_add p id c d (gcells g) = Some cells' ->
    exists g', gridb_add lt_ext lt_int p id c d g = Some g' /\ gcells g' = cells' /\ W g'.
  Proof.
    intros Wg Fr A. unfold gridn_add in A. unfold gridb_add.
    destruct (negb (Nat.eqb (length c) (dim p)) || has c (gcells g)) eqn:G; [discriminate|]. injection A as <-.
    apply orb_false_iff in G. destruct G as (_ & G2).
    assert (Hc : ~ In c (coords (gcells g))) by (intros H; apply has_spec in H; congruence).
    pose proof Wg as (ND & _).
    destruct (fold_touch_w (inc_nb (limit p)) (keeps_inc _) (neighbors c (gcells g)) g Wg) as (g1 & F & (ND1 & NI1 & IE & II & PE & PI) & Gc).
    { intros n Hn. eapply nb_present; eauto. }
    rewrite F. cbn [obind]. fold (fold_upd (inc_nb (limit p)) (neighbors c (gcells g)) (gcells g)). rewrite <- Gc.
    set (n := num_boundary p c + Z.of_nat (length (neighbors c (gcells g)))).
    set (x := mkCell id c d n (n <? limit p)).
    assert (Fr1 : ~ In id (cidl (gcells g1))) by (rewrite Gc, cidl_fold_upd by apply keeps_inc; exact Fr).
    assert (Hc1 : ~ In c (coords (gcells g1))) by (rewrite Gc, coords_fold_upd by apply keeps_inc; exact Hc).
    assert (NDx : NoDup (coords (gcells g1 ++ [x]))) by (rewrite coords_app; apply nodup_snoc; assumption).
    assert (NIx : NoDup (cidl (gcells g1 ++ [x]))) by (rewrite cidl_app; apply nodup_snoc; assumption).
    assert (CA : forall b, contents b (gcells g1 ++ [x]) = contents b (gcells g1) ++ entry b x).
    { intros b. rewrite contents_app. unfold contents at 2. cbn [flat_map]. rewrite app_nil_r. reflexivity. }
    destruct (n <? limit p) eqn:B.
    - destruct (h_insert lt_ext te re (hext g1) _ id d IE PE) as (he' & S & IE' & PE').
      { intros H. apply Fr1. eapply contents_ids. exact H. }
      rewrite S. cbn [obind]. eexists. split; [reflexivity|]. split; [reflexivity|]. unfold W. cbn [gcells hext hint].
      split; [exact NDx|]. split; [exact NIx|]. split; [exact IE'|]. split; [exact II|]. split.
      + rewrite CA. subst x. unfold entry. cbn [border cid cdata Bool.eqb]. eapply perm_trans; [exact PE'|]. apply Permutation_cons_append.
      + rewrite CA. subst x. unfold entry. cbn [border cid cdata Bool.eqb]. rewrite app_nil_r. exact PI.
    - destruct (h_insert lt_int ti ri (hint g1) _ id d II PI) as (hi' & S & II' & PI').
      { intros H. apply Fr1. eapply contents_ids. exact H. }
      rewrite S. cbn [obind]. eexists. split; [reflexivity|]. split; [reflexivity|]. unfold W. cbn [gcells hext hint].
      split; [exact NDx|]. split; [exact NIx|]. split; [exact IE|]. split; [exact II'|]. split.
      + rewrite CA. subst x. unfold entry. cbn [border cid cdata Bool.eqb]. rewrite app_nil_r. exact PE.
      + rewrite CA. subst x. unfold entry. cbn [border cid cdata Bool.eqb]. eapply perm_trans; [exact PI'|]. apply Permutation_cons_append.
  Qed.

  (* ---- remove ---- *)
  Theorem gridb_remove_refines p c g cells' :
    W g -> gridn_remove p c (gcells g) = Some cells' ->
    exists g', gridb_remove lt_ext lt_int p c g = Some g' /\ gcells g' = cells' /\ W g'.
  Proof.
    intros Wg A. unfold gridn_remove in A. unfold gridb_remove.
    destruct (find_cell c (gcells g)) as [x0|] eqn:F0; [|discriminate]. injection A as <-.
    pose proof Wg as (ND & _).
    destruct (fold_touch_w (dec_nb (limit p)) (keeps_dec _) (neighbors c (gcells g)) g Wg) as (g1 & F & (ND1 & NI1 & IE & II & PE & PI) & Gc).
    { intros n Hn. eapply nb_present; eauto. }
    rewrite F. cbn [obind]. fold (fold_upd (dec_nb (limit p)) (neighbors c (gcells g)) (gcells g)). rewrite <- Gc.
    assert (Hc1 : In c (coords (gcells g1))).
    { rewrite Gc, coords_fold_upd by apply keeps_dec. apply find_cell_some in F0. destruct F0 as (H0 & <-). unfold coords. apply in_map. exact H0. }
    destruct (find_cell_present _ _ Hc1) as (x & Fx). rewrite Fx.
    destruct (split_cell _ _ _ ND1 NI1 Fx) as (l1 & l2 & Ec & Eo & C1 & C2 & D1 & D2).
    rewrite Ec in *. rewrite (filter_mid c l1 x l2 Eo C1 C2).
    assert (NDx : NoDup (coords (l1 ++ l2))).
    { rewrite coords_app in *. cbn [coords map] in ND1. apply NoDup_remove_1 in ND1. exact ND1. }
    assert (NIx : NoDup (cidl (l1 ++ l2))).
    { rewrite cidl_app in *. cbn [cidl map] in NI1. apply NoDup_remove_1 in NI1. exact NI1. }
    pose proof (filter_contents_mid true l1 x l2 D1 D2) as FT. pose proof (filter_contents_mid false l1 x l2 D1 D2) as FF.
    destruct (border x) eqn:B.
    - destruct (h_remove lt_ext te re (hext g1) _ (cid x) IE PE) as (he' & S & IE' & PE').
      { apply id_in_mid. exact B. }
      rewrite S. cbn [obind]. eexists. split; [reflexivity|]. split; [reflexivity|]. unfold W. cbn [gcells hext hint].
      split; [exact NDx|]. split; [exact NIx|]. split; [exact IE'|]. split; [exact II|]. split.
      + rewrite contents_app, <- FT. exact PE'.
      + eapply perm_trans; [exact PI|]. rewrite contents_mid, (entry_false_out x B), contents_app. apply Permutation_refl.
    - destruct (h_remove lt_int ti ri (hint g1) _ (cid x) II PI) as (hi' & S & II' & PI').
      { apply id_in_mid. exact B. }
      rewrite S. cbn [obind]. eexists. split; [reflexivity|]. split; [reflexivity|]. unfold W. cbn [gcells hext hint].
      split; [exact NDx|]. split; [exact NIx|]. split; [exact IE|]. split; [exact II'|]. split.
      + eapply perm_trans; [exact PE|]. rewrite contents_mid, (entry_true_out x B), contents_app. apply Permutation_refl.
      + rewrite contents_app, <- FF. exact PI'.
  Qed.

  (* ---- update (cell->data = d; grid.update(cell)) ---- *)
  Definition set_data (d : Z) (y : cell) : cell := mkCell (cid y) (ccoord y) d (nbrs y) (border y).
  Theorem gridb_update_ok c d g :
    W g -> In c (coords (gcells g)) ->
    exists g', gridb_update lt_ext lt_int c d g = Some g' /\ gcells g' = upd_cell (set_data d) c (gcells g) /\ W g'.
  Proof.
    intros (ND & NI & IE & II & PE & PI) Hc. unfold gridb_update.
    destruct (find_cell_present _ _ Hc) as (x & Fx). rewrite Fx.
    destruct (split_cell _ _ _ ND NI Fx) as (l1 & l2 & Ec & Eo & C1 & C2 & D1 & D2).
    fold (set_data d). rewrite Ec in *. rewrite (upd_cell_mid (set_data d) c l1 x l2 Eo C1 C2).
    assert (NDx : NoDup (coords (l1 ++ set_data d x :: l2))) by (rewrite coords_app in *; exact ND).
    assert (NIx : NoDup (cidl (l1 ++ set_data d x :: l2))) by (rewrite cidl_app in *; exact NI).
    pose proof (filter_contents_mid true l1 x l2 D1 D2) as FT. pose proof (filter_contents_mid false l1 x l2 D1 D2) as FF.
    destruct (border x) eqn:B.
    - destruct (h_update lt_ext te re (hext g) _ (cid x) d IE PE) as (he' & S & IE' & PE').
      { apply id_in_mid. exact B. }
      rewrite S. cbn [obind]. eexists. split; [reflexivity|]. split; [reflexivity|]. unfold W. cbn [gcells hext hint].
      split; [exact NDx|]. split; [exact NIx|]. split; [exact IE'|]. split; [exact II|]. split.
      + eapply perm_trans; [exact PE'|]. rewrite FT, contents_mid. unfold entry. cbn [set_data border cid cdata]. rewrite B. cbn [Bool.eqb]. apply Permutation_middle.
      + eapply perm_trans; [exact PI|]. rewrite !contents_mid. unfold entry. cbn [set_data border]. rewrite B. apply Permutation_refl.
    - destruct (h_update lt_int ti ri (hint g) _ (cid x) d II PI) as (hi' & S & II' & PI').
      { apply id_in_mid. exact B. }
      rewrite S. cbn [obind]. eexists. split; [reflexivity|]. split; [reflexivity|]. unfold W. cbn [gcells hext hint].
      split; [exact NDx|]. split; [exact NIx|]. split; [exact IE|]. split; [exact II'|]. split.
      + eapply perm_trans; [exact PE|]. rewrite !contents_mid. unfold entry. cbn [set_data border]. rewrite B. apply Permutation_refl.
      + eapply perm_trans; [exact PI'|]. rewrite FF, contents_mid. unfold entry. cbn [set_data border cid cdata]. rewrite B. cbn [Bool.eqb]. apply Permutation_middle.
  Qed.

  Lemma ninv_set_data p d c cells : NInv p cells -> NInv p (upd_cell (set_data d) c cells).
  Proof.
    intros (ND & OK). assert (E : coords (upd_cell (set_data d) c cells) = coords cells).
    { unfold upd_cell. apply coords_map_preserve. intros x. destruct (coord_eqb (ccoord x) c); reflexivity. }
    split; [rewrite E; exact ND|]. rewrite E. unfold upd_cell. apply Forall_map. eapply Forall_impl; [|exact OK].
    intros x Hx. destruct (coord_eqb (ccoord x) c); [|exact Hx]. exact Hx.
  Qed.

  (* ---- the full invariant and its consequences ---- *)
  Definition BInv (p : gparams) (g : gridb) : Prop := NInv p (gcells g) /\ W g.

  Lemma binv_empty p : BInv p gb_empty.
  Proof.
    split; [apply ninv_nil|]. unfold W, gb_empty. cbn [gcells hext hint contents flat_map coords cidl map].
    split; [constructor|]. split; [constructor|]. split; [apply inv_nil|]. split; [apply inv_nil|]. split; apply Permutation_refl.
  Qed.

  Theorem gridb_add_inv p id c d g g' :
    BInv p g -> ~ In id (cidl (gcells g)) -> gridb_add lt_ext lt_int p id c d g = Some g' ->
    BInv p g' /\ gridn_add p id c d (gcells g) = Some (gcells g').
  Proof.
    intros (N & Wg) Fr A. destruct (gridn_add p id c d (gcells g)) as [cells'|] eqn:E.
    - destruct (gridb_add_refines p id c d g cells' Wg Fr E) as (g2 & A2 & Gc & W2). rewrite A in A2. injection A2 as <-.
      split; [|rewrite Gc; reflexivity]. split; [|exact W2]. rewrite Gc. apply (gridn_add_inv p id c d _ _ N E).
    - exfalso. unfold gridn_add in E. unfold gridb_add in A. destruct (negb (Nat.eqb (length c) (dim p)) || has c (gcells g)); discriminate.
  Qed.
  Theorem gridb_remove_inv p c g g' :
    BInv p g -> gridb_remove lt_ext lt_int p c g = Some g' ->
    BInv p g' /\ gridn_remove p c (gcells g) = Some (gcells g').
  Proof.
    intros (N & Wg) A. destruct (gridn_remove p c (gcells g)) as [cells'|] eqn:E.
    - destruct (gridb_remove_refines p c g cells' Wg E) as (g2 & A2 & Gc & W2). rewrite A in A2. injection A2 as <-.
      split; [|rewrite Gc; reflexivity]. split; [|exact W2]. rewrite Gc. apply (gridn_remove_inv p c _ _ N E).
    - exfalso. unfold gridn_remove in E. unfold gridb_remove in A. destruct (find_cell c (gcells g)); discriminate.
  Qed.
  Theorem gridb_update_inv p c d g g' :
    BInv p g -> gridb_update lt_ext lt_int c d g = Some g' ->
    BInv p g' /\ gcells g' = upd_cell (set_data d) c (gcells g).
  Proof.
    intros (N & Wg) A. assert (Hc : In c (coords (gcells g))).
    { unfold gridb_update in A. destruct (find_cell c (gcells g)) as [x|] eqn:F; [|discriminate]. apply find_cell_some in F.
      destruct F as (Hx & <-). unfold coords. apply in_map. exact Hx. }
    destruct (gridb_update_ok c d g Wg Hc) as (g2 & A2 & Gc & W2). rewrite A in A2. injection A2 as <-.
    split; [|exact Gc]. split; [|exact W2]. rewrite Gc. apply ninv_set_data. exact N.
  Qed.

  (* no heap call dangles: GridB accepts exactly the calls GridN accepts *)
  Theorem gridb_add_total p id c d g : BInv p g -> ~ In id (cidl (gcells g)) ->
    (gridb_add lt_ext lt_int p id c d g = None <-> gridn_add p id c d (gcells g) = None).
  Proof.
    intros (N & Wg) Fr. split; intros H.
    - destruct (gridn_add p id c d (gcells g)) as [cells'|] eqn:E; [|reflexivity].
      destruct (gridb_add_refines p id c d g cells' Wg Fr E) as (g2 & A2 & _). congruence.
    - unfold gridn_add in H. unfold gridb_add. destruct (negb (Nat.eqb (length c) (dim p)) || has c (gcells g)); [reflexivity|discriminate].
  Qed.
  Theorem gridb_remove_total p c g : BInv p g ->
    (gridb_remove lt_ext lt_int p c g = None <-> ~ In c (coords (gcells g))).
  Proof.
    intros (N & Wg). split; intros H.
    - intros Hin. destruct (find_cell_present _ _ Hin) as (x & F).
      assert (E : exists cells', gridn_remove p c (gcells g) = Some cells') by (unfold gridn_remove; rewrite F; eauto).
      destruct E as (cells' & E). destruct (gridb_remove_refines p c g cells' Wg E) as (g2 & A2 & _). congruence.
    - unfold gridb_remove. apply find_cell_none in H. rewrite H. reflexivity.
  Qed.

  Definition heap_of (b : bool) (g : gridb) : list (elt Z) := if b then hext g else hint g.
  Definition lt_of (b : bool) : Z -> Z -> bool := if b then lt_ext else lt_int.

  Lemma heap_perm b g : W g -> Permutation (map strip (heap_of b g)) (contents b (gcells g)).
  Proof. intros (_ & _ & _ & _ & PE & PI). destruct b; assumption. Qed.

  (* every cell sits in exactly one of the two queues: the one its border flag names, once, keyed by its data *)
  Theorem cell_in_exactly_one_queue g x : W g -> In x (gcells g) ->
    In (cid x, cdata x) (map strip (heap_of (border x) g)) /\
    ~ In (cid x) (ids Z (heap_of (negb (border x)) g)) /\
    NoDup (ids Z (hext g)) /\ NoDup (ids Z (hint g)).
  Proof.
    intros Wg Hx. pose proof Wg as (ND & NI & IE & II & _). split; [|split].
    - eapply Permutation_in; [apply Permutation_sym, heap_perm; exact Wg|]. apply contents_in. exists x. auto.
    - intros Hin. rewrite ids_strip in Hin.
      apply (Permutation_in _ (Permutation_map fst (heap_perm (negb (border x)) g Wg))) in Hin.
      apply in_map_iff in Hin. destruct Hin as (q & Eq & Hq). apply contents_in in Hq. destruct Hq as (y & Hy & By & ->). simpl in Eq.
      assert (y = x).
      { apply in_split in Hx. destruct Hx as (l1 & l2 & El). rewrite El in NI, Hy. rewrite cidl_app in NI. cbn [cidl map] in NI.
        apply NoDup_remove_2 in NI. apply in_app_or in Hy. destruct Hy as [Hy|[Hy|Hy]]; [|auto|]; exfalso; apply NI; apply in_or_app;
        [left|right]; rewrite <- Eq; apply in_map; exact Hy. }
      subst y. destruct (border x); discriminate.
    - destruct IE as (_ & _ & N1), II as (_ & _ & N2). auto.
  Qed.
  (* ... and the queues hold nothing else *)
  Theorem queues_hold_only_cells b g e : W g -> In e (heap_of b g) ->
    exists x, In x (gcells g) /\ border x = b /\ cid x = eid e /\ cdata x = ekey e.
  Proof.
    intros Wg He. assert (H : In (strip e) (contents b (gcells g))).
    { eapply Permutation_in; [apply heap_perm; exact Wg|]. apply in_map. exact He. }
    apply contents_in in H. destruct H as (x & Hx & Bx & E). unfold HeapElt.strip in E. injection E as E1 E2. eauto.
  Qed.
  Theorem queue_sizes g : W g ->
    length (hext g) = length (filter (fun x => border x) (gcells g)) /\
    length (hint g) = length (filter (fun x => negb (border x)) (gcells g)).
  Proof.
    intros Wg. assert (L : forall b cells, length (contents b cells) = length (filter (fun x => Bool.eqb (border x) b) cells)).
    { intros b cells. unfold contents. induction cells as [|a t IH]; [reflexivity|]. cbn [flat_map filter]. rewrite app_length, IH.
      unfold entry. destruct (Bool.eqb (border a) b); reflexivity. }
    split.
    - change (hext g) with (heap_of true g). rewrite <- (map_length strip (heap_of true g)), (Permutation_length (heap_perm true g Wg)), L. f_equal; try (apply filter_ext; intros x; destruct (border x); reflexivity).
    - change (hint g) with (heap_of false g). rewrite <- (map_length strip (heap_of false g)), (Permutation_length (heap_perm false g Wg)), L. f_equal; try (apply filter_ext; intros x; destruct (border x); reflexivity).
  Qed.

  (* the top of each queue is a best cell of its class under that queue's ordering functor *)
  Theorem queue_top_is_best b g e t : W g -> heap_of b g = e :: t ->
    exists x, In x (gcells g) /\ border x = b /\ cid x = eid e /\ cdata x = ekey e /\
      forall y, In y (gcells g) -> border y = b -> kle Z (lt_of b) (cdata x) (cdata y) = true.
  Proof.
    intros Wg Eh. destruct (queues_hold_only_cells b g e Wg) as (x & Hx & Bx & Ex & Dx); [rewrite Eh; left; reflexivity|].
    exists x. split; [exact Hx|]. split; [exact Bx|]. split; [exact Ex|]. split; [exact Dx|].
    intros y Hy By. rewrite Dx.
    assert (Hq : In (cid y, cdata y) (map strip (heap_of b g))).
    { eapply Permutation_in; [apply Permutation_sym, heap_perm; exact Wg|]. apply contents_in. exists y. auto. }
    apply in_map_iff in Hq. destruct Hq as (e' & Es & He'). unfold HeapElt.strip in Es. injection Es as _ Ek. rewrite <- Ek.
    pose proof Wg as (_ & _ & IE & II & _).
    destruct b; cbn [heap_of lt_of] in *.
    - apply (top_is_minimum Z lt_ext 0 te re (hext g) e t IE Eh e' He').
    - apply (top_is_minimum Z lt_int 0 ti ri (hint g) e t II Eh e' He').
  Qed.
  Theorem queue_empty_iff b g : W g -> (heap_of b g = [] <-> forall y, In y (gcells g) -> border y <> b).
  Proof.
    intros Wg. split.
    - intros E y Hy By. assert (Hq : In (cid y, cdata y) (map strip (heap_of b g))).
      { eapply Permutation_in; [apply Permutation_sym, heap_perm; exact Wg|]. apply contents_in. exists y. auto. }
      rewrite E in Hq. destruct Hq.
    - intros H. destruct (heap_of b g) as [|e t] eqn:E; [reflexivity|].
      destruct (queues_hold_only_cells b g e Wg) as (x & Hx & Bx & _); [rewrite E; left; reflexivity|]. exfalso. exact (H x Hx Bx).
  Qed.

  (* topInternal(): the best interior cell; when there is no interior cell, the best border cell (and symmetrically) *)
  Theorem top_internal_spec g : W g ->
    match top_internal g with
    | Some id =>
        (exists x, In x (gcells g) /\ border x = false /\ cid x = id /\
                   forall y, In y (gcells g) -> border y = false -> kle Z lt_int (cdata x) (cdata y) = true) \/
        ((forall y, In y (gcells g) -> border y = true) /\
         exists x, In x (gcells g) /\ cid x = id /\ forall y, In y (gcells g) -> kle Z lt_ext (cdata x) (cdata y) = true)
    | None => gcells g = []
    end.
  Proof.
    intros Wg. unfold top_internal. destruct (hint g) as [|e t] eqn:Ei.
    - pose proof (proj1 (queue_empty_iff false g Wg) Ei) as NB.
      assert (AB : forall y, In y (gcells g) -> border y = true) by (intros y Hy; specialize (NB y Hy); destruct (border y); congruence).
      destruct (hext g) as [|e t] eqn:Ee.
      + pose proof (proj1 (queue_empty_iff true g Wg) Ee) as NE. destruct (gcells g) as [|y l]; [reflexivity|].
        exfalso. apply (NE y (or_introl eq_refl)). apply AB. left. reflexivity.
      + right. split; [exact AB|]. destruct (queue_top_is_best true g e t Wg Ee) as (x & Hx & _ & Ex & _ & Best).
        exists x. split; [exact Hx|]. split; [exact Ex|]. intros y Hy. apply Best; auto.
    - left. destruct (queue_top_is_best false g e t Wg Ei) as (x & Hx & Bx & Ex & _ & Best). exists x. auto.
  Qed.
  Theorem top_external_spec g : W g ->
    match top_external g with
    | Some id =>
        (exists x, In x (gcells g) /\ border x = true /\ cid x = id /\
                   forall y, In y (gcells g) -> border y = true -> kle Z lt_ext (cdata x) (cdata y) = true) \/
        ((forall y, In y (gcells g) -> border y = false) /\
         exists x, In x (gcells g) /\ cid x = id /\ forall y, In y (gcells g) -> kle Z lt_int (cdata x) (cdata y) = true)
    | None => gcells g = []
    end.
  Proof.
    intros Wg. unfold top_external. destruct (hext g) as [|e t] eqn:Ee.
    - pose proof (proj1 (queue_empty_iff true g Wg) Ee) as NB.
      assert (AB : forall y, In y (gcells g) -> border y = false) by (intros y Hy; specialize (NB y Hy); destruct (border y); congruence).
      destruct (hint g) as [|e t] eqn:Ei.
      + pose proof (proj1 (queue_empty_iff false g Wg) Ei) as NE. destruct (gcells g) as [|y l]; [reflexivity|].
        exfalso. apply (NE y (or_introl eq_refl)). apply AB. left. reflexivity.
      + right. split; [exact AB|]. destruct (queue_top_is_best false g e t Wg Ei) as (x & Hx & _ & Ex & _ & Best).
        exists x. split; [exact Hx|]. split; [exact Ex|]. intros y Hy. apply Best; auto.
    - left. destruct (queue_top_is_best true g e t Wg Ee) as (x & Hx & Bx & Ex & _ & Best). exists x. auto.
  Qed.

  (* ---- every history ---- *)
  Inductive bop := BAdd (id : nat) (c : coord) (d : Z) | BRemove (c : coord) | BUpdate (c : coord) (d : Z).
  (* the identity of a cell is its address: an added cell is distinct from every cell still in the grid *)
  Definition bstep (p : gparams) (g : gridb) (o : bop) : option gridb :=
    match o with
    | BAdd id c d => if existsb (Nat.eqb id) (cidl (gcells g)) then None else gridb_add lt_ext lt_int p id c d g
    | BRemove c => gridb_remove lt_ext lt_int p c g
    | BUpdate c d => gridb_update lt_ext lt_int c d g
    end.
  Fixpoint brun (p : gparams) (g : gridb) (ops : list bop) : option gridb :=
    match ops with
    | [] => Some g
    | o :: t => match bstep p g o with Some g' => brun p g' t | None => None end
    end.
  Theorem bstep_inv p g o g' : BInv p g -> bstep p g o = Some g' -> BInv p g'.
  Proof.
    intros I S. destruct o as [id c d|c|c d]; cbn [bstep] in S.
    - destruct (existsb (Nat.eqb id) (cidl (gcells g))) eqn:E; [discriminate|].
      apply (gridb_add_inv p id c d g g' I); [|exact S]. intros Hin.
      assert (existsb (Nat.eqb id) (cidl (gcells g)) = true); [|congruence].
      apply existsb_exists. exists id. split; [exact Hin|apply Nat.eqb_refl].
    - apply (gridb_remove_inv p c g g' I S).
    - apply (gridb_update_inv p c d g g' I S).
  Qed.
  Theorem brun_inv p : forall ops g g', BInv p g -> brun p g ops = Some g' -> BInv p g'.
  Proof.
    induction ops as [|o t IH]; intros g g' I R; cbn [brun] in R; [injection R as <-; exact I|].
    destruct (bstep p g o) as [g1|] eqn:S; [|discriminate]. apply (IH g1 g'); [|exact R]. apply (bstep_inv p g o g1 I S).
  Qed.
End GB.
