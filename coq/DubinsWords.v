(* DubinsWords.v — the six closed-form Dubins words of DubinsStateSpace.cpp (dubinsLSL, RSR, RSL, LSR, RLR, LRL), over R,
   in the normalised frame (start (0,0,alpha), target (d,0,beta), unit turning radius):
   (1) a word whose parameters satisfy the closure equations (the ones the library `assert`s) is a real curve of the
       vehicle model that ends exactly at the target;
   (2) the closed-form parameters satisfy those equations, where atan2, acos and mod2pi enter only through their
       specifications: theta = atan2(y, x) is a polar angle of (x, y); cos(acos v) = v and acos v in [0, pi];
       mod2pi(a) is congruent to a modulo 2 pi.
   Hence every word the solver can return reaches the target, for all inputs for which it is defined. *)
From Coq Require Import List Reals Lra Psatz ZArith Lia.
From OmplV Require Import DubinsModel.
Import ListNotations.
Local Open Scope R_scope.

(* equality of headings modulo 2 pi *)
Definition cong (a b : R) : Prop := sin a = sin b /\ cos a = cos b.
Lemma cong_refl a : cong a a. Proof. split; reflexivity. Qed.
Lemma cong_2pi a (k : Z) : cong (a + 2 * IZR k * PI) a.
Proof.
  assert (N : forall n : nat, cong (a + 2 * INR n * PI) a) by (intros n; split; [apply sin_period|apply cos_period]).
  assert (M : forall n : nat, cong (a - 2 * INR n * PI) a).
  { intros n. destruct (N n) as (S1 & C1). split.
    - rewrite <- (sin_period (a - 2 * INR n * PI) n). f_equal. ring.
    - rewrite <- (cos_period (a - 2 * INR n * PI) n). f_equal. ring. }
  assert (K : exists n, IZR k = INR n \/ IZR k = - INR n).
  { destruct (Z.le_ge_cases 0 k) as [H|H].
    - exists (Z.to_nat k). left. rewrite INR_IZR_INZ, Z2Nat.id by exact H. reflexivity.
    - exists (Z.to_nat (- k)). right. rewrite INR_IZR_INZ, Z2Nat.id by lia. rewrite opp_IZR. ring. }
  destruct K as (n & [E|E]); rewrite E.
  - apply N.
  - replace (a + 2 * - INR n * PI) with (a - 2 * INR n * PI) by ring. apply M.
Qed.
Lemma cong_plus a b c : cong a b -> cong (a + c) (b + c).
Proof. intros (S1 & C1). split; [rewrite !sin_plus|rewrite !cos_plus]; rewrite S1, C1; reflexivity. Qed.
Lemma cong_minus a b c : cong a b -> cong (a - c) (b - c).
Proof. intros (S1 & C1). split; [rewrite !sin_minus|rewrite !cos_minus]; rewrite S1, C1; reflexivity. Qed.
Lemma cong_trans a b c : cong a b -> cong b c -> cong a c.
Proof. intros (S1 & C1) (S2 & C2). split; congruence. Qed.

Definition start (alpha : R) : pose := mkPose 0 0 alpha.
Definition reaches (w : word) (alpha d beta : R) : Prop :=
  px (run w (start alpha)) = d /\ py (run w (start alpha)) = 0 /\ cong (pth (run w (start alpha))) beta.

(* atan2(y, x): a polar angle of the vector (x, y) *)
Definition polar (theta x y : R) : Prop := exists r, 0 <= r /\ x = r * cos theta /\ y = r * sin theta.
Lemma polar_radius theta x y r : 0 <= r -> x = r * cos theta -> y = r * sin theta -> r = sqrt (x * x + y * y).
Proof.
  intros Hr -> ->. symmetry. replace (r * cos theta * (r * cos theta) + r * sin theta * (r * sin theta)) with (r * r * (Rsqr (sin theta) + Rsqr (cos theta))) by (unfold Rsqr; ring).
  rewrite sin2_cos2, Rmult_1_r. apply sqrt_square. exact Hr.
Qed.
Lemma sc1 x : sin x * sin x + cos x * cos x = 1.
Proof. pose proof (sin2_cos2 x) as H. unfold Rsqr in H. exact H. Qed.

(* ---- (1) closure equations => the word ends at the target ---- *)
Section Closure.
  Variables d alpha beta t p q : R.

  Theorem LSL_reaches :
    p * cos (alpha + t) - sin alpha + sin beta = d -> p * sin (alpha + t) + cos alpha - cos beta = 0 ->
    cong (alpha + t + q) beta -> reaches [(SL, t); (SS, p); (SL, q)] alpha d beta.
  Proof.
    intros E1 E2 (Sq & Cq). unfold reaches, start. cbn [run seg_apply px py pth]. rewrite Sq, Cq.
    split; [lra|]. split; [lra|]. split; assumption.
  Qed.
  Theorem RSR_reaches :
    p * cos (alpha - t) + sin alpha - sin beta = d -> p * sin (alpha - t) - cos alpha + cos beta = 0 ->
    cong (alpha - t - q) beta -> reaches [(SR, t); (SS, p); (SR, q)] alpha d beta.
  Proof.
    intros E1 E2 (Sq & Cq). unfold reaches, start. cbn [run seg_apply px py pth]. rewrite Sq, Cq.
    split; [lra|]. split; [lra|]. split; assumption.
  Qed.
  Theorem RSL_reaches :
    p * cos (alpha - t) - 2 * sin (alpha - t) + sin alpha + sin beta = d ->
    p * sin (alpha - t) + 2 * cos (alpha - t) - cos alpha - cos beta = 0 ->
    cong (alpha - t + q) beta -> reaches [(SR, t); (SS, p); (SL, q)] alpha d beta.
  Proof.
    intros E1 E2 (Sq & Cq). unfold reaches, start. cbn [run seg_apply px py pth]. rewrite Sq, Cq.
    split; [lra|]. split; [lra|]. split; assumption.
  Qed.
  Theorem LSR_reaches :
    p * cos (alpha + t) + 2 * sin (alpha + t) - sin alpha - sin beta = d ->
    p * sin (alpha + t) - 2 * cos (alpha + t) + cos alpha + cos beta = 0 ->
    cong (alpha + t - q) beta -> reaches [(SL, t); (SS, p); (SR, q)] alpha d beta.
  Proof.
    intros E1 E2 (Sq & Cq). unfold reaches, start. cbn [run seg_apply px py pth]. rewrite Sq, Cq.
    split; [lra|]. split; [lra|]. split; assumption.
  Qed.
  Theorem RLR_reaches :
    2 * sin (alpha - t + p) - 2 * sin (alpha - t) + sin alpha - sin beta = d ->
    - 2 * cos (alpha - t + p) + 2 * cos (alpha - t) - cos alpha + cos beta = 0 ->
    cong (alpha - t + p - q) beta -> reaches [(SR, t); (SL, p); (SR, q)] alpha d beta.
  Proof.
    intros E1 E2 (Sq & Cq). unfold reaches, start. cbn [run seg_apply px py pth]. rewrite Sq, Cq.
    split; [lra|]. split; [lra|]. split; assumption.
  Qed.
  Theorem LRL_reaches :
    - 2 * sin (alpha + t - p) + 2 * sin (alpha + t) - sin alpha + sin beta = d ->
    2 * cos (alpha + t - p) - 2 * cos (alpha + t) + cos alpha - cos beta = 0 ->
    cong (alpha + t - p + q) beta -> reaches [(SL, t); (SR, p); (SL, q)] alpha d beta.
  Proof.
    intros E1 E2 (Sq & Cq). unfold reaches, start. cbn [run seg_apply px py pth]. rewrite Sq, Cq.
    split; [lra|]. split; [lra|]. split; assumption.
  Qed.
End Closure.

(* ---- (2) the closed forms satisfy the closure equations ---- *)
Section ClosedForms.
  Variables d alpha beta : R.
  Notation sa := (sin alpha). Notation ca := (cos alpha). Notation sb := (sin beta). Notation cb := (cos beta).

  (* LSL: theta = atan2(cb - ca, d + sa - sb); t = mod2pi(-alpha + theta); p = sqrt(tmp); q = mod2pi(beta - theta) *)
  Theorem LSL_closed theta t p q :
    polar theta (d + sa - sb) (cb - ca) ->
    p = sqrt (2 + d * d - 2 * (ca * cb + sa * sb - d * (sa - sb))) ->
    cong (alpha + t) theta -> cong (theta + q) beta ->
    reaches [(SL, t); (SS, p); (SL, q)] alpha d beta.
  Proof.
    intros (r & Hr & Ex & Ey) Hp (St & Ct) Cq.
    assert (Er : r = p).
    { rewrite (polar_radius theta _ _ r Hr Ex Ey), Hp. f_equal. pose proof (sc1 alpha). pose proof (sc1 beta). nra. }
    subst r. apply LSL_reaches.
    - rewrite Ct. lra.
    - rewrite St. lra.
    - replace (alpha + t + q) with ((alpha + t) + q) by ring. eapply cong_trans; [apply cong_plus; split; eassumption|exact Cq].
  Qed.
  (* RSR: theta = atan2(ca - cb, d - sa + sb); t = mod2pi(alpha - theta); q = mod2pi(-beta + theta) *)
  Theorem RSR_closed theta t p q :
    polar theta (d - sa + sb) (ca - cb) ->
    p = sqrt (2 + d * d - 2 * (ca * cb + sa * sb - d * (sb - sa))) ->
    cong (alpha - t) theta -> cong (theta - q) beta ->
    reaches [(SR, t); (SS, p); (SR, q)] alpha d beta.
  Proof.
    intros (r & Hr & Ex & Ey) Hp (St & Ct) Cq.
    assert (Er : r = p).
    { rewrite (polar_radius theta _ _ r Hr Ex Ey), Hp. f_equal. pose proof (sc1 alpha). pose proof (sc1 beta). nra. }
    subst r. apply RSR_reaches.
    - rewrite Ct. lra.
    - rewrite St. lra.
    - replace (alpha - t - q) with ((alpha - t) - q) by ring. eapply cong_trans; [apply cong_minus; split; eassumption|exact Cq].
  Qed.

  (* the straight segment of the two "crossing" words: theta = atan2(Y, X) - atan2(-/+2, p) with p^2 = X^2 + Y^2 - 4 *)
  Lemma cross_angle X Y p th1 th2 s :
    (s = 2 \/ s = -2) -> 0 <= p -> p * p = X * X + Y * Y - 4 -> polar th1 X Y -> polar th2 p s ->
    p * cos (th1 - th2) - s * sin (th1 - th2) = X /\ p * sin (th1 - th2) + s * cos (th1 - th2) = Y.
  Proof.
    intros Hs Hp Epp (r1 & Hr1 & Ex & Ey) (r2 & Hr2 & Ep & Es).
    assert (R1 : r1 * r1 = p * p + 4) by (pose proof (sc1 th1); rewrite Epp; rewrite Ex, Ey; nra).
    assert (R2 : r2 * r2 = p * p + 4) by (pose proof (sc1 th2); assert (s * s = 4) by (destruct Hs; subst; ring); rewrite Ep at 1 2; nra).
    assert (E12 : r1 = r2) by nra.
    subst r2. rewrite cos_minus, sin_minus.
    assert (Pos : 0 < r1) by nra.
    split.
    - apply (Rmult_eq_reg_l (r1 * r1)); [|nra].
      transitivity ((r1 * cos th2) * (r1 * cos th1) * (r1 * cos th2) + (r1 * cos th2) * (r1 * sin th1) * (r1 * sin th2)
                    - (r1 * sin th2) * ((r1 * sin th1) * (r1 * cos th2) - (r1 * cos th1) * (r1 * sin th2))).
      + rewrite Ep, Es. ring.
      + rewrite <- Ep, <- Es, <- Ex, <- Ey. rewrite R1. pose proof (sc1 th2) as H2.
        assert (s * s = 4) by (destruct Hs; subst; ring). nra.
    - apply (Rmult_eq_reg_l (r1 * r1)); [|nra].
      transitivity ((r1 * cos th2) * ((r1 * sin th1) * (r1 * cos th2) - (r1 * cos th1) * (r1 * sin th2))
                    + (r1 * sin th2) * ((r1 * cos th1) * (r1 * cos th2) + (r1 * sin th1) * (r1 * sin th2))).
      + rewrite Ep, Es. ring.
      + rewrite <- Ep, <- Es, <- Ex, <- Ey. rewrite R1. assert (s * s = 4) by (destruct Hs; subst; ring). nra.
  Qed.

  (* RSL: p = sqrt(tmp); theta = atan2(ca + cb, d - sa - sb) - atan2(2, p); t = mod2pi(alpha - theta); q = mod2pi(beta - theta) *)
  Theorem RSL_closed th1 th2 t p q :
    0 <= d * d - 2 + 2 * (ca * cb + sa * sb - d * (sa + sb)) ->
    p = sqrt (d * d - 2 + 2 * (ca * cb + sa * sb - d * (sa + sb))) ->
    polar th1 (d - sa - sb) (ca + cb) -> polar th2 p 2 ->
    cong (alpha - t) (th1 - th2) -> cong (th1 - th2 + q) beta ->
    reaches [(SR, t); (SS, p); (SL, q)] alpha d beta.
  Proof.
    intros Ht Hp P1 P2 (St & Ct) Cq.
    assert (Hp0 : 0 <= p) by (rewrite Hp; apply sqrt_pos).
    assert (Epp : p * p = (d - sa - sb) * (d - sa - sb) + (ca + cb) * (ca + cb) - 4).
    { rewrite Hp, sqrt_sqrt by exact Ht. pose proof (sc1 alpha). pose proof (sc1 beta). nra. }
    destruct (cross_angle _ _ p th1 th2 2 (or_introl eq_refl) Hp0 Epp P1 P2) as (E1 & E2).
    apply RSL_reaches.
    - rewrite St, Ct. lra.
    - rewrite St, Ct. lra.
    - replace (alpha - t + q) with ((alpha - t) + q) by ring. eapply cong_trans; [apply cong_plus; split; eassumption|exact Cq].
  Qed.
  (* LSR: theta = atan2(-ca - cb, d + sa + sb) - atan2(-2, p); t = mod2pi(-alpha + theta); q = mod2pi(-beta + theta) *)
  Theorem LSR_closed th1 th2 t p q :
    0 <= - 2 + d * d + 2 * (ca * cb + sa * sb + d * (sa + sb)) ->
    p = sqrt (- 2 + d * d + 2 * (ca * cb + sa * sb + d * (sa + sb))) ->
    polar th1 (d + sa + sb) (- ca - cb) -> polar th2 p (-2) ->
    cong (alpha + t) (th1 - th2) -> cong (th1 - th2 - q) beta ->
    reaches [(SL, t); (SS, p); (SR, q)] alpha d beta.
  Proof.
    intros Ht Hp P1 P2 (St & Ct) Cq.
    assert (Hp0 : 0 <= p) by (rewrite Hp; apply sqrt_pos).
    assert (Epp : p * p = (d + sa + sb) * (d + sa + sb) + (- ca - cb) * (- ca - cb) - 4).
    { rewrite Hp, sqrt_sqrt by exact Ht. pose proof (sc1 alpha). pose proof (sc1 beta). nra. }
    destruct (cross_angle _ _ p th1 th2 (-2) (or_intror eq_refl) Hp0 Epp P1 P2) as (E1 & E2).
    apply LSR_reaches.
    - rewrite St, Ct. lra.
    - rewrite St, Ct. lra.
    - replace (alpha + t - q) with ((alpha + t) - q) by ring. eapply cong_trans; [apply cong_minus; split; eassumption|exact Cq].
  Qed.

  (* the middle arc of the two CCC words: p = 2 pi - acos(tmp), so cos p = tmp and sin(p/2) >= 0; the chord of the
     two outer circles' centres has length 4 sin(p/2) *)
  Lemma ccc_radius theta X Y p tmp :
    cos p = tmp -> 0 <= sin (p / 2) -> X * X + Y * Y = 8 - 8 * tmp -> polar theta X Y ->
    X = 4 * sin (p / 2) * cos theta /\ Y = 4 * sin (p / 2) * sin theta.
  Proof.
    intros Cp Sp Exy (r & Hr & Ex & Ey).
    assert (C2 : cos p = 1 - 2 * sin (p / 2) * sin (p / 2)).
    { replace p with (2 * (p / 2)) at 1 by field. apply cos_2a_sin. }
    assert (R2 : r * r = (4 * sin (p / 2)) * (4 * sin (p / 2))).
    { pose proof (sc1 theta). assert (X * X + Y * Y = r * r) by (rewrite Ex, Ey; nra). nra. }
    assert (Er : r = 4 * sin (p / 2)) by nra.
    rewrite <- Er. auto.
  Qed.
  Lemma sum_diff_sin th h : sin (th + h) - sin (th - h) = 2 * cos th * sin h.
  Proof. rewrite sin_plus, sin_minus. ring. Qed.
  Lemma diff_cos th h : cos (th - h) - cos (th + h) = 2 * sin th * sin h.
  Proof. rewrite cos_plus, cos_minus. ring. Qed.

  (* RLR: p = 2 pi - acos(tmp); theta = atan2(ca - cb, d - sa + sb); t = mod2pi(alpha - theta + p/2); q = mod2pi(alpha - beta - t + p) *)
  Theorem RLR_closed theta t p q :
    cos p = (6 - d * d + 2 * (ca * cb + sa * sb + d * (sa - sb))) / 8 -> 0 <= sin (p / 2) ->
    polar theta (d - sa + sb) (ca - cb) ->
    cong (alpha - t) (theta - p / 2) -> cong (alpha - t + p - q) beta ->
    reaches [(SR, t); (SL, p); (SR, q)] alpha d beta.
  Proof.
    intros Cp Sp Pt Ct Cq.
    destruct (ccc_radius theta (d - sa + sb) (ca - cb) p _ Cp Sp) as (EX & EY); [pose proof (sc1 alpha); pose proof (sc1 beta); nra|exact Pt|].
    assert (C1 : cong (alpha - t + p) (theta + p / 2)).
    { replace (theta + p / 2) with (theta - p / 2 + p) by field. apply cong_plus. exact Ct. }
    destruct Ct as (S0 & C0). destruct C1 as (S1 & C1').
    apply RLR_reaches; [| |exact Cq].
    - rewrite S1, S0. pose proof (sum_diff_sin theta (p / 2)). lra.
    - rewrite C1', C0. pose proof (diff_cos theta (p / 2)). lra.
  Qed.
  (* LRL: theta = atan2(-ca + cb, d + sa - sb); t = mod2pi(-alpha + theta + p/2); q = mod2pi(beta - alpha - t + p) *)
  Theorem LRL_closed theta t p q :
    cos p = (6 - d * d + 2 * (ca * cb + sa * sb - d * (sa - sb))) / 8 -> 0 <= sin (p / 2) ->
    polar theta (d + sa - sb) (- ca + cb) ->
    cong (alpha + t) (theta + p / 2) -> cong (alpha + t - p + q) beta ->
    reaches [(SL, t); (SR, p); (SL, q)] alpha d beta.
  Proof.
    intros Cp Sp Pt Ct Cq.
    destruct (ccc_radius theta (d + sa - sb) (- ca + cb) p _ Cp Sp) as (EX & EY); [pose proof (sc1 alpha); pose proof (sc1 beta); nra|exact Pt|].
    assert (C1 : cong (alpha + t - p) (theta - p / 2)).
    { replace (theta - p / 2) with (theta + p / 2 - p) by field. apply cong_minus. exact Ct. }
    destruct Ct as (S0 & C0). destruct C1 as (S1 & C1').
    apply LRL_reaches; [| |exact Cq].
    - rewrite S1, S0. pose proof (sum_diff_sin theta (p / 2)). lra.
    - rewrite C1', C0. pose proof (diff_cos theta (p / 2)). lra.
  Qed.
End ClosedForms.

(* what the library's mod2pi and acos contribute *)
Lemma mod2pi_spec a (k : Z) : cong (a + 2 * IZR k * PI) a.
Proof. apply cong_2pi. Qed.
Lemma ccc_arc_spec v : -1 < v < 1 -> cos (2 * PI - acos v) = v /\ 0 <= sin ((2 * PI - acos v) / 2).
Proof.
  intros Hv. split.
  - replace (2 * PI - acos v) with (- acos v + 2 * INR 1 * PI) by (simpl; ring). rewrite cos_period, cos_neg. apply cos_acos. lra.
  - replace ((2 * PI - acos v) / 2) with (PI - acos v / 2) by field. rewrite sin_PI_x.
    pose proof (acos_bound v) as B. apply sin_ge_0; [lra|]. pose proof PI_RGT_0. lra.
Qed.
