(* RrtStarModel.v — geometric::RRTstar::solve (src/ompl/geometric/planners/rrt/src/RRTstar.cpp) with its default switches
   (k-nearest neighbourhoods, delayed collision checking, no pruning, no informed / rejection sampling, no new-state
   rejection) over abstract collaborators: goal-biased sampling (drawn only while no goal motion is in the tree), nearest
   node, steering, the neighbourhood sorted by distance, parent selection in order of cost-to-come with delayed motion
   checks, rewiring of the neighbours through the new motion (with the symmetric-cost shortcut that reuses the cost of the
   opposite motion), propagation of the new costs to the descendants, goal motions, best goal / best cost, approximate
   solution, termination once the objective is satisfied, and the reported path with its stored cost and `optimized` flag.
   Distances and costs share one arithmetic (binary64 for the correspondence).  A motion: state, parent, cost of the
   motion from the parent (incCost), cost to come. *)
From Coq Require Import List Bool Arith.
Import ListNotations.

Section RrtStar.
  Variables St C : Type.
  Variable dist : St -> St -> C.
  Variable clt : C -> C -> bool.                 (* a < b: distances, and isCostBetterThan for costs *)
  Variable cadd : C -> C -> C.                   (* combineCosts *)
  Variable c0 : C.                               (* identityCost *)
  Variable mcost : St -> St -> C.                (* opt_->motionCost *)
  Variable sym : bool.                           (* opt_->isSymmetric() *)
  Variable csat : C -> bool.                     (* opt_->isSatisfied *)
  Variable steer : St -> St -> St.               (* the sample, or the state at maxDistance towards it *)
  Variable maxd : C.
  Variable mv : St -> St -> bool.
  Variable sat : St -> bool.
  Variable gdist : St -> C.
  Variable goal_state dflt : St.
  Variable bias : C.
  Variable kof : nat -> nat.                     (* ceil(k_rrt * log(card)) for card = size of the tree + 1 *)

  Record node := mkN { n_st : St; n_par : option nat; n_inc : C; n_cost : C }.
  Record rs := mkRS { nodes : list node; goals : list nat; best : option (nat * C); approx : option (nat * C) }.
  Definition nd (l : list node) (i : nat) : node := nth i l (mkN dflt None c0 c0).
  Fixpoint updn {X} (i : nat) (x : X) (v : list X) : list X :=
    match v, i with [], _ => [] | _ :: t, O => x :: t | h :: t, S j => h :: updn j x t end.

  (* NearestNeighborsLinear::nearest: first strict minimum *)
  Fixpoint nearest_from (l : list node) (q : St) (j best : nat) (bd : C) : nat :=
    match l with
    | [] => best
    | n :: t => if clt (dist (n_st n) q) bd then nearest_from t q (S j) j (dist (n_st n) q) else nearest_from t q (S j) best bd
    end.
  Definition nearest (l : list node) (q : St) : nat :=
    match l with [] => O | n :: t => nearest_from t q 1 O (dist (n_st n) q) end.
  (* stable insertion sort of indices by a key *)
  Fixpoint ins_by (key : nat -> C) (j : nat) (l : list nat) : list nat :=
    match l with [] => [j] | k :: t => if clt (key j) (key k) then j :: k :: t else k :: ins_by key j t end.
  Definition sort_by (key : nat -> C) (l : list nat) : list nat := fold_left (fun acc j => ins_by key j acc) l [].
  (* nearestK(motion, k): all motions by increasing distance to the new state, the first k *)
  Definition neighbours (l : list node) (x : St) : list nat :=
    firstn (kof (S (length l))) (sort_by (fun j => dist (n_st (nd l j)) x) (seq 0 (length l))).

  (* updateChildCosts(m): every child's cost becomes cost(m) + its incCost, recursively *)
  Fixpoint upd_children (fuel : nat) (l : list node) (m : nat) : list node :=
    match fuel with
    | O => l
    | S f => fold_left (fun l j => if match n_par (nd l j) with Some p => Nat.eqb p m | None => false end
                                   then upd_children f (updn j (mkN (n_st (nd l j)) (n_par (nd l j)) (n_inc (nd l j)) (cadd (n_cost (nd l m)) (n_inc (nd l j)))) l) j
                                   else l) (seq 0 (length l)) l
    end.

  (* parent selection: neighbours in order of cost through them; the nearest node needs no check; the others need to be
     closer than maxDistance and the motion towards the new state valid.  Returns the chosen neighbour (position in nbh)
     and the validity marks of the positions looked at (1 chosen, -1 refused) *)
  Fixpoint choose (l : list node) (x : St) (ni : nat) (nbh : list nat) (order : list nat) (marks : list (nat * bool)) : option nat * list (nat * bool) :=
    match order with
    | [] => (None, marks)
    | i :: t => let b := nth i nbh O in
                if Nat.eqb b ni || (clt (dist (n_st (nd l b)) x) maxd && mv (n_st (nd l b)) x) then (Some i, (i, true) :: marks)
                else choose l x ni nbh t ((i, false) :: marks)
    end.
  Fixpoint mark_of (marks : list (nat * bool)) (i : nat) : option bool :=
    match marks with [] => None | (j, v) :: t => if Nat.eqb j i then Some v else mark_of t i end.

  (* the rewiring pass over the neighbours, in neighbourhood order *)
  Fixpoint rewire (l : list node) (idx : nat) (x : St) (nbh : list nat) (incs : list C) (marks : list (nat * bool)) (pos : nat) (changed : bool) : list node * bool :=
    match nbh with
    | [] => (l, changed)
    | b :: t =>
      if match n_par (nd l idx) with Some p => Nat.eqb p b | None => false end then rewire l idx x t incs marks (S pos) changed
      else
        let inc' := if sym then nth pos incs c0 else mcost x (n_st (nd l b)) in
        let newc := cadd (n_cost (nd l idx)) inc' in
        if clt newc (n_cost (nd l b)) then
          let ok := match mark_of marks pos with
                    | None => clt (dist (n_st (nd l b)) x) maxd && mv x (n_st (nd l b))
                    | Some v => v
                    end in
          if ok then
            let l1 := updn b (mkN (n_st (nd l b)) (Some idx) inc' newc) l in
            rewire (upd_children (length l1) l1 b) idx x t incs marks (S pos) true
          else rewire l idx x t incs marks (S pos) changed
        else rewire l idx x t incs marks (S pos) changed
    end.
  (* the scan of the goal motions for a better one (stops at one that satisfies the objective) *)
  Fixpoint scan_goals (l : list node) (gs : list nat) (b : nat * C) : nat * C :=
    match gs with
    | [] => b
    | g :: t => if clt (n_cost (nd l g)) (snd b) then (if csat (n_cost (nd l g)) then (g, n_cost (nd l g)) else scan_goals l t (g, n_cost (nd l g)))
                else scan_goals l t b
    end.

  (* one pass of the while loop on the target state r *)
  Definition star_step (s : rs) (r : St) : rs :=
    let l := nodes s in
    let ni := nearest l r in
    let n := n_st (nd l ni) in
    let x := steer n r in
    if mv n x then
      let idx := length l in
      let nbh := neighbours l x in
      let incs := map (fun b => mcost (n_st (nd l b)) x) nbh in
      let costs := map (fun b => cadd (n_cost (nd l b)) (mcost (n_st (nd l b)) x)) nbh in
      let order := sort_by (fun i => nth i costs c0) (seq 0 (length nbh)) in
      let '(ch, marks) := choose l x ni nbh order [] in
      let m := match ch with
               | Some i => mkN x (Some (nth i nbh O)) (nth i incs c0) (nth i costs c0)
               | None => mkN x (Some ni) (mcost n x) (cadd (n_cost (nd l ni)) (mcost n x))
               end in
      let l1 := l ++ [m] in
      let '(l2, changed) := rewire l1 idx x nbh incs marks 0 false in
      let isg := sat x in
      let gs := if isg then goals s ++ [idx] else goals s in
      let bst := if changed || isg then
                   match best s, gs with
                   | None, g :: _ => Some (g, n_cost (nd l2 g))
                   | None, [] => None
                   | Some b, _ => Some (scan_goals l2 gs b)
                   end
                 else best s in
      let apx := match gs with
                 | [] => match approx s with
                         | Some (_, ad) => if clt (gdist x) ad then Some (idx, gdist x) else approx s
                         | None => Some (idx, gdist x)
                         end
                 | _ => approx s
                 end in
      mkRS l2 gs bst apx
    else s.
  Definition done (s : rs) : bool := match best s with Some (_, c) => csat c | None => false end.
  (* [iters] evaluations of the termination condition that came out false.  tape: uniform01 draws (one per pass while no goal
     motion is in the tree); samples: what sampleUniform returns *)
  Fixpoint star_loop (iters : nat) (s : rs) (tape : list C) (samples : list St) : rs :=
    match iters with
    | O => s
    | S k =>
      let '(r, tape', samples') :=
        match goals s with
        | [] => if clt (hd c0 tape) bias then (goal_state, tl tape, samples) else (hd dflt samples, tl tape, tl samples)
        | _ => (hd dflt samples, tape, tl samples)
        end in
      let s' := star_step s r in
      if done s' then s' else star_loop k s' tape' samples'
    end.
  Fixpoint chain (fuel : nat) (l : list node) (i : nat) : list St :=
    match fuel with
    | O => []
    | S f => match n_par (nd l i) with None => [n_st (nd l i)] | Some p => chain f l p ++ [n_st (nd l i)] end
    end.
  (* tree, and the report: path, approximate flag, difference, stored cost, optimized flag *)
  Definition star_solve (starts : list St) (iters : nat) (tape : list C) (samples : list St)
    : list node * option (list St * bool * C * C * bool) :=
    let s := star_loop iters (mkRS (map (fun x => mkN x None c0 c0) starts) [] None None) tape samples in
    let l := nodes s in
    (l, match best s, approx s with
        | Some (g, bc), _ => Some (chain (S (length l)) l g, false, c0, n_cost (nd l g), csat bc)
        | None, Some (a, ad) => Some (chain (S (length l)) l a, true, ad, n_cost (nd l a), false)
        | None, None => None
        end).
End RrtStar.
