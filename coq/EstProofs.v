(* EstProofs.v — geometric::EST reports only real paths: whatever the PDF selects, whatever the neighbourhood counts and
   the density test reject, the tree and the report obey the same contract as geometric::RRT (RrtProofs.geo_solve_spec). *)
From Coq Require Import List Bool Arith Lia.
From OmplV Require Import PdfModel RrtModel LedgerProofs RrtProofs EstModel.
Import ListNotations.

Section EstP.
  Variable A : arith.
  Notation T := (T A).
  Variable one : T.
  Variable div : T -> T -> T.
  Variable leb : T -> T -> bool.
  Variable ofnat : nat -> T.
  Variable St : Type.
  Variable dist : St -> St -> T.
  Variable mv : St -> St -> bool.
  Variable sat : St -> bool.
  Variable gdist : St -> T.
  Variable goal_state dflt : St.
  Variable radius goal_bias : T.
  Hypothesis ltb_trans : forall a b c, ltb A a b = true -> ltb A b c = true -> ltb A a c = true.
  Hypothesis ltb_irrefl : forall a, ltb A a a = false.

  Lemma est_select_lt : forall (tree : list (St * option (nat * unit))) (i : nat * St), tree <> [] -> (est_select St tree i < length tree)%nat.
  Proof.
    intros tree i H. unfold est_select, clamp. destruct tree as [|n t]; [congruence|]. cbn [length].
    apply Nat.le_lt_trans with (S (length t) - 1)%nat; [apply Nat.le_min_r|lia].
  Qed.

  Theorem est_solve_spec : forall starts iters tape samples, starts <> [] ->
    let res := fst (est_solve A one div leb ofnat St dist mv sat gdist goal_state dflt radius goal_bias starts iters tape samples) in
    let tree := fst res in
    (forall i s, nth_error tree i = Some (s, None) -> In s starts) /\
    (forall i s p, nth_error tree i = Some (s, Some p) -> (p < i)%nat /\ exists ps pp, nth_error tree p = Some (ps, pp) /\ mv ps s = true) /\
    match snd res with
    | Some (path, approx, dd) =>
        path <> [] /\ In (hd dflt path) starts /\ consecutive (fun a b => mv a b = true) path /\ dd = gdist (last path dflt) /\
        (exists i, (length starts <= i < length tree)%nat /\ last path dflt = fst (nth i tree (dflt, None))) /\
        (if approx then sat (last path dflt) = false /\ forall j, (length starts <= j < length tree)%nat -> ltb A (gdist (fst (nth j tree (dflt, None)))) dd = false
         else sat (last path dflt) = true)
    | None => tree = map (fun x => (x, None)) starts
    end.
  Proof.
    intros starts iters tape samples Hs. unfold est_solve.
    destruct (est_run_inputs A one div leb ofnat St dist mv sat gdist goal_state dflt radius goal_bias starts iters tape samples) as [ins pf].
    cbn [fst snd].
    apply (geo_solve_spec St T (ltb A) (fun _ r => r) mv sat gdist dflt ltb_trans ltb_irrefl (nat * St)%type (est_select St) snd (est_select_lt) starts ins Hs).
  Qed.
End EstP.
