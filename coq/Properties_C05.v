(* Properties_C05.v — property C05: a motion is valid exactly when every resolution step is valid.
   Statements only, over MotionModel.v. *)
From Coq Require Import List Arith ZArith Lia Bool.
From OmplV Require Import MotionModel MotionProofs.
Import ListNotations.

(* three-argument form: valid exactly when the end state and every j/nd point are valid *)
Theorem C05_lin_iff_all_valid :
  forall valid vend nd, verdict (check_lin valid vend nd) = true <-> all_valid valid vend nd.
Proof. exact check_lin_iff. Qed.

(* two-argument form: total (the bisection never runs out of fuel = visits each index at most once),
   same characterisation, never touches last-valid storage, exactly one counter advances *)
Theorem C05_bis_iff_all_valid :
  forall valid vend nd, exists r, check_bis valid vend nd = Some r /\
    (verdict r = true <-> all_valid valid vend nd) /\ frac r = None /\
    dvalid r + dinvalid r = 1 /\ (dvalid r = 1 <-> verdict r = true).
Proof. exact check_bis_total_iff. Qed.

(* both forms always agree on the verdict *)
Theorem C05_forms_agree :
  forall valid vend nd r, check_bis valid vend nd = Some r -> verdict r = verdict (check_lin valid vend nd).
Proof.
  intros valid vend nd r E. destruct (check_bis_total_iff valid vend nd) as (r' & E' & I & _).
  rewrite E in E'. injection E' as <-. pose proof (check_lin_iff valid vend nd) as L.
  destruct (verdict r), (verdict (check_lin valid vend nd)); auto; [symmetry|]; tauto.
Qed.

(* on failure: fraction k/nd in [0,1), every point up to k valid, the next one (or s2) invalid *)
Theorem C05_lastvalid_spec :
  forall valid vend nd, verdict (check_lin valid vend nd) = false ->
    exists k den, frac (check_lin valid vend nd) = Some (Z.of_nat k, Z.of_nat den)
      /\ k < den /\ (1 <= nd -> den = nd)
      /\ (forall j, 1 <= j <= k -> j < nd -> valid j = true)
      /\ (k + 1 < nd -> valid (k + 1) = false)
      /\ (1 <= nd -> k + 1 = nd -> vend = false).
Proof. exact check_lin_lastvalid. Qed.

Theorem C05_success_keeps_lastvalid :
  forall valid vend nd, verdict (check_lin valid vend nd) = true -> frac (check_lin valid vend nd) = None.
Proof. exact check_lin_success_untouched. Qed.

Theorem C05_one_counter_per_call :
  forall valid vend nd,
    dvalid (check_lin valid vend nd) + dinvalid (check_lin valid vend nd) = 1 /\
    (dvalid (check_lin valid vend nd) = 1 <-> verdict (check_lin valid vend nd) = true).
Proof. exact check_lin_counter. Qed.

(* ... hence over EVERY sequence of calls (each with its own validity predicate, end-point validity and segment
   count): getValidMotionCount + getInvalidMotionCount = number of calls, and the valid counter is exactly the
   number of calls that answered true *)
Definition mv_call : Type := ((nat -> bool) * bool * nat)%type.
Definition mv_res (c : mv_call) : mresult := let '(valid, vend, nd) := c in check_lin valid vend nd.
Definition mv_counters (calls : list mv_call) (c0 : nat * nat) : nat * nat :=
  fold_left (fun c call => (fst c + dvalid (mv_res call), snd c + dinvalid (mv_res call))) calls c0.
Theorem C05_counters_for_every_call_sequence :
  forall calls v0 i0,
    fst (mv_counters calls (v0, i0)) + snd (mv_counters calls (v0, i0)) = v0 + i0 + length calls /\
    fst (mv_counters calls (v0, i0)) = v0 + length (filter (fun c => verdict (mv_res c)) calls).
Proof.
  intros calls. induction calls as [|c t IH]; intros v0 i0; unfold mv_counters; cbn [fold_left length filter fst snd].
  - lia.
  - fold (mv_counters t (v0 + dvalid (mv_res c), i0 + dinvalid (mv_res c))).
    destruct (IH (v0 + dvalid (mv_res c)) (i0 + dinvalid (mv_res c))) as [S F]. rewrite S, F.
    assert (K : dvalid (mv_res c) + dinvalid (mv_res c) = 1 /\ (dvalid (mv_res c) = 1 <-> verdict (mv_res c) = true)).
    { unfold mv_res. destruct c as [[valid vend] nd]. exact (C05_one_counter_per_call valid vend nd). }
    destruct K as [K1 K2]. destruct (verdict (mv_res c)) eqn:V; cbn [length].
    + assert (dvalid (mv_res c) = 1) by (apply K2; reflexivity). lia.
    + assert (dvalid (mv_res c) <> 1) by (intros D; apply K2 in D; discriminate). lia.
Qed.

(* explicit state lists *)
Theorem C05_states_bisection_iff :
  forall valid count, exists r vis, check_states valid count = Some (r, vis) /\
    (r = true <-> forall i, i < count -> valid i = true).
Proof. exact check_states_iff. Qed.

Theorem C05_states_first_invalid :
  forall valid count,
    match states_lin valid count 0 count with
    | None => forall k, 0 <= k < count -> valid k = true
    | Some k => 0 <= k < count /\ valid k = false /\ forall m, 0 <= m < k -> valid m = true
    end.
Proof. intros valid count. apply (states_lin_spec valid count 0 count). lia. Qed.

Print Assumptions C05_lin_iff_all_valid.
Print Assumptions C05_bis_iff_all_valid.
Print Assumptions C05_forms_agree.
Print Assumptions C05_lastvalid_spec.
Print Assumptions C05_success_keeps_lastvalid.
Print Assumptions C05_one_counter_per_call.
Print Assumptions C05_counters_for_every_call_sequence.
Print Assumptions C05_states_bisection_iff.
Print Assumptions C05_states_first_invalid.

(* non-vacuity and the two defects of the pinned commit *)
Example C05_nonvacuous_visit_order :
  check_bis (fun _ => true) true 10 =
  Some (mkR true [End; Mid 5; Mid 2; Mid 7; Mid 1; Mid 3; Mid 6; Mid 8; Mid 4; Mid 9] None 1 0).
Proof. vm_compute. reflexivity. Qed.
Example C05_lin_failure_example :
  check_lin (fun j => negb (j =? 4)) true 10 = mkR false [Mid 1; Mid 2; Mid 3; Mid 4] (Some (3, 10)%Z) 0 1.
Proof. vm_compute. reflexivity. Qed.
(* nd = 0 with an invalid end state: the original formula (nd-1)/nd is -1/0 *)
Example C05_nd0_orig_refuted : end_frac_orig 0 = ((-1)%Z, 0%Z).
Proof. reflexivity. Qed.
(* Dubins-family two-argument check at the pinned commit: no counter moves on an invalid s2 *)
Example C05_dubins_nocount_refuted :
  forall nd, check_bis_nocount (fun _ => true) false nd = Some (mkR false [End] None 0 0).
Proof. reflexivity. Qed.
