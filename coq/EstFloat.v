(* EstFloat.v — EstModel instantiated with Coq's primitive binary64 floats on R^2 with wall motion validators and a
   GoalState goal (executed by vm_compute; the same operations in the same order as harness/est_driver.cpp and
   RealVectorStateSpace::distance). *)
From Coq Require Import Floats List Bool.
From OmplV Require Import PdfModel PdfFloat RrtModel EstModel.
Import ListNotations.
Local Open Scope float_scope.

Definition F2 := (float * float)%type.
Definition fdist (a b : F2) : float :=
  let d0 := fst a - fst b in let d1 := snd a - snd b in sqrt ((0 + d0 * d0) + d1 * d1).
Fixpoint fnat (n : nat) : float := match n with O => 0 | S k => fnat k + 1 end.
(* harness: a motion is invalid iff it touches one of the vertical walls x = w, lo <= y <= hi *)
Definition touches (k : float * float * float) (a b : F2) : bool :=
  let '(w, lo, hi) := k in
  let '(ax, ay) := a in let '(bx, by_) := b in
  if PrimFloat.ltb 0 ((ax - w) * (bx - w)) then false
  else if PrimFloat.eqb ax bx then
         (if PrimFloat.leb ay by_ then PrimFloat.leb ay hi && PrimFloat.leb lo by_ else PrimFloat.leb by_ hi && PrimFloat.leb lo ay)
       else let t := (w - ax) / (bx - ax) in let y := ay + t * (by_ - ay) in PrimFloat.leb lo y && PrimFloat.leb y hi.
Definition wall_mv (walls : list (float * float * float)) (a b : F2) : bool := negb (existsb (fun k => touches k a b) walls).

Definition flat_tree (t : list (F2 * option nat)) : list float :=
  flat_map (fun n => [fst (fst n); snd (fst n); match snd n with None => -1 | Some k => fnat k end]) t.
Definition flat_report (r : option (list F2 * bool * float)) : list float :=
  match r with
  | None => []
  | Some (path, approx, dd) => (if approx then 1 else 0) :: dd :: flat_map (fun s => [fst s; snd s]) path
  end.
(* EST <maxDistance> <goalBias> <threshold> <iters>, walls, starts, goal, tape of uniform01 draws, sampleNear results *)
Definition est_float (maxd bias thr : float) (iters : nat) (walls : list (float * float * float)) (starts : list F2) (goal : F2)
    (tape : list float) (samples : list (option F2)) : list (list float) :=
  let '(tr, rep, w) := est_solve Fl 1 PrimFloat.div PrimFloat.leb fnat F2 fdist (wall_mv walls)
                         (fun s => PrimFloat.ltb (fdist s goal) thr) (fun s => fdist s goal) goal (0, 0) (maxd / 3) bias
                         starts iters tape samples in
  [flat_tree tr; flat_report rep; w].
