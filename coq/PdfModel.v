(* PdfModel.v — executable model of ompl::PDF (src/ompl/datastructures/PDF.h), generic over the
   arithmetic of the weights: instantiated with Coq's primitive binary64 floats for execution
   (bit-exact against the C++), with R for the proofs.  Definitions only. *)
From Coq Require Import List Arith Lia Bool.
Import ListNotations.

Record arith := mkArith { T : Type; zero : T; add : T -> T -> T; sub : T -> T -> T; mul : T -> T -> T;
                          ltb : T -> T -> bool }.     (* ltb a b  models the C++ test  a < b  *)

Section Pdf.
  Variable A : arith.
  Notation T := (T A).
  Notation "0" := (zero A).

  Fixpoint updn {X} (i : nat) (x : X) (v : list X) : list X :=
    match v, i with
    | [], _ => []
    | _ :: t, O => x :: t
    | h :: t, S j => h :: updn j x t
    end.
  Definition getw (r : list T) (i : nat) : T := nth i r 0.

  (* data_: (payload id, index_) in storage order;  tree_: rows, row 0 = leaf weights *)
  Record pdf := mkPdf { data : list (nat * nat); rows : list (list T) }.
  Definition empty : pdf := mkPdf [] [].

  (* tree_[i].back() += w *)
  Definition bump (w : T) (r : list T) : list T := removelast r ++ [add A (last r 0) w].
  Definition unbump (w : T) (r : list T) : list T := removelast r ++ [sub A (last r 0) w].

  (* the loop of add() over the rows above the leaves; bool = "fell out of the loop: add a new head" *)
  Fixpoint add_up (prev_size : nat) (rs : list (list T)) (w : T) : list (list T) * bool :=
    match rs with
    | [] => ([], true)
    | r :: rest =>
      if Nat.odd prev_size then
        let r' := r ++ [w] in
        let '(rest', h) := add_up (length r') rest w in (r' :: rest', h)
      else (map (bump w) (r :: rest), false)
    end.

  Definition pdf_add (id : nat) (w : T) (p : pdf) : pdf :=
    let data' := data p ++ [(id, length (data p))] in
    if length data' =? 1 then mkPdf data' (rows p ++ [[w]])
    else match rows p with
         | [] => mkPdf data' []                       (* tree_.front() of an empty tree: unreachable under Inv *)
         | r0 :: rest =>
           let r0' := r0 ++ [w] in
           let '(rest', h) := add_up (length r0') rest w in
           let t := r0' :: rest' in
           if h then let top := last t [] in mkPdf data' (t ++ [[add A (getw top 0) (getw top 1)]])
           else mkPdf data' t
         end.

  (* tree_[row][index] += change; index >>= 1  for the rows above the leaves *)
  Fixpoint upd_up (idx : nat) (change : T) (rs : list (list T)) : list (list T) :=
    match rs with
    | [] => []
    | r :: rest => updn idx (add A (getw r idx) change) r :: upd_up (idx / 2) change rest
    end.

  Definition pdf_update_at (idx : nat) (w : T) (p : pdf) : pdf :=
    match rows p with
    | [] => p
    | r0 :: rest =>
      let change := sub A w (getw r0 idx) in
      mkPdf (data p) (updn idx w r0 :: upd_up (idx / 2) change rest)
    end.

  (* the pop loop of remove(); bool = "fell out of the loop: drop the head row" *)
  Fixpoint rem_up (prev_size : nat) (rs : list (list T)) (w : T) : list (list T) * bool :=
    match rs with
    | [] => ([], true)
    | r :: rest =>
      if prev_size <=? 1 then (r :: rest, true)
      else if Nat.even prev_size then
        let r' := removelast r in
        let '(rest', h) := rem_up (length r') rest w in (r' :: rest', h)
      else (map (unbump w) (r :: rest), false)
    end.

  Definition swap_last {X} (d : X) (i : nat) (v : list X) : list X :=
    let n := length v - 1 in updn n (nth i v d) (updn i (nth n v d) v).

  (* the part of remove() before the pop loop: brings the element to the edge of the tree *)
  Definition rem_prep (idx n : nat) (dat0 : list (nat * nat)) (r0 : list T) (rest : list (list T))
    : list (nat * nat) * list T * list (list T) * T :=
    if idx + 1 =? n then (dat0, r0, rest, last r0 0)
    else
      let dat := swap_last (0%nat, 0%nat) idx dat0 in
      let dat := updn idx (fst (nth idx dat (0%nat, 0%nat)), idx) dat in      (* data_[index]->index_ = index *)
      let r0s := swap_last 0 idx r0 in
      if (idx + 2 =? n) && Nat.even idx then (dat, r0s, rest, last r0s 0)
      else
        let weight := getw r0s idx in
        let change := sub A weight (last r0s 0) in
        (dat, r0s, upd_up (idx / 2) change rest, weight).

  Definition pdf_remove_at (idx : nat) (p : pdf) : pdf :=
    let n := length (data p) in
    if n =? 1 then empty
    else match rows p with
         | [] => p
         | r0 :: rest =>
           let '(dat, r0s, rest1, weight) := rem_prep idx n (data p) r0 rest in
           let r0' := removelast r0s in
           let '(rest', h) := rem_up (length r0') rest1 weight in
           let t := r0' :: rest' in
           mkPdf (removelast dat) (if h then removelast t else t)
         end.

  (* handles: the Element* is identified by its payload id; its index_ field is what the code reads *)
  Fixpoint index_of (id : nat) (d : list (nat * nat)) : option nat :=
    match d with
    | [] => None
    | (i, ix) :: t => if i =? id then Some ix else index_of id t
    end.

  (* one step of the descent in sample(); None = access outside the row *)
  Definition step_checked (guard : bool) (row : list T) (st : T * nat) : option (T * nat) :=
    let '(rho, node) := st in
    let node := 2 * node in
    match nth_error row node with
    | None => None
    | Some x =>
      if ltb A x rho && (if guard then node + 1 <? length row else true)
      then Some (sub A rho x, S node) else Some (rho, node)
    end.
  Fixpoint descend (guard : bool) (rows_down : list (list T)) (st : T * nat) : option (T * nat) :=
    match rows_down with
    | [] => Some st
    | row :: rest => match step_checked guard row st with Some st' => descend guard rest st' | None => None end
    end.

  Inductive sres := SId (id : nat) | SOob | SExc.
  (* guard = true is the repaired code (do not step right when there is no right sibling) *)
  Definition pdf_sample_g (guard : bool) (r : T) (one : T) (p : pdf) : sres :=
    match data p with
    | [] => SExc
    | _ =>
      if ltb A r 0 || ltb A one r then SExc
      else match rev (rows p) with
           | [] => SOob
           | top :: down =>
             match top with
             | [] => SOob
             | w :: _ =>
               match descend guard down (mul A r w, 0%nat) with
               | None => SOob
               | Some (_, node) => match nth_error (data p) node with Some (id, _) => SId id | None => SOob end
               end
             end
           end
    end.
  Definition pdf_sample := pdf_sample_g true.
  Definition pdf_sample_orig := pdf_sample_g false.

  Inductive op := PAdd (id : nat) (w : T) | PUpd (id : nat) (w : T) | PRem (id : nat) | PClear.

  (* None = exception thrown by the C++ (negative weight, stale element) or a dangling handle *)
  Definition pdf_step (p : pdf) (o : op) : option pdf :=
    match o with
    | PAdd id w => if ltb A w 0 then None else
                   match index_of id (data p) with Some _ => None | None => Some (pdf_add id w p) end
    | PUpd id w => match index_of id (data p) with
                   | Some ix => if ix <? length (data p) then Some (pdf_update_at ix w p) else None
                   | None => None end
    | PRem id => match index_of id (data p) with
                 | Some ix => Some (pdf_remove_at ix p)
                 | None => None end
    | PClear => Some empty
    end.
  Fixpoint pdf_run (p : pdf) (ops : list op) : option pdf :=
    match ops with
    | [] => Some p
    | o :: t => match pdf_step p o with Some p' => pdf_run p' t | None => None end
    end.
End Pdf.

Arguments mkPdf {A}. Arguments data {A}. Arguments rows {A}.
Arguments PAdd {A}. Arguments PUpd {A}. Arguments PRem {A}. Arguments PClear {A}.
