(* EstWeights.v — what EST's PDF holds, over the real numbers: after the start states and after any number of
   iterations the weight of motion j is 1 / (1 + number of other motions within the neighbourhood radius of j), the PDF
   stays a chain of pairwise sums (PdfReal.RInv), hence pdf_.sample(r) picks the motion whose interval of cumulated
   weights 1 / (1 + neighbours) contains r times their total: a motion is expanded with probability inversely
   proportional to one plus its neighbourhood count.  Needs a symmetric distance (the count of j changes when a later
   motion k finds j among ITS neighbours). *)
From Coq Require Import List Arith Lia Bool Reals Lra Permutation.
From OmplV Require Import PdfModel PdfShape PdfReal RrtModel EstModel.
Import ListNotations.
Local Open Scope R_scope.

Definition Rleb (a b : R) : bool := if Rle_dec a b then true else false.
Lemma Rleb_true a b : Rleb a b = true <-> a <= b.
Proof. unfold Rleb. destruct (Rle_dec a b); split; intros; try discriminate; try reflexivity; auto; contradiction. Qed.

(* ---- the leaf row under add / update *)
Lemma leaves_add (p : pdf Re) id w : SInv Re p -> leaves (pdf_add Re id w p) = leaves p ++ [w].
Proof.
  intros (_ & _ & [(Ed & Er)|Hne]); unfold pdf_add, leaves.
  - rewrite Ed, Er. reflexivity.
  - destruct Hne as (Hne & Hs & Hl). destruct (rows p) as [|r0 rest] eqn:Er; [congruence|]. cbn [hd] in Hl.
    assert (H1 : (1 <= length r0)%nat) by (unfold shape in Hs; cbn [map] in Hs; destruct rest; cbn [map shapeN] in Hs; lia).
    assert (Hn : (length (data p ++ [(id, length (data p))]) =? 1)%nat = false) by (rewrite app_length; cbn [length]; apply Nat.eqb_neq; lia).
    rewrite Hn. destruct (add_up Re (length (r0 ++ [w])) rest w) as [rest' h]. destruct h; reflexivity.
Qed.
Lemma leaves_update (p : pdf Re) j w : leaves (pdf_update_at Re j w p) = updn j w (leaves p).
Proof. unfold pdf_update_at, leaves. destruct (rows p) as [|r0 rest] eqn:Er; [rewrite Er; destruct j; reflexivity|reflexivity]. Qed.

(* ---- the PDF of EST: payload = index in the tree, stored in insertion order; every operation of addMotion is a
   successful pdf_step, so the invariant of PdfReal is kept *)
Definition canon (n : nat) : list (nat * nat) := map (fun i => (i, i)) (seq 0 n).
Definition EInv (p : pdf Re) (n : nat) : Prop := data p = canon n /\ RInv p.
Lemma index_of_seq : forall n b j, index_of j (map (fun i => (i, i)) (seq b n)) = if ((b <=? j) && (j <? b + n))%nat then Some j else None.
Proof.
  induction n as [|n IH]; intros b j; cbn [seq map index_of].
  - destruct (b <=? j)%nat eqn:E1; cbn [andb]; [|reflexivity]. destruct (Nat.ltb_spec j (b + 0)); [apply Nat.leb_le in E1; lia|reflexivity].
  - destruct (Nat.eqb_spec b j) as [->|Hne].
    + rewrite Nat.leb_refl. cbn [andb]. destruct (Nat.ltb_spec j (j + S n)); [reflexivity|lia].
    + rewrite IH. destruct (Nat.leb_spec (S b) j), (Nat.leb_spec b j), (Nat.ltb_spec j (S b + n)), (Nat.ltb_spec j (b + S n)); cbn [andb]; try reflexivity; lia.
Qed.
Lemma index_of_canon n j : index_of j (canon n) = if (j <? n)%nat then Some j else None.
Proof. unfold canon. rewrite index_of_seq. cbn [Nat.leb andb plus]. reflexivity. Qed.
Lemma canon_length n : length (canon n) = n.
Proof. unfold canon. rewrite map_length, seq_length. reflexivity. Qed.
Lemma data_add (p : pdf Re) id w : data (pdf_add Re id w p) = data p ++ [(id, length (data p))].
Proof.
  unfold pdf_add. destruct (length (data p ++ [(id, length (data p))]) =? 1)%nat; [reflexivity|].
  destruct (rows p) as [|r0 rest]; [reflexivity|]. destruct (add_up Re (length (r0 ++ [w])) rest w) as [rest' h]. destruct h; reflexivity.
Qed.
Lemma einv_length p n : EInv p n -> length (leaves p) = n.
Proof.
  intros (Ed & (_ & _ & [(E1 & E2)|(_ & _ & Hl)]) & _); unfold leaves.
  - rewrite E2. rewrite Ed in E1. destruct n; [reflexivity|]. unfold canon in E1. rewrite seq_S in E1. rewrite map_app in E1. destruct (map (fun i => (i, i)) (seq 0 n)); discriminate.
  - rewrite Ed, canon_length in Hl. exact Hl.
Qed.
Lemma einv_update p n j w : EInv p n -> (j < n)%nat -> EInv (pdf_update_at Re j w p) n.
Proof.
  intros (Ed & I) Hj. split.
  - unfold pdf_update_at. destruct (rows p); exact Ed.
  - apply (rinv_step p (@PUpd Re j w)); [exact I|]. cbn [pdf_step]. rewrite Ed, index_of_canon.
    destruct (Nat.ltb_spec j n); [|lia]. rewrite canon_length. destruct (Nat.ltb_spec j n); [reflexivity|lia].
Qed.
Lemma einv_add p n w : EInv p n -> 0 <= w -> EInv (pdf_add Re n w p) (S n).
Proof.
  intros (Ed & I) Hw. split.
  - rewrite data_add, Ed, canon_length. unfold canon. rewrite seq_S, map_app. reflexivity.
  - apply (rinv_step p (@PAdd Re n w)); [exact I|]. cbn [pdf_step ltb Re zero]. unfold Rltb. destruct (Rlt_dec w 0); [lra|].
    rewrite Ed, index_of_canon. destruct (Nat.ltb_spec n n); [lia|reflexivity].
Qed.
Lemma einv_empty : EInv (empty Re) 0.
Proof. split; [reflexivity|apply rinv_empty]. Qed.

Section EstW.
  Variable St : Type.
  Variable dist : St -> St -> R.
  Variable mv : St -> St -> bool.
  Variable sat : St -> bool.
  Variable gdist : St -> R.
  Variable goal_state dflt : St.
  Variable radius goal_bias : R.
  Hypothesis dist_sym : forall a b, dist a b = dist b a.
  Notation tnode := (tnode St).
  Notation within := (within Re Rleb St dist radius).
  Notation nbrs := (nbrs Re Rleb St dist dflt radius).
  Notation add_motion := (add_motion Re 1 Rdiv INR).
  Definition st_at (tree : list tnode) (k : nat) : St := fst (nth k tree (dflt, None)).

  (* the linear structure's neighbourhood: indices in range, exactly those within the radius, each once *)
  Lemma within_spec : forall (tree : list tnode) q b k,
    In k (within q tree b) <-> (b <= k < b + length tree)%nat /\ Rleb (dist (st_at tree (k - b)) q) radius = true.
  Proof.
    induction tree as [|[s par] t IH]; intros q b k; cbn [EstModel.within length].
    - split; [intros []|intros (H & _); lia].
    - assert (Hs : forall k', (S b <= k')%nat -> st_at ((s, par) :: t) (k' - b) = st_at t (k' - S b)).
      { intros k' H. unfold st_at. replace (k' - b)%nat with (S (k' - S b)) by lia. reflexivity. }
      destruct (Rleb (dist s q) radius) eqn:E.
      + cbn [In]. rewrite IH. split.
        * intros [<-|(H1 & H2)]; [split; [lia|]; rewrite Nat.sub_diag; exact E|]. split; [lia|]. rewrite Hs by lia. exact H2.
        * intros (H1 & H2). destruct (Nat.eq_dec b k) as [->|Hne]; [left; reflexivity|right]. split; [lia|]. rewrite <- Hs by lia. exact H2.
      + rewrite IH. split.
        * intros (H1 & H2). split; [lia|]. rewrite Hs by lia. exact H2.
        * intros (H1 & H2). destruct (Nat.eq_dec b k) as [->|Hne]; [rewrite Nat.sub_diag in H2; unfold st_at in H2; cbn [nth fst] in H2; congruence|]. split; [lia|]. rewrite <- Hs by lia. exact H2.
  Qed.
  Lemma within_lt : forall (tree : list tnode) q b k, In k (within q tree b) -> (b <= k < b + length tree)%nat.
  Proof. intros tree q b k H. apply within_spec in H. tauto. Qed.
  Lemma within_nodup : forall (tree : list tnode) q b, NoDup (within q tree b).
  Proof.
    induction tree as [|[s par] t IH]; intros q b; cbn [EstModel.within]; [constructor|].
    destruct (Rleb (dist s q) radius); [|apply IH]. constructor; [|apply IH]. intros H. apply within_lt in H. lia.
  Qed.
  Lemma within_app : forall (tree : list tnode) q b y,
    within q (tree ++ [y]) b = within q tree b ++ (if Rleb (dist (fst y) q) radius then [(b + length tree)%nat] else []).
  Proof.
    induction tree as [|[s par] t IH]; intros q b [ys yp]; cbn [EstModel.within app length fst].
    - rewrite Nat.add_0_r. destruct (Rleb (dist ys q) radius); reflexivity.
    - rewrite IH. cbn [fst]. replace (S b + length t)%nat with (b + S (length t))%nat by lia. destruct (Rleb (dist s q) radius); reflexivity.
  Qed.
  Lemma ins_sorted_perm : forall q (tree : list tnode) j l, Permutation (ins_sorted Re St dist dflt q tree j l) (j :: l).
  Proof.
    intros q tree j. induction l as [|k t IH]; cbn [ins_sorted]; [apply Permutation_refl|].
    destruct (ltb Re (dist (fst (nth j tree (dflt, None))) q) (dist (fst (nth k tree (dflt, None))) q)); [apply Permutation_refl|].
    eapply Permutation_trans; [apply perm_skip; exact IH|apply perm_swap].
  Qed.
  Lemma nbrs_perm : forall (tree : list tnode) q, Permutation (nbrs tree q) (within q tree 0).
  Proof.
    intros tree q. unfold EstModel.nbrs.
    assert (G : forall l acc, Permutation (fold_left (fun acc j => ins_sorted Re St dist dflt q tree j acc) l acc) (l ++ acc)).
    { induction l as [|j t IH]; intros acc; cbn [fold_left app]; [apply Permutation_refl|].
      eapply Permutation_trans; [apply IH|]. eapply Permutation_trans; [apply Permutation_app_head; apply ins_sorted_perm|]. apply Permutation_sym, Permutation_middle. }
    specialize (G (within q tree 0) []). rewrite app_nil_r in G. exact G.
  Qed.

  (* the number of OTHER motions within the radius of motion j *)
  Definition others (tree : list tnode) (j : nat) : nat := length (remove Nat.eq_dec j (within (st_at tree j) tree 0)).
  Definition WInv (tree : list tnode) (p : pdf Re) : Prop :=
    EInv p (length tree) /\ forall j, (j < length tree)%nat -> nth j (leaves p) 0 = / (1 + INR (others tree j)).

  (* the neighbours' weights: w becomes w / (w + 1), each neighbour once *)
  Definition upd_one (p : pdf Re) (j : nat) : pdf Re := pdf_update_at Re j (Rdiv (leaf_weight Re p j) (leaf_weight Re p j + 1)) p.
  Lemma leaf_weight_nth p j : leaf_weight Re p j = nth j (leaves p) 0.
  Proof. reflexivity. Qed.
  Lemma upd_fold : forall nb p n, NoDup nb -> (forall j, In j nb -> (j < n)%nat) -> EInv p n ->
    let p' := fold_left upd_one nb p in
    EInv p' n /\ forall j, (j < n)%nat -> nth j (leaves p') 0 = if in_dec Nat.eq_dec j nb then nth j (leaves p) 0 / (nth j (leaves p) 0 + 1) else nth j (leaves p) 0.
  Proof.
    induction nb as [|k t IH]; intros p n ND Hlt HE; cbn [fold_left].
    - split; [exact HE|]. intros j Hj. destruct (in_dec Nat.eq_dec j []) as [[]|]; reflexivity.
    - inversion ND as [|? ? Hk ND']; subst.
      assert (Hkn : (k < n)%nat) by (apply Hlt; left; reflexivity).
      pose proof (einv_update p n k (Rdiv (leaf_weight Re p k) (leaf_weight Re p k + 1)) HE Hkn) as HE1.
      destruct (IH (upd_one p k) n ND' (fun j H => Hlt j (or_intror H)) HE1) as (I1 & I2). split; [exact I1|].
      intros j Hj. rewrite (I2 j Hj). clear I1 I2 IH. unfold upd_one. rewrite !leaves_update.
      pose proof (einv_length p n HE) as HL.
      destruct (in_dec Nat.eq_dec j t) as [Hin|Hnin]; destruct (in_dec Nat.eq_dec j (k :: t)) as [Hin2|Hnin2].
      + assert (j <> k) by (intros ->; contradiction). rewrite (nth_updn_ne 0 k j) by congruence. reflexivity.
      + exfalso. apply Hnin2. right. exact Hin.
      + destruct Hin2 as [->|Hin2]; [|contradiction]. rewrite (nth_updn_eq 0 j) by (change (T Re) with R; lia). rewrite !leaf_weight_nth. reflexivity.
      + assert (j <> k) by (intros ->; apply Hnin2; left; reflexivity). rewrite (nth_updn_ne 0 k j) by congruence. reflexivity.
  Qed.

  Lemma st_at_app_lt (tree : list tnode) y j : (j < length tree)%nat -> st_at (tree ++ [y]) j = st_at tree j.
  Proof. intros H. unfold st_at. rewrite app_nth1 by exact H. reflexivity. Qed.
  Lemma st_at_app_eq (tree : list tnode) y : st_at (tree ++ [y]) (length tree) = fst y.
  Proof. unfold st_at. rewrite app_nth2 by lia. rewrite Nat.sub_diag. reflexivity. Qed.
  Lemma remove_notin : forall (l : list nat) x, ~ In x l -> remove Nat.eq_dec x l = l.
  Proof. intros l x H. apply notin_remove. exact H. Qed.

  (* EST::addMotion keeps the weights what they should be *)
  Lemma add_motion_winv : forall (tree : list tnode) p x par, WInv tree p ->
    WInv (tree ++ [(x, par)]) (add_motion p (length tree) (nbrs tree x)).
  Proof.
    intros tree p x par (HE & HW). set (n := length tree). set (nb := nbrs tree x).
    pose proof (nbrs_perm tree x) as HP. fold nb in HP.
    assert (ND : NoDup nb) by (apply (Permutation_NoDup (Permutation_sym HP)); apply within_nodup).
    assert (Hlt : forall j, In j nb -> (j < n)%nat) by (intros j H; apply (Permutation_in _ HP) in H; apply within_lt in H; unfold n; lia).
    unfold EstModel.add_motion.
    change (fold_left _ nb p) with (fold_left upd_one nb p).
    destruct (upd_fold nb p n ND Hlt HE) as (I1 & I2). cbv zeta in I1, I2. set (p1 := fold_left upd_one nb p) in *.
    cbn [add Re]. set (w0 := 1 / (INR (length nb) + 1)).
    assert (Hw0 : 0 <= w0) by (unfold w0; pose proof (pos_INR (length nb)); apply Rlt_le, Rdiv_lt_0_compat; lra).
    assert (Hlen : length (tree ++ [(x, par)]) = S n) by (rewrite app_length; cbn [length]; unfold n; lia).
    split; [rewrite Hlen; apply einv_add; assumption|].
    assert (S1 : SInv Re p1) by (destruct I1 as (_ & (S1 & _)); exact S1).
    rewrite (leaves_add p1 n w0 S1). pose proof (einv_length p1 n I1) as HL1.
    intros j Hj. rewrite Hlen in Hj. destruct (Nat.eq_dec j n) as [->|Hne].
    - (* the new motion *)
      rewrite app_nth2 by (change (T Re) with R in *; lia). change (T Re) with R in *. rewrite HL1, Nat.sub_diag. cbn [nth].
      unfold others. unfold n at 1 2. rewrite st_at_app_eq. cbn [fst]. rewrite within_app. cbn [fst].
      rewrite remove_app. rewrite (remove_notin (within x tree 0)) by (intros H; apply within_lt in H; unfold n in *; lia).
      fold n. assert (E : remove Nat.eq_dec n (if Rleb (dist x x) radius then [(0 + n)%nat] else []) = []).
      { destruct (Rleb (dist x x) radius); [|reflexivity]. cbn [remove plus]. destruct (Nat.eq_dec n n); [reflexivity|congruence]. }
      rewrite E, app_nil_r. rewrite <- (Permutation_length HP). unfold w0. field. pose proof (pos_INR (length nb)). lra.
    - (* an earlier motion *)
      assert (Hjn : (j < n)%nat) by lia.
      rewrite app_nth1 by (change (T Re) with R in *; lia). rewrite (I2 j Hjn). rewrite (HW j Hjn).
      change (others (tree ++ [(x, par)]) j) with (length (remove Nat.eq_dec j (within (st_at (tree ++ [(x, par)]) j) (tree ++ [(x, par)]) 0))). rewrite st_at_app_lt by exact Hjn. rewrite within_app. cbn [fst plus]. rewrite remove_app.
      fold (others tree j). rewrite app_length.
      assert (Hmem : In j nb <-> Rleb (dist x (st_at tree j)) radius = true).
      { split.
        - intros H. apply (Permutation_in _ HP) in H. apply within_spec in H. destruct H as (_ & H). rewrite Nat.sub_0_r in H. rewrite dist_sym. exact H.
        - intros H. apply (Permutation_in _ (Permutation_sym HP)). apply within_spec. split; [unfold n in *; lia|]. rewrite Nat.sub_0_r, dist_sym. exact H. }
      pose proof (pos_INR (others tree j)) as Hpos.
      destruct (in_dec Nat.eq_dec j nb) as [Hin|Hnin].
      + rewrite (proj1 Hmem Hin). cbn [remove]. fold n. destruct (Nat.eq_dec j n); [lia|]. cbn [length]. rewrite plus_INR. cbn [INR]. change (length (remove Nat.eq_dec j (within (st_at tree j) tree 0))) with (others tree j). field. lra.
      + destruct (Rleb (dist x (st_at tree j)) radius) eqn:E; [exfalso; apply Hnin, Hmem; reflexivity|]. cbn [remove length]. rewrite Nat.add_0_r. reflexivity.
  Qed.

  Notation add_starts := (add_starts Re 1 Rdiv Rleb INR St dist dflt radius).
  Lemma add_starts_winv : forall starts (tree : list tnode) p, WInv tree p ->
    WInv (fst (add_starts tree p starts)) (snd (add_starts tree p starts)) /\
    fst (add_starts tree p starts) = tree ++ map (fun x => (x, None)) starts.
  Proof.
    induction starts as [|x t IH]; intros tree p HW; cbn [EstModel.add_starts fst snd map].
    - rewrite app_nil_r. split; [exact HW|reflexivity].
    - destruct (IH (tree ++ [(x, None)]) (add_motion p (length tree) (nbrs tree x)) (add_motion_winv tree p x None HW)) as (I1 & I2).
      split; [exact I1|]. rewrite I2, <- app_assoc. reflexivity.
  Qed.
  Lemma winv_empty : WInv [] (empty Re).
  Proof. split; [apply einv_empty|]. intros j H. cbn [length] in H. lia. Qed.

  (* the tree part of an iteration *)
  Notation est_tree_step := (est_tree_step Re St mv sat gdist dflt).
  Notation rst := (rst St R unit).
  Lemma add_one_tree (s : rst) pi (x : St * unit) :
    r_tree St R unit (add_one St R unit (ltb Re) sat gdist s pi x) = r_tree St R unit s ++ [(fst x, Some (pi, snd x))].
  Proof.
    unfold add_one. destruct (sat (fst x)); [reflexivity|]. destruct (r_approx St R unit s) as [[a bd]|]; [|reflexivity].
    destruct (ltb Re (gdist (fst x)) bd); reflexivity.
  Qed.
  Lemma est_tree_step_tree (s : rst) (i : nat * St) : r_sol St R unit s = None ->
    let tree := r_tree St R unit s in
    let ni := est_select St tree i in
    r_tree St R unit (est_tree_step s i) =
      if mv (fst (nth ni tree (dflt, None))) (snd i) then tree ++ [(snd i, Some (ni, tt))] else tree.
  Proof.
    intros Hs. cbv zeta. unfold EstModel.est_tree_step, tree_step, est_extend, rrt_extend. change (T Re) with R.
    set (tree := r_tree St R unit s). set (ni := est_select St tree i).
    destruct (mv (fst (nth ni tree (dflt, None))) (snd i)).
    - cbn [add_chain]. change (T Re) with R. rewrite Hs.
      destruct (r_sol St R unit (add_one St R unit (ltb Re) sat gdist s ni (snd i, tt))); apply (add_one_tree s ni (snd i, tt)).
    - cbn [add_chain]. change (T Re) with R. rewrite Hs. reflexivity.
  Qed.

  (* one pass of the loop keeps the weights in step with the tree *)
  Notation est_iter := (est_iter Re 1 Rdiv Rleb INR St dist mv goal_state dflt radius goal_bias).
  Lemma est_iter_winv (s : rst) p tape samples oi p' tape' samples' :
    r_sol St R unit s = None -> WInv (r_tree St R unit s) p -> est_iter s p tape samples = (oi, p', tape', samples') ->
    match oi with
    | None => p' = p
    | Some i => WInv (r_tree St R unit (est_tree_step s i)) p'
    end.
  Proof.
    intros Hs HW. unfold EstModel.est_iter. change (r_tree St (T Re) unit s) with (r_tree St R unit s). set (tree := r_tree St R unit s) in *.
    set (sel := match pdf_sample _ _ _ p with SId id => id | _ => 0%nat end).
    assert (FIN : forall x nb tp sm, nb = nbrs tree x -> (Some (sel, x), (if mv (fst (nth (clamp St tree sel) tree (dflt, None))) x then add_motion p (length tree) nb else p), tp, sm) = (oi, p', tape', samples') ->
                  match oi with None => p' = p | Some i => WInv (r_tree St R unit (est_tree_step s i)) p' end).
    { intros x nb tp sm -> E. injection E as <- <- _ _. rewrite (est_tree_step_tree s (sel, x) Hs). fold tree. unfold est_select. cbn [fst snd].
      destruct (mv (fst (nth (clamp St tree sel) tree (dflt, None))) x); [apply add_motion_winv; exact HW|exact HW]. }
    match goal with |- context [if ?c then _ else _] => destruct c end; [apply FIN; reflexivity|].
    destruct samples as [|[x|] ss].
    - intros E. injection E as <- <- _ _. reflexivity.
    - destruct (nbrs tree x) as [|k0 nbt] eqn:En.
      + apply FIN. symmetry. exact En.
      + match goal with |- context [if ?c then _ else _] => destruct c end.
        * intros E. injection E as <- <- _ _. reflexivity.
        * apply FIN. symmetry. exact En.
    - intros E. injection E as <- <- _ _. reflexivity.
  Qed.

  (* the loop, with the state it ends in *)
  Fixpoint est_states (iters : nat) (s : rst) (p : pdf Re) (tape : list R) (samples : list (option St)) : rst * pdf Re :=
    match r_sol St R unit s with
    | Some _ => (s, p)
    | None =>
      match iters with
      | O => (s, p)
      | S k =>
        let '(i, p', tape', samples') := est_iter s p tape samples in
        match i with
        | None => est_states k s p' tape' samples'
        | Some i => est_states k (est_tree_step s i) p' tape' samples'
        end
      end
    end.
  Notation est_inputs := (est_inputs Re 1 Rdiv Rleb INR St dist mv sat gdist goal_state dflt radius goal_bias).
  Notation tloop := (tree_loop St R (nat * St) unit (ltb Re) (est_select St) (est_extend St mv) sat gdist dflt).
  Lemma est_states_inputs : forall iters (s : rst) p tape samples,
    est_states iters s p tape samples = (tloop s (fst (est_inputs iters s p tape samples)), snd (est_inputs iters s p tape samples)).
  Proof.
    induction iters as [|k IH]; intros s p tape samples; cbn [est_states EstModel.est_inputs]; change (T Re) with R.
    - destruct (r_sol St R unit s) eqn:Es; cbn [fst snd]; (destruct s as [tr ap so]; cbn [r_sol] in Es; subst so; reflexivity).
    - destruct (r_sol St R unit s) eqn:Es.
      + cbn [fst snd]. destruct s as [tr ap so]; cbn [r_sol] in Es; subst so; reflexivity.
      + destruct (est_iter s p tape samples) as [[[oi p'] tape'] samples']. destruct oi as [i|].
        * rewrite IH. fold (est_tree_step s i). destruct (est_inputs k (est_tree_step s i) p' tape' samples') as [l pf]. cbn [fst snd tree_loop].
          change (T Re) with R. rewrite Es. reflexivity.
        * apply IH.
  Qed.
  Lemma est_states_winv : forall iters (s : rst) p tape samples, WInv (r_tree St R unit s) p ->
    WInv (r_tree St R unit (fst (est_states iters s p tape samples))) (snd (est_states iters s p tape samples)).
  Proof.
    induction iters as [|k IH]; intros s p tape samples HW; cbn [est_states].
    - destruct (r_sol St R unit s); exact HW.
    - destruct (r_sol St R unit s) eqn:Es; [exact HW|].
      destruct (est_iter s p tape samples) as [[[oi p'] tape'] samples'] eqn:Ei.
      pose proof (est_iter_winv s p tape samples oi p' tape' samples' Es HW Ei) as H. destruct oi as [i|].
      + apply IH. exact H.
      + subst p'. apply IH. exact HW.
  Qed.

  (* the weights EST selects by: for every start set, iteration count, variate tape and sampler, the PDF after solve()
     satisfies PdfReal's invariant and the weight of motion j of the final tree is 1 / (1 + other motions within the radius) *)
  Theorem est_weights : forall starts iters tape samples, starts <> [] ->
    let res := est_solve Re 1 Rdiv Rleb INR St dist mv sat gdist goal_state dflt radius goal_bias starts iters tape samples in
    exists (tree : list tnode) (pf : pdf Re),
      fst (fst res) = map (fun n => (fst n, option_map fst (snd n))) tree /\ snd res = leaves pf /\ WInv tree pf.
  Proof.
    intros starts iters tape samples Hs. cbv zeta. unfold est_solve, est_run_inputs.
    destruct (add_starts_winv starts [] (empty Re) winv_empty) as (W0 & T0). cbn [app] in T0.
    destruct (add_starts [] (empty Re) starts) as [tree0 p0] eqn:Ea. cbn [fst snd] in W0, T0.
    pose proof (est_states_inputs iters (mkR St R unit tree0 None None) p0 tape samples) as E1.
    pose proof (est_states_winv iters (mkR St R unit tree0 None None) p0 tape samples W0) as W1.
    change (T Re) with R in *.
    destruct (est_inputs iters (mkR St R unit tree0 None None) p0 tape samples) as [ins pf] eqn:Ei. cbn [fst snd] in E1.
    rewrite E1 in W1. cbn [fst snd] in W1.
    exists (r_tree St R unit (tloop (mkR St R unit tree0 None None) ins)), pf.
    split; [|split; [reflexivity|exact W1]].
    unfold geo_solve, tree_solve, tree_call. cbn [app]. rewrite <- T0.
    destruct tree0 as [|n0 t0]; [destruct starts; [congruence|discriminate]|].
    cbn [fst]. reflexivity.
  Qed.

  (* ... and therefore what pdf_.sample(r) returns in any iteration: the motion whose interval of cumulated weights
     1 / (1 + neighbours) contains r times their total *)
  Lemma prefix_pos : forall (l : list R) n, (forall j, (j < n)%nat -> 0 < nth j l 0) -> (0 < n <= length l)%nat -> 0 < prefix l n.
  Proof.
    intros l n Hp Hn. induction n as [|k IH]; [lia|]. rewrite prefix_S.
    pose proof (Hp k ltac:(lia)) as Hk. destruct k as [|k']; [cbn [prefix]; destruct l; cbn [prefix]; lra|].
    assert (0 < prefix l (S k')) by (apply IH; [intros j Hj; apply Hp; lia|lia]). lra.
  Qed.
  Theorem est_selection_rule : forall (tree : list tnode) p r, WInv tree p -> tree <> [] -> 0 < r <= 1 ->
    exists i, pdf_sample Re r 1 p = SId i /\ (i < length tree)%nat /\
              prefix (leaves p) i < r * total p <= prefix (leaves p) (S i) /\
              forall j, (j < length tree)%nat -> nth j (leaves p) 0 = / (1 + INR (others tree j)).
  Proof.
    intros tree p r (HE & HW) Hne Hr. pose proof (einv_length p _ HE) as HL. destruct HE as (Ed & HR).
    assert (Hn : (0 < length tree)%nat) by (destruct tree; [congruence|cbn; lia]).
    assert (Hd : data p <> []) by (rewrite Ed; unfold canon; destruct (length tree); [lia|rewrite seq_S, map_app; destruct (map (fun i => (i, i)) (seq 0 n)); discriminate]).
    assert (Ht : 0 < total p).
    { unfold total. apply prefix_pos; [|lia]. intros j Hj. rewrite HL in Hj. rewrite (HW j Hj). apply Rinv_0_lt_compat. pose proof (pos_INR (others tree j)). lra. }
    destruct (sample_selects_prefix_interval p r HR Hd Hr Ht) as (id & i & Es & En & Hp).
    exists id. rewrite Ed in En. unfold canon in En.
    assert (Hi : (i < length tree)%nat).
    { assert (H : nth_error (map (fun i => (i, i)) (seq 0 (length tree))) i <> None) by congruence. apply nth_error_Some in H. rewrite map_length, seq_length in H. exact H. }
    assert (id = i).
    { apply (nth_error_nth _ _ (0%nat, 0%nat)) in En. change (0%nat, 0%nat) with ((fun i : nat => (i, i)) 0%nat) in En. rewrite map_nth, seq_nth in En by exact Hi. cbn in En. injection En as E. lia. }
    subst id. split; [exact Es|]. split; [exact Hi|]. split; [exact Hp|exact HW].
  Qed.
End EstW.
