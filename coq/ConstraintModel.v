(* ConstraintModel.v — ProjectedStateSpace::discreteGeodesic and ConstrainedStateSpace::geodesicInterpolate / interpolate
   (src/ompl/base/spaces/constraint/src/ProjectedStateSpace.cpp, ConstrainedStateSpace.cpp), generic over the arithmetic
   (proved over R, run on binary64) and over the state type: [interp] is the ambient (wrapped) space's interpolation,
   [project] Constraint::project (Some = Newton converged, the result is on the manifold), [dist] the ambient distance. *)
From Coq Require Import List Bool Arith.
Import ListNotations.

Record garith := mkGA { G : Type; g0 : G; gadd : G -> G -> G; gmul : G -> G -> G; gdiv : G -> G -> G; gle : G -> G -> bool; glt : G -> G -> bool; geps : G }.

Section Geo.
  Variable A : garith.
  Variable St : Type.
  Variable dist : St -> St -> G A.
  Variable interp : St -> St -> G A -> St.
  Variable project : St -> option St.
  Variable valid : St -> bool.
  Variables delta lambda : G A.
  Notation "x <=. y" := (gle A x y) (at level 70).
  Notation "x <. y" := (glt A x y) (at level 70).

  (* one iteration of the do-while: None = the loop broke, Some (state, newDist, total') = a state was appended *)
  Definition geo_step (ipol : bool) (previous to : St) (d total maxlen : G A) : option (St * G A * G A) :=
    match project (interp previous to (gdiv A delta d)) with
    | None => None
    | Some scratch =>
        if negb (ipol || valid scratch) then None
        else let step := dist previous scratch in
             if gmul A lambda delta <. step then None
             else let total' := gadd A total step in
                  if maxlen <. total' then None
                  else let nd := dist scratch to in
                       if d <=. nd then None else Some (scratch, nd, total')
    end.
  (* the loop; [acc] = states appended so far, newest first; returns (final distance, appended states, oldest first) *)
  Fixpoint geo_loop (fuel : nat) (ipol : bool) (previous to : St) (d total maxlen : G A) (acc : list St) : G A * list St :=
    match fuel with
    | O => (d, rev acc)
    | S k => match geo_step ipol previous to d total maxlen with
             | None => (d, rev acc)
             | Some (s, nd, total') => if delta <=. nd then geo_loop k ipol s to nd total' maxlen (s :: acc) else (nd, rev (s :: acc))
             end
    end.
  (* discreteGeodesic(from, to, interpolate, &geodesic): success flag and the geodesic (starting with a copy of from) *)
  Definition discrete_geodesic (fuel : nat) (ipol : bool) (from to : St) : bool * list St :=
    let d0 := dist from to in
    if d0 <=. delta then (true, [from])
    else let '(d, l) := geo_loop fuel ipol from to d0 (g0 A) (gmul A d0 lambda) [] in (d <=. delta, from :: l).

  (* geodesicInterpolate: partial sums of the distances, then the vertex closest to fraction t *)
  Fixpoint partial_sums (prev : St) (acc : G A) (l : list St) : list (G A) :=
    match l with [] => [] | s :: r => let a := gadd A acc (dist prev s) in a :: partial_sums s a r end.
  Fixpoint first_above (ds : list (G A)) (lastv t : G A) (i n : nat) : nat :=   (* while (i < n-1 && d[i]/last <= t) i++ *)
    match ds with
    | [] => i
    | x :: r => if Nat.ltb i (n - 1) && (gdiv A x lastv <=. t) then first_above r lastv t (S i) n else i
    end.
End Geo.

(* ConstrainedStateSpace::geodesicInterpolate(geodesic, t): the geodesic vertex closest (in arc-length fraction) to t.
   [gsub], [gabs], [g1]: subtraction, absolute value and 1 of the arithmetic.  None = an access outside the vector. *)
Section GeoInterp.
  Variable A : garith.
  Variable St : Type.
  Variable dist : St -> St -> G A.
  Variable gsub : G A -> G A -> G A.
  Variable gabs : G A -> G A.
  Variable g1 : G A.
  Definition geodesic_interpolate (g : list St) (t : G A) : option St :=
    match g with
    | [] => None
    | s0 :: rest =>
      let n := length g in
      let d := g0 A :: partial_sums A St dist s0 (g0 A) rest in              (* d[0] = 0, d[i] = d[i-1] + distance *)
      let lastv := last d (g0 A) in
      if gle A lastv (geps A) then Some s0
      else
        let i := first_above A d lastv t 0 n in                              (* while (i < n-1 && d[i]/last <= t) i++ *)
        let t1 := gsub (gdiv A (nth i d (g0 A)) lastv) t in
        let t2 := if Nat.leb i (n - 2) then gsub (gdiv A (nth (S i) d (g0 A)) lastv) t else g1 in
        if glt A t1 t2 || glt A (gabs (gsub t1 t2)) (geps A) then nth_error g i else nth_error g (S i)
    end.
  (* ConstrainedStateSpace::interpolate: the geodesic vertex when the traversal succeeds, else `from' *)
  Definition constrained_interpolate (geo : bool * list St) (from : St) (t : G A) : option St :=
    if fst geo then geodesic_interpolate (snd geo) t else Some from.
End GeoInterp.
