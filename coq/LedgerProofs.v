(* LedgerProofs.v — meaning of the admission rule, the status constructor, and the tree-planner skeleton *)
From Coq Require Import List ZArith Bool Lia.
From OmplV Require Import LedgerModel.
Import ListNotations.
Local Open Scope Z_scope.

(* ---------- status *)
Lemma status_of_flags_solution : forall h a, is_solution_status (status_of_flags h a) = h.
Proof. intros [|] [|]; reflexivity. Qed.
Lemma status_of_flags_approx : forall h a, (status_of_flags h a =? ST_APPROXIMATE) = h && a.
Proof. intros [|] [|]; reflexivity. Qed.
Lemma status_of_flags_exact : forall h a, (status_of_flags h a =? ST_EXACT) = h && negb a.
Proof. intros [|] [|]; reflexivity. Qed.

(* ---------- what an admitted run guarantees *)
Fixpoint consecutive {A} (R : A -> A -> Prop) (l : list A) : Prop :=
  match l with
  | a :: ((b :: _) as tl) => R a b /\ consecutive R tl
  | _ => True
  end.
Definition Covered (r : run) (a b : pstate) : Prop :=
  p_id a = p_id b \/ In (p_id a, p_id b) (r_acc r) \/ (r_sym r = true /\ In (p_id b, p_id a) (r_acc r)).

Lemma pair_eqb_eq : forall x y, pair_eqb x y = true <-> x = y.
Proof.
  intros [a b] [c d]. unfold pair_eqb. cbn. rewrite andb_true_iff, !Z.eqb_eq. split.
  - intros [-> ->]. reflexivity.
  - intros H. inversion H. auto.
Qed.
Lemma existsb_pair : forall x l, existsb (pair_eqb x) l = true <-> In x l.
Proof.
  intros x l. rewrite existsb_exists. split.
  - intros [y [Hy He]]. apply pair_eqb_eq in He. subst. exact Hy.
  - intros H. exists x. split; [exact H | apply pair_eqb_eq; reflexivity].
Qed.
Lemma covered_spec : forall sym acc a b, covered sym acc a b = true <-> (a = b \/ In (a, b) acc \/ (sym = true /\ In (b, a) acc)).
Proof.
  intros sym acc a b. unfold covered. rewrite !orb_true_iff, andb_true_iff, Z.eqb_eq, !existsb_pair. tauto.
Qed.
Lemma pairs_covered_spec : forall r p, pairs_covered (r_sym r) (r_acc r) p = true -> consecutive (Covered r) p.
Proof.
  intros r p. induction p as [|a tl IH]; [exact (fun _ => I)|].
  destruct tl as [|b tl']; [exact (fun _ => I)|].
  intros H. change (covered (r_sym r) (r_acc r) (p_id a) (p_id b) && pairs_covered (r_sym r) (r_acc r) (b :: tl') = true) in H.
  apply andb_prop in H. destruct H as [H1 H2]. split; [|apply IH; exact H2].
  apply covered_spec in H1. exact H1.
Qed.

Record C01_solution (r : run) : Prop := {
  c_nonempty : r_path r <> [];
  c_held : r_has_path r = true;
  c_start : exists a tl, r_path r = a :: tl /\ In (p_id a, true, true) (r_starts r);
  c_bounds : Forall (fun s => p_inb s = true) (r_path r);
  c_goal : exists l, last_state (r_path r) = Some l /\
             (if r_approx r then r_status r = ST_APPROXIMATE /\ Z.abs (r_diff r - p_gdist l) <= r_tol r
              else r_status r = ST_EXACT /\ p_goal l = true);
  c_stretch : Forall (fun s => s_maxinv s < stretch_limit) (r_segs r);
  c_nsegs : Z.of_nat (length (r_segs r)) = Z.of_nat (length (r_path r)) - 1;
  c_classA : r_classA r = true -> Forall (fun s => p_valid s = true) (r_path r) /\
             Forall (fun s => s_recheck s = true) (r_segs r) /\ consecutive (Covered r) (r_path r) }.

Theorem admissible_sound : forall r, admissible r = true ->
  (is_solution_status (r_status r) = true -> C01_solution r) /\
  (is_solution_status (r_status r) = false -> r_paths_after r = r_paths_before r).
Proof.
  intros r H. unfold admissible, adjudicate in H.
  destruct (is_solution_status (r_status r)) eqn:Es; split; try discriminate; intros _.
  - destruct (negb (r_has_path r) || match r_path r with [] => true | _ :: _ => false end) eqn:E0; [discriminate|].
    destruct (negb (start_ok (r_starts r) (r_path r))) eqn:E1; [discriminate|].
    destruct (negb (forallb p_inb (r_path r))) eqn:E2; [discriminate|].
    destruct (r_classA r && negb (forallb p_valid (r_path r))) eqn:E3; [discriminate|].
    destruct (negb (goal_ok r)) eqn:E4; [discriminate|].
    destruct (negb (segs_ok r)) eqn:E5; [discriminate|].
    destruct (r_classA r && negb (pairs_covered (r_sym r) (r_acc r) (r_path r))) eqn:E6; [discriminate|].
    apply orb_false_elim in E0. destruct E0 as [E0a E0b]. apply negb_false_iff in E0a, E1, E2, E4, E5.
    unfold segs_ok in E5. apply andb_prop in E5. destruct E5 as [E5a E5b]. apply Z.eqb_eq in E5a.
    rewrite forallb_forall in E5b.
    constructor.
    + destruct (r_path r); [discriminate | discriminate].
    + exact E0a.
    + unfold start_ok in E1. destruct (r_path r) as [|a tl]; [discriminate|]. exists a, tl. split; [reflexivity|].
      apply existsb_exists in E1. destruct E1 as [[[i v] b] [Hin Hc]].
      apply andb_prop in Hc. destruct Hc as [Hc Hb]. apply andb_prop in Hc. destruct Hc as [Hi Hv].
      apply Z.eqb_eq in Hi. subst. exact Hin.
    + rewrite Forall_forall. rewrite forallb_forall in E2. exact E2.
    + unfold goal_ok in E4. destruct (last_state (r_path r)) as [l|]; [|discriminate]. exists l. split; [reflexivity|].
      destruct (r_approx r).
      * apply andb_prop in E4. destruct E4 as [Hs Hd].
        apply Z.eqb_eq in Hs. apply Z.leb_le in Hd. auto.
      * apply andb_prop in E4. destruct E4 as [Hs Hg]. apply Z.eqb_eq in Hs. auto.
    + rewrite Forall_forall. intros s Hs. specialize (E5b s Hs). apply andb_prop in E5b. destruct E5b as [Hm _]. apply Z.ltb_lt in Hm. exact Hm.
    + exact E5a.
    + intros HA. rewrite HA in E6, E3. cbn in E6, E3. apply negb_false_iff in E6, E3. split; [rewrite Forall_forall; rewrite forallb_forall in E3; exact E3|]. split.
      * rewrite Forall_forall. intros s Hs. specialize (E5b s Hs). apply andb_prop in E5b. destruct E5b as [_ Hr].
        rewrite HA in Hr. cbn in Hr. exact Hr.
      * apply pairs_covered_spec. exact E6.
  - destruct (negb (r_paths_after r =? r_paths_before r)) eqn:E; [discriminate|].
    apply negb_false_iff in E. apply Z.eqb_eq in E. exact E.
Qed.

(* ---------- tree skeleton *)
Section Tree.
  Variable mv : Z -> Z -> bool.

  Fixpoint wf (root : Z) (es : list (Z * Z)) : Prop :=
    match es with
    | [] => True
    | (c, p) :: es' => wf root es' /\ in_tree (mkT root es') p = true /\ in_tree (mkT root es') c = false /\ mv p c = true
    end.

  Lemma extend_wf : forall t p c, wf (t_root t) (t_edges t) -> wf (t_root (extend mv t p c)) (t_edges (extend mv t p c)).
  Proof.
    intros [root es] p c H. unfold extend. cbn [t_root t_edges].
    destruct (in_tree (mkT root es) p) eqn:Ep; cbn [andb]; [|exact H].
    destruct (in_tree (mkT root es) c) eqn:Ec; cbn [negb andb]; [exact H|].
    destruct (mv p c) eqn:Em; [|exact H]. cbn [t_root t_edges wf]. auto.
  Qed.
  Lemma extend_root : forall t p c, t_root (extend mv t p c) = t_root t.
  Proof. intros t p c. unfold extend. destruct (in_tree t p && negb (in_tree t c) && mv p c); reflexivity. Qed.

  Theorem grow_wf : forall ops root,
      let t := fold_left (fun t pc => extend mv t (fst pc) (snd pc)) ops (mkT root []) in
      t_root t = root /\ wf root (t_edges t).
  Proof.
    intros ops root.
    assert (G : forall ops t, wf (t_root t) (t_edges t) ->
                let t' := fold_left (fun t pc => extend mv t (fst pc) (snd pc)) ops t in
                t_root t' = t_root t /\ wf (t_root t) (t_edges t')).
    { clear ops. induction ops as [|[p c] ops IH]; intros t Hw; cbn [fold_left]; [split; [reflexivity | exact Hw]|].
      cbn [fst snd]. specialize (IH (extend mv t p c)). rewrite extend_root in IH.
      pose proof (extend_wf t p c Hw) as Hw'. rewrite extend_root in Hw'. apply IH. exact Hw'. }
    apply (G ops (mkT root [])). exact I.
  Qed.

  Lemma parent_older : forall root es c p y, (y =? c) = false ->
      parent_of (mkT root ((c, p) :: es)) y = parent_of (mkT root es) y.
  Proof.
    intros root es c p y H. unfold parent_of. cbn [t_edges find fst]. rewrite Z.eqb_sym in H. rewrite Z.eqb_sym. rewrite Z.eqb_sym in H. rewrite H. reflexivity.
  Qed.

  Lemma in_tree_parent : forall root es y q, wf root es -> parent_of (mkT root es) y = Some q -> in_tree (mkT root es) q = true.
  Proof.
    intros root es. induction es as [|[c p] es IH]; intros y q Hw Hp.
    - discriminate.
    - destruct Hw as [Hw [Hpin [Hcn Hm]]]. unfold parent_of in Hp. cbn [t_edges find fst] in Hp.
      destruct (c =? y) eqn:E.
      + inversion Hp; subst. unfold in_tree in *. cbn [t_root t_edges existsb fst] in *.
        apply orb_true_iff in Hpin. apply orb_true_iff. destruct Hpin as [H|H]; [left; exact H | right; apply orb_true_iff; right; exact H].
      + assert (Hq : in_tree (mkT root es) q = true) by (apply (IH y q Hw); unfold parent_of; exact Hp).
        unfold in_tree in *. cbn [t_root t_edges existsb fst] in *.
        apply orb_true_iff in Hq. apply orb_true_iff. destruct Hq as [H|H]; [left; exact H | right; apply orb_true_iff; right; exact H].
  Qed.

  Lemma in_tree_older : forall root es c p y, in_tree (mkT root ((c, p) :: es)) y = true -> (y =? c) = false -> in_tree (mkT root es) y = true.
  Proof.
    intros root es c p y H Hn. unfold in_tree in *. cbn [t_root t_edges existsb fst] in *.
    apply orb_true_iff in H. apply orb_true_iff. destruct H as [H|H]; [left; exact H|].
    apply orb_true_iff in H. destruct H as [H|H]; [|right; exact H]. rewrite Z.eqb_sym in H. rewrite H in Hn. discriminate.
  Qed.

  Lemma chain_older : forall root es c p, wf root es -> in_tree (mkT root es) c = false ->
      forall k y acc, in_tree (mkT root es) y = true ->
        chain (mkT root ((c, p) :: es)) k y acc = chain (mkT root es) k y acc.
  Proof.
    intros root es c p Hw Hc. induction k as [|k IH]; intros y acc Hy; [reflexivity|].
    cbn [chain]. assert (Hn : (y =? c) = false).
    { destruct (y =? c) eqn:E; [|reflexivity]. apply Z.eqb_eq in E. subst. rewrite Hy in Hc. discriminate. }
    rewrite (parent_older root es c p y Hn).
    destruct (parent_of (mkT root es) y) as [q|] eqn:Ep; [|reflexivity].
    apply IH. eapply in_tree_parent; eassumption.
  Qed.

  Lemma ids_covered_cons_hd : forall am a b tl, ids_covered am (a :: b :: tl) = covered false am a b && ids_covered am (b :: tl).
  Proof. reflexivity. Qed.

  (* walking the parent chain from any node of a well-formed tree: reaches the root, and every step is an accepted motion *)
  Lemma chain_ok : forall root es am, wf root es ->
      (forall c p, In (c, p) es -> In (p, c) am) ->
      forall fuel x acc, in_tree (mkT root es) x = true -> (length es <= fuel)%nat -> ids_covered am (x :: acc) = true ->
        let l := chain (mkT root es) fuel x acc in
        ids_covered am l = true /\ hd_error l = Some root /\ exists pre, l = pre ++ x :: acc.
  Proof.
    intros root es am. induction es as [|[c p] es IH]; intros Hw Ham fuel x acc Hx Hf Hc.
    - assert (Hxr : x = root).
      { unfold in_tree in Hx. cbn in Hx. rewrite orb_false_r in Hx. apply Z.eqb_eq in Hx. exact Hx. }
      assert (E : chain (mkT root []) fuel x acc = x :: acc) by (destruct fuel; reflexivity).
      cbn zeta. rewrite E. subst x. split; [exact Hc|]. split; [reflexivity|]. exists []. reflexivity.
    - destruct Hw as [Hw [Hpin [Hcn Hm]]].
      assert (Ham' : forall c0 p0, In (c0, p0) es -> In (p0, c0) am) by (intros c0 p0 H0; apply Ham; right; exact H0).
      destruct (x =? c) eqn:Exc.
      + apply Z.eqb_eq in Exc. subst x.
        destruct fuel as [|k]; [cbn in Hf; lia|]. cbn [length] in Hf.
        assert (E : chain (mkT root ((c, p) :: es)) (S k) c acc = chain (mkT root es) k p (c :: acc)).
        { cbn [chain]. unfold parent_of. cbn [t_edges find fst]. rewrite Z.eqb_refl. cbn [snd].
          apply (chain_older root es c p Hw Hcn k p (c :: acc) Hpin). }
        cbn zeta. rewrite E.
        assert (Hc2 : ids_covered am (p :: c :: acc) = true).
        { rewrite ids_covered_cons_hd. rewrite Hc. rewrite andb_true_r. apply covered_spec. right. left. apply Ham. left. reflexivity. }
        destruct (IH Hw Ham' k p (c :: acc) Hpin ltac:(lia) Hc2) as [H1 [H2 [pre H3]]].
        split; [exact H1|]. split; [exact H2|]. exists (pre ++ [p]). rewrite <- app_assoc. exact H3.
      + pose proof (in_tree_older root es c p x Hx Exc) as Hx'.
        cbn zeta. rewrite (chain_older root es c p Hw Hcn fuel x acc Hx').
        apply (IH Hw Ham' fuel x acc Hx'); [cbn [length] in Hf; lia | exact Hc].
  Qed.

  Lemma accepted_all_mv : forall root es, wf root es -> forall a b, In (a, b) (accepted_motions (mkT root es)) -> mv a b = true.
  Proof.
    intros root es. induction es as [|[c p] es IH]; intros Hw a b Hin; [destruct Hin|].
    destruct Hw as [Hw [_ [_ Hm]]]. unfold accepted_motions in Hin. cbn [t_edges map fst snd] in Hin.
    destruct Hin as [Hin|Hin]; [inversion Hin; subst; exact Hm | apply (IH Hw); exact Hin].
  Qed.

  (* for EVERY history of extension attempts: the report for any node of the tree starts at the root, ends at that
     node, and every consecutive pair is a motion the validator accepted *)
  Theorem tree_report_admissible : forall ops root x,
      let t := fold_left (fun t pc => extend mv t (fst pc) (snd pc)) ops (mkT root []) in
      in_tree t x = true ->
      ids_covered (accepted_motions t) (report_path t x) = true /\
      hd_error (report_path t x) = Some root /\
      (exists pre, report_path t x = pre ++ [x]) /\
      (forall a b, In (a, b) (accepted_motions t) -> mv a b = true).
  Proof.
    intros ops root x t Hx. destruct (grow_wf ops root) as [Hr Hw]. fold t in Hr, Hw.
    destruct t as [r es]. cbn [t_root t_edges] in *. subst r.
    assert (Ham : forall c p, In (c, p) es -> In (p, c) (accepted_motions (mkT root es))).
    { intros c p H. unfold accepted_motions. cbn [t_edges]. apply (in_map (fun e => (snd e, fst e)) es (c, p)) in H. exact H. }
    destruct (chain_ok root es _ Hw Ham (length es) x [] Hx (le_n _) eq_refl) as [H1 [H2 H3]].
    unfold report_path. cbn [t_edges]. split; [exact H1|]. split; [exact H2|]. split; [exact H3|].
    apply accepted_all_mv. exact Hw.
  Qed.
End Tree.

(* ---------- PathGeometric::check *)
Section PathCheckP.
  Variable St : Type.
  Variables (valid : St -> bool) (mv : St -> St -> bool).
  Lemma motions_ok_spec : forall p, motions_ok St mv p = true <-> consecutive (fun a b => mv a b = true) p.
  Proof.
    induction p as [|a tl IH]; [cbn; tauto|]. destruct tl as [|b tl']; [cbn; tauto|].
    change (motions_ok St mv (a :: b :: tl')) with (mv a b && motions_ok St mv (b :: tl')).
    change (consecutive (fun a0 b0 => mv a0 b0 = true) (a :: b :: tl')) with (mv a b = true /\ consecutive (fun a0 b0 => mv a0 b0 = true) (b :: tl')).
    rewrite andb_true_iff, IH. tauto.
  Qed.
  Theorem path_check_meaning : forall p, path_check St valid mv p = true <->
      (p = [] \/ exists a tl, p = a :: tl /\ valid a = true /\ consecutive (fun x y => mv x y = true) p).
  Proof.
    intros [|a tl]; [cbn; split; [left; reflexivity | reflexivity]|].
    unfold path_check. rewrite andb_true_iff, motions_ok_spec. split.
    - intros [H1 H2]. right. exists a, tl. auto.
    - intros [H|[a' [tl' [E [H1 H2]]]]]; [discriminate|]. inversion E; subst. auto.
  Qed.
End PathCheckP.
