(* CodecPdProofs.v — PlannerDataStorage: storing a planner-data graph and loading it back (CodecModel.store_pd /
   load_pd) returns the same vertices (tags and states, in index order), the same edges with their weights and the
   same start marks; the goal marks come back except on vertices that are also marked start (the stored vertex type
   has one value per vertex: the known finding C09-start-and-goal-vertex, here characterised exactly); every strict
   prefix of the stream, a wrong marker and another space's signature are rejected. *)
From Coq Require Import List ZArith Bool Arith Lia Sorted.
From OmplV Require Import CodecModel CodecProofs.
Import ListNotations.

Definition ssorted (l : list nat) : Prop := StronglySorted lt l.
Definition mem (i : nat) (l : list nat) : bool := existsb (Nat.eqb i) l.
Lemma mem_spec i l : mem i l = true <-> In i l.
Proof.
  unfold mem. rewrite existsb_exists. split.
  - intros (x & Hx & E). apply Nat.eqb_eq in E. subst. exact Hx.
  - intros H. exists i. split; [exact H|apply Nat.eqb_refl].
Qed.

Lemma ssorted_sorted_nth l : ssorted l -> sorted_nth l.
Proof.
  induction 1 as [|a l S IH Fa]; [intros i j H; simpl in H; lia|]. apply sorted_nth_cons; [exact IH|].
  rewrite Forall_forall in Fa. intros y Hy. specialize (Fa y Hy). lia.
Qed.
Lemma bs_mem l i : ssorted l -> binary_search l i = mem i l.
Proof.
  intros Sl. destruct (mem i l) eqn:M.
  - apply binary_search_correct; [apply ssorted_sorted_nth; exact Sl|apply mem_spec; exact M].
  - destruct (binary_search l i) eqn:B; [|reflexivity]. apply binary_search_correct in B; [|apply ssorted_sorted_nth; exact Sl].
    apply mem_spec in B. congruence.
Qed.

(* the marks with index below k *)
Definition below (k : nat) (l : list nat) : list nat := filter (fun i => i <? k) l.
Lemma below_all_ge k l : (forall y, In y l -> k <= y) -> below k l = [].
Proof.
  induction l as [|a t IH]; intros H; [reflexivity|]. cbn [below filter]. destruct (Nat.ltb_spec a k) as [L|L].
  - specialize (H a (or_introl eq_refl)). lia.
  - apply IH. intros y Hy. apply H. right. exact Hy.
Qed.
Lemma below_0 l : below 0 l = [].
Proof. apply below_all_ge. intros; lia. Qed.
Lemma below_succ k l : ssorted l -> below (S k) l = below k l ++ (if mem k l then [k] else []).
Proof.
  induction 1 as [|a t St IH Fa]; [reflexivity|]. rewrite Forall_forall in Fa. cbn [below filter mem existsb].
  fold (below (S k) t). fold (below k t). fold (mem k t).
  destruct (Nat.ltb_spec a k) as [L|L].
  - replace (a <? S k) with true by (symmetry; apply Nat.ltb_lt; lia). replace (k =? a) with false by (symmetry; apply Nat.eqb_neq; lia).
    cbn [orb app]. rewrite IH. reflexivity.
  - assert (Z1 : below k t = []) by (apply below_all_ge; intros y Hy; specialize (Fa y Hy); lia).
    rewrite Z1. destruct (Nat.eqb_spec k a) as [->|N].
    + replace (a <? S a) with true by (symmetry; apply Nat.ltb_lt; lia). cbn [orb app].
      assert (Z2 : below (S a) t = []) by (apply below_all_ge; intros y Hy; specialize (Fa y Hy); lia). rewrite Z2. reflexivity.
    + replace (a <? S k) with false by (symmetry; apply Nat.ltb_ge; lia). cbn [orb app]. rewrite IH, Z1. reflexivity.
Qed.
Lemma below_all k l : Forall (fun i => i < k) l -> below k l = l.
Proof.
  induction 1 as [|a t Ha _ IH]; [reflexivity|]. cbn [below filter]. replace (a <? k) with true by (symmetry; apply Nat.ltb_lt; exact Ha).
  f_equal. exact IH.
Qed.
Lemma below_sorted k l : ssorted l -> ssorted (below k l).
Proof.
  induction 1 as [|a t St IH Fa]; [constructor|]. cbn [below filter]. destruct (a <? k); [|exact IH]. constructor; [exact IH|].
  rewrite Forall_forall in *. intros y Hy. apply filter_In in Hy. apply Fa. tauto.
Qed.
Lemma below_lt k l y : In y (below k l) -> y < k.
Proof. intros H. apply filter_In in H. destruct H as (_ & H). apply Nat.ltb_lt in H. exact H. Qed.
Lemma below_filter k (f : nat -> bool) l : below k (filter f l) = filter f (below k l).
Proof. unfold below. induction l as [|a t IH]; [reflexivity|]. cbn [filter]. destruct (f a) eqn:F, (a <? k) eqn:L; cbn [filter]; rewrite ?F, ?L, IH; reflexivity. Qed.

(* appending an index above everything held keeps the vector as it is after the sort *)
Lemma insert_sorted_top x l : (forall y, In y l -> y < x) -> insert_sorted x l = l ++ [x].
Proof.
  induction l as [|a t IH]; intros H; [reflexivity|]. cbn [insert_sorted]. replace (x <=? a) with false by (symmetry; apply Nat.leb_gt; apply H; left; reflexivity).
  cbn [app]. f_equal. apply IH. intros y Hy. apply H. right. exact Hy.
Qed.
Lemma sort_nat_id l : ssorted l -> sort_nat l = l.
Proof.
  induction 1 as [|a t St IH Fa]; [reflexivity|]. cbn [sort_nat]. rewrite IH. destruct t as [|b t']; [reflexivity|].
  cbn [insert_sorted]. rewrite Forall_forall in Fa. replace (a <=? b) with true by (symmetry; apply Nat.leb_le; specialize (Fa b (or_introl eq_refl)); lia).
  reflexivity.
Qed.
Lemma ssorted_snoc l x : ssorted l -> (forall y, In y l -> y < x) -> ssorted (l ++ [x]).
Proof.
  induction 1 as [|a t St IH Fa]; intros H; cbn [app]; [repeat constructor|]. constructor.
  - apply IH. intros y Hy. apply H. right. exact Hy.
  - rewrite Forall_forall in *. intros y Hy. apply in_app_or in Hy. destruct Hy as [Hy|[<-|[]]]; [apply Fa; exact Hy|apply H; left; reflexivity].
Qed.
Lemma sort_snoc l x : ssorted l -> (forall y, In y l -> y < x) -> sort_nat (l ++ [x]) = l ++ [x].
Proof. intros Sl H. apply sort_nat_id. apply ssorted_snoc; assumption. Qed.

(* ---- well-formed planner data ---- *)
Definition pd_wf (sp : space) (g : pdata) : Prop :=
  Forall (fun v => exists st, deserialize sp (snd v) = Some (st, [])) (verts g) /\
  ssorted (starts g) /\ ssorted (goals g) /\
  Forall (fun i => i < length (verts g)) (starts g) /\ Forall (fun i => i < length (verts g)) (goals g).
(* the goal marks that survive: a vertex marked both start and goal is stored as START *)
Definition goals_eff (g : pdata) : list nat := filter (fun i => negb (mem i (starts g))) (goals g).

Definition vtok (g : pdata) (iv : nat * (Z * list cell)) : tok := TVertex (fst (snd iv)) (snd (snd iv)) (vtype g (fst iv)).

Lemma vtype_cases sp g i : pd_wf sp g ->
  vtype g i = (if mem i (starts g) then 1 else if mem i (goals g) then 2 else 0)%Z.
Proof. intros (_ & S1 & S2 & _). unfold vtype. rewrite (bs_mem _ i S1), (bs_mem _ i S2). reflexivity. Qed.

Lemma load_verts_store sp g (W : pd_wf sp g) : forall vs acc rest,
  Forall (fun v => exists st, deserialize sp (snd v) = Some (st, [])) vs ->
  starts acc = below (length (verts acc)) (starts g) ->
  goals acc = below (length (verts acc)) (goals_eff g) ->
  load_verts sp (length vs) (map (vtok g) (combine (seq (length (verts acc)) (length vs)) vs) ++ rest) acc =
  LOk (mkPD (verts acc ++ vs) (edges acc) (below (length (verts acc) + length vs) (starts g))
            (below (length (verts acc) + length vs) (goals_eff g)), rest).
Proof.
  pose proof W as (_ & S1 & S2 & _).
  assert (SG : ssorted (goals_eff g)).
  { unfold goals_eff. clear - S2. induction S2 as [|a t St IH Fa]; [constructor|]. cbn [filter]. destruct (negb (mem a (starts g))); [|exact IH].
    constructor; [exact IH|]. rewrite Forall_forall in *. intros y Hy. apply filter_In in Hy. apply Fa. tauto. }
  induction vs as [|[tag cs] t IH]; intros acc rest Hv Es Eg.
  - cbn [length load_verts map combine seq app]. rewrite Nat.add_0_r, app_nil_r, <- Es, <- Eg. destruct acc; reflexivity.
  - inversion Hv as [|? ? (st & D) Ht]; subst. cbn [snd] in D.
    cbn [length seq combine map app load_verts]. unfold vtok at 1. cbn [fst snd]. rewrite D.
    set (i := length (verts acc)) in *.
    set (g1 := add_vertex tag cs acc).
    rewrite (vtype_cases sp g i W).
    assert (L1 : length (verts g1) = S i) by (unfold g1, add_vertex; cbn [verts]; rewrite app_length; cbn [length]; lia).
    assert (BS : forall y, In y (starts acc) -> y < i) by (intros y Hy; rewrite Es in Hy; apply (below_lt _ _ _ Hy)).
    assert (BG : forall y, In y (goals acc) -> y < i) by (intros y Hy; rewrite Eg in Hy; apply (below_lt _ _ _ Hy)).
    assert (SA : ssorted (starts acc)) by (rewrite Es; apply below_sorted; exact S1).
    assert (GA : ssorted (goals acc)) by (rewrite Eg; apply below_sorted; exact SG).
    assert (NS : mem i (starts acc) = false) by (destruct (mem i (starts acc)) eqn:M; [apply mem_spec in M; specialize (BS i M); lia|reflexivity]).
    assert (NG : mem i (goals acc) = false) by (destruct (mem i (goals acc)) eqn:M; [apply mem_spec in M; specialize (BG i M); lia|reflexivity]).
    assert (ME : mem i (goals_eff g) = negb (mem i (starts g)) && mem i (goals g)).
    { unfold goals_eff. destruct (negb (mem i (starts g)) && mem i (goals g)) eqn:E.
      - apply andb_true_iff in E. destruct E as (E1 & E2). apply mem_spec. apply filter_In. split; [apply mem_spec; exact E2|exact E1].
      - destruct (mem i (filter (fun j => negb (mem j (starts g))) (goals g))) eqn:M; [|reflexivity].
        apply mem_spec in M. apply filter_In in M. destruct M as (M1 & M2). apply mem_spec in M1. rewrite M1, M2 in E. discriminate. }
    match goal with |- load_verts sp (length t) ?l ?g2 = _ => set (acc2 := g2) end.
    assert (V2 : verts acc2 = verts acc ++ [(tag, cs)] /\ edges acc2 = edges acc /\
                 starts acc2 = below (S i) (starts g) /\ goals acc2 = below (S i) (goals_eff g)).
    { assert (G1v : verts g1 = verts acc ++ [(tag, cs)]) by reflexivity. assert (G1e : edges g1 = edges acc) by reflexivity.
      assert (G1s : starts g1 = starts acc) by reflexivity. assert (G1g : goals g1 = goals acc) by reflexivity.
      unfold acc2. rewrite (below_succ i _ S1), (below_succ i _ SG), ME, <- Es, <- Eg. clearbody g1.
      destruct (mem i (starts g)) eqn:M1; cbn [negb andb Z.eqb Pos.eqb].
      - unfold mark_start. rewrite G1s, (bs_mem _ i SA), NS. cbn [verts edges starts goals].
        rewrite G1v, G1e, G1g, (sort_snoc _ i SA BS), app_nil_r. auto.
      - destruct (mem i (goals g)) eqn:M2; cbn [Z.eqb Pos.eqb].
        + unfold mark_goal. rewrite G1g, (bs_mem _ i GA), NG. cbn [verts edges starts goals].
          rewrite G1v, G1e, G1s, (sort_snoc _ i GA BG), app_nil_r. auto.
        + rewrite !app_nil_r. auto. }
    destruct V2 as (Vv & Ve & Vs & Vg).
    assert (L2 : length (verts acc2) = S i) by (rewrite Vv, app_length; cbn [length]; fold i; lia).
    specialize (IH acc2 rest Ht). rewrite L2 in IH. rewrite IH; [|exact Vs|exact Vg].
    rewrite Vv, Ve, <- app_assoc. cbn [app]. replace (S i + length t) with (i + S (length t)) by lia. reflexivity.
Qed.

Lemma load_edges_store es : forall g rest,
  load_edges (length es) (map (fun e => TEdge (fst (fst e)) (snd (fst e)) (snd e)) es ++ rest) g
  = LOk (mkPD (verts g) (edges g ++ es) (starts g) (goals g)).
Proof.
  induction es as [|[[u v] w] t IH]; intros g rest; cbn [length map app load_edges fst snd].
  - rewrite app_nil_r. destruct g; reflexivity.
  - rewrite IH. cbn [verts edges starts goals]. rewrite <- app_assoc. reflexivity.
Qed.

Theorem load_store_pd sp g : pd_wf sp g ->
  load_pd sp (store_pd sp g) = LOk (mkPD (verts g) (edges g) (starts g) (goals_eff g)).
Proof.
  intros W. pose proof W as (Hv & S1 & S2 & B1 & B2). unfold store_pd, load_pd. cbn [app]. rewrite Z.eqb_refl, sig_eqb_refl. cbn [negb].
  pose proof (load_verts_store sp g W (verts g) pd_empty (map (fun e => TEdge (fst (fst e)) (snd (fst e)) (snd e)) (edges g)) Hv (eq_sym (below_0 _)) (eq_sym (below_0 _))) as LV.
  cbn [pd_empty verts length Nat.add app edges] in LV. unfold vtok in LV. rewrite LV.
  pose proof (load_edges_store (edges g) (mkPD (verts g) [] (below (length (verts g)) (starts g)) (below (length (verts g)) (goals_eff g))) []) as LE.
  rewrite app_nil_r in LE. rewrite LE. cbn [verts edges starts goals app]. rewrite (below_all _ _ B1).
  f_equal. f_equal. apply below_all. unfold goals_eff. clear - B2. induction B2 as [|a t Ha _ IH]; [constructor|]. cbn [filter].
  destruct (negb (mem a (starts g))); [constructor; assumption|exact IH].
Qed.
(* with disjoint start and goal marks the graph comes back unchanged *)
Corollary load_store_pd_disjoint sp g : pd_wf sp g -> (forall i, In i (starts g) -> ~ In i (goals g)) ->
  load_pd sp (store_pd sp g) = LOk g.
Proof.
  intros W Dj. rewrite (load_store_pd sp g W). f_equal. destruct g as [v e s gl]. cbn [verts edges starts goals]. f_equal.
  unfold goals_eff. cbn [starts goals] in *. clear W. induction gl as [|a t IH]; [reflexivity|]. cbn [filter].
  destruct (mem a s) eqn:M.
  - exfalso. apply mem_spec in M. apply (Dj a M). left. reflexivity.
  - cbn [negb]. f_equal. apply IH. intros i Hi Hg. apply (Dj i Hi). right. exact Hg.
Qed.

(* ---- truncation, marker, signature ---- *)
Lemma load_verts_prefix sp g : forall vs s k acc, (k < length vs)%nat ->
  load_verts sp (length vs) (firstn k (map (vtok g) (combine (seq s (length vs)) vs))) acc = LErr.
Proof.
  induction vs as [|[tag cs] t IH]; intros s k acc Hk; cbn [length] in Hk; [lia|]. destruct k as [|k]; [reflexivity|].
  cbn [length seq combine map firstn load_verts]. unfold vtok at 1. cbn [fst snd].
  destruct (deserialize sp cs) as [[st [|x xs]]|]; try reflexivity. apply IH. lia.
Qed.
Lemma load_verts_some sp g (W : pd_wf sp g) rest :
  exists acc, load_verts sp (length (verts g)) (map (vtok g) (combine (seq 0 (length (verts g))) (verts g)) ++ rest) pd_empty = LOk (acc, rest).
Proof.
  pose proof W as (Hv & _). eexists.
  exact (load_verts_store sp g W (verts g) pd_empty rest Hv (eq_sym (below_0 _)) (eq_sym (below_0 _))).
Qed.
Lemma load_edges_prefix es : forall k g, (k < length es)%nat ->
  load_edges (length es) (firstn k (map (fun e => TEdge (fst (fst e)) (snd (fst e)) (snd e)) es)) g = LErr.
Proof.
  induction es as [|[[u v] w] t IH]; intros k g Hk; cbn [length] in Hk; [lia|]. destruct k as [|k]; [reflexivity|].
  cbn [length map firstn load_edges fst snd]. apply IH. lia.
Qed.
Theorem load_pd_rejects_every_strict_prefix sp g k : pd_wf sp g ->
  (k < length (store_pd sp g))%nat -> load_pd sp (firstn k (store_pd sp g)) = LErr.
Proof.
  intros W Hk. unfold store_pd in *. rewrite !app_length, !map_length, combine_length, seq_length, Nat.min_id in Hk. cbn [length] in Hk.
  destruct k as [|[|[|[|k]]]]; try reflexivity. cbn [app firstn load_pd]. rewrite Z.eqb_refl, sig_eqb_refl. cbn [negb].
  fold (vtok g). set (VT := map (vtok g) (combine (seq 0 (length (verts g))) (verts g))).
  assert (LVT : length VT = length (verts g)) by (unfold VT; rewrite map_length, combine_length, seq_length, Nat.min_id; reflexivity).
  rewrite firstn_app. rewrite LVT.
  destruct (Nat.ltb_spec k (length (verts g))) as [L|L].
  - replace (k - length (verts g)) with 0 by lia. cbn [firstn]. rewrite app_nil_r. unfold VT. rewrite (load_verts_prefix sp g (verts g) 0 k pd_empty L). reflexivity.
  - rewrite firstn_all2 by lia. destruct (load_verts_some sp g W (firstn (k - length (verts g)) (map (fun e => TEdge (fst (fst e)) (snd (fst e)) (snd e)) (edges g)))) as (acc & E).
    fold VT in E. rewrite E. apply load_edges_prefix. lia.
Qed.
Theorem load_pd_rejects_wrong_marker sp m nv ne sg rest : m <> PD_MARKER -> load_pd sp (TMarker m :: TCount nv :: TCount ne :: TSig sg :: rest) = LErr.
Proof. intros H. cbn [load_pd]. destruct (Z.eqb_spec m PD_MARKER); [contradiction|reflexivity]. Qed.
Theorem load_pd_rejects_other_signature sp sp' g : signature sp' <> signature sp -> load_pd sp' (store_pd sp g) = LErr.
Proof.
  intros H. unfold store_pd, load_pd. cbn [app]. rewrite Z.eqb_refl. cbn [negb].
  destruct (sig_eqb (signature sp) (signature sp')) eqn:E; [|reflexivity]. apply sig_eqb_eq in E. congruence.
Qed.
