(* PtcProofs.v — proofs about PtcModel.v *)
From Coq Require Import List Arith NArith ZArith Bool Lia.
From OmplV Require Import PtcModel.
Import ListNotations.

Lemma eval_term_true env c : term_flag c = true -> fst (eval env c) = true /\ term_flag (snd (eval env c)) = true.
Proof.
  destruct c as [t k|t v k|t m n|t a b|t a b|t|t]; simpl; intros ->; simpl; auto.
Qed.
Lemma eval_term_keep env c : term_flag (snd (eval env c)) = term_flag c.
Proof.
  destruct c as [t k|t v k|t m n|t a b|t a b|t|t]; simpl; auto.
  - destruct t; reflexivity.
  - destruct t; [reflexivity|]. destruct (eval env a) as [ra a']. destruct ra; [reflexivity|]. destruct (eval env b). reflexivity.
  - destruct t; [reflexivity|]. destruct (eval env a) as [ra a']. destruct ra; [|reflexivity]. destruct (eval env b). reflexivity.
Qed.
Lemma poll_term_keep env c : term_flag (poll env c) = term_flag c.
Proof. destruct c as [t k|t v k|t m n|t a b|t a b|t|t]; simpl; auto. destruct t; reflexivity. Qed.
Lemma terminate_term_mono p c : term_flag c = true -> term_flag (terminate p c) = true.
Proof.
  destruct p as [|d rest]; [destruct c; reflexivity|].
  destruct c as [t k|t v k|t m n|t a b|t a b|t|t]; simpl; auto; destruct d; auto.
Qed.
Lemma terminate_root c : term_flag (terminate [] c) = true.
Proof. destruct c; reflexivity. Qed.

Lemma sticky : forall evs env c, term_flag c = true -> Forall (fun r => r = true) (run env c evs).
Proof.
  induction evs as [|e t IH]; intros env c H; [constructor|]. destruct e as [|p|k b|]; cbn [run].
  - destruct (eval env c) as [r c'] eqn:E. pose proof (eval_term_true env c H) as (A & B). rewrite E in A, B. simpl in A, B.
    constructor; [exact A|apply IH; exact B].
  - apply IH. apply terminate_term_mono. exact H.
  - apply IH. exact H.
  - apply IH. rewrite poll_term_keep. exact H.
Qed.

Lemma or_exact env a b : fst (eval env (Or false a b)) = fst (eval env a) || fst (eval env b).
Proof. simpl. destruct (eval env a) as [ra a']. destruct ra; simpl; [reflexivity|]. destruct (eval env b). reflexivity. Qed.
Lemma and_exact env a b : fst (eval env (And false a b)) = fst (eval env a) && fst (eval env b).
Proof. simpl. destruct (eval env a) as [ra a']. destruct ra; simpl; [|reflexivity]. destruct (eval env b). reflexivity. Qed.

Lemma iter_run env m : forall j a, (m + 1 < 4294967296)%N ->
  run env (Iter false m (N.min (N.of_nat a) (m + 1))) (repeat EEval j) = map (fun i => N.ltb m (N.of_nat i)) (seq (S a) j).
Proof.
  induction j as [|j IH]; intros a H; [reflexivity|]. cbn [repeat run eval seq map].
  set (s := N.min (N.of_nat a) (m + 1)).
  assert (E : (if N.leb s m then wrap32 (s + 1) else s) = N.min (N.of_nat (S a)) (m + 1)).
  { unfold s. destruct (N.leb_spec (N.min (N.of_nat a) (m + 1)) m) as [L|L].
    - unfold wrap32. rewrite N.mod_small by lia. lia.
    - lia. }
  rewrite E. f_equal; [|apply IH; exact H].
  destruct (N.ltb_spec m (N.min (N.of_nat (S a)) (m + 1))), (N.ltb_spec m (N.of_nat (S a))); auto; lia.
Qed.

Lemma timed_monotone endt now1 now2 : (now1 <= now2)%Z -> timed_eval endt now1 = true -> timed_eval endt now2 = true.
Proof. unfold timed_eval. intros H E. apply Z.ltb_lt in E. apply Z.ltb_lt. lia. Qed.
Lemma timed_before endt now : (now <= endt)%Z -> timed_eval endt now = false.
Proof. unfold timed_eval. intros H. apply Z.ltb_ge. exact H. Qed.
Lemma timed_after endt now : (endt < now)%Z -> timed_eval endt now = true.
Proof. unfold timed_eval. intros H. apply Z.ltb_lt. exact H. Qed.
