(* PathModel.v — counting logic of PathGeometric::interpolate(count) / subdivide() and the vertex-shortcut step of
   PathSimplifier::reduceVertices (src/ompl/geometric/src/PathGeometric.cpp, PathSimplifier.cpp).
   interpolate(request): for each of the n1 = size-1 segments decide how many states go strictly inside it.
   The floating-point estimate "floor(0.5 + count * segmentLength / remainingLength) + 1" is a parameter [est]: the
   counting theorems hold for ANY estimate, so rounding cannot break them. *)
From Coq Require Import List ZArith Bool Arith.
Import ListNotations.
Local Open Scope Z_scope.

(* one loop iteration: i = segment index, last = (i + 1 == n1); returns (intermediate states in this segment, new count) *)
Definition interp_step (est : nat -> Z -> Z) (size : Z) (i : nat) (last : bool) (count : Z) : Z * Z :=
  let maxN := count + Z.of_nat i - size in
  if 0 <? maxN then
    let ns0 := if last then maxN + 2 else est i count in
    let ns := if 2 <? ns0 then (if maxN <? ns0 - 2 then maxN else ns0 - 2) else 0 in
    (ns, count - (ns + 1))
  else (0, count - 1).
Fixpoint interp_loop (est : nat -> Z -> Z) (size : Z) (i nsegs : nat) (count : Z) : list Z :=
  match nsegs with
  | O => []
  | S k => let '(ns, c') := interp_step est size i (Nat.eqb k 0) count in ns :: interp_loop est size (S i) k c'
  end.
(* number of intermediate states per segment; the call is a no-op when request < size or size < 2 *)
Definition interp_counts (est : nat -> Z -> Z) (size : nat) (request : Z) : list Z :=
  if (request <? Z.of_nat size) || (size <? 2)%nat then repeat 0 (size - 1) else interp_loop est (Z.of_nat size) 0 (size - 1) request.
Definition total_states (size : nat) (counts : list Z) : Z := if (size =? 0)%nat then 0 else fold_right Z.add 0 counts + Z.of_nat (length counts) + 1.

(* the resulting vertex sequence: (segment, k) with k = 0 the original vertex, k >= 1 the k-th new state inside *)
Definition new_states (i : nat) (n : Z) : list (nat * nat) := map (fun k => (i, S k)) (seq 0 (Z.to_nat n)).
Fixpoint layout (i : nat) (counts : list Z) : list (nat * nat) :=
  match counts with
  | [] => [(i, O)]
  | n :: t => (i, O) :: new_states i n ++ layout (S i) t
  end.
Definition originals (l : list (nat * nat)) : list nat := map fst (filter (fun p => Nat.eqb (snd p) 0) l).

(* subdivide(): a midpoint inside every segment *)
Definition subdivide_counts (size : nat) : list Z := repeat 1 (size - 1).

(* vertex shortcut of reduceVertices: connect vertex i directly to vertex j when the validator accepts the motion *)
Section Shortcut.
  Variable St : Type.
  Variable mv : St -> St -> bool.
  Definition shortcut (p : list St) (i j : nat) (d : St) : list St :=
    if (S i <? j)%nat && (j <? length p)%nat && mv (nth i p d) (nth j p d) then firstn (S i) p ++ skipn j p else p.
  Definition shortcuts (p : list St) (ijs : list (nat * nat)) (d : St) : list St :=
    fold_left (fun q ij => shortcut q (fst ij) (snd ij) d) ijs p.

  (* ---- PathSimplifier::reduceVertices itself: the loop, its two counters, the choice of the vertex pair from two
     uniform variates (given as fractions num/den in [0,1)), the repair of pairs closer than two apart ---- *)
  Definition uniform_int (lo hi : Z) (u : Z * Z) : Z := Z.min hi (lo + ((hi + 1 - lo) * fst u) / snd u).     (* RNG::uniformInt *)
  Definition rv_pick (count range : Z) (u1 u2 : Z * Z) : option (nat * nat) :=
    let maxN := count - 1 in
    let p1 := uniform_int 0 maxN u1 in
    let p2 := uniform_int (Z.max (p1 - range) 0) (Z.min maxN (p1 + range)) u2 in
    let p2' := if Z.abs (p1 - p2) <? 2 then (if p1 <? maxN - 1 then Some (p1 + 2) else if 1 <? p1 then Some (p1 - 2) else None) else Some p2 in
    match p2' with None => None | Some q => Some (Z.to_nat (Z.min p1 q), Z.to_nat (Z.max p1 q)) end.
  Variable range_of : Z -> Z.              (* 1 + floor(0.5 + count * rangeRatio) *)
  Fixpoint rv_loop (steps_left nochange maxEmpty : nat) (p : list St) (tape : list (Z * Z)) (changed : bool) (d : St) : list St * bool :=
    match steps_left with
    | O => (p, changed)
    | S k =>
      if (nochange <? maxEmpty)%nat then
        let u1 := hd (0, 1) tape in let u2 := hd (0, 1) (tl tape) in let tape' := tl (tl tape) in
        let count := Z.of_nat (length p) in
        match rv_pick count (range_of count) u1 u2 with
        | None => rv_loop k (S nochange) maxEmpty p tape' changed d
        | Some (a, b) =>
          if mv (nth a p d) (nth b p d) then rv_loop k 1 maxEmpty (firstn (S a) p ++ skipn b p) tape' true d
          else rv_loop k (S nochange) maxEmpty p tape' changed d
        end
      else (p, changed)
    end.
  Definition reduce_vertices (p : list St) (maxSteps maxEmpty : nat) (tape : list (Z * Z)) (d : St) : list St * bool :=
    if (length p <? 3)%nat then (p, false)
    else
      let ms := if (maxSteps =? 0)%nat then length p else maxSteps in
      let me := if (maxEmpty =? 0)%nat then length p else maxEmpty in
      if mv (hd d p) (last p d) then ([hd d p; last p d], true)
      else rv_loop ms 0 me p tape false d.

  (* ---- PathSimplifier::collapseCloseVertices: repeatedly take the closest pair of non-adjacent vertices (first minimum in
     the scan order i, then j >= i + 2) whose distance entry has not been set to infinity, connect them if the validator
     accepts, otherwise set that entry to infinity ---- *)
  Variable dist : St -> St -> Z.
  Variable steq : St -> St -> bool.          (* identity of two path states (the distance table is keyed by the states) *)
  Definition cc_pairs (n : nat) : list (nat * nat) := flat_map (fun i => map (fun j => (i, j)) (seq (i + 2) (n - (i + 2)))) (seq 0 n).
  Definition cc_entry (blocked : list (St * St)) (a b : St) : option Z :=
    if existsb (fun q => steq (fst q) a && steq (snd q) b) blocked then None else Some (dist a b).
  Definition cc_best (p : list St) (blocked : list (St * St)) (d : St) : option ((nat * nat) * Z) :=
    fold_left (fun best ij =>
                 match cc_entry blocked (nth (fst ij) p d) (nth (snd ij) p d) with
                 | None => best
                 | Some v => match best with Some (_, bv) => if v <? bv then Some (ij, v) else best | None => Some (ij, v) end
                 end) (cc_pairs (length p)) None.
  Fixpoint cc_loop (steps_left nochange maxEmpty : nat) (p : list St) (blocked : list (St * St)) (changed : bool) (d : St) : list St * bool :=
    match steps_left with
    | O => (p, changed)
    | S k =>
      if (nochange <? maxEmpty)%nat then
        match cc_best p blocked d with
        | None => (p, changed)
        | Some ((a, b), _) =>
          if mv (nth a p d) (nth b p d) then cc_loop k 1 maxEmpty (firstn (S a) p ++ skipn b p) blocked true d
          else cc_loop k (S nochange) maxEmpty p ((nth a p d, nth b p d) :: blocked) changed d
        end
      else (p, changed)
    end.
  Definition collapse_close (p : list St) (maxSteps maxEmpty : nat) (d : St) : list St * bool :=
    if (length p <? 3)%nat then (p, false)
    else cc_loop (if (maxSteps =? 0)%nat then length p else maxSteps) 0 (if (maxEmpty =? 0)%nat then length p else maxEmpty) p [] false d.
End Shortcut.

(* the instance run against the implementation: vertices are numbered, the motion validator is a table of accepted pairs,
   rangeRatio = num / den *)
Definition rv_run (n maxSteps maxEmpty : nat) (rnum rden : Z) (ok : list (nat * nat)) (tape : list (Z * Z)) : list nat * bool :=
  reduce_vertices nat (fun a b => existsb (fun q => Nat.eqb (fst q) a && Nat.eqb (snd q) b) ok)
                  (fun count => 1 + (rden + 2 * count * rnum) / (2 * rden)) (seq 0 n) maxSteps maxEmpty tape 0%nat.
(* collapseCloseVertices on vertices 0..n-1 placed at the integer coordinates xs: distance = |x_a - x_b| *)
Definition cc_run (xs : list Z) (maxSteps maxEmpty : nat) (ok : list (nat * nat)) : list nat * bool :=
  collapse_close nat (fun a b => existsb (fun q => Nat.eqb (fst q) a && Nat.eqb (snd q) b) ok)
                 (fun a b => Z.abs (nth a xs 0 - nth b xs 0)) Nat.eqb (seq 0 (length xs)) maxSteps maxEmpty 0%nat.
