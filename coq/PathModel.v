(* PathModel.v — counting logic of PathGeometric::interpolate(count) / subdivide() and the vertex-shortcut step of
   PathSimplifier::reduceVertices (src/ompl/geometric/src/PathGeometric.cpp, PathSimplifier.cpp).
   interpolate(request): for each of the n1 = size-1 segments decide how many states go strictly inside it.
   The floating-point estimate "floor(0.5 + count * segmentLength / remainingLength) + 1" is a parameter [est]: the
   counting theorems hold for ANY estimate, so rounding cannot break them. *)
From Coq Require Import List ZArith Bool Arith.
Import ListNotations.
Local Open Scope Z_scope.

(* one loop iteration: i = segment index, last = (i + 1 == n1); returns (intermediate states in this segment, new count) *)
Definition interp_step (est : nat -> Z -> Z) (size : Z) (i : nat) (last : bool) (count : Z) : Z * Z :=
  let maxN := count + Z.of_nat i - size in
  if 0 <? maxN then
    let ns0 := if last then maxN + 2 else est i count in
    let ns := if 2 <? ns0 then (if maxN <? ns0 - 2 then maxN else ns0 - 2) else 0 in
    (ns, count - (ns + 1))
  else (0, count - 1).
Fixpoint interp_loop (est : nat -> Z -> Z) (size : Z) (i nsegs : nat) (count : Z) : list Z :=
  match nsegs with
  | O => []
  | S k => let '(ns, c') := interp_step est size i (Nat.eqb k 0) count in ns :: interp_loop est size (S i) k c'
  end.
(* number of intermediate states per segment; the call is a no-op when request < size or size < 2 *)
Definition interp_counts (est : nat -> Z -> Z) (size : nat) (request : Z) : list Z :=
  if (request <? Z.of_nat size) || (size <? 2)%nat then repeat 0 (size - 1) else interp_loop est (Z.of_nat size) 0 (size - 1) request.
Definition total_states (size : nat) (counts : list Z) : Z := if (size =? 0)%nat then 0 else fold_right Z.add 0 counts + Z.of_nat (length counts) + 1.

(* the resulting vertex sequence: (segment, k) with k = 0 the original vertex, k >= 1 the k-th new state inside *)
Definition new_states (i : nat) (n : Z) : list (nat * nat) := map (fun k => (i, S k)) (seq 0 (Z.to_nat n)).
Fixpoint layout (i : nat) (counts : list Z) : list (nat * nat) :=
  match counts with
  | [] => [(i, O)]
  | n :: t => (i, O) :: new_states i n ++ layout (S i) t
  end.
Definition originals (l : list (nat * nat)) : list nat := map fst (filter (fun p => Nat.eqb (snd p) 0) l).

(* subdivide(): a midpoint inside every segment *)
Definition subdivide_counts (size : nat) : list Z := repeat 1 (size - 1).

(* vertex shortcut of reduceVertices: connect vertex i directly to vertex j when the validator accepts the motion *)
Section Shortcut.
  Variable St : Type.
  Variable mv : St -> St -> bool.
  Definition shortcut (p : list St) (i j : nat) (d : St) : list St :=
    if (S i <? j)%nat && (j <? length p)%nat && mv (nth i p d) (nth j p d) then firstn (S i) p ++ skipn j p else p.
  Definition shortcuts (p : list St) (ijs : list (nat * nat)) (d : St) : list St :=
    fold_left (fun q ij => shortcut q (fst ij) (snd ij) d) ijs p.
End Shortcut.
