(* RrtStarFloat.v — RrtStarModel on Coq's primitive binary64 floats: R^2, wall motion validator, GoalState, path length or
   mechanical work over the potential 1 + 4 y (weight 0.05) as objective; the same operations in the same order as
   harness/rrt_driver.cpp (op RRTS) and the library (RealVectorStateSpace::distance / interpolate,
   PathLengthOptimizationObjective / MechanicalWorkOptimizationObjective::motionCost). *)
From Coq Require Import Floats List Bool.
From OmplV Require Import EstFloat RrtStarModel.
Import ListNotations.
Local Open Scope float_scope.

Definition steer_f (maxd : float) (n r : F2) : F2 :=
  let d := fdist n r in
  if PrimFloat.ltb maxd d then let t := maxd / d in (fst n + (fst r - fst n) * t, snd n + (snd r - snd n) * t) else r.
Definition work_cost (a b : F2) : float :=
  let x := (1 + 4 * snd b) - (1 + 4 * snd a) in (if PrimFloat.ltb x 0 then 0 else x) + 0x1.999999999999ap-5 * fdist a b.
Definition flat_nodes (l : list (node F2 float)) : list float :=
  flat_map (fun n => [fst (n_st F2 float n); snd (n_st F2 float n); match n_par F2 float n with None => -1 | Some k => fnat k end; n_inc F2 float n; n_cost F2 float n]) l.
Definition flat_star_report (r : option (list F2 * bool * float * float * bool)) : list float :=
  match r with
  | None => []
  | Some (path, approx, dd, stored, opt) => (if approx then 1 else 0) :: dd :: stored :: (if opt then 1 else 0) :: flat_map (fun s => [fst s; snd s]) path
  end.
(* RRTS <maxDistance> <goalBias> <threshold> <objective work?> <cost threshold> <iters>, k table, walls, starts, goal, tape, samples *)
Definition star_float (maxd bias thr : float) (work : bool) (cthr : float) (iters : nat) (ks : list nat) (walls : list (float * float * float))
    (starts : list F2) (goal : F2) (tape : list float) (samples : list F2) : list (list float) :=
  let '(l, rep) := star_solve F2 float fdist PrimFloat.ltb PrimFloat.add 0 (if work then work_cost else fdist) (negb work)
                     (fun c => PrimFloat.ltb c cthr) (steer_f maxd) maxd (wall_mv walls)
                     (fun s => PrimFloat.ltb (fdist s goal) thr) (fun s => fdist s goal) goal (0, 0) bias (fun card => nth card ks O)
                     starts iters tape samples in
  [flat_nodes l; flat_star_report rep].

(* several solve() calls on one planner: RRTSN ..., each call with its own iteration count, tape and samples *)
From OmplV Require Import RrtStarCalls.
Definition star_float_calls (maxd bias thr : float) (work : bool) (cthr : float) (ks : list nat) (walls : list (float * float * float))
    (starts : list F2) (goal : F2) (calls : list (nat * list float * list F2)) : list (list float) :=
  let '(s, reps) := star_solves F2 float fdist PrimFloat.ltb PrimFloat.add 0 (if work then work_cost else fdist) (negb work)
                     (fun c => PrimFloat.ltb c cthr) (steer_f maxd) maxd (wall_mv walls)
                     (fun s => PrimFloat.ltb (fdist s goal) thr) (fun s => fdist s goal) goal (0, 0) bias (fun card => nth card ks O)
                     starts calls in
  flat_nodes (nodes F2 float s) :: map flat_star_report reps.
