(* DubinsModel.v — the vehicle model of DubinsStateSpace / ReedsSheppStateSpace over the reals, in units of the turning
   radius: a word is a list of segments (Left / Right arc or Straight, with a signed length: negative = reverse gear,
   used by Reeds-Shepp only); [seg_apply] is exactly the update DubinsStateSpace::interpolate performs per segment. *)
From Coq Require Import List Reals.
Import ListNotations.
Local Open Scope R_scope.

Inductive sk := SL | SR | SS.
Record pose := mkPose { px : R; py : R; pth : R }.
Definition seg_apply (k : sk) (v : R) (p : pose) : pose :=
  match k with
  | SL => mkPose (px p + sin (pth p + v) - sin (pth p)) (py p - cos (pth p + v) + cos (pth p)) (pth p + v)
  | SR => mkPose (px p - sin (pth p - v) + sin (pth p)) (py p + cos (pth p - v) - cos (pth p)) (pth p - v)
  | SS => mkPose (px p + v * cos (pth p)) (py p + v * sin (pth p)) (pth p)
  end.
Definition word := list (sk * R).
Fixpoint run (w : word) (p : pose) : pose := match w with [] => p | (k, v) :: r => run r (seg_apply k v p) end.
Definition wlen (w : word) : R := fold_right (fun s acc => Rabs (snd s) + acc) 0 w.
(* the first [s] units of arc length of a word with non-negative segment lengths (what interpolate(t) traverses, s = t * length) *)
Fixpoint prefix (w : word) (s : R) : word :=
  match w with
  | [] => []
  | (k, v) :: r => if Rle_dec s v then [(k, s)] else (k, v) :: prefix r (s - v)
  end.
Definition pdist (p q : pose) : R := sqrt ((px q - px p) * (px q - px p) + (py q - py p) * (py q - py p)).
(* distance of a space = radius * length of the chosen word; the symmetric variant takes the shorter direction *)
Definition sym_dist (d : pose -> pose -> R) (a b : pose) : R := Rmin (d a b) (d b a).
Definition best_of (ls : list R) (d0 : R) : R := fold_right Rmin d0 ls.
