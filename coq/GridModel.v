(* GridModel.v — executable model of ompl::Grid / GridN / GridB
   (src/ompl/datastructures/Grid.h, GridN.h, GridB.h).  Definitions only.
   Cells are kept in an association list (insertion order); the C++ hash map's iteration order is not
   observable through the interface used here (outputs are canonicalised before comparison). *)
From Coq Require Import List ZArith Bool Arith.
From OmplV Require Import HeapModel.
Import ListNotations.
Local Open Scope Z_scope.

Definition coord := list Z.
Fixpoint coord_eqb (a b : coord) : bool :=
  match a, b with
  | [], [] => true
  | x :: a', y :: b' => (x =? y) && coord_eqb a' b'
  | _, _ => false
  end.

Record cell := mkCell { cid : nat; ccoord : coord; cdata : Z; nbrs : Z; border : bool }.

Fixpoint find_cell (c : coord) (cells : list cell) : option cell :=
  match cells with
  | [] => None
  | x :: t => if coord_eqb (ccoord x) c then Some x else find_cell c t
  end.
Definition has (c : coord) (cells : list cell) : bool := match find_cell c cells with Some _ => true | None => false end.

(* coord[i] += delta *)
Fixpoint bump_at (i : nat) (delta : Z) (c : coord) : coord :=
  match c, i with
  | [], _ => []
  | x :: t, O => (x + delta) :: t
  | x :: t, S j => x :: bump_at j delta t
  end.

(* Grid::neighbors: for (i = dimension-1; i >= 0; --i) { coord[i]--; probe; coord[i] += 2; probe; coord[i]--; } *)
Fixpoint probe_coords (k : nat) (c : coord) : list coord :=   (* dimensions k-1, k-2, ..., 0 *)
  match k with
  | O => []
  | S i => bump_at i (-1) c :: bump_at i 1 c :: probe_coords i c
  end.
Definition neighbor_coords (c : coord) : list coord := probe_coords (length c) c.
Fixpoint found (cs : list coord) (cells : list cell) : list cell :=
  match cs with
  | [] => []
  | c :: t => match find_cell c cells with Some x => x :: found t cells | None => found t cells end
  end.
Definition neighbors (c : coord) (cells : list cell) : list cell := found (neighbor_coords c) cells.

(* ---- connected components: the breadth-first pass of Grid::components() ---- *)
Definition in_coords (c : coord) (l : list coord) : bool := existsb (coord_eqb c) l.
(* queue processing: q[index++]; already assigned -> erased from the queue; else assign and push unassigned neighbours *)
Fixpoint bfs (fuel : nat) (cells : list cell) (todo : list cell) (comp : list cell) (assigned : list coord)
  : option (list cell * list coord) :=
  match fuel with
  | O => match todo with [] => Some (comp, assigned) | _ => None end
  | S f =>
    match todo with
    | [] => Some (comp, assigned)
    | c :: rest =>
      if in_coords (ccoord c) assigned then bfs f cells rest comp assigned
      else
        let assigned' := ccoord c :: assigned in
        let fresh := filter (fun n => negb (in_coords (ccoord n) assigned')) (neighbors (ccoord c) cells) in
        bfs f cells (rest ++ fresh) (comp ++ [c]) assigned'
    end
  end.
Fixpoint comps_from (roots : list cell) (cells : list cell) (assigned : list coord) (fuel : nat)
  : option (list (list cell)) :=
  match roots with
  | [] => Some []
  | c0 :: t =>
    if in_coords (ccoord c0) assigned then comps_from t cells assigned fuel
    else match bfs fuel cells [c0] [] assigned with
         | None => None
         | Some (comp, assigned') =>
           match comps_from t cells assigned' fuel with
           | None => None
           | Some rest => Some (comp :: rest)
           end
         end
  end.
Definition components (cells : list cell) : option (list (list cell)) :=
  comps_from cells cells [] (length cells * (2 * (match cells with [] => 0 | c :: _ => length (ccoord c) end) + 2) + 2)%nat.

(* ---- GridN: neighbour counters and border flags ---- *)
Record gparams := mkGP { dim : nat; bounds : option (coord * coord); limit : Z }.

Fixpoint boundary_dims (c lo up : coord) : Z :=
  match c, lo, up with
  | x :: c', l :: lo', u :: up' => (if (x =? l) || (x =? u) then 1 else 0) + boundary_dims c' lo' up'
  | _, _, _ => 0
  end.
Definition num_boundary (p : gparams) (c : coord) : Z :=
  match bounds p with Some (lo, up) => boundary_dims c lo up | None => 0 end.

Definition upd_cell (f : cell -> cell) (c : coord) (cells : list cell) : list cell :=
  map (fun x => if coord_eqb (ccoord x) c then f x else x) cells.
Definition inc_nb (lim : Z) (x : cell) : cell :=
  let n := nbrs x + 1 in mkCell (cid x) (ccoord x) (cdata x) n (if border x && (lim <=? n) then false else border x).
Definition dec_nb (lim : Z) (x : cell) : cell :=
  let n := nbrs x - 1 in mkCell (cid x) (ccoord x) (cdata x) n (if negb (border x) && (n <? lim) then true else border x).

(* createCell(coord) followed by add(cell): the documented way to insert *)
Definition gridn_add (p : gparams) (id : nat) (c : coord) (d : Z) (cells : list cell) : option (list cell) :=
  if negb (Nat.eqb (length c) (dim p)) || has c cells then None
  else
    let nb := neighbors c cells in
    let cells' := fold_left (fun cs n => upd_cell (inc_nb (limit p)) (ccoord n) cs) nb cells in
    let n := num_boundary p c + Z.of_nat (length nb) in
    Some (cells' ++ [mkCell id c d n (n <? limit p)]).

Definition gridn_remove (p : gparams) (c : coord) (cells : list cell) : option (list cell) :=
  match find_cell c cells with
  | None => None              (* remove() of a cell that is not in the grid: outside the documented use *)
  | Some _ =>
    let nb := neighbors c cells in
    let cells' := fold_left (fun cs n => upd_cell (dec_nb (limit p)) (ccoord n) cs) nb cells in
    Some (filter (fun x => negb (coord_eqb (ccoord x) c)) cells')
  end.

(* ---- GridB: GridN + two updatable heaps (external = border cells, internal = the others) ---- *)
Record gridb := mkGB { gcells : list cell; hext : list (elt Z); hint : list (elt Z) }.
Definition gb_empty : gridb := mkGB [] [] [].

Section GridB.
  Variables lt_ext lt_int : Z -> Z -> bool.   (* LessThanExternal / LessThanInternal on the cell data *)
  Notation hstep_e := (HeapModel.step Z lt_ext 0).
  Notation hstep_i := (HeapModel.step Z lt_int 0).

  Definition obind {A B} (o : option A) (f : A -> option B) : option B := match o with Some a => f a | None => None end.

  (* neighbour c after its counter changed: move it between the heaps or re-sift it (event callback is a no-op) *)
  Definition resift (wasBorder : bool) (c : cell) (g : gridb) : option gridb :=
    if border c then
      if wasBorder then obind (hstep_e (hext g) (OUpdateKey (cid c) (cdata c))) (fun h => Some (mkGB (gcells g) h (hint g)))
      else obind (hstep_i (hint g) (ORemove (cid c))) (fun hi =>
           obind (hstep_e (hext g) (OInsert (cid c) (cdata c))) (fun he => Some (mkGB (gcells g) he hi)))
    else
      if wasBorder then obind (hstep_e (hext g) (ORemove (cid c))) (fun he =>
                        obind (hstep_i (hint g) (OInsert (cid c) (cdata c))) (fun hi => Some (mkGB (gcells g) he hi)))
      else obind (hstep_i (hint g) (OUpdateKey (cid c) (cdata c))) (fun h => Some (mkGB (gcells g) (hext g) h)).

  Definition touch (f : cell -> cell) (g : option gridb) (n : cell) : option gridb :=
    obind g (fun g =>
      match find_cell (ccoord n) (gcells g) with
      | None => None
      | Some old =>
        let new := f old in
        resift (border old) new (mkGB (upd_cell f (ccoord n) (gcells g)) (hext g) (hint g))
      end).

  Definition gridb_add (p : gparams) (id : nat) (c : coord) (d : Z) (g : gridb) : option gridb :=
    if negb (Nat.eqb (length c) (dim p)) || has c (gcells g) then None
    else
      let nb := neighbors c (gcells g) in
      obind (fold_left (touch (inc_nb (limit p))) nb (Some g)) (fun g1 =>
        let n := num_boundary p c + Z.of_nat (length nb) in
        let b := n <? limit p in
        let cells' := gcells g1 ++ [mkCell id c d n b] in
        if b then obind (hstep_e (hext g1) (OInsert id d)) (fun he => Some (mkGB cells' he (hint g1)))
        else obind (hstep_i (hint g1) (OInsert id d)) (fun hi => Some (mkGB cells' (hext g1) hi))).

  Definition gridb_remove (p : gparams) (c : coord) (g : gridb) : option gridb :=
    match find_cell c (gcells g) with
    | None => None
    | Some _ =>
      let nb := neighbors c (gcells g) in
      obind (fold_left (touch (dec_nb (limit p))) nb (Some g)) (fun g1 =>
        match find_cell c (gcells g1) with
        | None => None
        | Some x =>
          let cells' := filter (fun y => negb (coord_eqb (ccoord y) c)) (gcells g1) in
          if border x then obind (hstep_e (hext g1) (ORemove (cid x))) (fun he => Some (mkGB cells' he (hint g1)))
          else obind (hstep_i (hint g1) (ORemove (cid x))) (fun hi => Some (mkGB cells' (hext g1) hi))
        end)
    end.

  (* cell->data = d; grid.update(cell) *)
  Definition gridb_update (c : coord) (d : Z) (g : gridb) : option gridb :=
    match find_cell c (gcells g) with
    | None => None
    | Some x =>
      let cells' := upd_cell (fun y => mkCell (cid y) (ccoord y) d (nbrs y) (border y)) c (gcells g) in
      if border x then obind (hstep_e (hext g) (OUpdateKey (cid x) d)) (fun he => Some (mkGB cells' he (hint g)))
      else obind (hstep_i (hint g) (OUpdateKey (cid x) d)) (fun hi => Some (mkGB cells' (hext g) hi))
    end.

  (* topInternal(): best interior cell, falling back to the best border cell when there is none (repaired) *)
  Definition top_internal (g : gridb) : option nat :=
    match hint g with e :: _ => Some (eid e) | [] => match hext g with e :: _ => Some (eid e) | [] => None end end.
  Definition top_external (g : gridb) : option nat :=
    match hext g with e :: _ => Some (eid e) | [] => match hint g with e :: _ => Some (eid e) | [] => None end end.
End GridB.
