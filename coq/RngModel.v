(* RngModel.v — executable model of what an ompl::RNG draws from its local seed (src/ompl/util/RandomNumbers.h):
   std::mt19937 generator_ seeded with the local seed, and uniform01() = std::uniform_real_distribution<>(0,1)(generator_),
   transcribed from libstdc++ 12: mersenne_twister_engine<uint32, 32, 624, 397, 31, 0x9908b0df, 11, 0xffffffff, 7,
   0x9d2c5680, 15, 0xefc60000, 18, 1812433253>::seed / _M_gen_rand / operator(), and generate_canonical<double, 53>
   (two 32-bit draws: sum = double(x0) + double(x1) * 2^32, result sum / 2^64, replaced by the predecessor of 1 when the sum
   rounds up to 2^64).  uniformReal(lo, hi) = (hi - lo) * u + lo; uniformInt(lo, hi) = min(hi, floor(uniformReal(lo, hi + 1))). *)
From Coq Require Import List NArith Bool Arith Floats Uint63 ZArith.
Import ListNotations.
Local Open Scope N_scope.

Definition w32 : N := 4294967295.
Definition m32 (x : N) : N := N.land x w32.
Definition mt_n : nat := 624.
Definition mt_m : nat := 397.

Record mt := mkMt { mt_x : list N; mt_p : nat }.

(* seed(sd): x[0] = sd mod 2^32; x[i] = 1812433253 * (x[i-1] xor (x[i-1] >> 30)) + i  (mod 2^32) *)
Fixpoint mt_fill (k : nat) (i : N) (prev : N) : list N :=
  match k with
  | O => []
  | S k' => let x := m32 (1812433253 * N.lxor prev (N.shiftr prev 30) + i) in x :: mt_fill k' (i + 1) x
  end.
Definition mt_seed (sd : N) : mt := let x0 := m32 sd in mkMt (x0 :: mt_fill 623 1 x0) mt_n.

Definition upper_mask : N := 2147483648.
Definition lower_mask : N := 2147483647.
Definition mix (xk xk1 : N) : N :=
  let y := N.lor (N.land xk upper_mask) (N.land xk1 lower_mask) in
  N.lxor (N.shiftr y 1) (if N.odd y then 2567483615 else 0).
(* _M_gen_rand, as one pass that builds the new state front to back: new[k] = src[k] xor mix(old[k], old[k+1]) with
   src[k] = old[k + 397] for k < 227 and new[k - 227] afterwards; the last word mixes old[623] with new[0] *)
Fixpoint twist (k : nat) (fuel : nat) (old : list N) (acc : list N) : list N :=   (* acc: new words so far, in order *)
  match fuel with
  | O => acc
  | S f =>
    let xk := nth k old 0 in
    let xk1 := if Nat.eqb (S k) mt_n then nth 0 acc 0 else nth (S k) old 0 in
    let src := if Nat.ltb k (mt_n - mt_m) then nth (k + mt_m) old 0 else nth (k - (mt_n - mt_m)) acc 0 in
    twist (S k) f old (acc ++ [N.lxor src (mix xk xk1)])
  end.
Definition mt_gen (s : mt) : mt := mkMt (twist 0 mt_n (mt_x s) []) 0.
Definition temper (z : N) : N :=
  let z := N.lxor z (N.land (N.shiftr z 11) 4294967295) in
  let z := N.lxor z (N.land (m32 (N.shiftl z 7)) 2636928640) in
  let z := N.lxor z (N.land (m32 (N.shiftl z 15)) 4022730752) in
  N.lxor z (N.shiftr z 18).
Definition mt_next (s : mt) : N * mt :=
  let s := if Nat.leb mt_n (mt_p s) then mt_gen s else s in
  (temper (nth (mt_p s) (mt_x s) 0), mkMt (mt_x s) (S (mt_p s))).

(* generate_canonical<double, 53>(mt19937) *)
Definition f_of_N (x : N) : float := PrimFloat.of_uint63 (Uint63.of_Z (Z.of_N x)).
Definition two32f : float := 4294967296%float.
Definition one_pred : float := 0x1.fffffffffffffp-1%float.
Definition canonical (s : mt) : float * mt :=
  let '(x0, s1) := mt_next s in
  let '(x1, s2) := mt_next s1 in
  let sum := PrimFloat.add (PrimFloat.add 0 (PrimFloat.mul (f_of_N x0) 1)) (PrimFloat.mul (f_of_N x1) two32f) in
  let r := PrimFloat.div sum (PrimFloat.mul two32f two32f) in
  ((if PrimFloat.leb 1 r then one_pred else r), s2).
(* RNG::uniform01 = uniDist_(generator_) with param (0, 1): canonical * (1 - 0) + 0 *)
Definition uniform01 (s : mt) : float * mt :=
  let '(u, s') := canonical s in (PrimFloat.add (PrimFloat.mul u (PrimFloat.sub 1 0)) 0, s').
Fixpoint stream01 (n : nat) (s : mt) : list float :=
  match n with O => [] | S k => let '(u, s') := uniform01 s in u :: stream01 k s' end.
Fixpoint raw_stream (n : nat) (s : mt) : list N :=
  match n with O => [] | S k => let '(x, s') := mt_next s in x :: raw_stream k s' end.
(* what the RNG constructed with local seed sd draws first *)
Definition rng_uniform01_stream (sd : N) (n : nat) : list float := stream01 n (mt_seed sd).

(* ---- the other draws built on uniDist_ *)
Definition f_of_Z (z : Z) : float := if (z <? 0)%Z then PrimFloat.opp (f_of_N (Z.to_N (- z))) else f_of_N (Z.to_N z).
(* RNG::uniformReal(lo, hi) = (hi - lo) * uniDist_(generator_) + lo *)
Definition uniform_real (lo hi : float) (s : mt) : float * mt :=
  let '(u, s') := uniform01 s in (PrimFloat.add (PrimFloat.mul (PrimFloat.sub hi lo) u) lo, s').
(* floor of a value known to lie in [lo, lo + n]: the largest integer k in that range with k <= x *)
Fixpoint floor_in (n : nat) (lo : Z) (x : float) : Z :=
  match n with
  | O => lo
  | S k => if PrimFloat.leb (f_of_Z (lo + Z.of_nat n)) x then (lo + Z.of_nat n)%Z else floor_in k lo x
  end.
(* RNG::uniformInt(lo, hi) = min(hi, (int)floor(uniformReal(lo, hi + 1))) *)
Definition uniform_int (lo hi : Z) (s : mt) : Z * mt :=
  let '(x, s') := uniform_real (f_of_Z lo) (PrimFloat.add (f_of_Z hi) 1) s in
  let r := floor_in (Z.to_nat (hi + 1 - lo)) lo x in
  ((if (hi <? r)%Z then hi else r), s').
(* RNG::uniformBool() = uniDist_(generator_) <= 0.5 *)
Definition uniform_bool (s : mt) : bool * mt := let '(u, s') := uniform01 s in (PrimFloat.leb u 0.5, s').
(* the driver's draw patterns: u = uniform01, b = uniformBool, i = uniformInt(-5, 17); ints and bools reported as floats *)
Inductive draw := DU | DB | DI.
Fixpoint mt_draws (pat : list draw) (s : mt) : list float :=
  match pat with
  | [] => []
  | DU :: t => let '(u, s') := uniform01 s in u :: mt_draws t s'
  | DB :: t => let '(b, s') := uniform_bool s in (if b then 1 else 0)%float :: mt_draws t s'
  | DI :: t => let '(k, s') := uniform_int (-5) 17 s in f_of_Z k :: mt_draws t s'
  end.
Definition rng_draws (sd : N) (pat : list draw) : list float := mt_draws pat (mt_seed sd).
