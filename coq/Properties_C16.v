(* Properties_C16.v — property C16 (constrained spaces keep sampled, interpolated and path states on the manifold).
   Statements only.  ProjectedStateSpace::discreteGeodesic is transcribed once, generically over the arithmetic; proved
   here over the reals for every ambient interpolation, distance, projection operator, validity predicate, delta and
   lambda; the same code instantiated with binary64 is run against /repo (coq/ConstraintRun.v). *)
From Coq Require Import List Bool Arith Reals.
From OmplV Require Import ConstraintModel ConstraintProofs.
Import ListNotations.
Local Open Scope R_scope.

(* every state the geodesic appends after the start is the result of a successful projection (Constraint::project
   returned true, i.e. the constraint function is within tolerance there), consecutive states are at most lambda*delta
   apart, with interpolate = false every appended state is valid, and success means the last state is within delta of
   the target *)
Theorem C16_discrete_geodesic : forall (St : Type) (dist : St -> St -> R) (interp : St -> St -> R -> St)
    (project : St -> option St) (valid : St -> bool) (delta lambda : R) fuel ipol from to ok g,
  discrete_geodesic ReG St dist interp project valid delta lambda fuel ipol from to = (ok, g) ->
  exists l, g = from :: l /\ stepwise St dist delta lambda from l /\ Forall (on_manifold St project) l /\
            (ipol = false -> Forall (fun s => valid s = true) l) /\ (ok = true -> dist (last l from) to <= delta).
Proof. exact discrete_geodesic_spec. Qed.
Print Assumptions C16_discrete_geodesic.

(* interpolation: ConstrainedStateSpace::geodesicInterpolate returns, for every fraction t >= 0, one of the states of
   the geodesic it is given (it never reads outside the vector), so ConstrainedStateSpace::interpolate returns `from'
   or a state of a successful geodesic: by the theorem above a successful projection, i.e. a state on the manifold *)
Theorem C16_interpolation_returns_a_geodesic_state : forall (St : Type) (dist : St -> St -> R) (g : list St) (t : R),
  g <> [] -> 0 <= t -> exists s, geodesic_interpolate ReG St dist Rminus Rabs 1 g t = Some s /\ In s g.
Proof. exact geodesic_interpolate_in. Qed.
Print Assumptions C16_interpolation_returns_a_geodesic_state.

(* non-vacuity: the binary64 instance on the plane x2 = 0 *)
From Coq Require Import Floats.
From OmplV Require Import ConstraintRun.
Local Open Scope float_scope.
Example C16_nonvacuous :
  fst (geo_run 0x1.a36e2eb1c432dp-14 0x1.999999999999ap-5 2 true [0x1.999999999999ap-4; 0x1.999999999999ap-4; 0] [0.5; 0x1.3333333333333p-2; 0]) = true /\
  length (snd (geo_run 0x1.a36e2eb1c432dp-14 0x1.999999999999ap-5 2 true [0x1.999999999999ap-4; 0x1.999999999999ap-4; 0] [0.5; 0x1.3333333333333p-2; 0])) = 9%nat /\
  fst (geo_run 0x1.a36e2eb1c432dp-14 0x1.999999999999ap-5 2 false [0x1.999999999999ap-4; 0x1.999999999999ap-4; 0] [0.875; 0x1.999999999999ap-4; 0]) = false.
Proof. vm_compute. repeat split. Qed.
