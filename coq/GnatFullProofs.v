(* GnatFullProofs.v — the structure maintained by GnatFullModel.v satisfies, after every operation, the invariant the
   search theorems of GnatProofs.v need (NNModel.inv_ok_root on the tree seen as a NNModel.gnode), holds exactly the
   elements it should, and never keeps a pivot in the removal cache. *)
From Coq Require Import List ZArith Bool Arith Lia Permutation Sorted.
From OmplV Require Import NNModel NNProofs GnatModel GnatProofs GnatFullModel.
Import ListNotations.
Local Open Scope Z_scope.

Section FP.
  Variable P : Type.
  Variable d : P -> P -> Z.
  Variable peqb : P -> P -> bool.
  Hypothesis d_sym : forall x y, d x y = d y x.
  Notation fnode := (fnode P).
  Notation gnode := (gnode P).

  Fixpoint to_g (n : fnode) : gnode :=
    match n with FNode _ _ p lo hi r dat ch => GNode p lo hi r dat (map to_g ch) end.
  Definition felems (n : fnode) : list P := elems P (to_g n).

  (* induction over fnode trees *)
  Fixpoint fnode_rect' (Q : fnode -> Prop)
      (H : forall g p a b r dat ch, Forall Q ch -> Q (FNode P g p a b r dat ch)) (n : fnode) : Q n :=
    match n with
    | FNode _ g p a b r dat ch =>
      H g p a b r dat ch ((fix go (l : list fnode) : Forall Q l :=
                             match l with [] => Forall_nil Q | c :: t => Forall_cons c (fnode_rect' Q H c) (go t) end) ch)
    end.

  (* ---- intervals only ever widen ---- *)
  Definition covers (lo hi : option Z) (x : Z) : Prop := exists l h, lo = Some l /\ hi = Some h /\ l <= x <= h.
  Lemma covers_intro l h x : l <= x <= h -> covers (Some l) (Some h) x.
  Proof. intros H. exists l, h. auto. Qed.
  Lemma upd_covers_self lo hi x : covers (upd_min lo x) (upd_max hi x) x.
  Proof.
    unfold upd_min, upd_max. destruct lo as [l|], hi as [h|].
    - destruct (Z.ltb_spec x l), (Z.ltb_spec h x); apply covers_intro; lia.
    - destruct (Z.ltb_spec x l); apply covers_intro; lia.
    - destruct (Z.ltb_spec h x); apply covers_intro; lia.
    - apply covers_intro; lia.
  Qed.
  Lemma upd_covers_mono lo hi x y : covers lo hi y -> covers (upd_min lo x) (upd_max hi x) y.
  Proof.
    intros (l & h & -> & -> & H). unfold upd_min, upd_max.
    destruct (Z.ltb_spec x l), (Z.ltb_spec h x); apply covers_intro; lia.
  Qed.
  Lemma within_covers c lo hi l : within P d c lo hi l = true <-> forall x, In x l -> covers lo hi (d c x).
  Proof.
    unfold within. rewrite forallb_forall. split.
    - intros H x Hx. specialize (H x Hx). apply andb_true_iff in H. destruct H as (H1 & H2).
      destruct lo as [l0|]; [|discriminate]. destruct hi as [h0|]; [|discriminate]. cbn in H1, H2. apply Z.leb_le in H1, H2.
      exists l0, h0. auto.
    - intros H x Hx. destruct (H x Hx) as (l0 & h0 & -> & -> & Hb). cbn. apply andb_true_iff. split; apply Z.leb_le; lia.
  Qed.

  Hypothesis d_refl : forall x, d x x = 0.
  Hypothesis d_nonneg : forall x y, 0 <= d x y.

  Notation f_pivot := (f_pivot P).
  Notation f_data := (f_data P).
  Notation f_children := (f_children P).
  Definition f_lo (n : fnode) := match n with FNode _ _ _ lo _ _ _ _ => lo end.
  Definition f_hi (n : fnode) := match n with FNode _ _ _ _ hi _ _ _ => hi end.
  Definition f_ranges (n : fnode) := match n with FNode _ _ _ _ _ r _ _ => r end.
  Definition rng (c : fnode) (j : nat) : option Z * option Z := nth j (f_ranges c) (None, None).
  Lemma felems_eq n : felems n = f_pivot n :: f_data n ++ flat_map felems (f_children n).
  Proof. destruct n as [g p lo hi r dat ch]. unfold felems. cbn [to_g NNModel.elems GnatFullModel.f_pivot GnatFullModel.f_data GnatFullModel.f_children]. rewrite flat_map_concat_map, map_map, <- flat_map_concat_map. reflexivity. Qed.

  (* the invariant, in Prop form *)
  Definition ROK (ch : list fnode) : Prop :=
    forall i j ci cj, nth_error ch i = Some ci -> nth_error ch j = Some cj ->
      forall x, In x (felems cj) -> covers (fst (rng ci j)) (snd (rng ci j)) (d (f_pivot ci) x).
  Definition RL (ch : list fnode) : Prop := forall c, In c ch -> (length ch <= length (f_ranges c))%nat.
  Fixpoint FInv (n : fnode) : Prop :=
    match n with FNode _ g p lo hi r dat ch =>
      (1 <= g)%nat /\ (forall x, In x (dat ++ flat_map felems ch) -> covers lo hi (d p x)) /\ ROK ch /\ RL ch /\
      (fix go (l : list fnode) : Prop := match l with [] => True | c :: t => FInv c /\ go t end) ch
    end.
  Definition FInvs (l : list fnode) : Prop := Forall FInv l.
  Definition f_deg (n : fnode) := match n with FNode _ g _ _ _ _ _ _ => g end.
  Lemma FInv_unfold n : FInv n <->
    (1 <= f_deg n)%nat /\ (forall x, In x (f_data n ++ flat_map felems (f_children n)) -> covers (f_lo n) (f_hi n) (d (f_pivot n) x)) /\
    ROK (f_children n) /\ RL (f_children n) /\ FInvs (f_children n).
  Proof.
    destruct n as [g p lo hi r dat ch]. cbn [FInv f_lo f_hi f_deg GnatFullModel.f_pivot GnatFullModel.f_data GnatFullModel.f_children].
    assert (E : (fix go (l : list fnode) : Prop := match l with [] => True | c :: t => FInv c /\ go t end) ch <-> FInvs ch).
    { unfold FInvs. induction ch as [|c t IH]; [split; [constructor|auto]|]. rewrite IH. split; [intros (A & B); constructor; assumption|intros H; inversion H; auto]. }
    rewrite E. reflexivity.
  Qed.
  (* the root: its own radius interval is not maintained (and not used) *)
  Definition FInvRoot (n : fnode) : Prop := (1 <= f_deg n)%nat /\ ROK (f_children n) /\ RL (f_children n) /\ FInvs (f_children n).

  (* ---- upd_nth ---- *)
  Lemma upd_nth_length {A} (f : A -> A) i l : length (upd_nth f i l) = length l.
  Proof. revert i. induction l as [|a t IH]; intros [|i]; cbn [upd_nth length]; auto. Qed.
  Lemma nth_error_upd_nth_same {A} (f : A -> A) : forall l i a, nth_error l i = Some a -> nth_error (upd_nth f i l) i = Some (f a).
  Proof. induction l as [|b t IH]; intros [|i] a H; cbn [upd_nth nth_error] in *; try discriminate; [injection H as ->; reflexivity|apply IH; exact H]. Qed.
  Lemma nth_error_upd_nth_other {A} (f : A -> A) : forall l i j, i <> j -> nth_error (upd_nth f i l) j = nth_error l j.
  Proof. induction l as [|b t IH]; intros [|i] [|j] H; cbn [upd_nth nth_error]; try reflexivity; try congruence. apply IH. congruence. Qed.
  Lemma nth_upd_nth_same {A} (f : A -> A) dflt : forall l i, (i < length l)%nat -> nth i (upd_nth f i l) dflt = f (nth i l dflt).
  Proof. induction l as [|b t IH]; intros [|i] H; cbn [upd_nth nth length] in *; try lia; [reflexivity|apply IH; lia]. Qed.
  Lemma nth_upd_nth_other {A} (f : A -> A) dflt : forall l i j, i <> j -> nth j (upd_nth f i l) dflt = nth j l dflt.
  Proof. induction l as [|b t IH]; intros [|i] [|j] H; cbn [upd_nth nth]; try reflexivity; try congruence. apply IH. congruence. Qed.

  (* update_range / update_radius / add_data touch one field *)
  Lemma ur_fields k x c : f_pivot (update_range P k x c) = f_pivot c /\ f_data (update_range P k x c) = f_data c /\
    f_children (update_range P k x c) = f_children c /\ f_lo (update_range P k x c) = f_lo c /\ f_hi (update_range P k x c) = f_hi c.
  Proof. destruct c; cbn; auto. Qed.
  Lemma ur_elems k x c : felems (update_range P k x c) = felems c.
  Proof. destruct c; reflexivity. Qed.
  Lemma ur_rng_same k x c : (k < length (f_ranges c))%nat ->
    rng (update_range P k x c) k = (upd_min (fst (rng c k)) x, upd_max (snd (rng c k)) x).
  Proof. destruct c as [g p lo hi r dat ch]. unfold rng. cbn [update_range f_ranges]. intros H. rewrite nth_upd_nth_same by exact H. reflexivity. Qed.
  Lemma ur_rng_other k j x c : k <> j -> rng (update_range P k x c) j = rng c j.
  Proof. destruct c as [g p lo hi r dat ch]. unfold rng. cbn [update_range f_ranges]. intros H. rewrite nth_upd_nth_other by exact H. reflexivity. Qed.
  Lemma ur_ranges_len k x c : length (f_ranges (update_range P k x c)) = length (f_ranges c).
  Proof. destruct c. cbn [update_range f_ranges]. apply upd_nth_length. Qed.

  (* ---- first minimum of a list ---- *)
  Lemma argmin_from_spec : forall l j best bv, (best < j)%nat ->
    let r := gf_argmin_from l j best bv in
    (r = best \/ (j <= r < j + length l)%nat) /\
    (r = best -> forall i, (i < length l)%nat -> bv <= nth i l 0) /\
    (r <> best -> nth (r - j) l 0 < bv /\ (forall i, (i < r - j)%nat -> nth (r - j) l 0 < nth i l 0) /\ (forall i, (i < length l)%nat -> nth (r - j) l 0 <= nth i l 0)).
  Proof.
    induction l as [|x t IH]; intros j best bv Hb; cbn [gf_argmin_from length].
    - split; [left; reflexivity|]. split; [intros _ i Hi; lia|intros H; congruence].
    - destruct (Z.ltb_spec x bv) as [L|L].
      + specialize (IH (S j) j x ltac:(lia)). cbn zeta in IH. destruct IH as (I1 & I2 & I3).
        set (r := gf_argmin_from t (S j) j x) in *.
        assert (Hr : (j <= r < j + S (length t))%nat) by (destruct I1 as [->|I1]; lia).
        split; [right; exact Hr|]. split; [intros E; lia|]. intros _.
        destruct (Nat.eq_dec r j) as [E|N].
        * rewrite E, Nat.sub_diag. cbn [nth]. split; [exact L|]. split; [intros i Hi; lia|].
          intros [|i] Hi; cbn [nth]; [lia|]. apply (I2 E i). lia.
        * destruct (I3 N) as (A & B & C). replace (r - j)%nat with (S (r - S j)) by lia. cbn [nth].
          split; [lia|]. split.
          -- intros [|i] Hi; cbn [nth]; [lia|apply B; lia].
          -- intros [|i] Hi; cbn [nth]; [lia|apply C; lia].
      + specialize (IH (S j) best bv ltac:(lia)). cbn zeta in IH. destruct IH as (I1 & I2 & I3).
        set (r := gf_argmin_from t (S j) best bv) in *.
        split; [destruct I1 as [->|I1]; [left; reflexivity|right; lia]|]. split.
        * intros E [|i] Hi; cbn [nth]; [lia|apply (I2 E i); lia].
        * intros N. destruct (I3 N) as (A & B & C). assert (Hr : (S j <= r)%nat) by (destruct I1 as [E|I1]; [congruence|lia]).
          replace (r - j)%nat with (S (r - S j)) by lia. cbn [nth]. split; [exact A|]. split.
          -- intros [|i] Hi; cbn [nth]; [lia|apply B; lia].
          -- intros [|i] Hi; cbn [nth]; [lia|apply C; lia].
  Qed.
  (* the first minimum: in range, minimal, and strictly below everything before it *)
  Lemma argmin_spec l : l <> [] ->
    (gf_argmin l < length l)%nat /\ (forall i, (i < length l)%nat -> nth (gf_argmin l) l 0 <= nth i l 0) /\
    (forall i, (i < gf_argmin l)%nat -> nth (gf_argmin l) l 0 < nth i l 0).
  Proof.
    destruct l as [|x t]; [congruence|]. intros _. unfold gf_argmin. pose proof (argmin_from_spec t 1 0%nat x ltac:(lia)) as H. cbn zeta in H.
    set (r := gf_argmin_from t 1 0 x) in *. destruct H as (H1 & H2 & H3). cbn [length].
    destruct (Nat.eq_dec r 0) as [E|N].
    - rewrite E. cbn [nth]. split; [lia|]. split; [intros [|i] Hi; cbn [nth]; [lia|apply (H2 E i); lia]|intros i Hi; lia].
    - destruct (H3 N) as (A & B & C). assert (Hr : (1 <= r < 1 + length t)%nat) by (destruct H1; [congruence|lia]).
      replace r with (S (r - 1)) by lia. cbn [nth]. split; [lia|]. split.
      + intros [|i] Hi; cbn [nth]; [lia|apply C; lia].
      + intros [|i] Hi; cbn [nth]; [lia|apply B; lia].
  Qed.
  (* a list whose k-th entry is 0, earlier entries positive and all entries non-negative has its first minimum at k *)
  Lemma argmin_at l k : (k < length l)%nat -> nth k l 0 = 0 -> (forall i, (i < k)%nat -> 0 < nth i l 0) -> (forall i, (i < length l)%nat -> 0 <= nth i l 0) ->
    gf_argmin l = k.
  Proof.
    intros Hk E0 Hpos Hnn. assert (Hl : l <> []) by (intros ->; cbn in Hk; lia). destruct (argmin_spec l Hl) as (A & B & C).
    set (r := gf_argmin l) in *. destruct (lt_eq_lt_dec r k) as [[L|E]|G]; [|exact E|].
    - specialize (Hpos r L). specialize (B k Hk). lia.
    - specialize (C k G). specialize (Hnn r A). lia.
  Qed.

  (* map over an indexed list *)
  Lemma nth_error_mapi {A B} (F : nat -> A -> B) : forall (l : list A) s i,
    nth_error (map (fun ic => F (fst ic) (snd ic)) (combine (seq s (length l)) l)) i = option_map (F (s + i)%nat) (nth_error l i).
  Proof.
    induction l as [|a t IH]; intros s i; cbn [length seq combine map]; [destruct i; reflexivity|].
    destruct i as [|i]; cbn [nth_error option_map fst snd]; [rewrite Nat.add_0_r; reflexivity|]. rewrite IH. replace (S s + i)%nat with (s + S i)%nat by lia. reflexivity.
  Qed.
  Lemma length_mapi {A B} (F : nat -> A -> B) (l : list A) s : length (map (fun ic => F (fst ic) (snd ic)) (combine (seq s (length l)) l)) = length l.
  Proof. rewrite map_length, combine_length, seq_length. lia. Qed.

  (* ---- GreedyKCenters: the centres are valid indices and every centre is at a positive distance from the earlier ones ---- *)
  Lemma sweep_spec c : forall dat mind j best, length mind = length dat ->
    let r := gf_sweep P d c dat mind j best in
    length (fst r) = length dat /\
    (forall i x, nth_error dat i = Some x -> exists v, nth_error (fst r) i = Some (Some v) /\ v <= d x c /\ (forall m, nth_error mind i = Some (Some m) -> v <= m)) /\
    (snd r = best \/ exists i v x, snd r = Some ((j + i)%nat, v) /\ nth_error dat i = Some x /\ nth_error (fst r) i = Some (Some v)).
  Proof.
    induction dat as [|x dt IH]; intros mind j best Hl; destruct mind as [|m mt]; cbn [length] in Hl; try lia; cbn [gf_sweep].
    - cbn [fst snd length]. split; [reflexivity|]. split; [intros i y H; destruct i; discriminate|left; reflexivity].
    - set (v := min_opt m (d x c)).
      set (best' := match best with Some (_, bv) => if bv <? v then Some (j, v) else best | None => Some (j, v) end).
      specialize (IH mt (S j) best' ltac:(lia)). cbn zeta in IH. destruct (gf_sweep P d c dt mt (S j) best') as [r b]. cbn [fst snd] in *.
      destruct IH as (I1 & I2 & I3). split; [cbn [length]; lia|]. split.
      + intros [|i] y H; cbn [nth_error] in *.
        * injection H as <-. exists v. split; [reflexivity|]. unfold v, min_opt. destruct m as [m0|]; split; try lia; intros m1 E; try discriminate. injection E as <-. lia.
        * apply (I2 i y H).
      + assert (B' : best' = best \/ best' = Some (j, v)).
        { unfold best'. destruct best as [[bi bv]|]; [destruct (bv <? v); auto|auto]. }
        destruct I3 as [E|(i & w & y & E & Hy & Hw)].
        * destruct B' as [B'|B']; [left; congruence|]. right. exists 0%nat, v, x. rewrite Nat.add_0_r. cbn [nth_error]. split; [congruence|auto].
        * right. exists (S i), w, y. replace (j + S i)%nat with (S j + i)%nat by lia. cbn [nth_error]. auto.
  Qed.

  Section KC.
    Variable dat : list P.
    Definition validc (l : list nat) : Prop := forall a, In a l -> (a < length dat)%nat.
    Definition PW (l : list nat) : Prop := forall p q a b xa xb, (p < q)%nat -> nth_error l p = Some a -> nth_error l q = Some b ->
      nth_error dat a = Some xa -> nth_error dat b = Some xb -> 0 < d xb xa.
    Lemma kc_loop_spec : forall fuel prev last mind,
      validc (prev ++ [last]) -> PW (prev ++ [last]) -> length mind = length dat ->
      (forall j x a xa, nth_error dat j = Some x -> In a prev -> nth_error dat a = Some xa -> exists m, nth_error mind j = Some (Some m) /\ m <= d x xa) ->
      let r := gf_kc_loop P d fuel dat (prev ++ [last]) last mind in
      validc r /\ PW r /\ r <> [] /\ (length r <= length prev + 1 + fuel)%nat.
    Proof.
      induction fuel as [|f IH]; intros prev last mind V W Hl Hm; cbn [gf_kc_loop].
      - split; [exact V|]. split; [exact W|]. split; [destruct prev; discriminate|rewrite app_length; cbn; lia].
      - assert (Hlast : (last < length dat)%nat) by (apply V; apply in_or_app; right; left; reflexivity).
        destruct (nth_error dat last) as [c|] eqn:Ec; [|apply nth_error_None in Ec; lia].
        pose proof (sweep_spec c dat mind 0%nat None Hl) as SS. cbn zeta in SS. destruct (gf_sweep P d c dat mind 0 None) as [mind' best]. cbn [fst snd] in SS.
        destruct SS as (S1 & S2 & S3).
        destruct best as [[ind v]|]; [|split; [exact V|split; [exact W|split; [destruct prev; discriminate|rewrite app_length; cbn; lia]]]].
        destruct (Z.leb_spec v 0) as [Lv|Lv]; [split; [exact V|split; [exact W|split; [destruct prev; discriminate|rewrite app_length; cbn; lia]]]|].
        destruct S3 as [E|(i & w & y & E & Hy & Hw)]; [discriminate|]. injection E as -> ->. cbn [Nat.add] in *.
        assert (Hi : (i < length dat)%nat) by (apply nth_error_Some; congruence).
        (* the chosen element is farther than v > 0 from every centre so far *)
        assert (Far : forall a xa, In a (prev ++ [last]) -> nth_error dat a = Some xa -> w <= d y xa).
        { intros a xa Ha Hxa. destruct (S2 i y Hy) as (w' & Hw' & Wc & Wm). rewrite Hw in Hw'. injection Hw' as <-.
          apply in_app_or in Ha. destruct Ha as [Ha|[<-|[]]].
          - destruct (Hm i y a xa Hy Ha Hxa) as (m & Em & Lm). specialize (Wm m Em). lia.
          - rewrite Ec in Hxa. injection Hxa as <-. exact Wc. }
        replace ((prev ++ [last]) ++ [i]) with ((prev ++ [last]) ++ [i]) by reflexivity.
        specialize (IH (prev ++ [last]) i mind').
        assert (G : let r := gf_kc_loop P d f dat ((prev ++ [last]) ++ [i]) i mind' in validc r /\ PW r /\ r <> [] /\ (length r <= length (prev ++ [last]) + 1 + f)%nat).
        { apply IH.
          - intros a Ha. apply in_app_or in Ha. destruct Ha as [Ha|[<-|[]]]; [apply V; exact Ha|exact Hi].
          - intros p q a b xa xb Hpq Hp Hq Hxa Hxb.
            destruct (Nat.lt_ge_cases q (length (prev ++ [last]))) as [Lq|Gq].
            + rewrite nth_error_app1 in Hp, Hq by lia. apply (W p q a b xa xb Hpq Hp Hq Hxa Hxb).
            + rewrite nth_error_app2 in Hq by lia. destruct (q - length (prev ++ [last]))%nat as [|z] eqn:Ez; [|destruct z; discriminate]. cbn in Hq. injection Hq as <-.
              rewrite Hy in Hxb. injection Hxb as <-.
              assert (Hp' : nth_error (prev ++ [last]) p = Some a) by (rewrite nth_error_app1 in Hp by lia; exact Hp).
              specialize (Far a xa (nth_error_In _ _ Hp') Hxa). lia.
          - lia.
          - intros j x a xa Hj Ha Hxa. destruct (S2 j x Hj) as (w' & Hw' & Wc & Wm). exists w'. split; [exact Hw'|].
            apply in_app_or in Ha. destruct Ha as [Ha|[<-|[]]].
            + destruct (Hm j x a xa Hj Ha Hxa) as (m & Em & Lm). specialize (Wm m Em). lia.
            + rewrite Ec in Hxa. injection Hxa as <-. exact Wc. }
        cbn zeta in G. destruct G as (G1 & G2 & G3 & G4). split; [exact G1|split; [exact G2|split; [exact G3|]]]. rewrite app_length in G4. cbn [length] in G4. lia.
    Qed.
    Lemma kcenters_spec k first : (first < length dat)%nat ->
      let r := gf_kcenters P d dat k first in validc r /\ PW r /\ r <> [] /\ (length r <= Nat.max k 1)%nat.
    Proof.
      intros Hf. unfold gf_kcenters. pose proof (kc_loop_spec (k - 1) [] first (repeat None (length dat))) as H. cbn [app] in H.
      destruct H as (A & B & C & D).
      - intros a [<-|[]]. exact Hf.
      - intros p q a b xa xb Hpq Hp Hq. destruct p, q; cbn in Hp, Hq; try lia; try discriminate; destruct q; discriminate.
      - apply repeat_length.
      - intros j x a xa _ [].
      - split; [exact A|split; [exact B|split; [exact C|]]]. cbn [length] in D. lia.
    Qed.
  End KC.

  (* ---- one level of Node::split: distributing the data over the new children ---- *)
  Lemma urad_fields x c : f_pivot (update_radius P x c) = f_pivot c /\ f_data (update_radius P x c) = f_data c /\ f_children (update_radius P x c) = f_children c /\
    f_ranges (update_radius P x c) = f_ranges c /\ f_lo (update_radius P x c) = upd_min (f_lo c) x /\ f_hi (update_radius P x c) = upd_max (f_hi c) x.
  Proof. destruct c; cbn; auto 10. Qed.
  Lemma adddata_fields x c : f_pivot (add_data P x c) = f_pivot c /\ f_data (add_data P x c) = f_data c ++ [x] /\ f_children (add_data P x c) = f_children c /\
    f_ranges (add_data P x c) = f_ranges c /\ f_lo (add_data P x c) = f_lo c /\ f_hi (add_data P x c) = f_hi c.
  Proof. destruct c; cbn; auto 10. Qed.
  Lemma ur_ranges k x c : f_ranges (update_range P k x c) = upd_nth (fun e => (upd_min (fst e) x, upd_max (snd e) x)) k (f_ranges c).
  Proof. destruct c; reflexivity. Qed.

  Lemma fst_comb_seq {A} (l : list A) : forall s, map fst (combine (seq s (length l)) l) = seq s (length l).
  Proof. induction l as [|a t IH]; intros s; [reflexivity|]. cbn [length seq combine map fst]. rewrite IH. reflexivity. Qed.
  Lemma snd_comb_seq {A} (l : list A) : forall s, map snd (combine (seq s (length l)) l) = l.
  Proof. induction l as [|a t IH]; intros s; [reflexivity|]. cbn [length seq combine map snd]. rewrite IH. reflexivity. Qed.
  Lemma flat_data_upd x v : forall l kk, (kk < length l)%nat ->
    Permutation (flat_map f_data (upd_nth (fun c => update_radius P v (add_data P x c)) kk l)) (x :: flat_map f_data l).
  Proof.
    induction l as [|c t IH]; intros kk Hk; [cbn in Hk; lia|]. destruct kk as [|kk]; cbn [upd_nth flat_map].
    - destruct (urad_fields v (add_data P x c)) as (_ & U2 & _). destruct (adddata_fields x c) as (_ & A2 & _). rewrite U2, A2.
      rewrite <- app_assoc. cbn [app]. apply Permutation_sym, Permutation_middle.
    - cbn [length] in Hk. eapply perm_trans; [apply Permutation_app_head; apply (IH kk); lia|]. apply Permutation_sym, Permutation_middle.
  Qed.

  Section Split1.
    Variable dat : list P.
    Variable pivots : list nat.
    Variable p0 : P.
    Hypothesis Vp : validc dat pivots.
    Hypothesis Wp : PW dat pivots.
    Hypothesis Np : pivots <> [].
    Definition centers : list P := map (fun i => nth i dat p0) pivots.
    Definition m := length pivots.
    Definition dsx (x : P) : list Z := map (fun c => d x c) centers.
    Lemma centers_len : length centers = m. Proof. unfold centers, m. apply map_length. Qed.
    Lemma dsx_len x : length (dsx x) = m. Proof. unfold dsx. rewrite map_length. apply centers_len. Qed.
    Lemma center_in_dat k : (k < m)%nat -> nth_error dat (nth k pivots 0%nat) = Some (nth k centers p0).
    Proof.
      intros Hk. unfold centers. rewrite (nth_indep _ p0 (nth 0 dat p0)) by (rewrite map_length; exact Hk).
      change (nth 0 dat p0) with ((fun i => nth i dat p0) 0%nat). rewrite map_nth.
      apply nth_error_nth'. apply Vp. apply nth_In. exact Hk.
    Qed.
    Lemma dsx_nth x i : (i < m)%nat -> nth i (dsx x) 0 = d x (nth i centers p0).
    Proof. intros Hi. unfold dsx. rewrite (nth_indep _ 0 (d x p0)) by (rewrite map_length, centers_len; exact Hi). apply (map_nth (fun c => d x c)). Qed.
    Lemma argmin_lt x : (gf_argmin (dsx x) < m)%nat.
    Proof. destruct (argmin_spec (dsx x)) as (A & _); [intros E; pose proof (dsx_len x) as L; rewrite E in L; unfold m in L; destruct pivots; [congruence|discriminate]|rewrite dsx_len in A; exact A]. Qed.
    (* a centre is closest to itself, and first so *)
    Lemma argmin_center k : (k < m)%nat -> gf_argmin (dsx (nth k centers p0)) = k.
    Proof.
      intros Hk. apply argmin_at.
      - rewrite dsx_len. exact Hk.
      - rewrite dsx_nth by exact Hk. apply d_refl.
      - intros i Hi. rewrite dsx_nth by lia. apply (Wp i k (nth i pivots 0%nat) (nth k pivots 0%nat)); [exact Hi| | |apply center_in_dat; lia|apply center_in_dat; exact Hk];
          apply nth_error_nth'; unfold m in *; lia.
      - intros i Hi. rewrite dsx_len in Hi. rewrite dsx_nth by exact Hi. apply d_nonneg.
    Qed.

    Definition own (jx : nat * P) : bool := Nat.eqb (fst jx) (nth (gf_argmin (dsx (snd jx))) pivots 0%nat).
    Record DInv (chs : list fnode) (pre : list (nat * P)) : Prop := {
      di_len : length chs = m;
      di_shape : forall k ck, nth_error chs k = Some ck -> f_pivot ck = nth k centers p0 /\ f_children ck = [] /\ (m <= length (f_ranges ck))%nat;
      di_rad : forall k ck x, nth_error chs k = Some ck -> In x (f_data ck) -> covers (f_lo ck) (f_hi ck) (d (f_pivot ck) x);
      di_rng : forall i ci j x, nth_error chs i = Some ci -> In (j, x) pre -> covers (fst (rng ci (gf_argmin (dsx x)))) (snd (rng ci (gf_argmin (dsx x)))) (d (f_pivot ci) x);
      di_src : forall k ck x, nth_error chs k = Some ck -> In x (f_data ck) -> exists j, In (j, x) pre /\ gf_argmin (dsx x) = k;
      di_perm : Permutation (flat_map f_data chs ++ map snd (filter own pre)) (map snd pre) }.

    Lemma distribute_step chs pre j x : DInv chs pre -> DInv (gf_distribute P d pivots centers chs j x) (pre ++ [(j, x)]).
    Proof.
      intros [Dl Ds Dr Dg Dc Dp]. unfold gf_distribute. fold (dsx x). set (k := gf_argmin (dsx x)).
      assert (Hk : (k < m)%nat) by apply argmin_lt.
      set (chs1 := if Nat.eqb j (nth k pivots 0%nat) then chs else upd_nth (fun c => update_radius P (nth k (dsx x) 0) (add_data P x c)) k chs).
      assert (L1 : length chs1 = m) by (unfold chs1; destruct (Nat.eqb j (nth k pivots 0%nat)); [exact Dl|rewrite upd_nth_length; exact Dl]).
      (* what chs1 looks like *)
      assert (C1 : forall i ci1, nth_error chs1 i = Some ci1 -> exists ci, nth_error chs i = Some ci /\ f_pivot ci1 = f_pivot ci /\ f_children ci1 = f_children ci /\ f_ranges ci1 = f_ranges ci /\
                   ((i = k /\ Nat.eqb j (nth k pivots 0%nat) = false /\ f_data ci1 = f_data ci ++ [x] /\ f_lo ci1 = upd_min (f_lo ci) (nth k (dsx x) 0) /\ f_hi ci1 = upd_max (f_hi ci) (nth k (dsx x) 0)) \/
                    ((i <> k \/ Nat.eqb j (nth k pivots 0%nat) = true) /\ ci1 = ci))).
      { intros i ci1 H. unfold chs1 in H. destruct (Nat.eqb j (nth k pivots 0%nat)) eqn:E; [exists ci1; split; [exact H|]; repeat split; auto|].
        destruct (Nat.eq_dec k i) as [<-|N].
        - destruct (nth_error chs k) as [ck|] eqn:Ek; [|apply nth_error_None in Ek; lia].
          rewrite (nth_error_upd_nth_same _ chs k ck Ek) in H. injection H as <-. exists ck. split; [reflexivity|].
          destruct (urad_fields (nth k (dsx x) 0) (add_data P x ck)) as (U1 & U2 & U3 & U4 & U5 & U6). destruct (adddata_fields x ck) as (A1 & A2 & A3 & A4 & A5 & A6).
          split; [congruence|]. split; [congruence|]. split; [congruence|]. left. repeat split; congruence.
        - rewrite nth_error_upd_nth_other in H by exact N. exists ci1. split; [exact H|]. repeat split; auto. }
      set (chs2 := map (fun ic => update_range P k (nth (fst ic) (dsx x) 0) (snd ic)) (combine (seq 0 (length chs1)) chs1)).
      assert (C2 : forall i ci2, nth_error chs2 i = Some ci2 -> exists ci1, nth_error chs1 i = Some ci1 /\ ci2 = update_range P k (nth i (dsx x) 0) ci1).
      { intros i ci2 H. unfold chs2 in H. rewrite (nth_error_mapi (fun i c => update_range P k (nth i (dsx x) 0) c) chs1 0 i) in H. cbn [Nat.add] in H.
        destruct (nth_error chs1 i) as [ci1|]; [|discriminate]. injection H as <-. exists ci1. auto. }
      assert (L2 : length chs2 = m) by (unfold chs2; rewrite (length_mapi (fun i c => update_range P k (nth i (dsx x) 0) c)); exact L1).
      (* the value written into child i's range table is the distance from its pivot to x *)
      assert (DX : forall i ci, nth_error chs i = Some ci -> nth i (dsx x) 0 = d (f_pivot ci) x).
      { intros i ci H. assert (Hi : (i < m)%nat) by (rewrite <- Dl; apply nth_error_Some; congruence).
        rewrite dsx_nth by exact Hi. destruct (Ds i ci H) as (E & _). rewrite E. apply d_sym. }
      constructor.
      - exact L2.
      - intros i ci2 H. destruct (C2 i ci2 H) as (ci1 & H1 & ->). destruct (C1 i ci1 H1) as (ci & H0 & E1 & E2 & E3 & _).
        destruct (ur_fields k (nth i (dsx x) 0) ci1) as (U1 & _ & U3 & _). destruct (Ds i ci H0) as (S1 & S2 & S3).
        split; [congruence|]. split; [congruence|]. rewrite ur_ranges_len, E3. exact S3.
      - intros i ci2 y H Hy. destruct (C2 i ci2 H) as (ci1 & H1 & ->). destruct (C1 i ci1 H1) as (ci & H0 & E1 & E2 & E3 & Cs).
        destruct (ur_fields k (nth i (dsx x) 0) ci1) as (U1 & U2 & _ & U4 & U5). rewrite U1, U4, U5. rewrite U2 in Hy.
        destruct Cs as [(-> & _ & Ed & El & Eh)|(_ & ->)].
        + rewrite Ed in Hy. rewrite El, Eh, E1. apply in_app_or in Hy. destruct Hy as [Hy|[<-|[]]].
          * apply upd_covers_mono. apply (Dr k ci y H0 Hy).
          * rewrite (DX k ci H0). apply upd_covers_self.
        + apply (Dr i ci y H0 Hy).
      - intros i ci2 j' y H Hin. destruct (C2 i ci2 H) as (ci1 & H1 & ->). destruct (C1 i ci1 H1) as (ci & H0 & E1 & E2 & E3 & _).
        destruct (ur_fields k (nth i (dsx x) 0) ci1) as (U1 & _). rewrite U1, E1.
        destruct (Ds i ci H0) as (_ & _ & S3).
        assert (RL : (k < length (f_ranges ci1))%nat) by (rewrite E3; lia).
        apply in_app_or in Hin. destruct Hin as [Hin|[E|[]]].
        + pose proof (Dg i ci j' y H0 Hin) as Cv. destruct (Nat.eq_dec k (gf_argmin (dsx y))) as [Ek|Nk].
          * rewrite <- Ek. rewrite (ur_rng_same k _ ci1 RL). cbn [fst snd]. unfold rng. rewrite E3. fold (rng ci k). apply upd_covers_mono. rewrite Ek. exact Cv.
          * rewrite (ur_rng_other k _ _ ci1 Nk). unfold rng. rewrite E3. exact Cv.
        + injection E as <- <-. fold k. rewrite (ur_rng_same k _ ci1 RL). cbn [fst snd]. rewrite (DX i ci H0). apply upd_covers_self.
      - intros i ci2 y H Hy. destruct (C2 i ci2 H) as (ci1 & H1 & ->). destruct (C1 i ci1 H1) as (ci & H0 & _ & _ & _ & Cs).
        destruct (ur_fields k (nth i (dsx x) 0) ci1) as (_ & U2 & _). rewrite U2 in Hy.
        destruct Cs as [(-> & _ & Ed & _)|(_ & ->)].
        + rewrite Ed in Hy. apply in_app_or in Hy. destruct Hy as [Hy|[<-|[]]].
          * destruct (Dc k ci y H0 Hy) as (j' & Hj' & Ej'). exists j'. split; [apply in_or_app; left; exact Hj'|exact Ej'].
          * exists j. split; [apply in_or_app; right; left; reflexivity|reflexivity].
        + destruct (Dc i ci y H0 Hy) as (j' & Hj' & Ej'). exists j'. split; [apply in_or_app; left; exact Hj'|exact Ej'].
      - (* contents *)
        assert (FD2 : flat_map f_data chs2 = flat_map f_data chs1).
        { unfold chs2. clear. generalize 0%nat. induction chs1 as [|c t IH]; intros s0; [reflexivity|]. cbn [length seq combine map flat_map fst snd].
          rewrite IH. destruct (ur_fields k (nth s0 (dsx x) 0) c) as (_ & U2 & _). rewrite U2. reflexivity. }
        rewrite FD2, filter_app, !map_app. cbn [filter map]. unfold own at 2. cbn [fst snd]. fold k.
        unfold chs1. destruct (Nat.eqb j (nth k pivots 0%nat)) eqn:E.
        + cbn [map]. rewrite app_assoc. apply Permutation_app_tail. exact Dp.
        + cbn [map]. rewrite app_nil_r.
          pose proof (flat_data_upd x (nth k (dsx x) 0) chs k ltac:(lia)) as FD1.
          eapply perm_trans; [apply Permutation_app_tail; exact FD1|]. cbn [app].
          eapply perm_trans; [apply perm_skip; exact Dp|]. apply Permutation_cons_append.
    Qed.

    (* all the data distributed *)
    Variable g : nat.
    Hypothesis Hg : (m <= g)%nat.
    Definition chs0 : list fnode := map (new_node P g) centers.
    Lemma dinv0 : DInv chs0 [].
    Proof.
      constructor.
      - unfold chs0. rewrite map_length. apply centers_len.
      - intros k ck H. unfold chs0 in H. rewrite nth_error_map in H. destruct (nth_error centers k) as [c|] eqn:E; [|discriminate]. injection H as <-.
        cbn [new_node GnatFullModel.f_pivot GnatFullModel.f_children f_ranges]. split; [symmetry; apply nth_error_nth; exact E|]. split; [reflexivity|]. rewrite repeat_length. exact Hg.
      - intros k ck x H Hx. unfold chs0 in H. rewrite nth_error_map in H. destruct (nth_error centers k); [|discriminate]. injection H as <-. destruct Hx.
      - intros i ci j x _ [].
      - intros k ck x H Hx. unfold chs0 in H. rewrite nth_error_map in H. destruct (nth_error centers k); [|discriminate]. injection H as <-. destruct Hx.
      - cbn [filter map]. rewrite app_nil_r. unfold chs0. clear. induction centers as [|c t IH]; [constructor|]. cbn [map flat_map new_node GnatFullModel.f_data app]. exact IH.
    Qed.
    Definition dist_all (l : list (nat * P)) (chs : list fnode) : list fnode :=
      fold_left (fun chs jx => gf_distribute P d pivots centers chs (fst jx) (snd jx)) l chs.
    Lemma fold_dinv : forall l chs pre, DInv chs pre -> DInv (dist_all l chs) (pre ++ l).
    Proof.
      unfold dist_all. induction l as [|[j x] t IH]; intros chs pre H; cbn [fold_left fst snd]; [rewrite app_nil_r; exact H|].
      replace (pre ++ (j, x) :: t) with ((pre ++ [(j, x)]) ++ t) by (rewrite <- app_assoc; reflexivity). apply IH. apply distribute_step. exact H.
    Qed.
    Definition pre_all : list (nat * P) := combine (seq 0 (length dat)) dat.
    Lemma in_pre_all : forall j x, In (j, x) pre_all <-> nth_error dat j = Some x.
    Proof.
      unfold pre_all. assert (G : forall (l : list P) s j x, In (j, x) (combine (seq s (length l)) l) <-> (s <= j)%nat /\ nth_error l (j - s) = Some x).
      { induction l as [|a t IH]; intros s j x; cbn [length seq combine].
        - split; [intros []|intros (_ & H); destruct (j - s)%nat; discriminate].
        - cbn [In]. rewrite IH. split.
          + intros [E|(L & H)]; [injection E as <- <-; rewrite Nat.sub_diag; split; [lia|reflexivity]|]. split; [lia|]. replace (j - s)%nat with (S (j - S s)) by lia. exact H.
          + intros (L & H). destruct (Nat.eq_dec j s) as [->|N]; [rewrite Nat.sub_diag in H; injection H as ->; left; reflexivity|].
            right. split; [lia|]. replace (j - s)%nat with (S (j - S s)) in H by lia. exact H. }
      intros j x. rewrite G, Nat.sub_0_r. split; [tauto|intros H; split; [lia|exact H]].
    Qed.
    Lemma nodup_pivots : NoDup pivots.
    Proof.
      apply NoDup_nth_error. intros i j Hi E. destruct (lt_eq_lt_dec i j) as [[L|Eq]|G]; [|exact Eq|]; exfalso.
      - assert (Hj : (j < length pivots)%nat) by (apply nth_error_Some; rewrite <- E; apply nth_error_Some; exact Hi).
        pose proof (Wp i j (nth i pivots 0%nat) (nth j pivots 0%nat) _ _ L (nth_error_nth' _ _ Hi) (nth_error_nth' _ _ Hj) (center_in_dat i Hi) (center_in_dat j Hj)) as W.
        assert (En : nth i pivots 0%nat = nth j pivots 0%nat) by (rewrite (nth_error_nth' _ 0%nat Hi), (nth_error_nth' _ 0%nat Hj) in E; congruence).
        pose proof (center_in_dat i Hi) as C1. pose proof (center_in_dat j Hj) as C2. rewrite En in C1. rewrite C1 in C2. injection C2 as C2. rewrite C2, d_refl in W. lia.
      - assert (Hj : (j < length pivots)%nat) by lia.
        pose proof (Wp j i (nth j pivots 0%nat) (nth i pivots 0%nat) _ _ G (nth_error_nth' _ _ Hj) (nth_error_nth' _ _ Hi) (center_in_dat j Hj) (center_in_dat i Hi)) as W.
        assert (En : nth i pivots 0%nat = nth j pivots 0%nat) by (rewrite (nth_error_nth' _ 0%nat Hi), (nth_error_nth' _ 0%nat Hj) in E; congruence).
        pose proof (center_in_dat i Hi) as C1. pose proof (center_in_dat j Hj) as C2. rewrite En in C1. rewrite C1 in C2. injection C2 as C2. rewrite C2, d_refl in W. lia.
    Qed.
    Lemma map_nth_seq {A} (l : list A) dflt : map (fun k => nth k l dflt) (seq 0 (length l)) = l.
    Proof.
      assert (G : forall s (t : list A), map (fun k => nth (k - s) t dflt) (seq s (length t)) = t).
      { intros s t. revert s. induction t as [|a r IH]; intros s; [reflexivity|]. cbn [length seq map]. rewrite Nat.sub_diag. cbn [nth]. f_equal.
        rewrite <- (IH (S s)) at 2. apply map_ext_in. intros k Hk. apply in_seq in Hk. replace (k - s)%nat with (S (k - S s)) by lia. reflexivity. }
      rewrite <- (G 0%nat l) at 2. apply map_ext. intros k. rewrite Nat.sub_0_r. reflexivity.
    Qed.
    (* the data elements that became pivots are exactly the centres *)
    Lemma own_are_centers : Permutation (map snd (filter own pre_all)) centers.
    Proof.
      set (L2 := map (fun k => (nth k pivots 0%nat, nth k centers p0)) (seq 0 m)).
      assert (E2 : map snd L2 = centers).
      { unfold L2. rewrite map_map. cbn [snd]. rewrite <- centers_len. apply map_nth_seq. }
      rewrite <- E2. apply Permutation_map. apply NoDup_Permutation.
      - apply NoDup_filter. apply (NoDup_map_inv fst). unfold pre_all. rewrite fst_comb_seq. apply seq_NoDup.
      - apply (NoDup_map_inv fst). unfold L2. rewrite map_map. cbn [fst]. unfold m. rewrite map_nth_seq. apply nodup_pivots.
      - intros [j x]. rewrite filter_In, in_pre_all. unfold own. cbn [fst snd]. unfold L2. rewrite in_map_iff. split.
        + intros (Hd & Ho). apply Nat.eqb_eq in Ho. exists (gf_argmin (dsx x)). pose proof (argmin_lt x) as Hk. split; [|apply in_seq; lia].
          f_equal; [symmetry; exact Ho|]. pose proof (center_in_dat _ Hk) as C. rewrite <- Ho in C. congruence.
        + intros (k & E & Hk). apply in_seq in Hk. injection E as <- <-. split; [apply center_in_dat; lia|]. apply Nat.eqb_eq. rewrite argmin_center by lia. reflexivity.
    Qed.
    Definition chsF : list fnode := dist_all pre_all chs0.
    Lemma chsF_inv : DInv chsF pre_all.
    Proof. unfold chsF. apply (fold_dinv pre_all chs0 [] dinv0). Qed.
    Lemma chsF_elems : Permutation (flat_map felems chsF) dat.
    Proof.
      destruct chsF_inv as [Dl Ds _ _ _ Dp].
      assert (E : Permutation (flat_map felems chsF) (map f_pivot chsF ++ flat_map f_data chsF)).
      { assert (Hc : forall c, In c chsF -> f_children c = []) by (intros c Hin; apply In_nth_error in Hin; destruct Hin as (k & Hk); apply (Ds k c Hk)).
        clear Dl Dp Ds. induction chsF as [|c t IH]; [constructor|]. cbn [flat_map map].
        rewrite felems_eq, (Hc c (or_introl eq_refl)). cbn [flat_map]. rewrite app_nil_r. cbn [app].
        apply perm_skip. eapply perm_trans; [apply Permutation_app_head; apply IH; intros c' H'; apply Hc; right; exact H'|].
        rewrite app_assoc. eapply perm_trans; [apply Permutation_app_tail; apply Permutation_app_comm|]. rewrite <- app_assoc. apply Permutation_refl. }
      assert (Ep : map f_pivot chsF = centers).
      { apply (nth_ext _ _ p0 p0); [rewrite map_length, Dl, centers_len; reflexivity|]. intros k Hk. rewrite map_length in Hk.
        rewrite (nth_indep _ p0 (f_pivot (new_node P g p0))) by (rewrite map_length; exact Hk). rewrite map_nth.
        destruct (nth_error chsF k) as [ck|] eqn:Ek; [|apply nth_error_None in Ek; lia]. rewrite (nth_error_nth _ _ _ Ek). apply (Ds k ck Ek). }
      eapply perm_trans; [exact E|]. rewrite Ep. eapply perm_trans; [apply Permutation_app_comm|].
      eapply perm_trans; [apply Permutation_app_head; apply Permutation_sym; exact own_are_centers|].
      eapply perm_trans; [exact Dp|]. unfold pre_all. rewrite snd_comb_seq. apply Permutation_refl.
    Qed.
    Lemma chsF_rok : ROK chsF.
    Proof.
      destruct chsF_inv as [Dl Ds _ Dg Dc _]. intros i k ci ck Hi Hk x Hx.
      assert (Hkm : (k < m)%nat) by (rewrite <- Dl; apply nth_error_Some; congruence).
      destruct (Ds k ck Hk) as (Ep & Ec & _). rewrite felems_eq, Ec in Hx. cbn [flat_map] in Hx. rewrite app_nil_r in Hx. destruct Hx as [<-|Hx].
      - rewrite Ep. pose proof (Dg i ci (nth k pivots 0%nat) (nth k centers p0) Hi (proj2 (in_pre_all _ _) (center_in_dat k Hkm))) as C. rewrite argmin_center in C by exact Hkm. exact C.
      - destruct (Dc k ck x Hk Hx) as (j & Hj & Ej). pose proof (Dg i ci j x Hi Hj) as C. rewrite Ej in C. exact C.
    Qed.
  End Split1.

  (* ---- relations between a node before and after an operation ---- *)
  Definition same_frame (a b : fnode) : Prop := f_pivot b = f_pivot a /\ f_lo b = f_lo a /\ f_hi b = f_hi a /\ f_ranges b = f_ranges a.
  Definition FBody (n : fnode) : Prop := (1 <= f_deg n)%nat /\ ROK (f_children n) /\ RL (f_children n) /\ FInvs (f_children n).
  Lemma FInv_body n : FInv n <-> FBody n /\ (forall x, In x (f_data n ++ flat_map felems (f_children n)) -> covers (f_lo n) (f_hi n) (d (f_pivot n) x)).
  Proof. rewrite FInv_unfold. unfold FBody. tauto. Qed.
  (* children replaced pointwise by nodes with the same frame and the same elements *)
  Definition crel (a b : fnode) : Prop := (f_pivot b = f_pivot a /\ f_ranges b = f_ranges a) /\ Permutation (felems b) (felems a).
  Lemma crel_refl a : crel a a. Proof. split; [repeat split|apply Permutation_refl]. Qed.
  Lemma forall2_len {A B} (R : A -> B -> Prop) l1 l2 : Forall2 R l1 l2 -> length l1 = length l2.
  Proof. induction 1; cbn; congruence. Qed.
  Lemma forall2_nth {A B} (R : A -> B -> Prop) l1 l2 : Forall2 R l1 l2 -> forall i a, nth_error l1 i = Some a -> exists b, nth_error l2 i = Some b /\ R a b.
  Proof. induction 1 as [|x y t1 t2 Hxy _ IH]; intros [|i] a H; cbn [nth_error] in *; try discriminate; [injection H as <-; eauto|apply IH; exact H]. Qed.
  Lemma forall2_nth_r {A B} (R : A -> B -> Prop) l1 l2 : Forall2 R l1 l2 -> forall i b, nth_error l2 i = Some b -> exists a, nth_error l1 i = Some a /\ R a b.
  Proof. induction 1 as [|x y t1 t2 Hxy _ IH]; intros [|i] b H; cbn [nth_error] in *; try discriminate; [injection H as <-; eauto|apply IH; exact H]. Qed.
  Lemma crel_list l1 l2 : Forall2 crel l1 l2 -> ROK l1 -> RL l1 ->
    ROK l2 /\ RL l2 /\ Permutation (flat_map felems l2) (flat_map felems l1).
  Proof.
    intros F R L. split; [|split].
    - intros i j ci cj Hi Hj x Hx. destruct (forall2_nth_r _ _ _ F i ci Hi) as (ai & Hai & (Fi & _)). destruct (forall2_nth_r _ _ _ F j cj Hj) as (aj & Haj & (_ & Pj)).
      destruct Fi as (E1 & E4). unfold rng. rewrite E4, E1. apply (R i j ai aj Hai Haj x). apply (Permutation_in _ Pj Hx).
    - intros c Hc. apply In_nth_error in Hc. destruct Hc as (i & Hi). destruct (forall2_nth_r _ _ _ F i c Hi) as (a & Ha & ((_ & E4) & _)).
      rewrite E4, <- (forall2_len _ _ _ F). apply L. eapply nth_error_In. exact Ha.
    - clear R L. induction F as [|a b t1 t2 (_ & Pab) _ IH]; [constructor|]. cbn [flat_map]. apply Permutation_app; assumption.
  Qed.

  Section SplitRec.
    Variable par : params.
    Hypothesis Hmin : (1 <= p_minDeg par)%nat.
    Hypothesis Hmax : (1 <= p_maxDeg par)%nat.
    Notation gf_split := (gf_split P d).

    Lemma first_index_lt n u : (1 <= n)%nat -> (first_index n u < n)%nat.
    Proof. intros H. unfold first_index. destruct (Nat.ltb_spec (n - 1) (Z.to_nat (Z.of_nat n * fst u / snd u))); lia. Qed.
    Lemma finish_fields newdeg total c : same_frame c (finish_child P par newdeg total c) \/ (f_lo c = None /\ f_pivot (finish_child P par newdeg total c) = f_pivot c /\ f_ranges (finish_child P par newdeg total c) = f_ranges c /\
        f_lo (finish_child P par newdeg total c) = Some 0 /\ f_hi (finish_child P par newdeg total c) = Some 0).
    Proof. destruct c as [g p lo hi r dat ch]. cbn [finish_child]. destruct lo; [left; repeat split|right; repeat split]. Qed.
    Lemma finish_data newdeg total c : f_data (finish_child P par newdeg total c) = f_data c /\ f_children (finish_child P par newdeg total c) = f_children c /\
      (1 <= f_deg (finish_child P par newdeg total c))%nat /\ f_pivot (finish_child P par newdeg total c) = f_pivot c /\ f_ranges (finish_child P par newdeg total c) = f_ranges c.
    Proof. destruct c as [g p lo hi r dat ch]. cbn [finish_child]. destruct lo; cbn [GnatFullModel.f_data GnatFullModel.f_children f_deg GnatFullModel.f_pivot f_ranges]; repeat split; lia. Qed.

    Definition split_ok (n n' : fnode) : Prop :=
      same_frame n n' /\ f_data n' = [] /\ Permutation (flat_map felems (f_children n')) (f_data n) /\ FBody n'.

    Lemma split_spec : forall fuel n tape n' tp,
      gf_split fuel par n tape = (n', tp) -> (length (f_data n) <= fuel)%nat -> (1 <= f_deg n)%nat -> f_data n <> [] -> split_ok n n'.
    Proof.
      induction fuel as [|f IH]; intros n tape n' tp S Hf Hg Hd; [destruct (f_data n); [congruence|cbn in Hf; lia]|].
      destruct n as [g p lo hi r dat ch0]. cbn [GnatFullModel.gf_split] in S. cbn [GnatFullModel.f_data f_deg] in *.
      set (u := match tape with u :: _ => u | [] => (0, 1) end). set (tape1 := match tape with _ :: t => t | [] => [] end).
      assert (Et : (match tape with u :: t => (u, t) | [] => ((0, 1), []) end) = (u, tape1)) by (destruct tape; reflexivity). rewrite Et in S. clear Et.
      assert (Hn : (1 <= length dat)%nat) by (destruct dat; [congruence|cbn; lia]).
      set (pivots := gf_kcenters P d dat g (first_index (length dat) u)) in *.
      destruct (kcenters_spec dat g (first_index (length dat) u) (first_index_lt _ u Hn)) as (Vp & Wp & Np & Lp). fold pivots in Vp, Wp, Np, Lp.
      assert (Hmg : (length pivots <= g)%nat) by lia.
      pose proof (chsF_inv dat pivots p Vp Wp Np g Hmg) as DI. pose proof (chsF_elems dat pivots p Vp Wp Np g Hmg) as PE. pose proof (chsF_rok dat pivots p Vp Wp Np g Hmg) as RK.
      unfold chsF, dist_all, chs0, pre_all, centers in DI, PE, RK.
      set (chs1 := fold_left (fun chs jx => gf_distribute P d pivots (map (fun i => nth i dat p) pivots) chs (fst jx) (snd jx)) (combine (seq 0 (length dat)) dat) (map (new_node P g) (map (fun i => nth i dat p) pivots))) in *.
      set (chs2 := map (finish_child P par (length pivots) (length dat)) chs1) in *.
      destruct DI as [Dl Ds Dr _ _ _].
      (* the finished children are leaves satisfying the invariant *)
      assert (F2 : Forall2 crel chs1 chs2 /\ FInvs chs2 /\ (forall c, In c chs2 -> f_children c = [] /\ (length (f_data c) < length dat)%nat)).
      { unfold chs2. assert (Hall : forall c, In c chs1 -> f_children c = [] /\ (length pivots <= length (f_ranges c))%nat /\ (forall x, In x (f_data c) -> covers (f_lo c) (f_hi c) (d (f_pivot c) x)) /\ (length (f_data c) < length dat)%nat).
        { intros c Hc. apply In_nth_error in Hc. destruct Hc as (k & Hk). destruct (Ds k c Hk) as (_ & E2 & E3). split; [exact E2|]. split; [exact E3|]. split; [intros x Hx; apply (Dr k c x Hk Hx)|].
          pose proof (Permutation_length PE) as PL. apply nth_error_split in Hk. destruct Hk as (l1 & l2 & El & _). rewrite El, flat_map_app in PL. cbn [flat_map] in PL. rewrite !app_length, felems_eq in PL. cbn [length] in PL. rewrite app_length in PL. lia. }
        clear - Hall Hmin Hmax d_nonneg. induction chs1 as [|c t IHt]; [split; [constructor|split; [constructor|intros c []]]|].
        destruct IHt as (A & B & C); [intros c' H'; apply Hall; right; exact H'|]. destruct (Hall c (or_introl eq_refl)) as (Ec & El & Ecov & Elen).
        destruct (finish_data (length pivots) (length dat) c) as (Fd & Fc & Fg & Fp & Fr).
        split; [|split].
        - constructor; [|exact A]. split.
          + split; assumption.
          + unfold felems. destruct c as [gc pc loc hic rc datc chc]. cbn [finish_child]. destruct loc; apply Permutation_refl.
        - constructor; [|exact B]. apply FInv_unfold. rewrite Fd, Fc, Ec. split; [exact Fg|]. split.
          + cbn [flat_map]. rewrite app_nil_r. intros x Hx. destruct (finish_fields (length pivots) (length dat) c) as [(E1 & E2 & E3 & _)|(E0 & E1 & _ & E3 & E4)].
            * rewrite E1, E2, E3. apply Ecov. exact Hx.
            * destruct (Ecov x Hx) as (l0 & h0 & El0 & _). congruence.
          + split; [intros i j ci cj Hi; destruct i; discriminate|]. split; [intros c' []|constructor].
        - intros c' [<-|H']; [rewrite Fc, Fd; auto|apply C; exact H']. }
      destruct F2 as (F12 & Fi2 & Fl2).
      (* the recursive pass over the finished children *)
      set (step := fun (acc : list fnode * list (Z * Z)) (c : fnode) => let '(done, tp) := acc in
                     if need_split P par c then let '(c', tp') := gf_split f par c tp in (done ++ [c'], tp') else (done ++ [c], tp)) in *.
      assert (FOLD : forall l done tp0 done' tp0', fold_left step l (done, tp0) = (done', tp0') ->
                exists l3, done' = done ++ l3 /\ Forall2 (fun c2 c3 => (need_split P par c2 = false /\ c3 = c2) \/ (need_split P par c2 = true /\ exists ta tb, gf_split f par c2 ta = (c3, tb))) l l3).
      { induction l as [|c t IHl]; intros done tp0 done' tp0' Hfold; cbn [fold_left] in Hfold.
        - injection Hfold as <- <-. exists []. rewrite app_nil_r. split; [reflexivity|constructor].
        - unfold step at 2 in Hfold. destruct (need_split P par c) eqn:Ens.
          + destruct (gf_split f par c tp0) as [c' tp'] eqn:Esp. apply IHl in Hfold. destruct Hfold as (l3 & -> & F3). exists (c' :: l3). rewrite <- app_assoc. split; [reflexivity|]. constructor; [right; split; [exact Ens|eauto]|exact F3].
          + apply IHl in Hfold. destruct Hfold as (l3 & -> & F3). exists (c :: l3). rewrite <- app_assoc. split; [reflexivity|]. constructor; [left; auto|exact F3]. }
      destruct (fold_left step chs2 ([], tape1)) as [chs3 tape2] eqn:Efold. injection S as <- <-.
      destruct (FOLD _ _ _ _ _ Efold) as (l3 & E3 & F23). cbn [app] in E3. subst l3.
      assert (F23' : Forall2 crel chs2 chs3 /\ FInvs chs3).
      { clear Efold FOLD. revert Fi2 Fl2 F23. generalize chs2 as l2, chs3 as l3'. intros l2 l3' Fi2 Fl2 F23. revert Fi2 Fl2. induction F23 as [|c2 c3 t2 t3 Hr _ IHt]; intros Fi2 Fl2; [split; constructor|].
        inversion Fi2 as [|? ? Fc2 Ft2]; subst. destruct IHt as (A & B); [exact Ft2|intros c' H'; apply Fl2; right; exact H'|].
        destruct (Fl2 c2 (or_introl eq_refl)) as (Ech & Elen).
        destruct Hr as [(_ & ->)|(Ens & ta & tb & Esp)]; [split; [constructor; [apply crel_refl|exact A]|constructor; assumption]|].
        assert (Hnd : f_data c2 <> []).
        { unfold need_split in Ens. apply andb_prop in Ens. destruct Ens as (E1 & _). apply Nat.ltb_lt in E1. destruct (f_data c2); [cbn in E1; lia|congruence]. }
        apply FInv_unfold in Fc2. destruct Fc2 as (Fg & Fcov & _).
        destruct (IH c2 ta c3 tb Esp ltac:(lia) Fg Hnd) as ((E1 & E2 & E3 & E4) & Ed & Pe & Fb).
        assert (Pf : Permutation (felems c3) (felems c2)).
        { rewrite !felems_eq, Ed, Ech, E1. cbn [app flat_map]. rewrite app_nil_r. constructor. exact Pe. }
        split; [constructor; [split; [split; assumption|exact Pf]|exact A]|].
        constructor; [|exact B]. apply FInv_body. split; [exact Fb|]. rewrite E1, E2, E3, Ed. cbn [app]. intros x Hx. apply Fcov. apply in_or_app. left. apply (Permutation_in _ Pe Hx). }
      destruct F23' as (F23' & Fi3).
      assert (RL1 : RL chs1). { intros c Hc. apply In_nth_error in Hc. destruct Hc as (k & Hk). destruct (Ds k c Hk) as (_ & _ & E3). unfold m in *. lia. }
      destruct (crel_list _ _ F12 RK RL1) as (RK2 & RL2 & P2). destruct (crel_list _ _ F23' RK2 RL2) as (RK3 & RL3 & P3).
      split; [repeat split|]. split; [reflexivity|]. cbn [GnatFullModel.f_children GnatFullModel.f_data].
      split; [eapply Permutation_trans; [exact P3|]; eapply Permutation_trans; [exact P2|exact PE]|].
      split; [cbn [f_deg]; destruct pivots; [congruence|cbn; lia]|]. cbn [GnatFullModel.f_children]. auto.
    Qed.
  End SplitRec.

  (* ---- Node::add ---- *)
  Definition fbody (n : fnode) : list P := f_data n ++ flat_map felems (f_children n).
  Lemma depth_eq n : gf_depth P n = S (fold_right (fun c a => Nat.max (gf_depth P c) a) O (f_children n)).
  Proof. destruct n; reflexivity. Qed.
  Lemma depth_child n c : In c (f_children n) -> (gf_depth P c < gf_depth P n)%nat.
  Proof. rewrite (depth_eq n). induction (f_children n) as [|a t IH]; intros Hin; [destruct Hin|]. cbn [fold_right]. destruct Hin as [->|Hin]; [|specialize (IH Hin)]; set (q := fold_right _ _ _) in *; clearbody q; lia. Qed.
  Lemma FInv_ur k v c : FInv c -> FInv (update_range P k v c).
  Proof. destruct c. cbn [update_range]. intros H. exact H. Qed.
  Lemma flat_perm_upd x : forall (l l' : list fnode) mi, length l = length l' -> (mi < length l)%nat ->
    (forall i a b, nth_error l i = Some a -> nth_error l' i = Some b -> (i = mi -> Permutation (felems b) (x :: felems a)) /\ (i <> mi -> felems b = felems a)) ->
    Permutation (flat_map felems l') (x :: flat_map felems l).
  Proof.
    induction l as [|a t IH]; intros l' mi Hl Hm H; [cbn in Hm; lia|]. destruct l' as [|b t']; [discriminate|]. cbn [flat_map].
    destruct mi as [|mi].
    - destruct (H 0%nat a b eq_refl eq_refl) as (H0 & _). assert (Et : flat_map felems t' = flat_map felems t).
      { clear - H Hl. cbn in Hl. injection Hl as Hl. revert t' Hl H. induction t as [|c t IHt]; intros [|c' t'] Hl H; try discriminate; [reflexivity|]. cbn [flat_map].
        destruct (H 1%nat c c' eq_refl eq_refl) as (_ & E). rewrite (E ltac:(lia)). f_equal. apply IHt; [cbn in Hl; lia|]. intros [|i] a0 b0 Ha Hb; [apply (H 0%nat); assumption|]. 
        split; [lia|intros _]. apply (H (S (S i)) a0 b0 Ha Hb). lia. }
      rewrite Et. apply (Permutation_app_tail _ (H0 eq_refl)).
    - destruct (H 0%nat a b eq_refl eq_refl) as (_ & H0). rewrite (H0 ltac:(lia)).
      eapply Permutation_trans; [apply Permutation_app_head; apply (IH t' mi); [cbn in Hl; lia|cbn in Hm; lia|]|apply Permutation_sym, Permutation_middle].
      intros i a0 b0 Ha Hb. destruct (H (S i) a0 b0 Ha Hb) as (A & B). split; [intros ->; apply A; reflexivity|intros N; apply B; lia].
  Qed.

  Lemma fbody_upd v k w c : (FBody (update_radius P v (update_range P k w c)) <-> FBody c) /\ fbody (update_radius P v (update_range P k w c)) = fbody c /\
    gf_depth P (update_radius P v (update_range P k w c)) = gf_depth P c.
  Proof. destruct c. cbn [update_range update_radius]. split; [unfold FBody; cbn; tauto|split; reflexivity]. Qed.
  Lemma pivots_eq n : gf_pivots P n = f_pivot n :: flat_map (gf_pivots P) (f_children n).
  Proof. destruct n; reflexivity. Qed.
  Lemma pivots_upd v k w c : gf_pivots P (update_radius P v (update_range P k w c)) = gf_pivots P c /\ gf_pivots P (update_range P k w c) = gf_pivots P c.
  Proof. destruct c; split; reflexivity. Qed.
  Lemma flat_map_nth_ext {A B} (F : A -> list B) : forall l l', length l = length l' ->
    (forall i a b, nth_error l i = Some a -> nth_error l' i = Some b -> F b = F a) -> flat_map F l' = flat_map F l.
  Proof.
    induction l as [|a t IH]; intros [|b t'] Hl H; try discriminate; [reflexivity|]. cbn [flat_map].
    rewrite (H 0%nat a b eq_refl eq_refl). f_equal. apply IH; [cbn in Hl; lia|]. intros i a0 b0 Ha Hb. apply (H (S i) a0 b0 Ha Hb).
  Qed.
  Section NodeAdd.
    Variable par : params.
    Hypothesis Hmin : (1 <= p_minDeg par)%nat.
    Hypothesis Hmax : (1 <= p_maxDeg par)%nat.
    Notation gf_node_add := (gf_node_add P d).

    Lemma node_add_spec : forall fuel re size rb n x tape n' e tp,
      gf_node_add fuel par re size rb n x tape = (n', e, tp) -> (gf_depth P n <= fuel)%nat -> FBody n ->
      same_frame n n' /\ Permutation (fbody n') (x :: fbody n) /\ (e = EvDone -> FBody n') /\
      (re = false -> e = EvDone -> gf_pivots P n' = gf_pivots P n).
    Proof.
      induction fuel as [|f IH]; intros re size rb n x tape n' e tp A Hdep FB; [rewrite depth_eq in Hdep; lia|].
      destruct n as [g p lo hi r dat ch]. cbn [GnatFullModel.gf_node_add] in A.
      destruct ch as [|c0 ct].
      - (* leaf *)
        set (n1 := FNode P g p lo hi r (dat ++ [x]) []) in *.
        assert (B1 : same_frame (FNode P g p lo hi r dat []) n1 /\ Permutation (fbody n1) (x :: fbody (FNode P g p lo hi r dat [])) /\ FBody n1).
        { split; [repeat split|]. split; [unfold fbody; cbn [GnatFullModel.f_data GnatFullModel.f_children flat_map]; rewrite !app_nil_r; apply Permutation_sym, Permutation_cons_append|exact FB]. }
        assert (SP : forall n2 tp2, GnatFullModel.gf_split P d (S (length dat)) par n1 tape = (n2, tp2) -> need_split P par n1 = true ->
                  same_frame (FNode P g p lo hi r dat []) n2 /\ Permutation (fbody n2) (x :: fbody (FNode P g p lo hi r dat [])) /\ FBody n2).
        { intros n2 tp2 Es Ens. destruct FB as (Fg & _). 
          destruct (split_spec par Hmin Hmax _ _ _ _ _ Es) as (SF & Ed & Pe & Fb).
          - cbn [GnatFullModel.f_data n1]. rewrite app_length. cbn. lia.
          - exact Fg.
          - cbn [GnatFullModel.f_data n1]. destruct dat; discriminate.
          - split; [exact SF|]. split; [|exact Fb]. unfold fbody. rewrite Ed. cbn [app GnatFullModel.f_data GnatFullModel.f_children flat_map]. rewrite app_nil_r.
            eapply Permutation_trans; [exact Pe|]. cbn [GnatFullModel.f_data n1]. apply Permutation_sym, Permutation_cons_append. }
        destruct (need_split P par n1) eqn:Ens.
        +           destruct re; cbn [negb] in A.
          * destruct size as [sz|], rb as [rbv|]; try (destruct (GnatFullModel.gf_split P d (S (length dat)) par n1 tape) as [n2 tp2] eqn:Es; injection A as <- <- <-;
              destruct (SP _ _ eq_refl eq_refl) as (X & Y & Z); split; [exact X|]; split; [exact Y|]; split; [intros _; exact Z|discriminate]).
            destruct (rbv <=? sz)%nat.
            -- injection A as <- <- <-. destruct B1 as (X & Y & Z). split; [exact X|]. split; [exact Y|]. split; discriminate.
            -- destruct (GnatFullModel.gf_split P d (S (length dat)) par n1 tape) as [n2 tp2] eqn:Es. injection A as <- <- <-.
               destruct (SP _ _ eq_refl eq_refl) as (X & Y & Z). split; [exact X|]. split; [exact Y|]. split; [intros _; exact Z|discriminate].
          * injection A as <- <- <-. destruct B1 as (X & Y & Z). split; [exact X|]. split; [exact Y|]. split; discriminate.
        + injection A as <- <- <-. destruct B1 as (X & Y & Z). split; [exact X|]. split; [exact Y|]. split; [intros _; exact Z|intros _ _; reflexivity].
      - set (ch := c0 :: ct) in *. unfold nearest_child in A.
        set (ds := map (fun c => d x (f_pivot c)) ch) in *. set (mi := gf_argmin ds) in *.
        assert (Hds : length ds = length ch) by apply map_length.
        destruct (argmin_spec ds ltac:(discriminate)) as (Hmi & _). fold mi in Hmi. rewrite Hds in Hmi.
        set (ch1 := map (fun ic => update_range P mi (nth (fst ic) ds 0) (snd ic)) (combine (seq 0 (length ch)) ch)) in *.
        set (ch2 := upd_nth (update_radius P (nth mi ds 0)) mi ch1) in *.
        destruct (nth_error ch mi) as [cm|] eqn:Ecm; [|apply nth_error_None in Ecm; lia].
        assert (E1 : forall i, nth_error ch1 i = option_map (update_range P mi (nth i ds 0)) (nth_error ch i)).
        { intros i. apply (nth_error_mapi (fun i c => update_range P mi (nth i ds 0) c) ch 0 i). }
        assert (Dv : forall i ci, nth_error ch i = Some ci -> nth i ds 0 = d x (f_pivot ci)).
        { intros i ci Hi. apply nth_error_nth. unfold ds. apply (map_nth_error (fun c => d x (f_pivot c)) _ _ Hi). }
        set (v := nth mi ds 0) in *. assert (Ev : v = d x (f_pivot cm)) by (apply Dv; exact Ecm).
        set (c := update_radius P v (update_range P mi v cm)) in *.
        assert (Ec : nth_error ch2 mi = Some c). { unfold ch2. apply nth_error_upd_nth_same. rewrite E1, Ecm. reflexivity. }
        rewrite Ec in A.
        destruct (gf_node_add f par re size rb c x tape) as [[c' e'] tp'] eqn:Erec. injection A as <- <- <-.
        destruct FB as (Fg & Rk & Rl & Fi). cbn [GnatFullModel.f_children f_deg] in *.
        assert (Fcm : FInv cm) by (eapply Forall_forall; [exact Fi|eapply nth_error_In; exact Ecm]).
        destruct (fbody_upd v mi v cm) as (Fb1 & Fb2 & Fb3). fold c in Fb1, Fb2, Fb3.
        assert (Hdc : (gf_depth P c <= f)%nat).
        { rewrite Fb3. pose proof (depth_child (FNode P g p lo hi r dat ch) cm (nth_error_In _ _ Ecm)). lia. }
        destruct (IH _ _ _ _ _ _ _ _ _ Erec Hdc) as (SFc & Pc & Dc & Pv); [apply Fb1; apply FInv_body in Fcm; apply Fcm|].
        set (chF := upd_nth (fun _ => c') mi ch2).
        assert (L1 : length ch1 = length ch) by (apply (length_mapi (fun i c => update_range P mi (nth i ds 0) c) ch 0)).
        assert (LF : length chF = length ch) by (unfold chF, ch2; rewrite !upd_nth_length; exact L1).
        assert (CH : forall i b, nth_error chF i = Some b -> exists a, nth_error ch i = Some a /\ f_pivot b = f_pivot a /\
                      f_ranges b = f_ranges (update_range P mi (d x (f_pivot a)) a) /\
                      ((i = mi /\ b = c' /\ a = cm) \/ (i <> mi /\ b = update_range P mi (d x (f_pivot a)) a))).
        { intros i b Hb. destruct (Nat.eq_dec i mi) as [->|N].
          - unfold chF in Hb. rewrite (nth_error_upd_nth_same _ _ _ _ Ec) in Hb. injection Hb as <-. exists cm. split; [exact Ecm|].
            destruct SFc as (S1 & _ & _ & S4). destruct (urad_fields v (update_range P mi v cm)) as (U1 & _ & _ & U4 & _). destruct (ur_fields mi v cm) as (R1 & _).
            split; [rewrite S1; unfold c; rewrite U1, R1; reflexivity|]. split; [rewrite S4; unfold c; rewrite U4, Ev; reflexivity|left; auto].
          - unfold chF, ch2 in Hb. rewrite !nth_error_upd_nth_other in Hb by congruence. rewrite E1 in Hb. destruct (nth_error ch i) as [a|] eqn:Ea; [|discriminate].
            unfold option_map in Hb. assert (Eb : b = update_range P mi (nth i ds 0) a) by congruence. rewrite Eb. clear Eb Hb. exists a. rewrite (Dv i a Ea). destruct (ur_fields mi (d x (f_pivot a)) a) as (R1 & _). split; [reflexivity|]. split; [exact R1|]. split; [reflexivity|right; auto]. }
        split; [repeat split|]. split; [|split].
        3: { intros Hre He. specialize (Pv Hre He). cbn [gf_pivots]. f_equal. fold chF. apply (flat_map_nth_ext (gf_pivots P) ch chF (eq_sym LF)).
             intros i a b Ha Hb. destruct (CH i b Hb) as (a' & Ha' & _ & _ & Hcase). rewrite Ha in Ha'. injection Ha' as <-.
             destruct Hcase as [(-> & -> & ->)|(N & ->)]; [rewrite Pv; unfold c; apply (pivots_upd v mi v cm)|apply (pivots_upd 0 mi (d x (f_pivot a)) a)]. }
        + unfold fbody. cbn [GnatFullModel.f_data GnatFullModel.f_children]. fold chF.
          eapply Permutation_trans; [apply Permutation_app_head|apply Permutation_sym, Permutation_middle].
          apply (flat_perm_upd x ch chF mi (eq_sym LF) Hmi). intros i a b Ha Hb. destruct (CH i b Hb) as (a' & Ha' & _ & _ & Hcase). rewrite Ha in Ha'. injection Ha' as <-.
          destruct Hcase as [(-> & -> & ->)|(N & ->)].
          * split; [intros _|congruence]. rewrite (felems_eq c'), (felems_eq cm). fold (fbody c') (fbody cm). rewrite <- Fb2.
            destruct SFc as (S1 & _). rewrite S1. destruct (urad_fields v (update_range P mi v cm)) as (U1 & _). destruct (ur_fields mi v cm) as (R1 & _). unfold c at 1. rewrite U1, R1.
            eapply Permutation_trans; [apply perm_skip; exact Pc|apply perm_swap].
          * split; [congruence|intros _; apply ur_elems].
        + intros ->. specialize (Dc eq_refl). fold chF. unfold FBody. cbn [GnatFullModel.f_children f_deg]. split; [exact Fg|].
          assert (RLa : forall a, In a ch -> (mi < length (f_ranges a))%nat) by (intros a Ha; specialize (Rl a Ha); lia).
          split; [|split].
          * intros i j bi bj Hi Hj y Hy. destruct (CH i bi Hi) as (ai & Hai & Pi & Ri & _). destruct (CH j bj Hj) as (aj & Haj & _ & _ & Cj).
            unfold rng. rewrite Ri, Pi. fold (rng (update_range P mi (d x (f_pivot ai)) ai) j).
            destruct Cj as [(-> & -> & ->)|(N & ->)].
            -- rewrite ur_rng_same by (apply RLa; eapply nth_error_In; exact Hai). cbn [fst snd].
               assert (Hy' : In y (x :: felems cm)).
               { rewrite (felems_eq c') in Hy. fold (fbody c') in Hy. rewrite (felems_eq cm). fold (fbody cm). rewrite <- Fb2.
                 destruct SFc as (S1 & _). rewrite S1 in Hy. destruct (urad_fields v (update_range P mi v cm)) as (U1 & _). destruct (ur_fields mi v cm) as (R1 & _). unfold c at 1 in Hy. rewrite U1, R1 in Hy.
                 destruct Hy as [<-|Hy]; [right; left; reflexivity|]. apply (Permutation_in _ Pc) in Hy. destruct Hy as [<-|Hy]; [left; reflexivity|right; right; exact Hy]. }
               destruct Hy' as [<-|Hy']; [rewrite (d_sym (f_pivot ai) x); apply upd_covers_self|apply upd_covers_mono; apply (Rk i mi ai cm Hai Haj y Hy')].
            -- rewrite ur_rng_other by congruence. rewrite ur_elems in Hy. apply (Rk i j ai aj Hai Haj y Hy).
          * intros b Hb. apply In_nth_error in Hb. destruct Hb as (i & Hi). destruct (CH i b Hi) as (a & Ha & _ & Ri & _). rewrite Ri, ur_ranges_len, LF. apply Rl. eapply nth_error_In; exact Ha.
          * apply Forall_forall. intros b Hb. apply In_nth_error in Hb. destruct Hb as (i & Hi). destruct (CH i b Hi) as (a & Ha & _ & _ & Hcase).
            assert (Fa : FInv a) by (eapply Forall_forall; [exact Fi|eapply nth_error_In; exact Ha]).
            destruct Hcase as [(-> & -> & ->)|(N & ->)]; [|apply FInv_ur; exact Fa].
            apply FInv_body. split; [exact Dc|]. destruct SFc as (S1 & S2 & S3 & _). rewrite S1, S2, S3. fold (fbody c').
            destruct (urad_fields v (update_range P mi v cm)) as (U1 & _ & _ & _ & U5 & U6). destruct (ur_fields mi v cm) as (R1 & _ & _ & R4 & R5). unfold c. rewrite U1, U5, U6, R1, R4, R5.
            intros y Hy. apply (Permutation_in _ Pc) in Hy. destruct Hy as [<-|Hy]; [rewrite Ev, (d_sym (f_pivot cm) x); apply upd_covers_self|].
            apply upd_covers_mono. apply FInv_body in Fa. apply Fa. rewrite Fb2 in Hy. exact Hy.
    Qed.
  End NodeAdd.

  (* ---- the Prop invariant implies the boolean invariant the search theorems take ---- *)
  Lemma in_combine_seq {A} : forall (l : list A) s j x, In (j, x) (combine (seq s (length l)) l) -> (s <= j)%nat /\ nth_error l (j - s) = Some x.
  Proof.
    induction l as [|a t IH]; intros s j x; cbn [length seq combine]; [intros []|]. cbn [In]. intros [E|H].
    - injection E as <- <-. rewrite Nat.sub_diag. split; [lia|reflexivity].
    - apply IH in H. destruct H as (L & H). split; [lia|]. replace (j - s)%nat with (S (j - S s)) by lia. exact H.
  Qed.
  Lemma ROK_ranges_ok ch : ROK ch -> ranges_ok P d (map to_g ch) = true.
  Proof.
    intros R. unfold ranges_ok. apply forallb_forall. intros gi Hgi. apply in_map_iff in Hgi. destruct Hgi as (ci & <- & Hci).
    apply In_nth_error in Hci. destruct Hci as (i & Hi). destruct ci as [g p lo hi r dat chh] eqn:Eci. cbn [to_g].
    apply forallb_forall. intros [j gj] Hin. rewrite map_length in Hin. rewrite <- (map_length to_g ch) in Hin. apply in_combine_seq in Hin. destruct Hin as (_ & Hj). rewrite Nat.sub_0_r in Hj.
    cbn [fst snd]. rewrite nth_error_map in Hj. destruct (nth_error ch j) as [cj|] eqn:Ecj; [|discriminate]. cbn [option_map] in Hj. injection Hj as <-.
    apply within_covers. intros x Hx. specialize (R i j _ cj Hi Ecj x Hx). unfold rng in R. cbn [f_ranges GnatFullModel.f_pivot] in R. exact R.
  Qed.
  Lemma FInv_inv_ok : forall n, FInv n -> inv_ok P d (to_g n) = true.
  Proof.
    apply (fnode_rect' (fun n => FInv n -> inv_ok P d (to_g n) = true)). intros g p lo hi r dat ch IH F.
    apply FInv_unfold in F. cbn [f_deg f_lo f_hi GnatFullModel.f_pivot GnatFullModel.f_data GnatFullModel.f_children] in F. destruct F as (_ & Cv & Rk & _ & Fi).
    cbn [to_g inv_ok]. apply andb_true_intro. split; [apply andb_true_intro; split|].
    - apply within_covers. intros x Hx. apply Cv. rewrite flat_map_concat_map, map_map, <- flat_map_concat_map in Hx. exact Hx.
    - apply ROK_ranges_ok. exact Rk.
    - apply forallb_forall. intros gc Hgc. apply in_map_iff in Hgc. destruct Hgc as (c & <- & Hc). rewrite Forall_forall in IH. apply (IH c Hc). unfold FInvs in Fi. rewrite Forall_forall in Fi. apply (Fi c Hc).
  Qed.
  Lemma FBody_inv_ok_root n : FBody n -> inv_ok_root P d (to_g n) = true.
  Proof.
    destruct n as [g p lo hi r dat ch]. intros (_ & Rk & _ & Fi). cbn [GnatFullModel.f_children] in *. cbn [to_g inv_ok_root]. apply andb_true_intro. split; [apply ROK_ranges_ok; exact Rk|].
    apply forallb_forall. intros gc Hgc. apply in_map_iff in Hgc. destruct Hgc as (c & <- & Hc). apply FInv_inv_ok. unfold FInvs in Fi. rewrite Forall_forall in Fi. apply (Fi c Hc).
  Qed.

  (* ---- the GNAT as a whole ---- *)
  Definition isrem (r : list P) (x : P) : bool := existsb (peqb x) r.
  Lemma gf_list_filter r : forall t, gf_list P peqb r t = filter (fun x => negb (isrem r x)) (felems t).
  Proof.
    apply (fnode_rect' (fun t => gf_list P peqb r t = filter (fun x => negb (isrem r x)) (felems t))). intros g p lo hi rr dat ch IH.
    rewrite felems_eq. cbn [GnatFullModel.gf_list GnatFullModel.f_pivot GnatFullModel.f_data GnatFullModel.f_children filter]. fold (isrem r p).
    replace (if negb (isrem r p) then p :: filter (fun x => negb (isrem r x)) (dat ++ flat_map felems ch) else filter (fun x => negb (isrem r x)) (dat ++ flat_map felems ch))
      with ((if isrem r p then [] else [p]) ++ filter (fun x => negb (isrem r x)) (dat ++ flat_map felems ch)) by (destruct (isrem r p); reflexivity).
    f_equal. rewrite filter_app. f_equal. induction IH as [|c t Hc _ IHt]; [reflexivity|]. cbn [flat_map]. rewrite filter_app, Hc, IHt. reflexivity.
  Qed.
  Lemma filter_true {A} (l : list A) : filter (fun _ => true) l = l.
  Proof. induction l as [|a t IH]; cbn; congruence. Qed.
  Lemma perm_filter {A} (f : A -> bool) l l' : Permutation l l' -> Permutation (filter f l) (filter f l').
  Proof. induction 1 as [|a l1 l2 _ IH|a b l1|l1 l2 l3 _ IH1 _ IH2]; cbn [filter]; [constructor|destruct (f a); [constructor|]; exact IH| destruct (f a), (f b); try constructor; apply Permutation_refl|eapply Permutation_trans; eassumption]. Qed.

  Section GnatLevel.
    Variable par : params.
    Hypothesis Hmin : (1 <= p_minDeg par)%nat.
    Hypothesis Hmax : (1 <= p_maxDeg par)%nat.
    Hypothesis Hdeg : (1 <= p_degree par)%nat.
    Hypothesis peqb_spec : forall x y, peqb x y = true <-> x = y.
    Notation gnat := (gnat P).
    Notation g_tree := (g_tree P).
    Notation g_removed := (g_removed P).
    Notation g_size := (g_size P).
    Notation g_rebuild := (g_rebuild P).

    Definition GI (g : gnat) : Prop :=
      match g_tree g with
      | None => g_removed g = []
      | Some t => FBody t /\ forall p, In p (gf_pivots P t) -> isrem (g_removed g) p = false
      end.
    Definition contents (g : gnat) : list P := match g_tree g with None => [] | Some t => gf_list P peqb (g_removed g) t end.

    Lemma GI_empty : GI (gf_empty P par) /\ contents (gf_empty P par) = [].
    Proof. split; reflexivity. Qed.
    Lemma GI_clear g : GI (gf_clear P par g) /\ contents (gf_clear P par g) = [].
    Proof. split; reflexivity. Qed.

    Lemma bulk_spec g l tape g' tp : gf_bulk P d par g l tape = (g', tp) -> g_tree g = None -> g_removed g = [] ->
      GI g' /\ Permutation (contents g') l /\ g_removed g' = [].
    Proof.
      intros B Ht Hr. unfold gf_bulk in B. destruct l as [|x0 rest].
      - injection B as <- <-. unfold GI, contents. rewrite Ht. auto.
      - set (root := FNode P (p_degree par) x0 None None (repeat (None, None) (p_degree par)) rest []) in *.
        assert (R : exists root', g' = mkG P (Some root') (g_size g + length (x0 :: rest)) (g_removed g) (g_rebuild g) /\ FBody root' /\ Permutation (felems root') (x0 :: rest)).
        { destruct (need_split P par root) eqn:Ens.
          - destruct (gf_split P d (S (length rest)) par root tape) as [root' tp'] eqn:Es. injection B as <- <-. exists root'. split; [reflexivity|].
            assert (Hnd : rest <> []). { unfold need_split in Ens. apply andb_prop in Ens. destruct Ens as (E1 & _). apply Nat.ltb_lt in E1. cbn [GnatFullModel.f_data root] in E1. destruct rest; [cbn in E1; lia|discriminate]. }
            destruct (split_spec par Hmin Hmax _ _ _ _ _ Es) as ((E1 & _) & Ed & Pe & Fb); [cbn; lia|exact Hdeg|exact Hnd|].
            split; [exact Fb|]. rewrite felems_eq, Ed, E1. cbn [app GnatFullModel.f_pivot root]. constructor. exact Pe.
          - injection B as <- <-. exists root. split; [reflexivity|]. split; [|rewrite felems_eq; cbn [root GnatFullModel.f_pivot GnatFullModel.f_data GnatFullModel.f_children flat_map]; rewrite app_nil_r; apply Permutation_refl].
            split; [exact Hdeg|]. split; [intros i j ci cj Hi; destruct i; discriminate|]. split; [intros c []|constructor]. }
        destruct R as (root' & -> & Fb & Pe). unfold GI, contents. cbn [g_tree g_removed]. rewrite Hr.
        split; [split; [exact Fb|intros; reflexivity]|]. split; [|reflexivity]. rewrite gf_list_filter. cbn [isrem existsb negb]. rewrite filter_true. exact Pe.
    Qed.

    Lemma rebuild_spec g tape g' tp : gf_rebuild P d peqb par g tape = (g', tp) -> (g_tree g = None -> g_removed g = []) ->
      GI g' /\ Permutation (contents g') (contents g) /\ g_removed g' = [].
    Proof.
      intros R Hn. unfold gf_rebuild in R. destruct (g_tree g) as [t|] eqn:Et.
      - destruct (bulk_spec _ _ _ _ _ R eq_refl eq_refl) as (A & B & C). split; [exact A|]. split; [|exact C]. unfold contents at 2. rewrite Et. exact B.
      - injection R as <- <-. unfold GI, contents. rewrite Et. specialize (Hn eq_refl). auto.
    Qed.

    Lemma add_spec g x tape g' tp : GI g -> gf_add P d peqb par g x tape = (g', tp) ->
      GI g' /\ (isrem (g_removed g) x = false -> Permutation (contents g') (x :: contents g)) /\ (g_removed g' = g_removed g \/ g_removed g' = []).
    Proof.
      intros G A. unfold gf_add in A. unfold GI in G. destruct (g_tree g) as [t|] eqn:Et.
      - destruct G as (Fb & Pv).
        set (re := match g_removed g with [] => true | _ => false end) in *.
        destruct (gf_node_add P d (S (gf_depth P t)) par re (Some (S (g_size g))) (g_rebuild g) t x tape) as [[t' e] tp1] eqn:Ena.
        destruct (node_add_spec par Hmin Hmax _ _ _ _ _ _ _ _ _ _ Ena ltac:(lia) Fb) as ((E1 & _) & Pb & Dn & Pvs).
        set (g1 := mkG P (Some t') (S (g_size g)) (g_removed g) (g_rebuild g)) in *.
        assert (C1 : isrem (g_removed g) x = false -> Permutation (contents g1) (x :: contents g)).
        { intros Hx. unfold contents. rewrite Et. cbn [g1 g_tree g_removed]. rewrite !gf_list_filter.
          replace (x :: filter (fun y => negb (isrem (g_removed g) y)) (felems t)) with (filter (fun y => negb (isrem (g_removed g) y)) (x :: felems t)) by (cbn [filter]; rewrite Hx; reflexivity).
          apply perm_filter. rewrite (felems_eq t'), (felems_eq t), E1. fold (fbody t') (fbody t). eapply Permutation_trans; [apply perm_skip; exact Pb|apply perm_swap]. }
        destruct e.
        + injection A as <- <-. split; [|split; [exact C1|left; reflexivity]]. unfold GI. cbn [g1 g_tree g_removed]. split; [apply Dn; reflexivity|].
          destruct (g_removed g) as [|r0 rt] eqn:Er; [intros; reflexivity|]. intros p Hp. rewrite (Pvs eq_refl eq_refl) in Hp. apply Pv. exact Hp.
        + destruct (rebuild_spec _ _ _ _ A ltac:(discriminate)) as (X & Y & Z). split; [exact X|]. split; [intros Hx; eapply Permutation_trans; [exact Y|apply C1; exact Hx]|right; exact Z].
        + destruct (gf_rebuild P d peqb par g1 tp1) as [g2 tp2] eqn:Er. injection A as <- <-. destruct (rebuild_spec _ _ _ _ Er ltac:(discriminate)) as (X & Y & Z).
          split; [exact X|]. split; [intros Hx; eapply Permutation_trans; [exact Y|apply C1; exact Hx]|right; exact Z].
      - injection A as <- <-. rewrite G. unfold GI, contents. cbn [g_tree g_removed]. split; [|split; [intros _|left; reflexivity]].
        + split; [|intros; reflexivity]. split; [exact Hdeg|]. split; [intros i j ci cj Hi; destruct i; discriminate|]. split; [intros c []|constructor].
        + unfold new_node. cbn. rewrite Et. apply Permutation_refl.
    Qed.

    Lemma fold_add_spec : forall l g tape g' tp, GI g -> fold_left (fun acc x => gf_add P d peqb par (fst acc) x (snd acc)) l (g, tape) = (g', tp) ->
      GI g' /\ ((forall x, In x l -> isrem (g_removed g) x = false) -> Permutation (contents g') (l ++ contents g)).
    Proof.
      induction l as [|x rest IH]; intros g tape g' tp G A; cbn [fold_left] in A.
      - injection A as <- <-. split; [exact G|intros _; apply Permutation_refl].
      - cbn [fst snd] in A. destruct (gf_add P d peqb par g x tape) as [g1 tp1] eqn:Ea.
        destruct (add_spec _ _ _ _ _ G Ea) as (G1 & C1 & R1).
        destruct (IH _ _ _ _ G1 A) as (G' & C'). split; [exact G'|]. intros Hx.
        assert (Hx1 : forall y, In y rest -> isrem (g_removed g1) y = false) by (intros y Hy; destruct R1 as [->| ->]; [apply Hx; right; exact Hy|reflexivity]).
        eapply Permutation_trans; [apply C'; exact Hx1|]. eapply Permutation_trans; [apply Permutation_app_head; apply C1; apply Hx; left; reflexivity|]. apply Permutation_sym, Permutation_middle.
    Qed.
    Lemma add_list_spec l g tape g' tp : GI g -> gf_add_list P d peqb par g l tape = (g', tp) ->
      GI g' /\ ((forall x, In x l -> isrem (g_removed g) x = false) -> Permutation (contents g') (l ++ contents g)).
    Proof.
      intros G A. unfold gf_add_list in A. destruct (g_tree g) as [t|] eqn:Et; [apply (fold_add_spec _ _ _ _ _ G A)|].
      assert (Hr : g_removed g = []) by (unfold GI in G; rewrite Et in G; exact G).
      destruct (bulk_spec _ _ _ _ _ A Et Hr) as (X & Y & _). split; [exact X|]. intros _. unfold contents at 2. rewrite Et, app_nil_r. exact Y.
    Qed.
    Lemma isrem_app r x y : isrem (r ++ [x]) y = isrem r y || peqb y x.
    Proof. unfold isrem. rewrite existsb_app. cbn [existsb]. rewrite orb_false_r. reflexivity. Qed.
    Lemma filter_filter {A} (f h : A -> bool) l : filter f (filter h l) = filter (fun y => h y && f y) l.
    Proof. induction l as [|a t IH]; [reflexivity|]. cbn [filter]. destruct (h a); cbn [filter andb]; [destruct (f a)|]; rewrite IH; reflexivity. Qed.
    Lemma remove_spec g x tape b g' tp : GI g -> gf_remove P d peqb par g x tape = (b, g', tp) ->
      GI g' /\ (b = false -> g' = g) /\ (b = true -> Permutation (contents g') (filter (fun y => negb (peqb y x)) (contents g))).
    Proof.
      intros G R. unfold gf_remove in R. destruct (g_tree g) as [t|] eqn:Et; [|injection R as <- <- <-; split; [exact G|split; [reflexivity|discriminate]]].
      destruct (g_size g =? 0)%nat; [injection R as <- <- <-; split; [exact G|split; [reflexivity|discriminate]]|].
      destruct (existsb (peqb x) (gf_list P peqb (g_removed g) t)); [|injection R as <- <- <-; split; [exact G|split; [reflexivity|discriminate]]].
      set (g1 := mkG P (Some t) (g_size g - 1) (g_removed g ++ [x]) (g_rebuild g)) in *.
      assert (C1 : contents g1 = filter (fun y => negb (peqb y x)) (contents g)).
      { unfold contents. rewrite Et. cbn [g1 GnatFullModel.g_tree GnatFullModel.g_removed]. rewrite !gf_list_filter, filter_filter. apply filter_ext. intros y. rewrite isrem_app. apply negb_orb. }
      destruct (existsb (peqb x) (gf_pivots P t) || (p_cache par <=? length (g_removed g1))%nat) eqn:Ec.
      - destruct (gf_rebuild P d peqb par g1 tape) as [g2 tp2] eqn:Er. injection R as <- <- <-. destruct (rebuild_spec _ _ _ _ Er ltac:(discriminate)) as (X & Y & _).
        split; [exact X|]. split; [discriminate|intros _]. rewrite <- C1. exact Y.
      - injection R as <- <- <-. apply orb_false_elim in Ec. destruct Ec as (Ep & _). split; [|split; [discriminate|intros _; rewrite C1; apply Permutation_refl]].
        unfold GI in *. rewrite Et in G. cbn [g1 GnatFullModel.g_tree GnatFullModel.g_removed]. destruct G as (Fb & Pv). split; [exact Fb|]. intros p Hp. rewrite isrem_app, (Pv p Hp). cbn [orb].
        destruct (peqb p x) eqn:Epx; [|reflexivity]. apply peqb_spec in Epx. subst p.
        assert (Ht : existsb (peqb x) (gf_pivots P t) = true) by (apply existsb_exists; exists x; split; [exact Hp|apply peqb_spec; reflexivity]). congruence.
    Qed.

    (* ---- every history of operations ---- *)
    Inductive gop := GAdd (x : P) | GAddList (l : list P) | GRemove (x : P) | GClear | GRebuild.
    Definition gstep (st : gnat * list (Z * Z)) (o : gop) : gnat * list (Z * Z) :=
      match o with
      | GAdd x => gf_add P d peqb par (fst st) x (snd st)
      | GAddList l => gf_add_list P d peqb par (fst st) l (snd st)
      | GRemove x => let '(_, g, tp) := gf_remove P d peqb par (fst st) x (snd st) in (g, tp)
      | GClear => (gf_clear P par (fst st), snd st)
      | GRebuild => gf_rebuild P d peqb par (fst st) (snd st)
      end.
    Lemma gstep_inv st o : GI (fst st) -> GI (fst (gstep st o)).
    Proof.
      intros G. destruct st as [g tape]. cbn [fst snd] in *. destruct o as [x|l|x| |]; cbn [gstep fst snd].
      - destruct (gf_add P d peqb par g x tape) as [g' tp] eqn:E. apply (add_spec _ _ _ _ _ G E).
      - destruct (gf_add_list P d peqb par g l tape) as [g' tp] eqn:E. apply (add_list_spec _ _ _ _ _ G E).
      - destruct (gf_remove P d peqb par g x tape) as [[b g'] tp] eqn:E. apply (remove_spec _ _ _ _ _ _ G E).
      - apply GI_clear.
      - destruct (gf_rebuild P d peqb par g tape) as [g' tp] eqn:E. refine (proj1 (rebuild_spec _ _ _ _ E _)). intros Hn. unfold GI in G. rewrite Hn in G. exact G.
    Qed.
    Theorem history_inv ops tape : GI (fst (fold_left gstep ops (gf_empty P par, tape))).
    Proof.
      assert (H : forall ops st, GI (fst st) -> GI (fst (fold_left gstep ops st))).
      { induction ops0 as [|o t IH]; intros st G; [exact G|]. cbn [fold_left]. apply IH. apply gstep_inv. exact G. }
      apply H. apply GI_empty.
    Qed.

    (* what the invariant means for a query: the tree satisfies the search invariant, no pivot is in the removal cache, and
       the live elements of the search model are exactly the contents *)
    Lemma pivots_to_g : forall t, GnatProofs.pivots P (to_g t) = gf_pivots P t.
    Proof.
      apply (fnode_rect' (fun t => GnatProofs.pivots P (to_g t) = gf_pivots P t)). intros g p lo hi r dat ch IH. cbn [to_g GnatProofs.pivots gf_pivots]. f_equal.
      induction IH as [|c t Hc _ IHt]; [reflexivity|]. cbn [map flat_map]. rewrite Hc, IHt. reflexivity.
    Qed.
    Theorem GI_search g t : GI g -> g_tree g = Some t ->
      inv_ok_root P d (to_g t) = true /\ lelems P (isrem (g_removed g)) (to_g t) = contents g.
    Proof.
      intros G Et. unfold GI in G. rewrite Et in G. destruct G as (Fb & Pv). split; [apply FBody_inv_ok_root; exact Fb|].
      rewrite lelems_filter by (intros p Hp; apply Pv; rewrite <- pivots_to_g; exact Hp). unfold contents. rewrite Et, gf_list_filter. reflexivity.
    Qed.

    (* ---- queries after any history are exact (the search theorems of GnatProofs.v on the structure built by the model) ---- *)
    Hypothesis d_tri : forall x y z, d x z <= d x y + d y z.
    Theorem history_nearestK ops tape t offs pick k q : (1 <= k)%nat ->
      let g := fst (fold_left gstep ops (gf_empty P par, tape)) in
      g_tree g = Some t ->
      exists nbh piv, gnat_nearestK P d peqb (isrem (g_removed g)) offs pick k q (to_g t) = Some (nbh, piv) /\
        StronglySorted (nle P) nbh /\ dists_ok P d q nbh /\ length nbh = Nat.min k (length (contents g)) /\
        exists rest, Permutation (contents g) (map snd nbh ++ rest) /\ forall x y, In x (map snd nbh) -> In y rest -> d q x <= d q y.
    Proof.
      intros Hk g Et. destruct (GI_search g t (history_inv ops tape) Et) as (IR & EL).
      destruct (gnat_nearestK P d peqb (isrem (g_removed g)) offs pick k q (to_g t)) as [[nbh piv]|] eqn:G.
      - exists nbh, piv. split; [reflexivity|]. rewrite <- EL.
        exact (gnat_nearestK_spec P d peqb d_sym d_tri (isrem (g_removed g)) offs pick k Hk d_nonneg q (to_g t) nbh piv IR G).
      - exfalso. exact (gnat_nearestK_total P d peqb (isrem (g_removed g)) offs pick k q (to_g t) G).
    Qed.
    Theorem history_nearestR ops tape t offs pick r q :
      let g := fst (fold_left gstep ops (gf_empty P par, tape)) in
      g_tree g = Some t ->
      exists nbh piv, gnat_nearestR P d (isrem (g_removed g)) offs pick r q (to_g t) = Some (nbh, piv) /\
        Permutation (map snd nbh) (filter (fun x => d q x <=? r) (contents g)) /\ StronglySorted (nle P) nbh /\ dists_ok P d q nbh.
    Proof.
      intros g Et. destruct (GI_search g t (history_inv ops tape) Et) as (IR & EL).
      destruct (gnat_nearestR P d (isrem (g_removed g)) offs pick r q (to_g t)) as [[nbh piv]|] eqn:G.
      - exists nbh, piv. split; [reflexivity|]. rewrite <- EL.
        exact (gnat_nearestR_spec P d peqb d_sym d_tri (isrem (g_removed g)) offs pick r q (to_g t) nbh piv IR G).
      - exfalso. exact (gnat_nearestR_total P d (isrem (g_removed g)) offs pick r q (to_g t) G).
    Qed.
  End GnatLevel.
End FP.
