(* Properties_C01.v — property C01 (geometric planners only report solution paths that are real).  Statements only.
   The admission rule is what the check applies to every observed planner run; these theorems say what an admitted
   run guarantees, that the library's own path check and status constructor mean what the rule assumes, and that the
   single-tree planner skeleton can only produce admissible reports — for every history of extension attempts. *)
From Coq Require Import List ZArith Bool Floats.
From OmplV Require Import LedgerModel LedgerProofs MotionModel MotionProofs EitModel EitProofs RrtModel RrtProofs RrtConnectModel RrtConnectProofs LazyRrtModel LazyRrtProofs PdfModel EstModel EstProofs EstFloat RrtStarModel RrtStarProofs RrtStarCost.
Import ListNotations.
Local Open Scope Z_scope.

(* an admitted run with a solution status: non-empty held path from a valid in-bounds start, all states in bounds, goal / approximate flag / status / difference agree with the last state, no invalid stretch of two resolution
   lengths, and (class A) every state is valid and every consecutive pair is a motion the validator accepted and accepts again; an admitted run
   with any other status added no path *)
Theorem C01_admission_sound : forall r, admissible r = true ->
  (is_solution_status (r_status r) = true -> C01_solution r) /\
  (is_solution_status (r_status r) = false -> r_paths_after r = r_paths_before r).
Proof. exact admissible_sound. Qed.

(* PlannerStatus(hasSolution, isApproximate) *)
Theorem C01_status_constructor : forall h a,
  is_solution_status (status_of_flags h a) = h /\
  (status_of_flags h a =? ST_APPROXIMATE) = h && a /\ (status_of_flags h a =? ST_EXACT) = h && negb a.
Proof. intros h a. split; [apply status_of_flags_solution | split; [apply status_of_flags_approx | apply status_of_flags_exact]]. Qed.

(* PathGeometric::check() is exactly: first state valid and every consecutive checkMotion true *)
Theorem C01_path_check_meaning : forall (St : Type) (valid : St -> bool) (mv : St -> St -> bool) p,
  path_check St valid mv p = true <->
  (p = [] \/ exists a tl, p = a :: tl /\ valid a = true /\ consecutive (fun x y => mv x y = true) p).
Proof. exact path_check_meaning. Qed.

(* what an accepted motion means (C05): every one of the nd subdivision points and the end state are valid *)
Theorem C01_accepted_motion_pointwise_valid : forall valid vend nd,
  verdict (check_lin valid vend nd) = true -> (forall j, (1 <= j < nd)%nat -> valid j = true) /\ vend = true.
Proof. intros valid vend nd H. apply (check_lin_iff valid vend nd). exact H. Qed.

(* the tree-planner skeleton (RRT, EST, KPIECE-like growth by validated extensions, report = parent chain) *)
Theorem C01_tree_planner_reports_admissible : forall (mv : Z -> Z -> bool) ops root x,
  let t := fold_left (fun t pc => extend mv t (fst pc) (snd pc)) ops (mkT root []) in
  in_tree t x = true ->
  ids_covered (accepted_motions t) (report_path t x) = true /\
  hd_error (report_path t x) = Some root /\
  (exists pre, report_path t x = pre ++ [x]) /\
  (forall a b, In (a, b) (accepted_motions t) -> mv a b = true).
Proof. exact tree_report_admissible. Qed.

(* EIT*'s multi-resolution edge validation (EitModel.v: isValidAtResolution / couldBeValid / isValid): whatever sparse
   levels an edge went through before, when it is whitelisted every full-resolution position i / F, 0 < i < F, has been
   tested in the call that whitelisted it (the breadth-first midpoint walk visits every index exactly once) *)
Theorem C01_eitstar_whitelisted_edge_fully_tested : forall levels full performed tests,
  (1 <= full)%nat -> history full performed levels = (tests, true) ->
  forall i, (1 <= i <= full - 1)%nat -> In (i, full) tests.
Proof. exact whitelisted_edge_fully_tested. Qed.
Theorem C01_eitstar_walk_visits_every_index_once : forall c, (1 <= c)%nat -> Permutation.Permutation (order c) (seq 1 c).
Proof. exact order_perm. Qed.

(* geometric::RRT as a whole (RrtModel.rrt_solve: goal-biased sampling, linear nearest neighbour, steering at maxDistance,
   motion check, goal test, exact / approximate bookkeeping, path extraction), for every space (distance, interpolation),
   motion validator, goal, stream of goal-bias draws and stream of samples: every tree node beyond the start states hangs
   off an earlier node by a motion the validator accepted; a reported path starts at a start state, consists of accepted
   motions only, and ends in an added state whose goal distance is the reported difference; an exact report ends in a state
   the goal accepts; an approximate report ends in a state the goal does not accept and that no added state beats;
   nothing is reported only when nothing was ever added *)
Theorem C01_rrt_reports_only_real_paths :
  forall (St D : Type) dist (dlt : D -> D -> bool) steer mv sat gdist (goal_state dflt : St),
  (forall a b c, dlt a b = true -> dlt b c = true -> dlt a c = true) -> (forall a, dlt a a = false) ->
  forall starts hits samples, starts <> [] ->
  let tree := fst (rrt_solve St D dist dlt steer mv sat gdist goal_state dflt starts hits samples) in
  (forall i s, nth_error tree i = Some (s, None) -> In s starts) /\
  (forall i s p, nth_error tree i = Some (s, Some p) -> (p < i)%nat /\ exists ps pp, nth_error tree p = Some (ps, pp) /\ mv ps s = true) /\
  match snd (rrt_solve St D dist dlt steer mv sat gdist goal_state dflt starts hits samples) with
  | Some (path, approx, dd) =>
      path <> [] /\ In (hd dflt path) starts /\ consecutive (fun a b => mv a b = true) path /\ dd = gdist (last path dflt) /\
      (exists i, (length starts <= i < length tree)%nat /\ last path dflt = fst (nth i tree (dflt, None))) /\
      (if approx then sat (last path dflt) = false /\
                      forall j, (length starts <= j < length tree)%nat -> dlt (gdist (fst (nth j tree (dflt, None)))) dd = false
       else sat (last path dflt) = true)
  | None => tree = map (fun x => (x, None)) starts
  end.
Proof. exact rrt_solve_spec. Qed.

(* geometric::RRTConnect as a whole (RrtConnectModel.rc_solve: the two trees grown alternately, goal states entering the goal tree
   on demand, growTree with its three outcomes, the connect loop, the junction of the trees, the approximate solution kept for
   the start tree), for every space, pair of validators (start tree: checkMotion(near, new); goal tree: isValid(new) and
   checkMotion(new, near)), goal set and stream of samples: the start tree hangs off start states by motions validated
   parent -> child, the goal tree off goal states by motions validated child -> parent; an exact report starts at a start
   state, ends at a goal state, and every consecutive pair was validated in the direction it is traversed; an approximate
   report is a chain of the start tree and the reported difference is its last state's goal distance *)
Theorem C01_rrtconnect_reports_only_real_paths :
  forall (St D : Type) dist (dlt : D -> D -> bool) steer mvS mvG gdist goals (dflt : St),
  (forall n r d, steer n r = Some (d, true) -> d = r) ->
  forall starts fuel samples, starts <> [] ->
  let s := fst (rc_solve St D dist dlt steer mvS mvG gdist goals dflt fuel starts samples) in
  RrtConnectProofs.TInv St mvS mvG true starts (c_ts St D s) /\ RrtConnectProofs.TInv St mvS mvG false goals (c_tg St D s) /\
  match snd (rc_solve St D dist dlt steer mvS mvG gdist goals dflt fuel starts samples) with
  | Some (path, false, _) =>
      path <> [] /\ In (hd dflt path) starts /\ In (last path dflt) goals /\
      consecutive (fun a b => mvS a b = true \/ mvG a b = true) path
  | Some (path, true, Some dd) =>
      path <> [] /\ In (hd dflt path) starts /\ consecutive (fun a b => mvS a b = true) path /\ dd = gdist (last path dflt)
  | Some (_, true, None) => False
  | None => True
  end.
Proof. exact rc_solve_spec. Qed.

(* geometric::LazyRRT as a whole (LazyRrtModel.lazy_solve: motions enter the tree unchecked; when a new state satisfies the goal the
   motions from the root to it are validated in order, the first rejected one is removed together with its subtree and planning
   goes on), for every space, motion validator, goal, goal-bias and sample stream: a reported path starts at a start state, every
   one of its motions was accepted by the motion validator, and its last state satisfies the goal *)
Theorem C01_lazyrrt_reports_only_validated_paths :
  forall (St D : Type) dist (dlt : D -> D -> bool) steer mv sat gdist (goal_state dflt : St) starts hits samples path dd,
  ls_sol St D (lazy_solve St D dist dlt steer mv sat gdist goal_state dflt starts hits samples) = Some (path, dd) ->
  path <> [] /\ In (hd dflt path) starts /\ consecutive (fun a b => mv a b = true) path /\ sat (last path dflt) = true.
Proof. exact lazy_solve_spec. Qed.

(* geometric::RLRT (range-limited random tree: the node to extend from is drawn with RNG::uniformInt, everything else is the RRT
   loop — same model section, same proof): the same statement *)
Theorem C01_rlrt_reports_only_real_paths :
  forall (St D : Type) (dlt : D -> D -> bool) steer mv sat gdist (goal_state dflt : St),
  (forall a b c, dlt a b = true -> dlt b c = true -> dlt a c = true) -> (forall a, dlt a a = false) ->
  forall starts us hits samples, starts <> [] ->
  let tree := fst (rlrt_solve St D dlt steer mv sat gdist goal_state dflt starts us hits samples) in
  (forall i s, nth_error tree i = Some (s, None) -> In s starts) /\
  (forall i s p, nth_error tree i = Some (s, Some p) -> (p < i)%nat /\ exists ps pp, nth_error tree p = Some (ps, pp) /\ mv ps s = true) /\
  match snd (rlrt_solve St D dlt steer mv sat gdist goal_state dflt starts us hits samples) with
  | Some (path, approx, dd) =>
      path <> [] /\ In (hd dflt path) starts /\ consecutive (fun a b => mv a b = true) path /\ dd = gdist (last path dflt) /\
      (exists i, (length starts <= i < length tree)%nat /\ last path dflt = fst (nth i tree (dflt, None))) /\
      (if approx then sat (last path dflt) = false /\
                      forall j, (length starts <= j < length tree)%nat -> dlt (gdist (fst (nth j tree (dflt, None)))) dd = false
       else sat (last path dflt) = true)
  | None => tree = map (fun x => (x, None)) starts
  end.
Proof. exact rlrt_solve_spec. Qed.

(* geometric::EST (expansive space trees): the node to expand from is drawn from the PDF (PdfModel, inside the model), whose weights
   addMotion maintains from neighbourhood counts; candidates come from sampleNear or the goal and may be dropped by the density test.
   For every arithmetic of weights and distances, every validator, goal, variate tape and sampler: the same contract as RRT. *)
Theorem C01_est_reports_only_real_paths :
  forall (A : PdfModel.arith) (one : PdfModel.T A) (div : PdfModel.T A -> PdfModel.T A -> PdfModel.T A) (leb : PdfModel.T A -> PdfModel.T A -> bool)
         (ofnat : nat -> PdfModel.T A) (St : Type) (dist : St -> St -> PdfModel.T A) mv sat gdist (goal_state dflt : St) (radius goal_bias : PdfModel.T A),
  (forall a b c, PdfModel.ltb A a b = true -> PdfModel.ltb A b c = true -> PdfModel.ltb A a c = true) -> (forall a, PdfModel.ltb A a a = false) ->
  forall starts iters tape samples, starts <> [] ->
  let res := fst (est_solve A one div leb ofnat St dist mv sat gdist goal_state dflt radius goal_bias starts iters tape samples) in
  let tree := fst res in
  (forall i s, nth_error tree i = Some (s, None) -> In s starts) /\
  (forall i s p, nth_error tree i = Some (s, Some p) -> (p < i)%nat /\ exists ps pp, nth_error tree p = Some (ps, pp) /\ mv ps s = true) /\
  match snd res with
  | Some (path, approx, dd) =>
      path <> [] /\ In (hd dflt path) starts /\ consecutive (fun a b => mv a b = true) path /\ dd = gdist (last path dflt) /\
      (exists i, (length starts <= i < length tree)%nat /\ last path dflt = fst (nth i tree (dflt, None))) /\
      (if approx then sat (last path dflt) = false /\
                      forall j, (length starts <= j < length tree)%nat -> PdfModel.ltb A (gdist (fst (nth j tree (dflt, None)))) dd = false
       else sat (last path dflt) = true)
  | None => tree = map (fun x => (x, None)) starts
  end.
Proof. exact est_solve_spec. Qed.

(* geometric::RRTstar (RrtStarModel: k-nearest neighbourhoods, parent selection in order of cost with delayed motion checks, rewiring
   with cost propagation to the descendants, goal motions / best cost / approximate solution, termination on a satisfied objective).
   (Kept beside the full theorem below because it needs NO hypothesis on the order of costs.)  FULL STATEMENT wanted for C01: whenever the planner reports a path, the path begins at a start state, every consecutive pair is a
   motion the validator accepted in the direction it is traversed, and an exact report ends in a state the goal accepts.
   PROVED (hence _partial), for every objective, validator, neighbourhood size function, tape and sampler: the whole tree consists of
   such motions after any number of iterations — the rewired ones included —, roots are start states, every consecutive pair of the
   reported path is one, the path ends in the reported motion and an exact report ends in a goal state.
   MISSING: that following parents from the reported motion reaches a root (rewiring never closes a cycle); it needs an objective whose
   motion costs are not negative and the cost argument sketched in RrtStarProofs.v.  On every scripted run the model's tree equals the
   library's, and the library's reported path is checked to begin at a start state (C01 check, section g). *)
Theorem C01_rrtstar_reports_only_validated_motions_partial :
  forall (St C : Type) (dist : St -> St -> C) (clt : C -> C -> bool) (cadd : C -> C -> C) (c0 : C) (mcost : St -> St -> C) (sym : bool) (csat : C -> bool)
         (steer : St -> St -> St) (maxd : C) (mv : St -> St -> bool) (sat : St -> bool) (gdist : St -> C) (goal_state dflt : St) (bias : C) (kof : nat -> nat)
         (starts : list St) iters tape samples, starts <> [] ->
  let res := star_solve St C dist clt cadd c0 mcost sym csat steer maxd mv sat gdist goal_state dflt bias kof starts iters tape samples in
  RrtStarProofs.EInv St C c0 mv dflt starts (fst res) /\
  match snd res with
  | Some (path, approx, dd, stored, opt) =>
      path <> [] /\ consecutive (fun a b => mv a b = true) path /\
      (exists i, (i < length (fst res))%nat /\ last path dflt = n_st St C (nd St C c0 dflt (fst res) i) /\ stored = n_cost St C (nd St C c0 dflt (fst res) i)) /\
      (approx = false -> sat (last path dflt) = true)
  | None => True
  end.
Proof. exact star_solve_partial. Qed.

(* geometric::RRTstar, the FULL statement, for an objective with an order on costs in which combining a cost with a motion cost never
   decreases it (cle a b := not (b < a) transitive, < irreflexive, nn (mcost a b), nn identity, a <= a + i for nn i — path length and
   mechanical work over the reals or the non-NaN binary64 numbers, the integers of the example below): for every threshold, validator,
   neighbourhood size function, tape and sampler the tree stays acyclic (rewiring through the new motion is only done when the cost
   through it is strictly better, while every ancestor of the new motion costs no more than it), updateChildCosts restores
   cost = parent's cost + incCost in the whole subtree, and a reported path begins at a start state, consists of motions validated in
   the direction they are traversed, ends in the reported motion (whose cost is the stored cost), and an exact report ends in a goal state *)
Theorem C01_rrtstar_reports_only_real_paths :
  forall (St C : Type) (clt : C -> C -> bool) (cadd : C -> C -> C) (c0 : C) (dflt : St),
  (forall a b c : C, cle C clt a b -> cle C clt b c -> cle C clt a c) ->
  forall nn : C -> Prop, (forall a i : C, nn i -> cle C clt a (cadd a i)) -> (forall a : C, clt a a = false) -> nn c0 ->
  forall (dist mcost : St -> St -> C) (sym : bool) (csat : C -> bool) (steer : St -> St -> St) (maxd : C) (mv : St -> St -> bool) (sat : St -> bool)
         (gdist : St -> C) (goal_state : St) (bias : C) (kof : nat -> nat),
  (forall a b : St, nn (mcost a b)) ->
  forall (starts : list St) (iters : nat) (tape : list C) (samples : list St), starts <> nil ->
  let res := star_solve St C dist clt cadd c0 mcost sym csat steer maxd mv sat gdist goal_state dflt bias kof starts iters tape samples in
  RrtStarProofs.EInv St C c0 mv dflt starts (fst res) /\ FInv St C cadd c0 dflt nn (fst res) /\
  match snd res with
  | Some (path, approx, _, stored, _) =>
      path <> nil /\ In (hd dflt path) starts /\ consecutive (fun a b : St => mv a b = true) path /\
      (exists i : nat, (i < length (fst res))%nat /\ last path dflt = n_st St C (nd St C c0 dflt (fst res) i) /\ stored = n_cost St C (nd St C c0 dflt (fst res) i)) /\
      (approx = false -> sat (last path dflt) = true)
  | None => True
  end.
Proof. exact star_solve_full. Qed.

Print Assumptions C01_rrtstar_reports_only_real_paths.
Print Assumptions C01_rrtstar_reports_only_validated_motions_partial.
Print Assumptions C01_est_reports_only_real_paths.
Print Assumptions C01_rlrt_reports_only_real_paths.
Print Assumptions C01_lazyrrt_reports_only_validated_paths.
Print Assumptions C01_rrtconnect_reports_only_real_paths.
Print Assumptions C01_rrt_reports_only_real_paths.
Print Assumptions C01_admission_sound.
Print Assumptions C01_status_constructor.
Print Assumptions C01_path_check_meaning.
Print Assumptions C01_accepted_motion_pointwise_valid.
Print Assumptions C01_tree_planner_reports_admissible.
Print Assumptions C01_eitstar_whitelisted_edge_fully_tested.
Print Assumptions C01_eitstar_walk_visits_every_index_once.

(* non-vacuity: a concrete admitted run, a rejected one (path state outside the bounds), and a grown tree *)
Example C01_nonvacuous :
  let p := [mkP 1 true true false 800; mkP 2 true true false 400; mkP 3 true true true 0] in
  let r := mkRun [(1, true, true)] ST_EXACT true 0 1 false 0 1 p [(1, 2); (3, 2)] [mkSeg true 0; mkSeg true 3] true true in
  adjudicate r = Vok /\
  adjudicate (mkRun [(1, true, true)] ST_EXACT true 0 1 false 0 1 (mkP 1 true true false 800 :: mkP 2 false true false 400 :: [mkP 3 true true true 0]) [(1, 2); (3, 2)] [mkSeg true 0; mkSeg true 3] true true) = Vbounds /\
  adjudicate (mkRun [(1, true, true)] ST_EXACT true 0 1 false 0 1 p [(1, 2)] [mkSeg true 0; mkSeg true 3] true true) = Vuncovered /\
  adjudicate (mkRun [(1, true, true)] ST_TIMEOUT true 0 1 false 0 1 [] [] [] true true) = Vpath_without_status /\
  report_path (fold_left (fun t pc => extend (fun a b => negb (b =? 13)) t (fst pc) (snd pc)) [(1, 5); (5, 7); (9, 8); (5, 13); (7, 11); (1, 7)] (mkT 1 [])) 11 = [1; 5; 7; 11].
Proof. vm_compute. repeat split. Qed.

(* the defect at the pinned commit (repaired in /repo): the checks made at sparser levels were always skipped, although
   they had been made at other positions.  Initial sparse count 4, levels 4, 9, 19, then the full-resolution check of an
   edge of 30 segments: the edge is whitelisted although no state in the first fifth of it was ever tested (a stretch of
   6 resolution lengths); with the repaired rule every stretch is covered within one *)
Example C01_eitstar_orig_refuted :
  snd (history_orig 30 0 (schedule 4 3 30)) = true /\
  covered_within 5 30 (fst (history_orig 30 0 (schedule 4 3 30))) = false /\
  existsb (fun p => Nat.ltb (fst p * 5) (snd p)) (fst (history_orig 30 0 (schedule 4 3 30))) = false /\
  covered_within 1 30 (fst (history 30 0 (schedule 4 3 30))) = true.
Proof. vm_compute. repeat split; reflexivity. Qed.

(* RRT on the integer line: distance |a - b|, steps of at most 3, a wall between 6 and 7, goal 10 (threshold 0) *)
Definition zsteer (n r : Z) : Z := if (3 <? Z.abs (r - n))%Z then (if (n <? r)%Z then n + 3 else n - 3)%Z else r.
Definition zmv (a b : Z) : bool := negb ((Z.min a b <=? 6) && (7 <=? Z.max a b))%Z.
Example C01_rrt_nonvacuous :
  rrt_solve Z Z (fun a b => Z.abs (a - b)) Z.ltb zsteer zmv (fun s => (s =? 10)%Z) (fun s => Z.abs (s - 10)) 10%Z 0%Z [0%Z] [false; false; true; false] [5; 2; 20]%Z
    = ([(0%Z, None); (3%Z, Some 0%nat); (2%Z, Some 1%nat); (6%Z, Some 1%nat)], Some ([0; 3; 6]%Z, true, 4%Z)) /\
  rrt_solve Z Z (fun a b => Z.abs (a - b)) Z.ltb zsteer zmv (fun s => (s =? 10)%Z) (fun s => Z.abs (s - 10)) 10%Z 0%Z [8%Z] [false; true] [20; 0]%Z
    = ([(8%Z, None); (11%Z, Some 0%nat); (10%Z, Some 1%nat)], Some ([8; 11; 10]%Z, false, 0%Z)).
Proof. vm_compute. split; reflexivity. Qed.

(* RRTConnect on the integer line (steps of at most 3): start 0, goal 10, first sample 4: the start tree reaches 3, the goal tree
   connects to it; with a wall between 20 and 21 and the goal at 30 only an approximate start-tree path can be reported *)
Definition zsteer2 (n r : Z) : option (Z * bool) :=
  if (3 <? Z.abs (r - n))%Z then Some ((if (n <? r)%Z then n + 3 else n - 3)%Z, false) else Some (r, true).
Definition zmvw (a b : Z) : bool := negb ((Z.min a b <=? 20) && (21 <=? Z.max a b))%Z.
Example C01_rrtconnect_nonvacuous :
  snd (rc_solve Z Z (fun a b => Z.abs (a - b)) Z.ltb zsteer2 zmvw zmvw (fun s => Z.abs (s - 10)) [10%Z] 0%Z 50 [0%Z] [4; 9; 2]%Z)
    = Some ([0; 3; 4; 7; 10]%Z, false, None) /\
  snd (rc_solve Z Z (fun a b => Z.abs (a - b)) Z.ltb zsteer2 zmvw zmvw (fun s => Z.abs (s - 30)) [30%Z] 0%Z 50 [0%Z] [4; 29; 12]%Z)
    = Some ([0; 3; 6; 9; 12; 15; 18]%Z, true, Some 12%Z).
Proof. vm_compute. split; reflexivity. Qed.

(* LazyRRT on the integer line (steps of at most 3, wall between 6 and 7): with the goal at 9 the state 9 is added unchecked,
   satisfies the goal, the pass validates 0-3 and 3-6 and rejects 6-9: the motion is removed and planning goes on; with the goal
   at 5 the path 0 3 5 is validated and reported *)
Definition zsteer3b (n r : Z) : Z := if (3 <? Z.abs (r - n))%Z then (if (n <? r)%Z then n + 3 else n - 3)%Z else r.
Definition zmv67b (a b : Z) : bool := negb ((Z.min a b <=? 6) && (7 <=? Z.max a b))%Z.
Example C01_lazyrrt_nonvacuous :
  (let s := lazy_solve Z Z (fun a b => Z.abs (a - b)) Z.ltb zsteer3b zmv67b (fun s => (Z.abs (s - 9) <? 1)%Z) (fun s => Z.abs (s - 9)) 9%Z 0%Z [0%Z]
                       [false; false; false; false; false] [3; 6; 9; -3; -2]%Z in
   (map (fun n => (l_id _ n, l_state _ n, l_valid _ n)) (ls_tree _ _ s), ls_sol _ _ s))
  = ([(0%nat, 0%Z, true); (1%nat, 3%Z, true); (2%nat, 6%Z, true); (4%nat, (-3)%Z, false); (5%nat, (-2)%Z, false)], None) /\
  ls_sol _ _ (lazy_solve Z Z (fun a b => Z.abs (a - b)) Z.ltb zsteer3b zmv67b (fun s => (Z.abs (s - 5) <? 1)%Z) (fun s => Z.abs (s - 5)) 5%Z 0%Z [0%Z] [false; false] [3; 5]%Z)
  = Some ([0; 3; 5]%Z, 0%Z).
Proof. vm_compute. split; reflexivity. Qed.

(* EST on binary64: a run that selects through the PDF, has one sampleNear failure, one density rejection and one goal-biased candidate
   blocked by the wall; the tree with parents, the report (approximate, difference, path) and the PDF weights 1/2, 1/2, 1, 1/3, 1 —
   the library prints the same bits on this input *)
Example C01_est_nonvacuous :
  (EstFloat.est_float 3 0.25 0.5 6 [(5, -1, 1)] [(0, 0)] (10, 0) [0.5; 0.5; 0.125; 0.25; 0.875; 0.25; 0.5; 0.125; 0.25; 0.625; 0.75; 0.125; 0.5; 0.5; 0.5; 0.5]
    [Some (1, 0.5); Some (2, 2); None; Some (0.5, 0.25); Some (3, 3); Some (4, 4)])%float
  = [[0; 0; -1; 1; 0.5; 0; 2; 2; 0; 0.5; 0.25; 0; 3; 3; 0]; [1; 0x1.e768d399dc470p+2; 0; 0; 3; 3]; [0.5; 0.5; 1; 0x1.5555555555555p-2; 1]]%float.
Proof. vm_compute. reflexivity. Qed.

(* the order hypotheses of the full RRT* theorem are met by the integers with +, <, non-negative motion costs *)
Example C01_rrtstar_order_hypotheses_nonvacuous :
  (forall a b c : Z, cle Z Z.ltb a b -> cle Z Z.ltb b c -> cle Z Z.ltb a c) /\
  (forall a i : Z, (0 <= i)%Z -> cle Z Z.ltb a (a + i)%Z) /\ (forall a : Z, Z.ltb a a = false) /\ (0 <= 0)%Z.
Proof.
  unfold cle. repeat split.
  - intros a b c H1 H2. apply Z.ltb_ge in H1. apply Z.ltb_ge in H2. apply Z.ltb_ge. apply (Z.le_trans _ b); assumption.
  - intros a i Hi. apply Z.ltb_ge. apply (Z.le_trans _ (a + 0)); [rewrite Z.add_0_r; apply Z.le_refl|apply Z.add_le_mono_l; exact Hi].
  - intros a. apply Z.ltb_irrefl.
  - apply Z.le_refl.
Qed.
