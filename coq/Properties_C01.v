(* Properties_C01.v — property C01 (geometric planners only report solution paths that are real).  Statements only.
   The admission rule is what the check applies to every observed planner run; these theorems say what an admitted
   run guarantees, that the library's own path check and status constructor mean what the rule assumes, and that the
   single-tree planner skeleton can only produce admissible reports — for every history of extension attempts. *)
From Coq Require Import List ZArith Bool.
From OmplV Require Import LedgerModel LedgerProofs MotionModel MotionProofs EitModel EitProofs.
Import ListNotations.
Local Open Scope Z_scope.

(* an admitted run with a solution status: non-empty held path from a valid in-bounds start, all states in bounds, goal / approximate flag / status / difference agree with the last state, no invalid stretch of two resolution
   lengths, and (class A) every state is valid and every consecutive pair is a motion the validator accepted and accepts again; an admitted run
   with any other status added no path *)
Theorem C01_admission_sound : forall r, admissible r = true ->
  (is_solution_status (r_status r) = true -> C01_solution r) /\
  (is_solution_status (r_status r) = false -> r_paths_after r = r_paths_before r).
Proof. exact admissible_sound. Qed.

(* PlannerStatus(hasSolution, isApproximate) *)
Theorem C01_status_constructor : forall h a,
  is_solution_status (status_of_flags h a) = h /\
  (status_of_flags h a =? ST_APPROXIMATE) = h && a /\ (status_of_flags h a =? ST_EXACT) = h && negb a.
Proof. intros h a. split; [apply status_of_flags_solution | split; [apply status_of_flags_approx | apply status_of_flags_exact]]. Qed.

(* PathGeometric::check() is exactly: first state valid and every consecutive checkMotion true *)
Theorem C01_path_check_meaning : forall (St : Type) (valid : St -> bool) (mv : St -> St -> bool) p,
  path_check St valid mv p = true <->
  (p = [] \/ exists a tl, p = a :: tl /\ valid a = true /\ consecutive (fun x y => mv x y = true) p).
Proof. exact path_check_meaning. Qed.

(* what an accepted motion means (C05): every one of the nd subdivision points and the end state are valid *)
Theorem C01_accepted_motion_pointwise_valid : forall valid vend nd,
  verdict (check_lin valid vend nd) = true -> (forall j, (1 <= j < nd)%nat -> valid j = true) /\ vend = true.
Proof. intros valid vend nd H. apply (check_lin_iff valid vend nd). exact H. Qed.

(* the tree-planner skeleton (RRT, EST, KPIECE-like growth by validated extensions, report = parent chain) *)
Theorem C01_tree_planner_reports_admissible : forall (mv : Z -> Z -> bool) ops root x,
  let t := fold_left (fun t pc => extend mv t (fst pc) (snd pc)) ops (mkT root []) in
  in_tree t x = true ->
  ids_covered (accepted_motions t) (report_path t x) = true /\
  hd_error (report_path t x) = Some root /\
  (exists pre, report_path t x = pre ++ [x]) /\
  (forall a b, In (a, b) (accepted_motions t) -> mv a b = true).
Proof. exact tree_report_admissible. Qed.

(* EIT*'s multi-resolution edge validation (EitModel.v: isValidAtResolution / couldBeValid / isValid): whatever sparse
   levels an edge went through before, when it is whitelisted every full-resolution position i / F, 0 < i < F, has been
   tested in the call that whitelisted it (the breadth-first midpoint walk visits every index exactly once) *)
Theorem C01_eitstar_whitelisted_edge_fully_tested : forall levels full performed tests,
  (1 <= full)%nat -> history full performed levels = (tests, true) ->
  forall i, (1 <= i <= full - 1)%nat -> In (i, full) tests.
Proof. exact whitelisted_edge_fully_tested. Qed.
Theorem C01_eitstar_walk_visits_every_index_once : forall c, (1 <= c)%nat -> Permutation.Permutation (order c) (seq 1 c).
Proof. exact order_perm. Qed.

Print Assumptions C01_admission_sound.
Print Assumptions C01_status_constructor.
Print Assumptions C01_path_check_meaning.
Print Assumptions C01_accepted_motion_pointwise_valid.
Print Assumptions C01_tree_planner_reports_admissible.
Print Assumptions C01_eitstar_whitelisted_edge_fully_tested.
Print Assumptions C01_eitstar_walk_visits_every_index_once.

(* non-vacuity: a concrete admitted run, a rejected one (path state outside the bounds), and a grown tree *)
Example C01_nonvacuous :
  let p := [mkP 1 true true false 800; mkP 2 true true false 400; mkP 3 true true true 0] in
  let r := mkRun [(1, true, true)] ST_EXACT true 0 1 false 0 1 p [(1, 2); (3, 2)] [mkSeg true 0; mkSeg true 3] true true in
  adjudicate r = Vok /\
  adjudicate (mkRun [(1, true, true)] ST_EXACT true 0 1 false 0 1 (mkP 1 true true false 800 :: mkP 2 false true false 400 :: [mkP 3 true true true 0]) [(1, 2); (3, 2)] [mkSeg true 0; mkSeg true 3] true true) = Vbounds /\
  adjudicate (mkRun [(1, true, true)] ST_EXACT true 0 1 false 0 1 p [(1, 2)] [mkSeg true 0; mkSeg true 3] true true) = Vuncovered /\
  adjudicate (mkRun [(1, true, true)] ST_TIMEOUT true 0 1 false 0 1 [] [] [] true true) = Vpath_without_status /\
  report_path (fold_left (fun t pc => extend (fun a b => negb (b =? 13)) t (fst pc) (snd pc)) [(1, 5); (5, 7); (9, 8); (5, 13); (7, 11); (1, 7)] (mkT 1 [])) 11 = [1; 5; 7; 11].
Proof. vm_compute. repeat split. Qed.

(* the defect at the pinned commit (repaired in /repo): the checks made at sparser levels were always skipped, although
   they had been made at other positions.  Initial sparse count 4, levels 4, 9, 19, then the full-resolution check of an
   edge of 30 segments: the edge is whitelisted although no state in the first fifth of it was ever tested (a stretch of
   6 resolution lengths); with the repaired rule every stretch is covered within one *)
Example C01_eitstar_orig_refuted :
  snd (history_orig 30 0 (schedule 4 3 30)) = true /\
  covered_within 5 30 (fst (history_orig 30 0 (schedule 4 3 30))) = false /\
  existsb (fun p => Nat.ltb (fst p * 5) (snd p)) (fst (history_orig 30 0 (schedule 4 3 30))) = false /\
  covered_within 1 30 (fst (history 30 0 (schedule 4 3 30))) = true.
Proof. vm_compute. repeat split; reflexivity. Qed.
