(* SamplersModel.v — the default state samplers (uniform / near / Gaussian) of every modelled space, generic over the
   arithmetic; the variates come from a tape (RNG hook).  CompoundStateSampler scales the distance / deviation of each
   component by its importance = weight / weightSum (1 when the weights sum to less than epsilon) and samples a
   component uniformly when its importance is not above epsilon.  [dv] is the division of the arithmetic. *)
From Coq Require Import List Bool.
From OmplV Require Import SpacesModel.
Import ListNotations.

Section Samplers.
  Variable A : farith.
  Variable dv : F A -> F A -> F A.
  Notation F := (F A).
  Notation space := (space A).
  Notation sv := (sv A).
  Definition take1 (tape : list F) : F * list F := match tape with u :: t => (u, t) | [] => (f0 A, []) end.
  Definition hd0f (l : list F) : F := match l with x :: _ => x | [] => f0 A end.
  Definition one : F := fmul A (f2 A) (fhalf A).
  Definition uniform_int (lo hi u : F) : F :=
    let r := ffloor A (uniform_real A lo (fadd A hi one) u) in if flt A hi r then hi else r.
  (* RNG::halfNormalReal / halfNormalInt (g is the standard normal variate) *)
  Definition half_normal_real (rmin rmax focus g : F) : F :=
    let mean := fsub A rmax rmin in
    let v := gaussian A mean (dv mean focus) g in
    let v := if flt A mean v then fsub A (fmul A (f2 A) mean) v else v in
    let r := if fle A (f0 A) v then fadd A v rmin else rmin in
    if flt A rmax r then rmax else r.
  Definition half_normal_int (rmin rmax focus g : F) : F :=
    let r := ffloor A (half_normal_real rmin (fadd A rmax one) focus g) in if flt A rmax r then rmax else r.
  Fixpoint g_sample_uniform (sp : space) (tape : list F) : sv * list F :=
    match sp with
    | RV _ bs => let n := length bs in (L A (rv_sample_uniform A bs (firstn n tape)), skipn n tape)
    | SO2 _ => let '(u, t) := take1 tape in (L A [so2_sample_uniform A u], t)
    | TimeB _ lo hi => let '(u, t) := take1 tape in (L A [uniform_real A lo hi u], t)
    | TimeU _ => (L A [f0 A], tape)
    | Disc _ lo hi => let '(u, t) := take1 tape in (L A [uniform_int lo hi u], t)
    | Comp _ subs =>
      let '(vs, t) := (fix go (ss : list (F * space)) (tape : list F) : list sv * list F :=
                         match ss with
                         | [] => ([], tape)
                         | (_, s) :: ss' => let '(v, t1) := g_sample_uniform s tape in let '(vs, t2) := go ss' t1 in (v :: vs, t2)
                         end) subs tape in (C A vs, t)
    end.
  Definition wsum (subs : list (F * space)) : F := fold_left (fun acc ws => fadd A acc (fst ws)) subs (f0 A).
  Definition importance (ws w : F) : F := if flt A ws (feps A) then one else dv w ws.
  Fixpoint g_sample_near (sp : space) (near : sv) (dist : F) (tape : list F) : sv * list F :=
    match sp, near with
    | RV _ bs, L _ x => let n := length bs in (L A (rv_sample_near A bs x dist (firstn n tape)), skipn n tape)
    | SO2 _, L _ x => let '(u, t) := take1 tape in (L A [so2_sample_near A (hd0f x) dist u], t)
    | TimeB _ _ _, L _ x | TimeU _, L _ x =>
        let '(u, t) := take1 tape in (enforce A sp (L A [uniform_real A (fsub A (hd0f x) dist) (fadd A (hd0f x) dist) u]), t)
    | Disc _ lo hi, L _ x =>
        let '(u, t) := take1 tape in
        let d := ffloor A (fadd A dist (fhalf A)) in (enforce A sp (L A [uniform_int (fsub A (hd0f x) d) (fadd A (hd0f x) d) u]), t)
    | Comp _ subs, C _ xs =>
        let ws := wsum subs in
        let '(vs, t) := (fix go (ss : list (F * space)) (xs : list sv) (tape : list F) : list sv * list F :=
                           match ss, xs with
                           | (w, s) :: ss', x :: xs' =>
                               let wi := importance ws w in
                               let '(v, t1) := if flt A (feps A) wi then g_sample_near s x (fmul A dist wi) tape else g_sample_uniform s tape in
                               let '(vs, t2) := go ss' xs' t1 in (v :: vs, t2)
                           | _, _ => ([], tape)
                           end) subs xs tape in (C A vs, t)
    | _, _ => (near, tape)
    end.
  Fixpoint g_sample_gauss (sp : space) (mean : sv) (sd : F) (tape : list F) : sv * list F :=
    match sp, mean with
    | RV _ bs, L _ x => let n := length bs in (L A (rv_sample_gauss A bs x sd (firstn n tape)), skipn n tape)
    | SO2 _, L _ x => let '(g, t) := take1 tape in (L A [so2_sample_gauss A (hd0f x) sd g], t)
    | TimeB _ _ _, L _ x | TimeU _, L _ x =>
        let '(g, t) := take1 tape in (enforce A sp (L A [gaussian A (hd0f x) sd g]), t)
    | Disc _ lo hi, L _ x =>
        let '(g, t) := take1 tape in (enforce A sp (L A [ffloor A (fadd A (gaussian A (hd0f x) sd g) (fhalf A))]), t)
    | Comp _ subs, C _ xs =>
        let ws := wsum subs in
        let '(vs, t) := (fix go (ss : list (F * space)) (xs : list sv) (tape : list F) : list sv * list F :=
                           match ss, xs with
                           | (w, s) :: ss', x :: xs' =>
                               let '(v, t1) := g_sample_gauss s x (fmul A sd (importance ws w)) tape in
                               let '(vs, t2) := go ss' xs' t1 in (v :: vs, t2)
                           | _, _ => ([], tape)
                           end) subs xs tape in (C A vs, t)
    | _, _ => (mean, tape)
    end.
End Samplers.
